/-! Spike: a slice of model B — idempotency keys, batching, persistence, crash.
    Invariants: a key labels at most one log (J3), an acknowledgement implies durability (J8). -/
namespace Proto

structure Log where
  id : Nat
  ik : String
  owner : Nat
deriving DecidableEq, Repr

inductive PC where
  | start | took | looked | waiting (l : Log) | done | dead
deriving DecidableEq, Repr

structure Proc where
  pc : PC
  ik : String
deriving DecidableEq, Repr

structure St where
  durable  : List Log
  inflight : List Log
  queue    : List Log
  iks      : List String
  procs    : Nat → Proc
  acks     : List (Nat × Log)

def St.all (s : St) : List Log := s.durable ++ s.inflight ++ s.queue
def St.pending (s : St) : List Log := s.inflight ++ s.queue

def setProc (f : Nat → Proc) (p : Nat) (v : Proc) : Nat → Proc := fun q => if q = p then v else f q

inductive Step : St → St → Prop where
  | take (s : St) (p : Nat) (h : (s.procs p).pc = .start) (hk : (s.procs p).ik ∉ s.iks) :
      Step s { s with iks := (s.procs p).ik :: s.iks, procs := setProc s.procs p ⟨.took, (s.procs p).ik⟩ }
  | takeFail (s : St) (p : Nat) (h : (s.procs p).pc = .start) (hk : (s.procs p).ik ∈ s.iks) :
      Step s { s with procs := setProc s.procs p ⟨.done, (s.procs p).ik⟩ }
  | hit (s : St) (p : Nat) (l : Log) (h : (s.procs p).pc = .took) (hl : l ∈ s.durable) (hik : l.ik = (s.procs p).ik) :
      Step s { s with iks := s.iks.erase (s.procs p).ik, procs := setProc s.procs p ⟨.done, (s.procs p).ik⟩,
                      acks := (p, l) :: s.acks }
  | miss (s : St) (p : Nat) (h : (s.procs p).pc = .took) (hn : ∀ l ∈ s.durable, l.ik ≠ (s.procs p).ik) :
      Step s { s with procs := setProc s.procs p ⟨.looked, (s.procs p).ik⟩ }
  | commit (s : St) (p : Nat) (h : (s.procs p).pc = .looked) :
      Step s { s with queue := s.queue ++ [⟨s.all.length, (s.procs p).ik, p⟩],
                      procs := setProc s.procs p ⟨.waiting ⟨s.all.length, (s.procs p).ik, p⟩, (s.procs p).ik⟩ }
  | takeBatch (s : St) (h : s.inflight = []) :
      Step s { s with inflight := s.queue, queue := [] }
  | persist (s : St) :
      Step s { s with durable := s.durable ++ s.inflight, inflight := [] }
  | wake (s : St) (p : Nat) (l : Log) (h : (s.procs p).pc = .waiting l) (hd : l ∈ s.durable) :
      Step s { s with iks := s.iks.erase (s.procs p).ik, procs := setProc s.procs p ⟨.done, (s.procs p).ik⟩,
                      acks := (p, l) :: s.acks }
  | crash (s : St) :
      Step s { s with inflight := [], queue := [], iks := [],
                      procs := fun q => if (s.procs q).pc = .done then s.procs q else ⟨.dead, (s.procs q).ik⟩ }

def holds (pc : PC) : Bool := match pc with
  | .took | .looked | .waiting _ => true
  | _ => false

structure Inv (s : St) : Prop where
  /-- keys in `iks` are distinct and each is held by exactly the processes in a holding state -/
  nodup : s.iks.Nodup
  held  : ∀ p, holds (s.procs p).pc = true → (s.procs p).ik ∈ s.iks
  excl  : ∀ p q, holds (s.procs p).pc = true → holds (s.procs q).pc = true → (s.procs p).ik = (s.procs q).ik → p = q
  /-- every pending log belongs to a waiting owner with the same key -/
  own   : ∀ l ∈ s.pending, (s.procs l.owner).pc = .waiting l ∧ (s.procs l.owner).ik = l.ik
  /-- a process that looked up its key and missed: no log anywhere carries the key -/
  fresh : ∀ p, (s.procs p).pc = .looked → ∀ l ∈ s.all, l.ik ≠ (s.procs p).ik
  /-- J3 -/
  uniq  : ∀ l₁ ∈ s.all, ∀ l₂ ∈ s.all, l₁.ik = l₂.ik → l₁ = l₂
  /-- J8 -/
  acked : ∀ a ∈ s.acks, a.2 ∈ s.durable
  /-- no log occurs twice (in the full model this follows from J1: id = position) -/
  nd    : s.all.Nodup

theorem all_persist (s : St) :
    ({ s with durable := s.durable ++ s.inflight, inflight := [] } : St).all = s.all := by
  simp [St.all]

theorem all_takeBatch (s : St) (h : s.inflight = []) :
    ({ s with inflight := s.queue, queue := [] } : St).all = s.all := by
  simp [St.all, h]


theorem all_commit (s : St) (l : Log) :
    ({ s with queue := s.queue ++ [l] } : St).all = s.all ++ [l] := by
  simp [St.all]

theorem disj_of_nd (s : St) (h : s.all.Nodup) : ∀ l ∈ s.durable, l ∈ s.pending → False := by
  intro l hd hp
  have : s.all = s.durable ++ s.pending := by simp [St.all, St.pending]
  rw [this] at h
  exact (List.nodup_append.mp h).2.2 l hd l hp rfl

theorem setProc_same (f : Nat → Proc) (p : Nat) (v : Proc) : setProc f p v p = v := by simp [setProc]
theorem setProc_other (f : Nat → Proc) (p q : Nat) (v : Proc) (h : q ≠ p) : setProc f p v q = f q := by simp [setProc, h]

theorem step_inv (s s' : St) (hi : Inv s) (hs : Step s s') : Inv s' := by
  obtain ⟨nodup, held, excl, own, fresh, uniq, acked, nd⟩ := hi
  have disj := disj_of_nd s nd
  cases hs with
  | take p h hk =>
    refine ⟨?_, ?_, ?_, ?_, ?_, uniq, acked, nd⟩
    · exact List.nodup_cons.mpr ⟨hk, nodup⟩
    · intro q hq
      by_cases e : q = p
      · subst e; simp [setProc]
      · simp only [setProc, e, if_false] at hq ⊢
        exact List.mem_cons_of_mem _ (held q hq)
    · intro q r hq hr hqr
      by_cases eq : q = p <;> by_cases er : r = p
      · rw [eq, er]
      · subst eq
        simp only [setProc, er, if_false, if_true] at hr hqr
        exact absurd (hqr ▸ held r hr) hk
      · subst er
        simp only [setProc, eq, if_false, if_true] at hq hqr
        exact absurd (hqr ▸ held q hq) hk
      · simp only [setProc, eq, er, if_false] at hq hr hqr
        exact excl q r hq hr hqr
    · intro l hl
      have := own l hl
      have e : l.owner ≠ p := by
        intro e; rw [e, h] at this; exact absurd this.1 (by simp)
      simp only [setProc, e, if_false]; exact this
    · intro q hq l hl
      by_cases e : q = p
      · subst e; simp [setProc] at hq
      · simp only [setProc, e, if_false] at hq ⊢
        exact fresh q hq l hl
  | takeFail p h hk =>
    refine ⟨nodup, ?_, ?_, ?_, ?_, uniq, acked, nd⟩
    · intro q hq
      by_cases e : q = p
      · subst e; simp [setProc, holds] at hq
      · simp only [setProc, e, if_false] at hq ⊢; exact held q hq
    · intro q r hq hr hqr
      by_cases eq : q = p
      · subst eq; simp [setProc, holds] at hq
      · by_cases er : r = p
        · subst er; simp [setProc, holds] at hr
        · simp only [setProc, eq, er, if_false] at hq hr hqr
          exact excl q r hq hr hqr
    · intro l hl
      have := own l hl
      have e : l.owner ≠ p := by
        intro e; rw [e, h] at this; exact absurd this.1 (by simp)
      simp only [setProc, e, if_false]; exact this
    · intro q hq l hl
      by_cases e : q = p
      · subst e; simp [setProc] at hq
      · simp only [setProc, e, if_false] at hq ⊢
        exact fresh q hq l hl
  | persist =>
    refine ⟨nodup, held, excl, ?_, ?_, ?_, ?_, by rw [all_persist]; exact nd⟩
    · intro l hl
      exact own l (by simp [St.pending] at hl ⊢; exact Or.inr hl)
    · intro q hq l hl
      rw [all_persist] at hl; exact fresh q hq l hl
    · intro l₁ h₁ l₂ h₂
      rw [all_persist] at h₁ h₂; exact uniq l₁ h₁ l₂ h₂
    · intro a ha
      exact List.mem_append_left _ (acked a ha)
  | takeBatch h =>
    refine ⟨nodup, held, excl, ?_, ?_, ?_, acked, by rw [all_takeBatch _ h]; exact nd⟩
    · intro l hl
      exact own l (by simp [St.pending, h] at hl ⊢; exact hl)
    · intro q hq l hl
      rw [all_takeBatch _ h] at hl; exact fresh q hq l hl
    · intro l₁ h₁ l₂ h₂
      rw [all_takeBatch _ h] at h₁ h₂; exact uniq l₁ h₁ l₂ h₂
  | miss p h hn =>
    have hp : holds (s.procs p).pc = true := by rw [h]; rfl
    refine ⟨nodup, ?_, ?_, ?_, ?_, uniq, acked, nd⟩
    · intro q hq
      by_cases e : q = p
      · subst e; simpa [setProc] using held q hp
      · simp only [setProc, e, if_false] at hq ⊢; exact held q hq
    · intro q r hq hr hqr
      by_cases eq : q = p <;> by_cases er : r = p
      · rw [eq, er]
      · subst eq
        simp only [setProc, er, if_false, if_true] at hr hqr
        exact excl q r hp hr hqr
      · subst er
        simp only [setProc, eq, if_false, if_true] at hq hqr
        exact excl q r hq hp hqr
      · simp only [setProc, eq, er, if_false] at hq hr hqr
        exact excl q r hq hr hqr
    · intro l hl
      have := own l hl
      have e : l.owner ≠ p := by
        intro e; rw [e, h] at this; exact absurd this.1 (by simp)
      simp only [setProc, e, if_false]; exact this
    · intro q hq l hl
      by_cases e : q = p
      · subst e
        simp only [setProc, if_true]
        -- no durable log has the key (lookup), no pending one either (its owner would hold the same key)
        simp only [St.all, List.append_assoc, List.mem_append] at hl
        rcases hl with hd | hpend
        · exact hn l hd
        · intro hk
          have hpend' : l ∈ s.pending := by simp [St.pending]; exact hpend
          have ho := own l hpend'
          have hho : holds (s.procs l.owner).pc = true := by rw [ho.1]; rfl
          have := excl l.owner q hho hp (by rw [ho.2, hk])
          rw [this, h] at ho
          exact absurd ho.1 (by simp)
      · simp only [setProc, e, if_false] at hq ⊢
        exact fresh q hq l hl
  | commit p h =>
    have hp : holds (s.procs p).pc = true := by rw [h]; rfl
    refine ⟨nodup, ?_, ?_, ?_, ?_, ?_, acked, ?_⟩
    · intro q hq
      by_cases e : q = p
      · subst e; simpa [setProc] using held q hp
      · simp only [setProc, e, if_false] at hq ⊢; exact held q hq
    · intro q r hq hr hqr
      by_cases eq : q = p <;> by_cases er : r = p
      · rw [eq, er]
      · subst eq
        simp only [setProc, er, if_false, if_true] at hr hqr
        exact excl q r hp hr hqr
      · subst er
        simp only [setProc, eq, if_false, if_true] at hq hqr
        exact excl q r hq hp hqr
      · simp only [setProc, eq, er, if_false] at hq hr hqr
        exact excl q r hq hr hqr
    · intro l hl
      simp only [St.pending, List.mem_append, List.mem_singleton] at hl
      rcases hl with hl | hl | hl
      · have := own l (by simp [St.pending]; exact Or.inl hl)
        have e : l.owner ≠ p := by
          intro e; rw [e, h] at this; exact absurd this.1 (by simp)
        simp only [setProc, e, if_false]; exact this
      · have := own l (by simp [St.pending]; exact Or.inr hl)
        have e : l.owner ≠ p := by
          intro e; rw [e, h] at this; exact absurd this.1 (by simp)
        simp only [setProc, e, if_false]; exact this
      · subst hl; simp [setProc]
    · intro q hq l hl
      by_cases e : q = p
      · subst e; simp [setProc] at hq
      · simp only [setProc, e, if_false] at hq ⊢
        simp only [St.all, List.append_assoc, List.mem_append, List.mem_singleton] at hl
        rcases hl with hl | hl | hl | hl
        · exact fresh q hq l (by simp [St.all]; exact Or.inl hl)
        · exact fresh q hq l (by simp [St.all]; exact Or.inr (Or.inl hl))
        · exact fresh q hq l (by simp [St.all]; exact Or.inr (Or.inr hl))
        · subst hl
          intro hk
          have hq' : holds (s.procs q).pc = true := by rw [hq]; rfl
          exact e (excl q p hq' hp hk.symm)
    · intro l₁ h₁ l₂ h₂ hk
      have key : ∀ l ∈ s.all, l.ik ≠ (s.procs p).ik := fresh p h
      have mem : ∀ l, l ∈ ({ s with queue := s.queue ++ [⟨s.all.length, (s.procs p).ik, p⟩] } : St).all →
          l ∈ s.all ∨ l = ⟨s.all.length, (s.procs p).ik, p⟩ := by
        intro l hl
        simp only [St.all, List.append_assoc, List.mem_append, List.mem_singleton] at hl ⊢
        rcases hl with hl | hl | hl | hl
        · exact Or.inl (Or.inl hl)
        · exact Or.inl (Or.inr (Or.inl hl))
        · exact Or.inl (Or.inr (Or.inr hl))
        · exact Or.inr hl
      rcases mem l₁ h₁ with a | a <;> rcases mem l₂ h₂ with b | b
      · exact uniq l₁ a l₂ b hk
      · subst b; exact absurd hk (key l₁ a)
      · subst a; exact absurd hk.symm (key l₂ b)
      · rw [a, b]
    · show (s.durable ++ s.inflight ++ (s.queue ++ [_])).Nodup
      rw [← List.append_assoc]
      show (s.all ++ [_]).Nodup
      have key : ∀ l ∈ s.all, l.ik ≠ (s.procs p).ik := fresh p h
      refine List.nodup_append.mpr ⟨nd, by simp, ?_⟩
      intro a ha b hb
      simp only [List.mem_singleton] at hb
      subst hb
      intro e
      exact key a ha (by rw [e])
  | hit p l h hd hik =>
    have hp : holds (s.procs p).pc = true := by rw [h]; rfl
    refine ⟨nodup.erase _, ?_, ?_, ?_, ?_, uniq, ?_, nd⟩
    · intro q hq
      by_cases e : q = p
      · subst e; simp [setProc, holds] at hq
      · simp only [setProc, e, if_false] at hq ⊢
        have hne : (s.procs q).ik ≠ (s.procs p).ik := fun hk => e (excl q p hq hp hk)
        exact (List.mem_erase_of_ne hne).mpr (held q hq)
    · intro q r hq hr hqr
      by_cases eq : q = p
      · subst eq; simp [setProc, holds] at hq
      · by_cases er : r = p
        · subst er; simp [setProc, holds] at hr
        · simp only [setProc, eq, er, if_false] at hq hr hqr
          exact excl q r hq hr hqr
    · intro l' hl'
      have := own l' hl'
      have e : l'.owner ≠ p := by
        intro e
        rw [e, h] at this
        exact absurd this.1 (by simp)
      simp only [setProc, e, if_false]; exact this
    · intro q hq l' hl'
      by_cases e : q = p
      · subst e; simp [setProc] at hq
      · simp only [setProc, e, if_false] at hq ⊢
        exact fresh q hq l' hl'
    · intro a ha
      simp only [List.mem_cons] at ha
      rcases ha with rfl | ha
      · exact hd
      · exact acked a ha
  | wake p l h hd =>
    have hp : holds (s.procs p).pc = true := by rw [h]; rfl
    refine ⟨nodup.erase _, ?_, ?_, ?_, ?_, uniq, ?_, nd⟩
    · intro q hq
      by_cases e : q = p
      · subst e; simp [setProc, holds] at hq
      · simp only [setProc, e, if_false] at hq ⊢
        have hne : (s.procs q).ik ≠ (s.procs p).ik := fun hk => e (excl q p hq hp hk)
        exact (List.mem_erase_of_ne hne).mpr (held q hq)
    · intro q r hq hr hqr
      by_cases eq : q = p
      · subst eq; simp [setProc, holds] at hq
      · by_cases er : r = p
        · subst er; simp [setProc, holds] at hr
        · simp only [setProc, eq, er, if_false] at hq hr hqr
          exact excl q r hq hr hqr
    · intro l' hl'
      have := own l' hl'
      have e : l'.owner ≠ p := by
        intro e
        rw [e, h] at this
        exact by
          have hw : PC.waiting l = PC.waiting l' := this.1
          cases hw
          exact disj l hd hl'
      simp only [setProc, e, if_false]; exact this
    · intro q hq l' hl'
      by_cases e : q = p
      · subst e; simp [setProc] at hq
      · simp only [setProc, e, if_false] at hq ⊢
        exact fresh q hq l' hl'
    · intro a ha
      simp only [List.mem_cons] at ha
      rcases ha with rfl | ha
      · exact hd
      · exact acked a ha
  | crash =>
    refine ⟨List.nodup_nil, ?_, ?_, ?_, ?_, ?_, acked, ?_⟩
    · intro q hq
      simp only at hq
      split at hq
      · rename_i hdone; rw [hdone] at hq; simp [holds] at hq
      · simp [holds] at hq
    · intro q r hq
      simp only at hq
      split at hq
      · rename_i hdone; rw [hdone] at hq; simp [holds] at hq
      · simp [holds] at hq
    · intro l hl; simp [St.pending] at hl
    · intro q hq
      simp only at hq
      split at hq
      · rename_i hdone; rw [hdone] at hq; simp at hq
      · simp at hq
    · intro l₁ h₁ l₂ h₂
      simp only [St.all, List.append_nil] at h₁ h₂
      exact uniq l₁ (by simp [St.all]; exact Or.inl h₁) l₂ (by simp [St.all]; exact Or.inl h₂)
    · simp only [St.all, List.append_nil]
      have : s.all = s.durable ++ s.pending := by simp [St.all, St.pending]
      rw [this] at nd
      exact (List.nodup_append.mp nd).1

end Proto
#print axioms Proto.step_inv
