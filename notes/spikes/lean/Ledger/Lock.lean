/-! Spike: model of DefaultLocker (tryLock / unlock / recheck) and exclusion invariant. -/
namespace Lock

abbrev Acct := String

structure Req where
  id : Nat
  read : List Acct
  write : List Acct
deriving Repr, DecidableEq

structure State where
  holders : List Req      -- requests currently holding their accounts
  queue   : List Req      -- FIFO of waiting intents
deriving Repr

/-- accounts held for writing / reading, derived from holders (the Go maps are this view) -/
def writeHeld (s : State) (a : Acct) : Bool := s.holders.any (fun h => h.write.contains a)
def readHeld  (s : State) (a : Acct) : Bool := s.holders.any (fun h => h.read.contains a)

/-- tryLock's test -/
def compatible (s : State) (r : Req) : Bool :=
  r.read.all (fun a => !writeHeld s a) &&
  r.write.all (fun a => !readHeld s a && !writeHeld s a)

def lock (s : State) (r : Req) : State :=
  if compatible s r then { s with holders := r :: s.holders }
  else { s with queue := s.queue ++ [r] }

/-- one pass of `recheck` over the queue, granting greedily in FIFO order -/
def recheckAux (holders : List Req) : List Req → List Req × List Req
  | [] => (holders, [])
  | r :: rs =>
    if compatible ⟨holders, []⟩ r then
      recheckAux (r :: holders) rs
    else
      let (h, q) := recheckAux holders rs
      (h, r :: q)

def release (s : State) (id : Nat) : State :=
  let holders := s.holders.filter (fun h => h.id != id)
  let (h, q) := recheckAux holders s.queue
  { holders := h, queue := q }

def cancel (s : State) (id : Nat) : State :=
  { s with queue := s.queue.filter (fun r => r.id != id) }

/-- two requests conflict when one writes what the other reads or writes -/
def conflict (x y : Req) : Bool :=
  x.write.any (fun a => y.read.contains a || y.write.contains a) ||
  y.write.any (fun a => x.read.contains a || x.write.contains a)

def Excl (hs : List Req) : Prop := hs.Pairwise (fun x y => conflict x y = false)

theorem compatible_no_conflict (hs : List Req) (r : Req) (hc : compatible ⟨hs, []⟩ r = true) :
    ∀ h ∈ hs, conflict r h = false := by
  intro h hh
  simp only [compatible, writeHeld, readHeld, Bool.and_eq_true, List.all_eq_true, Bool.not_eq_true',
    List.any_eq_false] at hc
  obtain ⟨hr, hw⟩ := hc
  simp only [conflict, Bool.or_eq_false_iff, List.any_eq_false, Bool.or_eq_true, not_or]
  refine ⟨fun a ha => ?_, fun a ha => ?_⟩
  · have h1 := (hw a ha).1 h hh
    have h2 := (hw a ha).2 h hh
    simp_all
  · refine ⟨fun hra => ?_, fun hwa => ?_⟩
    · have := hr a (by simpa using hra) h hh
      simp_all
    · have := (hw a (by simpa using hwa)).2 h hh
      simp_all

theorem lock_excl (s : State) (r : Req) (h : Excl s.holders) : Excl (lock s r).holders := by
  unfold lock
  split
  · rename_i hc
    simp only [Excl, List.pairwise_cons]
    refine ⟨?_, h⟩
    have : compatible ⟨s.holders, []⟩ r = true := by simpa [compatible, writeHeld, readHeld] using hc
    exact compatible_no_conflict s.holders r this
  · exact h

theorem recheck_excl (hs q : List Req) (h : Excl hs) : Excl (recheckAux hs q).1 := by
  induction q generalizing hs with
  | nil => simpa [recheckAux]
  | cons r rs ih =>
    unfold recheckAux
    split
    · rename_i hc
      apply ih
      simp only [Excl, List.pairwise_cons]
      exact ⟨compatible_no_conflict hs r hc, h⟩
    · exact ih hs h

theorem release_excl (s : State) (id : Nat) (h : Excl s.holders) : Excl (release s id).holders := by
  unfold release
  simp only
  apply recheck_excl
  exact List.Pairwise.sublist (List.filter_sublist) h


theorem compatible_antitone (hs hs' : List Req) (r : Req) (hsub : ∀ h ∈ hs, h ∈ hs')
    (hc : compatible ⟨hs', []⟩ r = true) : compatible ⟨hs, []⟩ r = true := by
  simp only [compatible, writeHeld, readHeld, Bool.and_eq_true, List.all_eq_true, Bool.not_eq_true',
    List.any_eq_false] at *
  exact ⟨fun a ha h hh => hc.1 a ha h (hsub h hh),
         fun a ha => ⟨fun h hh => (hc.2 a ha).1 h (hsub h hh), fun h hh => (hc.2 a ha).2 h (hsub h hh)⟩⟩

theorem recheck_holders_grow (hs q : List Req) : ∀ h ∈ hs, h ∈ (recheckAux hs q).1 := by
  induction q generalizing hs with
  | nil => intro h hh; simpa [recheckAux] using hh
  | cons r rs ih =>
    intro h hh
    unfold recheckAux
    split
    · exact ih (r :: hs) h (List.mem_cons_of_mem _ hh)
    · exact ih hs h hh

theorem no_missed_wakeup (hs q : List Req) :
    ∀ r ∈ (recheckAux hs q).2, compatible ⟨(recheckAux hs q).1, []⟩ r = false := by
  induction q generalizing hs with
  | nil => intro r hr; simp [recheckAux] at hr
  | cons r rs ih =>
    intro x hx
    by_cases hc : compatible ⟨hs, []⟩ r = true
    · have e : recheckAux hs (r :: rs) = recheckAux (r :: hs) rs := by simp [recheckAux, hc]
      rw [e] at hx ⊢
      exact ih (r :: hs) x hx
    · have e : recheckAux hs (r :: rs) = ((recheckAux hs rs).1, r :: (recheckAux hs rs).2) := by
        simp [recheckAux, hc]
      rw [e] at hx ⊢
      simp only [List.mem_cons] at hx
      rcases hx with rfl | hx
      · cases hcx : compatible ⟨(recheckAux hs rs).1, []⟩ x with
        | false => rfl
        | true => exact absurd (compatible_antitone hs _ x (recheck_holders_grow hs rs) hcx) hc
      · exact ih hs x hx

#print axioms no_missed_wakeup
#print axioms release_excl
end Lock
