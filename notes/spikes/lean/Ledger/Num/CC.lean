import Ledger.Num.Funding
/-! Spike: compiler-correctness frame lemma on a fragment:
    sources = bare account | max cap from s | { s₁ … sₙ }  (single asset, no fallback). -/
namespace CC
open Num

/-! ## Spec (explicit state passing) -/
abbrev Bal := List (Acct × Int)
def Bal.get (b : Bal) (a : Acct) : Option Int := (b.find? (fun e => e.1 == a)).map (·.2)
def Bal.set (b : Bal) (a : Acct) (v : Int) : Bal := b.map (fun e => if e.1 == a then (e.1, v) else e)

mutual
inductive Source where
  | acct (a : Acct)
  | maxed (cap : Int) (s : Source)
  | inorder (ss : SourceList)
inductive SourceList where
  | nil | cons (s : Source) (ss : SourceList)
end

inductive Err | invalidScript | negCap | panic
deriving Repr, DecidableEq

def withdrawAll (b : Bal) (a : Acct) : Except Err (Parts × Bal) :=
  match b.get a with
  | none => .error .invalidScript
  | some v => if v > 0 then .ok ([⟨a, v⟩], b.set a 0) else .ok ([⟨a, 0⟩], b)

def repay (b : Bal) : Parts → Bal
  | [] => b
  | p :: ps => repay (if p.acct == "world" then b else b.set p.acct ((b.get p.acct).getD 0 + p.amt)) ps

mutual
def evalSource (b : Bal) : Source → Except Err (Parts × Bal)
  | .acct a => withdrawAll b a
  | .maxed cap s =>
    match evalSource b s with
    | .error e => .error e
    | .ok (f, b') =>
      if cap < 0 then .error .negCap
      else
        let tr := takeMax f cap
        .ok (tr.1, repay b' tr.2)
  | .inorder ss =>
    match evalSources b ss with
    | .error e => .error e
    | .ok (fs, b') => if fs.length = 0 then .error .invalidScript else .ok (fs.foldl concat [], b')
/-- the fundings of the sub-sources, in written order -/
def evalSources (b : Bal) : SourceList → Except Err (List Parts × Bal)
  | .nil => .ok ([], b)
  | .cons s rest =>
    match evalSource b s with
    | .error e => .error e
    | .ok (f, b') =>
      match evalSources b' rest with
      | .error e => .error e
      | .ok (fs, b'') => .ok (f :: fs, b'')
end

/-! ## Stack machine -/
inductive Val where
  | acct (a : Acct) | num (n : Int) | mon (n : Int) | asset | funding (f : Parts)
deriving Repr

inductive Instr where
  | push (v : Val) | bump | monetaryNew | takeAll | takeMax | repay | delete | assemble | assetOf
deriving Repr

structure MS where
  stack : List Val      -- head = top
  bal : Bal
deriving Repr

def len : SourceList → Nat
  | .nil => 0
  | .cons _ ss => len ss + 1

/-- FUNDING_ASSEMBLE: pops n fundings (top first), concatenates them bottom-first -/
def popFundings : Nat → List Val → Option (List Parts × List Val)
  | 0, st => some ([], st)
  | n + 1, .funding f :: st => (popFundings n st).map (fun (fs, r) => (f :: fs, r))
  | _, _ => none

def step (m : MS) : Instr → Except Err MS
  | .push v => .ok { m with stack := v :: m.stack }
  | .bump =>
    match m.stack with
    | .num n :: rest =>
      let k := n.toNat
      if h : k < rest.length then
        .ok { m with stack := rest[k] :: rest.eraseIdx k }
      else .error .panic
    | _ => .error .panic
  | .monetaryNew =>
    match m.stack with
    | .num n :: .asset :: rest => .ok { m with stack := .mon n :: rest }
    | _ => .error .panic
  | .assetOf =>
    match m.stack with
    | .mon _ :: rest => .ok { m with stack := .asset :: rest }
    | .asset :: rest => .ok { m with stack := .asset :: rest }
    | .funding _ :: rest => .ok { m with stack := .asset :: rest }
    | _ => .error .invalidScript
  | .takeAll =>
    match m.stack with
    | .mon _o :: .acct a :: rest =>
      -- fragment: overdraft always 0
      match withdrawAll m.bal a with
      | .error e => .error e
      | .ok (f, b) => .ok { stack := .funding f :: rest, bal := b }
    | _ => .error .panic
  | .takeMax =>
    match m.stack with
    | .mon n :: .funding f :: rest =>
      if n < 0 then .error .negCap
      else
        let missing := if n > total f then n - total f else 0
        let tr := Num.takeMax f n
        .ok { m with stack := .funding tr.1 :: .funding tr.2 :: .mon missing :: rest }
    | _ => .error .panic
  | .repay =>
    match m.stack with
    | .funding f :: rest => .ok { stack := rest, bal := CC.repay m.bal f }
    | _ => .error .panic
  | .delete =>
    match m.stack with
    | .funding _ :: _ => .error .invalidScript
    | _ :: rest => .ok { m with stack := rest }
    | [] => .error .panic
  | .assemble =>
    match m.stack with
    | .num n :: rest =>
      if n ≤ 0 then .error .invalidScript
      else match popFundings n.toNat rest with
        | none => .error .panic
        | some (fs, r) => .ok { m with stack := .funding (fs.reverse.foldl concat []) :: r }
    | _ => .error .panic

def exec : List Instr → MS → Except Err MS
  | [], m => .ok m
  | i :: is, m => match step m i with
    | .error e => .error e
    | .ok m' => exec is m'

theorem exec_append (c₁ c₂ : List Instr) (m : MS) :
    exec (c₁ ++ c₂) m = (match exec c₁ m with | .error e => .error e | .ok m' => exec c₂ m') := by
  induction c₁ generalizing m with
  | nil => simp [exec]
  | cons i is ih =>
    simp only [List.cons_append, exec]
    cases step m i with
    | error e => simp
    | ok m' => simpa using ih m'

/-! ## Compiler -/
mutual
def compileSource : Source → List Instr
  | .acct a => [.push (.acct a), .push (.mon 0), .assetOf, .push (.num 0), .monetaryNew, .takeAll]
  | .maxed cap s =>
    compileSource s ++ [.push (.mon cap), .takeMax, .push (.num 1), .bump, .repay, .push (.num 1), .bump, .delete]
  | .inorder ss => compileSources ss ++ [.push (.num (len ss)), .assemble]
def compileSources : SourceList → List Instr
  | .nil => []
  | .cons s ss => compileSource s ++ compileSources ss
end

/-! ## Frame lemma -/
theorem acct_ok (a : Acct) (m : MS) :
    exec (compileSource (.acct a)) m =
      (match withdrawAll m.bal a with
       | .error e => .error e
       | .ok (f, b) => .ok { stack := .funding f :: m.stack, bal := b }) := by
  simp only [compileSource, exec, step]
  cases h : withdrawAll m.bal a with
  | error e => simp
  | ok r => cases r; simp


theorem popFundings_map (gs : List Parts) (st : List Val) :
    popFundings gs.length ((gs.map Val.funding) ++ st) = some (gs, st) := by
  induction gs with
  | nil => simp [popFundings]
  | cons g gs ih => simp [popFundings, ih]

theorem popFundings_rev (fs : List Parts) (st : List Val) :
    popFundings fs.length ((fs.reverse.map Val.funding) ++ st) = some (fs.reverse, st) := by
  have := popFundings_map fs.reverse st
  simpa using this

theorem evalSources_length : (b : Bal) → (ss : SourceList) → (fs : List Parts) → (b' : Bal) →
    evalSources b ss = .ok (fs, b') → fs.length = len ss
  | b, .nil, fs, b', h => by simp [evalSources] at h; simp [h.1.symm, len]
  | b, .cons s rest, fs, b', h => by
    simp only [evalSources] at h
    cases h1 : evalSource b s with
    | error e => simp [h1] at h
    | ok r =>
      obtain ⟨f, b1⟩ := r
      simp only [h1] at h
      cases h2 : evalSources b1 rest with
      | error e => simp [h2] at h
      | ok r2 =>
        obtain ⟨gs, b2⟩ := r2
        simp only [h2, Except.ok.injEq, Prod.mk.injEq] at h
        have := evalSources_length b1 rest gs b2 h2
        simp [← h.1, len, this]

mutual
theorem source_ok (s : Source) (m : MS) :
    exec (compileSource s) m =
      (match evalSource m.bal s with
       | .error e => .error e
       | .ok (f, b) => .ok { stack := .funding f :: m.stack, bal := b }) := by
  cases s with
  | acct a => simpa [evalSource] using acct_ok a m
  | maxed cap s =>
    simp only [compileSource, exec_append, evalSource]
    rw [source_ok s m]
    cases h : evalSource m.bal s with
    | error e => simp
    | ok r =>
      obtain ⟨f, b'⟩ := r
      by_cases hc : cap < 0
      · simp [exec, step, hc]
      · simp [exec, step, hc, List.eraseIdx]
  | inorder ss =>
    simp only [compileSource, exec_append, evalSource]
    rw [sources_ok ss m]
    cases h : evalSources m.bal ss with
    | error e => simp
    | ok r =>
      obtain ⟨fs, b'⟩ := r
      have hl := evalSources_length _ _ _ _ h
      by_cases h0 : fs.length = 0
      · have : len ss = 0 := by omega
        simp [exec, step, h0, this]
      · have hpos : ¬ ((len ss : Int) ≤ 0) := by omega
        simp only [exec, step, hpos, if_false, h0]
        have : (len ss : Int).toNat = fs.length := by omega
        rw [this, popFundings_rev]
        simp
theorem sources_ok (ss : SourceList) (m : MS) :
    exec (compileSources ss) m =
      (match evalSources m.bal ss with
       | .error e => .error e
       | .ok (fs, b) => .ok { stack := (fs.reverse.map Val.funding) ++ m.stack, bal := b }) := by
  cases ss with
  | nil => simp [compileSources, exec, evalSources]
  | cons s rest =>
    simp only [compileSources, exec_append, evalSources]
    rw [source_ok s m]
    cases h : evalSource m.bal s with
    | error e => simp
    | ok r =>
      obtain ⟨f, b'⟩ := r
      simp only
      rw [sources_ok rest]
      cases h2 : evalSources b' rest with
      | error e => simp
      | ok r2 =>
        obtain ⟨fs, b''⟩ := r2
        simp
end

#print axioms source_ok
end CC
