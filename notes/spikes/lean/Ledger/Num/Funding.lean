/-! A0: funding algebra — models of internal/machine/funding.go and allotment.go -/
namespace Num

abbrev Acct := String
abbrev Asset := String

structure Part where
  acct : Acct
  amt : Int
deriving Repr, DecidableEq, Inhabited

abbrev Parts := List Part

def total (f : Parts) : Int := (f.map (·.amt)).sum

/-- the common loop of Take / TakeMax: front-to-back, splitting the part that overshoots -/
def takeLoop : Parts → Int → Parts × Parts × Int
  | [], n => ([], [], n)
  | p :: ps, n =>
    if n > 0 then
      if p.amt > n then ([{ p with amt := n }], { p with amt := p.amt - n } :: ps, 0)
      else
        let (t, r, left) := takeLoop ps (n - p.amt)
        (p :: t, r, left)
    else ([], p :: ps, n)

def takeMax (f : Parts) (n : Int) : Parts × Parts :=
  let (t, r, _) := takeLoop f n
  (t, r)

/-- Funding.Take: the zero-amount quirk puts a 0 part of the first account in front -/
def take (f : Parts) (n : Int) : Option (Parts × Parts) :=
  let pre : Parts := if n == 0 then (match f with | [] => [] | p :: _ => [{ p with amt := n }]) else []
  let (t, r, left) := takeLoop f n
  if left != 0 then none else some (pre ++ t, r)

/-- Funding.Concat: merges when last of f and first of g are the same account -/
def concat (f g : Parts) : Parts :=
  match f.getLast?, g with
  | some l, h :: gs => if l.acct == h.acct then f.dropLast ++ [{ l with amt := l.amt + h.amt }] ++ gs else f ++ g
  | _, _ => f ++ g

/-- a rational as numerator/denominator (den > 0) -/
structure Rat' where
  num : Nat
  den : Nat
deriving Repr, DecidableEq, Inhabited

def allocate (ps : List Rat') (n : Int) : List Int :=
  let floors := ps.map (fun p => (n * p.num) / p.den)
  let allocated := floors.sum
  -- hand out one unit to the first entries while allocated < n
  let rec go (xs : List Int) (acc : Int) : List Int :=
    match xs with
    | [] => []
    | x :: rest => if acc < n then (x + 1) :: go rest (acc + 1) else x :: go rest acc
  go floors allocated

end Num
