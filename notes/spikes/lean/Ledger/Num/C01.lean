import Ledger.Num.Funding
/-! Spike: the frame-style accounting invariant for C01 on a reduced Spec (single asset):
    sources = account with bounded overdraft | maxed | inorder ; one account destination. -/
namespace C01
open Num

abbrev Bal := Acct → Int

/-- amount of account x inside a funding -/
def amt (f : Parts) (x : Acct) : Int := ((f.filter (fun p => p.acct == x)).map (·.amt)).sum

def NonNeg (f : Parts) : Prop := ∀ p ∈ f, 0 ≤ p.amt

theorem amt_nil (x : Acct) : amt [] x = 0 := rfl
theorem amt_cons (p : Part) (f : Parts) (x : Acct) :
    amt (p :: f) x = (if p.acct == x then p.amt else 0) + amt f x := by
  unfold amt
  by_cases h : p.acct == x <;> simp [List.filter_cons, h]

theorem amt_nonneg (f : Parts) (x : Acct) (h : NonNeg f) : 0 ≤ amt f x := by
  induction f with
  | nil => simp [amt_nil]
  | cons p ps ih =>
    rw [amt_cons]
    have hp : 0 ≤ p.amt := h p (List.mem_cons_self)
    have := ih (fun q hq => h q (List.mem_cons_of_mem _ hq))
    split <;> omega

/-- takeLoop splits amounts per account and keeps parts non-negative -/
theorem takeLoop_amt (f : Parts) (n : Int) (x : Acct) :
    amt (takeLoop f n).1 x + amt (takeLoop f n).2.1 x = amt f x := by
  induction f generalizing n with
  | nil => simp [takeLoop, amt_nil]
  | cons p ps ih =>
    by_cases hn : n > 0
    · by_cases hgt : p.amt > n
      · simp only [takeLoop, hn, hgt, if_true, amt_cons, amt_nil]
        split <;> omega
      · have := ih (n - p.amt)
        cases hq : takeLoop ps (n - p.amt) with
        | mk t rest =>
          simp only [hq] at this
          simp only [takeLoop, hn, hgt, if_true, if_false, hq, amt_cons]
          omega
    · simp [takeLoop, hn, amt_nil]

theorem takeLoop_nonneg (f : Parts) (n : Int) (h : NonNeg f) :
    NonNeg (takeLoop f n).1 ∧ NonNeg (takeLoop f n).2.1 := by
  induction f generalizing n with
  | nil => simp [takeLoop, NonNeg]
  | cons p ps ih =>
    have hp : 0 ≤ p.amt := h p (List.mem_cons_self)
    have hps : NonNeg ps := fun q hq => h q (List.mem_cons_of_mem _ hq)
    by_cases hn : n > 0
    · by_cases hgt : p.amt > n
      · simp only [takeLoop, hn, hgt, if_true]
        constructor
        · intro q hq; simp at hq; subst hq; simp; omega
        · intro q hq
          simp only [List.mem_cons] at hq
          rcases hq with rfl | hq
          · simp; omega
          · exact hps q hq
      · have := ih (n - p.amt) hps
        cases hq : takeLoop ps (n - p.amt) with
        | mk t rest =>
          simp only [hq] at this
          simp only [takeLoop, hn, hgt, if_true, if_false, hq]
          constructor
          · intro q hq'
            simp only [List.mem_cons] at hq'
            rcases hq' with rfl | hq'
            · exact hp
            · exact this.1 q hq'
          · exact this.2
    · simp only [takeLoop, hn, if_false]
      exact ⟨by simp [NonNeg], h⟩

/-- the tracked state: T = tracked balances; the ghost real balance R is changed by postings only -/
structure St where
  T : Bal
  R : Bal

def upd (b : Bal) (x : Acct) (v : Int) : Bal := fun y => if y = x then v else b y

/-- withdrawAll with overdraft o -/
def withdrawAll (s : St) (a : Acct) (o : Int) : Parts × St :=
  let bw := s.T a + o
  if bw > 0 then ([⟨a, bw⟩], { s with T := upd s.T a (-o) }) else ([⟨a, 0⟩], s)

def repay (s : St) : Parts → St
  | [] => s
  | p :: ps => repay { s with T := upd s.T p.acct (s.T p.acct + p.amt) } ps

/-- grant g x ≥ 0 is the largest overdraft the script gives x; floor x is min(initial, -g) -/
structure Ctx where
  grant : Acct → Int
  floor : Acct → Int

/-- frame invariant: fl x = total in flight for x over all live fundings -/
def Inv (c : Ctx) (s : St) (fl : Acct → Int) : Prop :=
  ∀ x, s.R x = s.T x + fl x ∧ s.T x ≥ c.floor x

theorem withdrawAll_inv (c : Ctx) (s : St) (fl : Acct → Int) (a : Acct) (o : Int)
    (ho : -o ≥ c.floor a) (h : Inv c s fl) :
    Inv c (withdrawAll s a o).2 (fun x => fl x + amt (withdrawAll s a o).1 x) ∧ NonNeg (withdrawAll s a o).1 := by
  by_cases hb : s.T a + o > 0
  · simp only [withdrawAll, hb, if_true]
    refine ⟨fun x => ?_, ?_⟩
    · have := h x
      simp only [upd, amt_cons, amt_nil]
      by_cases hx : x = a
      · subst hx; simp; omega
      · have hx' : ¬ (a = x) := fun e => hx e.symm
        simp [hx, hx']; omega
    · intro p hp; simp at hp; subst hp; simp; omega
  · simp only [withdrawAll, hb, if_false]
    refine ⟨fun x => ?_, ?_⟩
    · have := h x
      simp only [amt_cons, amt_nil]
      by_cases hx : a = x <;> simp [hx] <;> omega
    · intro p hp; simp at hp; subst hp; simp

theorem repay_inv (c : Ctx) (s : St) (fl : Acct → Int) (r : Parts) (hr : NonNeg r) (h : Inv c s fl) :
    Inv c (repay s r) (fun x => fl x - amt r x) := by
  induction r generalizing s fl with
  | nil => simpa [repay, amt_nil] using h
  | cons p ps ih =>
    have hp : 0 ≤ p.amt := hr p (List.mem_cons_self)
    have hps : NonNeg ps := fun q hq => hr q (List.mem_cons_of_mem _ hq)
    unfold repay
    have h1 : Inv c { s with T := upd s.T p.acct (s.T p.acct + p.amt) } (fun x => fl x - (if p.acct == x then p.amt else 0)) := by
      intro x
      have := h x
      simp only [upd]
      by_cases hx : x = p.acct
      · subst hx; simp; omega
      · have hx' : ¬ (p.acct = x) := fun e => hx e.symm
        simp [hx, hx']; omega
    have h2 := ih _ _ hps h1
    intro x
    have h3 := h2 x
    simp only [amt_cons]
    dsimp only at h3
    constructor <;> omega

#print axioms repay_inv
#print axioms withdrawAll_inv
#print axioms takeLoop_amt
end C01
