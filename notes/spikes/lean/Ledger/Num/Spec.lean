import Ledger.Num.Funding
/-! A1: source-level semantics (spike) -/
namespace Num

inductive Ty | account | asset | number | string | monetary | portion
deriving Repr, DecidableEq, Inhabited

inductive Expr where
  | acct (a : String) | asset (a : String) | num (n : Int) | str (s : String)
  | portion (r : Rat')
  | mon (asset : Expr) (amt : Int)
  | var (name : String)
  | add (l r : Expr) | sub (l r : Expr)
deriving Repr, Inhabited

inductive Overdraft where
  | none | upTo (e : Expr) | unbounded
deriving Repr, Inhabited

mutual
inductive Source where
  | acct (e : Expr) (od : Overdraft)
  | maxed (cap : Expr) (s : Source)
  | inorder (ss : SourceList)
deriving Repr
inductive SourceList where
  | nil | cons (s : Source) (ss : SourceList)
deriving Repr
end

inductive PortionSpec where
  | const (r : Rat') | var (name : String) | remaining
deriving Repr, Inhabited

inductive VSource where
  | src (s : Source)
  | allot (items : List (PortionSpec × Source))
deriving Repr

mutual
inductive Dest where
  | acct (e : Expr)
  | inorder (caps : CapList) (rest : KeptOrDest)
  | allot (items : AllotList)
deriving Repr
inductive KeptOrDest where
  | kept | to (d : Dest)
deriving Repr
inductive CapList where
  | nil | cons (cap : Expr) (kd : KeptOrDest) (rest : CapList)
deriving Repr
inductive AllotList where
  | nil | cons (p : PortionSpec) (kd : KeptOrDest) (rest : AllotList)
deriving Repr
end

inductive SendAmt where
  | mon (e : Expr) | all (asset : Expr)
deriving Repr

inductive Stmt where
  | send (amt : SendAmt) (src : VSource) (dst : Dest)
  | saveMon (e : Expr) (acc : Expr)
  | saveAll (asset : Expr) (acc : Expr)
  | fail
deriving Repr

inductive Err where
  | compile | invalidVars | missingMeta | resolve | negativeBalance
  | insufficient | invalidScript | runtimeOther | scriptFailed | metaOverride | panic
deriving Repr, DecidableEq, Inhabited

def Err.toString : Err → String
  | .compile => "compile_error" | .invalidVars => "invalid_vars" | .missingMeta => "missing_metadata"
  | .resolve => "resolve_error" | .negativeBalance => "negative_balance" | .insufficient => "insufficient_funds"
  | .invalidScript => "invalid_script" | .runtimeOther => "runtime_other" | .scriptFailed => "script_failed"
  | .metaOverride => "metadata_override" | .panic => "panic"

inductive Val where
  | acct (a : String) | asset (a : String) | num (n : Int) | str (s : String)
  | mon (asset : String) (amt : Int) | portion (r : Rat')
deriving Repr, Inhabited

structure Posting where
  src : String
  dst : String
  amt : Int
  asset : String
deriving Repr, DecidableEq

abbrev Bal := List ((Acct × Asset) × Int)

def Bal.get (b : Bal) (a : Acct) (s : Asset) : Option Int := (b.find? (fun e => e.1 == (a, s))).map (·.2)
def Bal.set (b : Bal) (a : Acct) (s : Asset) (v : Int) : Bal :=
  if b.any (fun e => e.1 == (a, s)) then b.map (fun e => if e.1 == (a, s) then (e.1, v) else e)
  else b ++ [((a, s), v)]

structure St where
  bal : Bal
  postings : List Posting := []
deriving Repr

abbrev M := ExceptT Err (StateM St)

structure Env where
  vars : List (String × Val)

def evalExpr (env : Env) : Expr → Except Err Val
  | .acct a => pure (.acct a)
  | .asset a => pure (.asset a)
  | .num n => pure (.num n)
  | .str s => pure (.str s)
  | .portion r => pure (.portion r)
  | .mon ae amt => do
    match ← evalExpr env ae with
    | .asset a => pure (.mon a amt)
    | _ => throw .compile
  | .var n => match env.vars.find? (·.1 == n) with
    | some (_, v) => pure v
    | none => throw .compile
  | .add l r => do
    match ← evalExpr env l, ← evalExpr env r with
    | .num a, .num b => pure (.num (a + b))
    | .mon sa a, .mon sb b => if sa == sb then pure (.mon sa (a + b)) else throw .invalidScript
    | _, _ => throw .compile
  | .sub l r => do
    match ← evalExpr env l, ← evalExpr env r with
    | .num a, .num b => pure (.num (a - b))
    | .mon sa a, .mon sb b => if sa == sb then pure (.mon sa (a - b)) else throw .runtimeOther
    | _, _ => throw .compile

def evalAcct (env : Env) (e : Expr) : Except Err String := do
  match ← evalExpr env e with
  | .acct a => pure a
  | _ => throw .compile

def evalMon (env : Env) (e : Expr) : Except Err (String × Int) := do
  match ← evalExpr env e with
  | .mon a n => pure (a, n)
  | _ => throw .compile

def evalAsset (env : Env) (e : Expr) : Except Err String := do
  match ← evalExpr env e with
  | .asset a => pure a
  | _ => throw .compile

/-- asset of the leftmost operand (what `OP_ASSET` on monAddr yields) -/
def leftAsset (env : Env) : Expr → Except Err String
  | .add l _ => leftAsset env l
  | .sub l _ => leftAsset env l
  | e => do let (a, _) ← evalMon env e; pure a

def liftE {α} (x : Except Err α) : M α := match x with
  | .ok a => pure a
  | .error e => throw e

def withdrawAll (a : Acct) (s : Asset) (o : Int) : M Parts := do
  let st ← get
  match st.bal.get a s with
  | none => throw .invalidScript
  | some b =>
    let bw := b + o
    if bw > 0 then
      set { st with bal := st.bal.set a s (-o) }
      pure [⟨a, bw⟩]
    else pure [⟨a, 0⟩]

def withdrawAlways (a : Acct) (s : Asset) (n : Int) : M Parts := do
  let st ← get
  match st.bal.get a s with
  | none => throw .invalidScript
  | some b =>
    set { st with bal := st.bal.set a s (b - n) }
    pure [⟨a, n⟩]

def repay (s : Asset) (f : Parts) : M Unit := do
  for p in f do
    if p.acct != "world" then
      let st ← get
      -- Go: m.Balances[part.Account][asset] = balance.Add(amount); account entry always exists for parts
      let b := (st.bal.get p.acct s).getD 0
      set { st with bal := st.bal.set p.acct s (b + p.amt) }

def credit (d : Acct) (s : Asset) (f : Parts) : M Unit := do
  if d == "world" then return
  let st ← get
  match st.bal.get d s with
  | none => pure ()
  | some b => set { st with bal := st.bal.set d s (b + total f) }

def isWorldLit : Expr → Bool
  | .acct "world" => true
  | _ => false

/-- funding carries its asset -/
structure Fund where
  asset : Asset
  parts : Parts
deriving Repr

def fconcat (f g : Fund) : M Fund :=
  if f.asset != g.asset then throw .invalidScript else pure ⟨f.asset, concat f.parts g.parts⟩

mutual
def evalSource (env : Env) (asset : Asset) : Source → M (Fund × Option Acct)
  | .acct e od => do
    let a ← liftE (evalAcct env e)
    let (oa, o, unb) ← match od with
      | .none => pure (asset, (0 : Int), false)
      | .upTo x => do let (xa, xn) ← liftE (evalMon env x); pure (xa, xn, false)
      | .unbounded => pure (asset, (0 : Int), true)
    let fb := isWorldLit e || unb
    let f ← withdrawAll a oa o
    pure (⟨oa, f⟩, if fb then some a else none)
  | .maxed cap s => do
    let (f, fb) ← evalSource env asset s
    let (ma, mn) ← liftE (evalMon env cap)
    if mn < 0 then throw .runtimeOther
    if f.asset != ma then throw .invalidScript
    let missing := if mn > total f.parts then mn - total f.parts else 0
    let (taken, rest) := takeMax f.parts mn
    repay f.asset rest
    match fb with
    | some w =>
      let extra ← withdrawAlways w ma missing
      let r ← fconcat ⟨f.asset, taken⟩ ⟨ma, extra⟩
      pure (r, none)
    | none => pure (⟨f.asset, taken⟩, none)
  | .inorder ss => evalSources env asset ss
def evalSources (env : Env) (asset : Asset) : SourceList → M (Fund × Option Acct)
  | .nil => throw .invalidScript   -- "cannot assemble zero fundings"
  | .cons s .nil => evalSource env asset s
  | .cons s rest => do
    let (f, _) ← evalSource env asset s
    let (g, fb) ← evalSources env asset rest
    let r ← fconcat f g
    pure (r, fb)
end

def takeFromSource (fb : Option Acct) (f : Fund) (ma : Asset) (mn : Int) : M Fund := do
  match fb with
  | none =>
    if f.asset != ma then throw .invalidScript
    match take f.parts mn with
    | none => throw .insufficient
    | some (taken, rest) =>
      repay f.asset rest
      pure ⟨f.asset, taken⟩
  | some w =>
    if mn < 0 then throw .runtimeOther
    if f.asset != ma then throw .invalidScript
    let missing := if mn > total f.parts then mn - total f.parts else 0
    let (taken, rest) := takeMax f.parts mn
    repay f.asset rest
    let extra ← withdrawAlways w ma missing
    fconcat ⟨f.asset, taken⟩ ⟨ma, extra⟩

def emit (d : Acct) (f : Fund) : M Unit := do
  credit d f.asset f.parts
  modify fun st => { st with postings := st.postings ++ f.parts.map (fun p => ⟨p.acct, d, p.amt, f.asset⟩) }

def resolvePortions (env : Env) (ps : List PortionSpec) : Except Err (List Rat') := do
  -- NewAllotment: sum of specifics ≤ 1, remaining = 1 - sum
  let specs ← ps.mapM (fun p => match p with
    | .const r => pure (some r)
    | .var n => match env.vars.find? (·.1 == n) with
      | some (_, .portion r) => pure (some r)
      | _ => throw Err.compile
    | .remaining => pure none)
  -- sum as fraction over common denominator
  let den : Nat := specs.foldl (fun acc s => match s with | some r => acc * r.den | none => acc) 1
  let num : Nat := specs.foldl (fun acc s => match s with | some r => acc + r.num * (den / r.den) | none => acc) 0
  if num > den then throw .invalidScript
  pure (specs.map (fun s => match s with | some r => r | none => ⟨den - num, den⟩))

mutual
def evalDest (env : Env) : Dest → Fund → M Fund
  | .acct e, f => do
    match take f.parts (total f.parts) with
    | none => throw .insufficient
    | some (taken, rest) =>
      let a ← liftE (evalAcct env e)
      emit a ⟨f.asset, taken⟩
      pure ⟨f.asset, rest⟩
  | .inorder caps rest, f => do
    let (kt, cur) ← evalCaps env caps 0 f
    match take cur.parts.reverse kt with
    | none => throw .insufficient
    | some (tk, rest2) =>
      let r ← evalKD env rest ⟨f.asset, rest2.reverse⟩
      fconcat r ⟨f.asset, tk.reverse⟩
  | .allot items, f => do
    let ps ← liftE (resolvePortions env (allotPortions items))
    let parts := allocate ps (total f.parts)
    evalAllot env items parts f
def evalKD (env : Env) : KeptOrDest → Fund → M Fund
  | .kept, f => pure f
  | .to d, f => evalDest env d f
def evalCaps (env : Env) : CapList → Int → Fund → M (Int × Fund)
  | .nil, kt, cur => pure (kt, cur)
  | .cons cap kd rest, kt, cur => do
    let (ma, mn) ← liftE (evalMon env cap)
    if mn < 0 then throw .runtimeOther
    if cur.asset != ma then throw .invalidScript
    let (taken, rem) := takeMax cur.parts mn
    let k ← evalKD env kd ⟨cur.asset, taken⟩
    let cur' ← fconcat k ⟨cur.asset, rem⟩
    evalCaps env rest (kt + total k.parts) cur'
def evalAllot (env : Env) : AllotList → List Int → Fund → M Fund
  | .nil, _, cur => pure cur
  | .cons _ kd rest, parts, cur => do
    match parts with
    | [] => throw .panic
    | p :: ps =>
      match take cur.parts p with
      | none => throw .insufficient
      | some (taken, rem) =>
        let k ← evalKD env kd ⟨cur.asset, taken⟩
        let cur' ← fconcat k ⟨cur.asset, rem⟩
        evalAllot env rest ps cur'
def allotPortions : AllotList → List PortionSpec
  | .nil => []
  | .cons p _ rest => p :: allotPortions rest
end

def evalStmt (env : Env) : Stmt → M Unit
  | .send (.mon e) (.src s) d => do
    let a ← liftE (leftAsset env e)
    let (f, fb) ← evalSource env a s
    let (ma, mn) ← liftE (evalMon env e)
    let taken ← takeFromSource fb f ma mn
    let rest ← evalDest env d taken
    repay rest.asset rest.parts
  | .send (.all ae) (.src s) d => do
    let a ← liftE (evalAsset env ae)
    let (f, _) ← evalSource env a s
    let rest ← evalDest env d f
    repay rest.asset rest.parts
  | .send (.mon e) (.allot items) d => do
    let (ma, mn) ← liftE (evalMon env e)
    let a ← liftE (leftAsset env e)
    let ps ← liftE (resolvePortions env (items.map (·.1)))
    let parts := allocate ps mn
    let mut acc : Option Fund := none
    for ((_, s), p) in items.zip parts do
      let (f, fb) ← evalSource env a s
      let t ← takeFromSource fb f ma p
      acc ← match acc with
        | none => pure (some t)
        | some g => do let r ← fconcat g t; pure (some r)
    match acc with
    | none => throw .invalidScript
    | some f =>
      let rest ← evalDest env d f
      repay rest.asset rest.parts
  | .send (.all _) (.allot _) _ => throw .compile
  | .saveMon e acc => do
    -- models the CODE: only the leftmost operand is saved
    let rec left : Expr → Expr
      | .add l _ => left l
      | .sub l _ => left l
      | x => x
    let (ma, mn) ← liftE (evalMon env (left e))
    let a ← liftE (evalAcct env acc)
    let st ← get
    if !(st.bal.any (fun x => x.1.1 == a)) then throw .panic
    let b := (st.bal.get a ma).getD 0
    set { st with bal := st.bal.set a ma (b - mn) }
  | .saveAll ae acc => do
    let s ← liftE (evalAsset env ae)
    let a ← liftE (evalAcct env acc)
    let st ← get
    if !(st.bal.any (fun x => x.1.1 == a)) then throw .panic
    set { st with bal := st.bal.set a s 0 }
  | .fail => throw .scriptFailed

def runStmts (env : Env) (stmts : List Stmt) (bal : Bal) : Except Err St :=
  let m : M Unit := stmts.forM (evalStmt env)
  match (m.run).run { bal := bal } with
  | (.ok _, st) => .ok st
  | (.error e, _) => .error e

end Num
