import Ledger.Lock
import Ledger.Proto
import Ledger.Num.Funding
import Ledger.Num.Spec
import Ledger.Num.C01
import Ledger.Num.CC
