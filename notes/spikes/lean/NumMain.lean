import Lean.Data.Json
import Ledger.Num.Spec
open Lean Num

def getStr (j : Json) (k : String) : Except String String := j.getObjValAs? String k
def getInt (j : Json) (k : String) : Except String Int := do
  let s ← getStr j k
  match s.toInt? with | some n => pure n | none => throw s!"bad int {s}"
def getNat (j : Json) (k : String) : Except String Nat := do
  let n ← getInt j k; pure n.toNat

partial def pExpr (j : Json) : Except String Expr := do
  match ← getStr j "k" with
  | "acct" => pure (.acct (← getStr j "v"))
  | "asset" => pure (.asset (← getStr j "v"))
  | "num" => pure (.num (← getInt j "v"))
  | "str" => pure (.str (← getStr j "v"))
  | "portion" => pure (.portion ⟨← getNat j "n", ← getNat j "d"⟩)
  | "mon" => pure (.mon (← pExpr (← j.getObjVal? "asset")) (← getInt j "amt"))
  | "var" => pure (.var (← getStr j "v"))
  | "add" => pure (.add (← pExpr (← j.getObjVal? "l")) (← pExpr (← j.getObjVal? "r")))
  | "sub" => pure (.sub (← pExpr (← j.getObjVal? "l")) (← pExpr (← j.getObjVal? "r")))
  | k => throw s!"bad expr kind {k}"

partial def pSource (j : Json) : Except String Source := do
  match ← getStr j "k" with
  | "acct" =>
    let e ← pExpr (← j.getObjVal? "e")
    let odj := (j.getObjVal? "od").toOption.getD Json.null
    let od ← if odj.isNull then pure Overdraft.none else do
      match ← getStr odj "k" with
      | "upto" => pure (Overdraft.upTo (← pExpr (← odj.getObjVal? "e")))
      | "unbounded" => pure Overdraft.unbounded
      | k => throw s!"bad od {k}"
    pure (.acct e od)
  | "max" => pure (.maxed (← pExpr (← j.getObjVal? "cap")) (← pSource (← j.getObjVal? "s")))
  | "inorder" =>
    let arr ← (← j.getObjVal? "ss").getArr?
    let ss ← arr.toList.mapM pSource
    pure (.inorder (ss.foldr (fun s acc => .cons s acc) .nil))
  | k => throw s!"bad source kind {k}"

def pPortion (j : Json) : Except String PortionSpec := do
  match ← getStr j "k" with
  | "const" => pure (.const ⟨← getNat j "n", ← getNat j "d"⟩)
  | "var" => pure (.var (← getStr j "v"))
  | "remaining" => pure .remaining
  | k => throw s!"bad portion {k}"

mutual
partial def pDest (j : Json) : Except String Dest := do
  match ← getStr j "k" with
  | "acct" => pure (.acct (← pExpr (← j.getObjVal? "e")))
  | "inorder" =>
    let arr ← (← j.getObjVal? "caps").getArr?
    let caps ← arr.toList.mapM (fun c => do
      let cap ← pExpr (← c.getObjVal? "cap")
      let kd ← pKD (← c.getObjVal? "kd")
      pure (cap, kd))
    let rest ← pKD (← j.getObjVal? "rest")
    pure (.inorder (caps.foldr (fun (c, kd) acc => .cons c kd acc) .nil) rest)
  | "allot" =>
    let arr ← (← j.getObjVal? "items").getArr?
    let items ← arr.toList.mapM (fun c => do
      let p ← pPortion (← c.getObjVal? "p")
      let kd ← pKD (← c.getObjVal? "kd")
      pure (p, kd))
    pure (.allot (items.foldr (fun (p, kd) acc => .cons p kd acc) .nil))
  | k => throw s!"bad dest kind {k}"
partial def pKD (j : Json) : Except String KeptOrDest := do
  match ← getStr j "k" with
  | "kept" => pure .kept
  | "to" => pure (.to (← pDest (← j.getObjVal? "d")))
  | k => throw s!"bad kd {k}"
end

def pStmt (j : Json) : Except String Stmt := do
  match ← getStr j "k" with
  | "send" =>
    let aj ← j.getObjVal? "amt"
    let amt ← match ← getStr aj "k" with
      | "mon" => pure (SendAmt.mon (← pExpr (← aj.getObjVal? "e")))
      | "all" => pure (SendAmt.all (← pExpr (← aj.getObjVal? "asset")))
      | k => throw s!"bad amt {k}"
    let sj ← j.getObjVal? "src"
    let src ← match ← getStr sj "k" with
      | "src" => pure (VSource.src (← pSource (← sj.getObjVal? "s")))
      | "allot" =>
        let arr ← (← sj.getObjVal? "items").getArr?
        let items ← arr.toList.mapM (fun c => do
          let p ← pPortion (← c.getObjVal? "p")
          let s ← pSource (← c.getObjVal? "s")
          pure (p, s))
        pure (VSource.allot items)
      | k => throw s!"bad vsource {k}"
    pure (.send amt src (← pDest (← j.getObjVal? "dst")))
  | "saveMon" => pure (.saveMon (← pExpr (← j.getObjVal? "e")) (← pExpr (← j.getObjVal? "acc")))
  | "saveAll" => pure (.saveAll (← pExpr (← j.getObjVal? "asset")) (← pExpr (← j.getObjVal? "acc")))
  | "fail" => pure .fail
  | k => throw s!"bad stmt {k}"

def pVal (j : Json) : Except String Val := do
  match ← getStr j "k" with
  | "acct" => pure (.acct (← getStr j "v"))
  | "asset" => pure (.asset (← getStr j "v"))
  | "num" => pure (.num (← getInt j "v"))
  | "str" => pure (.str (← getStr j "v"))
  | "mon" => pure (.mon (← getStr j "asset") (← getInt j "amt"))
  | "portion" => pure (.portion ⟨← getNat j "n", ← getNat j "d"⟩)
  | k => throw s!"bad val {k}"

def runCase (j : Json) : Except String String := do
  let stmts ← (← (← j.getObjVal? "stmts").getArr?).toList.mapM pStmt
  let varsJ ← (← j.getObjVal? "vars").getArr?
  let vars ← varsJ.toList.mapM (fun v => do pure (← getStr v "name", ← pVal (← v.getObjVal? "val")))
  let balJ ← (← j.getObjVal? "bal").getArr?
  let bal ← balJ.toList.mapM (fun b => do pure ((← getStr b "a", ← getStr b "s"), ← getInt b "v"))
  match runStmts ⟨vars⟩ stmts bal with
  | .error e => pure s!"ERR {e.toString}"
  | .ok st =>
    let ps := st.postings.map (fun p => s!"{p.src}>{p.dst}:{p.amt}:{p.asset}")
    let bs := st.bal.map (fun b => s!"{b.1.1}/{b.1.2}={b.2}")
    pure s!"OK {" ".intercalate ps} | {" ".intercalate bs}"

partial def loop (h : IO.FS.Stream) : IO Unit := do
  let line ← h.getLine
  if line.isEmpty then return ()
  match Json.parse line.trimRight with
  | .error e => IO.println s!"BADJSON {e}"
  | .ok j => match runCase j with
    | .ok s => IO.println s
    | .error e => IO.println s!"BADCASE {e}"
  loop h

def main : IO Unit := do loop (← IO.getStdin)
