package main

import (
	"fmt"
	"go/ast"
	"go/parser"
	"go/token"
	"os"
	"strings"
)

var interesting = map[string]bool{"take": true, "release": true, "Lock": true, "unlock": true, "ResolveBalances": true, "ResolveResources": true,
	"Run": true, "nextTXID": true, "chainLog": true, "Append": true, "AppendLog": true, "ChainLog": true, "run": true, "exec": true,
	"GetTransactionByReference": true, "ReadLogWithIdempotencyKey": true, "GetTransaction": true, "Compile": true,
	"CommittedTransactions": true, "SavedMetadata": true, "RevertedTransaction": true, "DeletedMetadata": true, "WithIdempotencyKey": true,
	"Unlock": true}

func callName(e ast.Expr) string {
	switch f := e.(type) {
	case *ast.SelectorExpr:
		return callName(f.X) + "." + f.Sel.Name
	case *ast.Ident:
		return f.Name
	case *ast.CallExpr:
		return callName(f.Fun) + "()"
	case *ast.IndexExpr:
		return callName(f.X)
	}
	return "?"
}

func walk(n ast.Node, depth int, ctx string) {
	ind := strings.Repeat("  ", depth)
	ast.Inspect(n, func(x ast.Node) bool {
		switch s := x.(type) {
		case *ast.DeferStmt:
			fmt.Printf("%sDEFER %s\n", ind, callName(s.Call.Fun))
			return false
		case *ast.FuncLit:
			fmt.Printf("%sCLOSURE {\n", ind)
			walk(s.Body, depth+1, ctx)
			fmt.Printf("%s}\n", ind)
			return false
		case *ast.IfStmt:
			c := ""
			if se, ok := s.Cond.(*ast.SelectorExpr); ok {
				c = callName(se)
			} else if be, ok := s.Cond.(*ast.BinaryExpr); ok {
				c = callName(be.X) + " " + be.Op.String() + " " + callName(be.Y)
			}
			if strings.Contains(c, "DryRun") || strings.Contains(c, "IdempotencyKey") || strings.Contains(c, "Reference") || strings.Contains(c, "ik") {
				fmt.Printf("%sIF %s {\n", ind, c)
				if s.Init != nil {
					walk(s.Init, depth+1, ctx)
				}
				walk(s.Body, depth+1, ctx)
				fmt.Printf("%s}\n", ind)
				if s.Else != nil {
					fmt.Printf("%sELSE {\n", ind)
					walk(s.Else, depth+1, ctx)
					fmt.Printf("%s}\n", ind)
				}
				return false
			}
		case *ast.UnaryExpr:
			if s.Op == token.ARROW {
				fmt.Printf("%sRECV %s\n", ind, callName(s.X))
			}
		case *ast.CallExpr:
			name := callName(s.Fun)
			parts := strings.Split(name, ".")
			if interesting[parts[len(parts)-1]] {
				// visit args first (closures)
				fmt.Printf("%sCALL %s\n", ind, name)
			}
		}
		return true
	})
}

func main() {
	fset := token.NewFileSet()
	for _, f := range os.Args[1:] {
		af, err := parser.ParseFile(fset, f, nil, 0)
		if err != nil {
			panic(err)
		}
		for _, d := range af.Decls {
			if fd, ok := d.(*ast.FuncDecl); ok && fd.Body != nil {
				switch fd.Name.Name {
				case "exec", "run", "AppendLog", "CreateTransaction", "RevertTransaction", "SaveMeta", "DeleteMetadata", "chainLog", "nextTXID", "Append":
					fmt.Printf("FUNC %s {\n", fd.Name.Name)
					walk(fd.Body, 1, fd.Name.Name)
					fmt.Println("}")
				}
			}
		}
	}
}
