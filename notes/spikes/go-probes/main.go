package main

import (
	"context"
	"database/sql"
	"database/sql/driver"
	"fmt"
	"io"
	"math/big"

	ledger "github.com/formancehq/ledger/internal"
	"github.com/formancehq/ledger/internal/api/backend"
	v2 "github.com/formancehq/ledger/internal/api/v2"
	"github.com/formancehq/ledger/internal/bus"
	"github.com/formancehq/ledger/internal/engine/command"
	"github.com/formancehq/ledger/internal/machine/script/compiler"
	"github.com/formancehq/ledger/internal/machine/vm"
	"github.com/formancehq/ledger/internal/storage"
	"github.com/formancehq/ledger/internal/storage/ledgerstore"
	"github.com/formancehq/stack/libs/go-libs/logging"
	"github.com/formancehq/stack/libs/go-libs/metadata"
	"github.com/formancehq/stack/libs/go-libs/query"
	"github.com/uptrace/bun"
	"github.com/uptrace/bun/dialect/pgdialect"
)

type drv struct{}
type conn struct{}
type rows struct{}

var captured []string

func (drv) Open(string) (driver.Conn, error)       { return conn{}, nil }
func (conn) Prepare(q string) (driver.Stmt, error) { return nil, fmt.Errorf("prepare unsupported") }
func (conn) Close() error                          { return nil }
func (conn) Begin() (driver.Tx, error)             { return nil, fmt.Errorf("no tx") }
func (conn) QueryContext(ctx context.Context, q string, args []driver.NamedValue) (driver.Rows, error) {
	captured = append(captured, q)
	return &rows{}, nil
}
func (r *rows) Columns() []string              { return []string{"id"} }
func (r *rows) Close() error                   { return nil }
func (r *rows) Next(dest []driver.Value) error { return io.EOF }

func try(name string, f func()) {
	defer func() {
		if r := recover(); r != nil {
			fmt.Println(name, "PANIC:", r)
		}
	}()
	f()
}

type mon struct{ bus.Monitor }

func (mon) CommittedTransactions(ctx context.Context, res ledger.Transaction, am map[string]metadata.Metadata) {
	fmt.Println("  EVENT committed tx id", res.ID)
}
func (mon) SavedMetadata(ctx context.Context, targetType, id string, m metadata.Metadata) {
	fmt.Println("  EVENT saved meta", targetType, id)
}
func (mon) RevertedTransaction(ctx context.Context, reverted, revert *ledger.Transaction) {
	fmt.Println("  EVENT reverted: reverted.ID=", reverted.ID, "revert.ID=", revert.ID)
}
func (mon) DeletedMetadata(ctx context.Context, targetType string, targetID any, key string) {}

func main() {
	sql.Register("fake", drv{})
	sqldb, _ := sql.Open("fake", "")
	db := bun.NewDB(sqldb, pgdialect.New())
	st := ledgerstore.NewForVerif(db, "b", "l1")
	ctx := logging.TestingContext()

	try("sql-injection", func() {
		q := ledgerstore.NewGetAccountsQuery(ledgerstore.NewPaginatedQueryOptions(ledgerstore.PITFilterWithVolumes{}).WithQueryBuilder(query.Match("address", "x' or '1'='1")))
		_, err := st.GetAccountsWithVolumes(ctx, q)
		fmt.Println("err", err)
		q2 := ledgerstore.NewGetLogsQuery(ledgerstore.NewPaginatedQueryOptions[any](nil))
		_, err = st.GetLogs(ctx, q2)
		fmt.Println("err", err)
		for _, c := range captured {
			fmt.Println("  SQL:", c)
		}
	})

	try("save-all-negative", func() {
		p, err := compiler.Compile("save [USD *] from @a\nsend [USD 10] (\n source = @a allowing overdraft up to [USD 10]\n destination = @b\n)\n")
		if err != nil {
			fmt.Println(err)
			return
		}
		m := vm.NewMachine(*p)
		_ = m.SetVarsFromJSON(map[string]string{})
		store := vm.StaticStore{"a": &vm.AccountWithBalances{Account: ledger.Account{Address: "a"}, Balances: map[string]*big.Int{"USD": big.NewInt(-30)}}}
		_, _, err = m.ResolveResources(ctx, store)
		err = m.ResolveBalances(ctx, store)
		res, err := vm.Run(m, ledger.RunScript{})
		fmt.Println("save-all-negative: a starts at -30, overdraft 10:", res, err)
	})

	try("commander", func() {
		store := storage.NewInMemoryStore()
		c := command.New(store, command.NewDefaultLocker(), command.NewCompiler(10), command.NewReferencer(), mon{})
		go c.Run(ctx)
		defer c.Close()
		mk := func(amount int) ledger.RunScript {
			return ledger.RunScript{Script: ledger.Script{Plain: fmt.Sprintf("send [USD %d] (\n source = @world\n destination = @a\n)\n", amount)}}
		}
		tx, err := c.CreateTransaction(ctx, command.Parameters{DryRun: true}, mk(1))
		fmt.Println("dry-run tx id", tx.ID, err)
		tx, err = c.CreateTransaction(ctx, command.Parameters{}, mk(2))
		fmt.Println("real tx id after dry-run", tx.ID, err)
		rv, err := c.RevertTransaction(ctx, command.Parameters{}, tx.ID, false)
		fmt.Println("revert", rv.ID, err)
		err = c.SaveMeta(ctx, command.Parameters{IdempotencyKey: "k1"}, ledger.MetaTargetTypeAccount, "a", metadata.Metadata{"x": "y"})
		fmt.Println("savemeta", err)
		try("ik-cross-kind", func() {
			tx, err = c.CreateTransaction(ctx, command.Parameters{IdempotencyKey: "k1"}, mk(3))
			fmt.Println("create with reused ik", tx, err)
		})
	})

	try("bulk", func() {
		var l backend.Ledger
		res, errs, err := v2.ProcessBulk(ctx, l, v2.Bulk{{Action: "NOPE"}, {Action: "ALSO_NOPE"}}, false)
		fmt.Println("bulk unknown actions: results", len(res), "errorsInBulk", errs, "err", err)
	})
}
