package ledgerstore

import "github.com/uptrace/bun"

func NewForVerif(db *bun.DB, bucket, name string) *Store {
	return &Store{bucket: &Bucket{name: bucket, db: db}, name: name}
}
