import sys, json
impl=[l.rstrip("\n") for l in open(sys.argv[1])]
cases=[l for l in open(sys.argv[2])]
def ev_mon(e):
    k=e["k"]
    if k=="mon": return (e["asset"]["v"], int(e["amt"]))
    if k=="add":
        a=ev_mon(e["l"]); b=ev_mon(e["r"]); return (a[0], a[1]+b[1])
    if k=="sub":
        a=ev_mon(e["l"]); b=ev_mon(e["r"]); return (a[0], a[1]-b[1])
    raise Exception(k)
def grants_source(s, asset, g):
    k=s["k"]
    if k=="acct":
        a=s["e"]["v"]
        od=s.get("od")
        if a=="world" or (od and od["k"]=="unbounded"):
            g[(a,asset)]=None; return
        o=0; ass=asset
        if od and od["k"]=="upto":
            ass,o=ev_mon(od["e"])
        key=(a,ass)
        if key in g and g[key] is None: return
        g[key]=max(g.get(key,0),o)
    elif k=="max": grants_source(s["s"],asset,g)
    else:
        for x in s["ss"]: grants_source(x,asset,g)
def left_asset(e):
    while e["k"] in ("add","sub"): e=e["l"]
    return e["asset"]["v"]
viol=0; checked=0; shown=0
for i,l in enumerate(impl):
    if not l.startswith("OK "): continue
    c=json.loads(cases[i])
    g={}
    for st in c["stmts"]:
        if st["k"]!="send": continue
        asset = left_asset(st["amt"]["e"]) if st["amt"]["k"]=="mon" else st["amt"]["asset"]["v"]
        if st["src"]["k"]=="src": grants_source(st["src"]["s"],asset,g)
        else:
            for it in st["src"]["items"]: grants_source(it["s"],asset,g)
    R={(b["a"],b["s"]):int(b["v"]) for b in c["bal"]}
    ps=l[3:].split(" | ")[0].split()
    checked+=1
    bad=None
    for p in ps:
        sd,amt,asset=p.rsplit(":",2); src,dst=sd.split(">"); amt=int(amt)
        if amt<0: bad=("negative posting",p)
        if src!="world":
            key=(src,asset)
            gr=g.get(key,0)
            if gr is not None and amt!=0 and R.get(key,0)-amt < -gr:
                bad=("floor",p,"balance",R.get(key,0),"grant",gr)
        if (src,asset) in R: R[(src,asset)]-=amt
        if (dst,asset) in R: R[(dst,asset)]+=amt
        if bad: break
    if bad:
        viol+=1
        if shown<int(sys.argv[3]):
            shown+=1
            print("VIOLATION line",i,bad); print("  result:",l); print("  case:",cases[i][:1200])
print("checked",checked,"violations",viol)
