package main

import (
	"bufio"
	"context"
	"encoding/json"
	"fmt"
	"math/big"
	"os"
	"sort"
	"strings"

	ledger "github.com/formancehq/ledger/internal"
	"github.com/formancehq/ledger/internal/machine"
	"github.com/formancehq/ledger/internal/machine/script/compiler"
	"github.com/formancehq/ledger/internal/machine/vm"
)

type rng struct{ s uint64 }

func (r *rng) next() uint64 {
	r.s += 0x9e3779b97f4a7c15
	z := r.s
	z = (z ^ (z >> 30)) * 0xbf58476d1ce4e5b9
	z = (z ^ (z >> 27)) * 0x94d049bb133111eb
	return z ^ (z >> 31)
}
func (r *rng) n(k int) int      { return int(r.next() % uint64(k)) }
func (r *rng) p(pct int) bool   { return r.n(100) < pct }
func (r *rng) pick(xs []string) string { return xs[r.n(len(xs))] }

type J = map[string]any

var accts = []string{"a", "b", "c", "d"}

type gen struct {
	r     *rng
	asset string
}

func (g *gen) amount() string {
	switch g.r.n(10) {
	case 0:
		return "0"
	case 1:
		return "1"
	case 2:
		return "36893488147419103232" // 2^65
	default:
		return fmt.Sprint(g.r.n(25))
	}
}

func (g *gen) monLit(asset string) (J, string) {
	a := g.amount()
	return J{"k": "mon", "asset": J{"k": "asset", "v": asset}, "amt": a}, fmt.Sprintf("[%s %s]", asset, a)
}

func (g *gen) monExpr() (J, string) {
	asset := g.asset
	if g.r.p(4) {
		asset = "EUR"
	}
	j, t := g.monLit(asset)
	if g.r.p(10) {
		j2, t2 := g.monLit(g.asset)
		op := "add"
		sym := "+"
		if g.r.p(40) {
			op, sym = "sub", "-"
		}
		return J{"k": op, "l": j, "r": j2}, t + " " + sym + " " + t2
	}
	return j, t
}

func (g *gen) source(depth int, ind string) (J, string) {
	k := g.r.n(10)
	if depth <= 0 || k < 5 {
		if g.r.p(15) {
			return J{"k": "acct", "e": J{"k": "acct", "v": "world"}, "od": nil}, "@world"
		}
		a := g.r.pick(accts)
		e := J{"k": "acct", "v": a}
		switch {
		case g.r.p(15):
			mj, mt := g.monExpr()
			return J{"k": "acct", "e": e, "od": J{"k": "upto", "e": mj}}, "@" + a + " allowing overdraft up to " + mt
		case g.r.p(10):
			return J{"k": "acct", "e": e, "od": J{"k": "unbounded"}}, "@" + a + " allowing unbounded overdraft"
		default:
			return J{"k": "acct", "e": e, "od": nil}, "@" + a
		}
	}
	if k < 7 {
		mj, mt := g.monExpr()
		sj, st := g.source(depth-1, ind)
		return J{"k": "max", "cap": mj, "s": sj}, "max " + mt + " from " + st
	}
	n := 2 + g.r.n(2)
	var ss []any
	txt := "{\n"
	for i := 0; i < n; i++ {
		sj, st := g.source(depth-1, ind+"  ")
		ss = append(ss, sj)
		txt += ind + "  " + st + "\n"
	}
	txt += ind + "}"
	return J{"k": "inorder", "ss": ss}, txt
}

func (g *gen) portions(n int) ([]J, []string) {
	// choose denominators; last is remaining (or exact)
	var js []J
	var ts []string
	den := []int{2, 3, 4, 5, 7, 10}[g.r.n(6)]
	left := den
	for i := 0; i < n-1; i++ {
		k := 0
		if left > 0 {
			k = g.r.n(left + 1)
		}
		left -= k
		js = append(js, J{"k": "const", "n": fmt.Sprint(k), "d": fmt.Sprint(den)})
		ts = append(ts, fmt.Sprintf("%d/%d", k, den))
	}
	if left > 0 && g.r.p(70) {
		js = append(js, J{"k": "remaining"})
		ts = append(ts, "remaining")
	} else {
		js = append(js, J{"k": "const", "n": fmt.Sprint(left), "d": fmt.Sprint(den)})
		ts = append(ts, fmt.Sprintf("%d/%d", left, den))
	}
	return js, ts
}

func (g *gen) kd(depth int, ind string) (J, string) {
	if g.r.p(20) {
		return J{"k": "kept"}, "kept"
	}
	dj, dt := g.dest(depth, ind)
	return J{"k": "to", "d": dj}, "to " + dt
}

func (g *gen) dest(depth int, ind string) (J, string) {
	k := g.r.n(10)
	if depth <= 0 || k < 5 {
		a := g.r.pick(append(accts, "x", "y", "world"))
		return J{"k": "acct", "e": J{"k": "acct", "v": a}}, "@" + a
	}
	if k < 8 {
		n := 1 + g.r.n(3)
		var caps []any
		txt := "{\n"
		for i := 0; i < n; i++ {
			mj, mt := g.monExpr()
			kj, kt := g.kd(depth-1, ind+"  ")
			caps = append(caps, J{"cap": mj, "kd": kj})
			txt += ind + "  max " + mt + " " + kt + "\n"
		}
		rj, rt := g.kd(depth-1, ind+"  ")
		txt += ind + "  remaining " + rt + "\n" + ind + "}"
		return J{"k": "inorder", "caps": caps, "rest": rj}, txt
	}
	n := 2 + g.r.n(2)
	pj, pt := g.portions(n)
	var items []any
	txt := "{\n"
	for i := 0; i < n; i++ {
		kj, kt := g.kd(depth-1, ind+"  ")
		items = append(items, J{"p": pj[i], "kd": kj})
		txt += ind + "  " + pt[i] + " " + kt + "\n"
	}
	txt += ind + "}"
	return J{"k": "allot", "items": items}, txt
}

func (g *gen) stmt() (J, string) {
	g.asset = "USD"
	if g.r.p(8) {
		a := g.r.pick(accts)
		if g.r.p(50) {
			mj, mt := g.monExpr()
			return J{"k": "saveMon", "e": mj, "acc": J{"k": "acct", "v": a}}, "save " + mt + " from @" + a
		}
		return J{"k": "saveAll", "asset": J{"k": "asset", "v": "USD"}, "acc": J{"k": "acct", "v": a}}, "save [USD *] from @" + a
	}
	if g.r.p(2) {
		return J{"k": "fail"}, "fail"
	}
	var amtJ J
	var amtT string
	all := g.r.p(15)
	if all {
		amtJ, amtT = J{"k": "all", "asset": J{"k": "asset", "v": "USD"}}, "[USD *]"
	} else {
		mj, mt := g.monExpr()
		amtJ, amtT = J{"k": "mon", "e": mj}, mt
	}
	var srcJ J
	var srcT string
	if !all && g.r.p(20) {
		n := 2 + g.r.n(2)
		pj, pt := g.portions(n)
		var items []any
		srcT = "{\n"
		for i := 0; i < n; i++ {
			sj, st := g.source(2, "    ")
			items = append(items, J{"p": pj[i], "s": sj})
			srcT += "    " + pt[i] + " from " + st + "\n"
		}
		srcT += "  }"
		srcJ = J{"k": "allot", "items": items}
	} else {
		sj, st := g.source(3, "  ")
		srcJ, srcT = J{"k": "src", "s": sj}, st
	}
	dj, dt := g.dest(3, "  ")
	txt := "send " + amtT + " (\n  source = " + srcT + "\n  destination = " + dt + "\n)"
	return J{"k": "send", "amt": amtJ, "src": srcJ, "dst": dj}, txt
}

func classify(err error) string {
	if err == nil {
		return ""
	}
	switch {
	case machine.IsInsufficientFundError(err):
		return "insufficient_funds"
	case strings.Contains(err.Error(), "script exited with error code"):
		return "script_failed"
	}
	var is *machine.ErrInvalidScript
	_ = is
	if errorsIs(err, &machine.ErrInvalidScript{}) {
		return "invalid_script"
	}
	return "runtime_other"
}

func errorsIs(err error, target error) bool {
	for err != nil {
		if x, ok := err.(interface{ Is(error) bool }); ok && x.Is(target) {
			return true
		}
		u, ok := err.(interface{ Unwrap() error })
		if !ok {
			c, ok2 := err.(interface{ Cause() error })
			if !ok2 {
				return false
			}
			err = c.Cause()
			continue
		}
		err = u.Unwrap()
	}
	return false
}

func main() {
	var seed uint64 = 1
	n := 1000
	fmt.Sscan(os.Args[1], &seed)
	fmt.Sscan(os.Args[2], &n)
	casesF, _ := os.Create(os.Args[3])
	implF, _ := os.Create(os.Args[4])
	txtF, _ := os.Create(os.Args[5])
	cw, iw, tw := bufio.NewWriter(casesF), bufio.NewWriter(implF), bufio.NewWriter(txtF)
	defer cw.Flush()
	defer iw.Flush()
	defer tw.Flush()
	r := &rng{s: seed}
	g := &gen{r: r}
	stats := map[string]int{}
	for c := 0; c < n; c++ {
		ns := 1 + r.n(3)
		var stmts []any
		var lines []string
		for i := 0; i < ns; i++ {
			sj, st := g.stmt()
			stmts = append(stmts, sj)
			lines = append(lines, st)
		}
		script := strings.Join(lines, "\n") + "\n"
		prog, err := compiler.Compile(script)
		if err != nil {
			stats["compile_error"]++
			continue
		}
		// balances
		store := vm.StaticStore{}
		for _, a := range accts {
			var b *big.Int
			switch r.n(8) {
			case 0:
				b = big.NewInt(0)
			case 1:
				b = big.NewInt(-int64(r.n(20)))
			case 2:
				b, _ = new(big.Int).SetString("73786976294838206464", 10)
			case 3, 4:
				b = big.NewInt(int64(r.n(400)))
			default:
				b = big.NewInt(int64(r.n(40)))
			}
			store[a] = &vm.AccountWithBalances{Account: ledger.Account{Address: a}, Balances: map[string]*big.Int{"USD": b, "EUR": big.NewInt(int64(r.n(10)))}}
		}
		func() {
			var out string
			defer func() {
				if rec := recover(); rec != nil {
					out = "ERR panic"
				}
				fmt.Fprintln(iw, out)
				stats[strings.SplitN(out, " ", 3)[0]+" "+func() string {
					if strings.HasPrefix(out, "ERR") {
						return strings.TrimPrefix(out, "ERR ")
					}
					return ""
				}()]++
			}()
			m := vm.NewMachine(*prog)
			m.Printer = func(ch chan machine.Value) {
				for range ch {
				}
			}
			if err := m.SetVarsFromJSON(map[string]string{}); err != nil {
				out = "ERR invalid_vars"
				fmt.Fprintln(cw, "{}")
				return
			}
			if _, _, err := m.ResolveResources(context.Background(), store); err != nil {
				out = "ERR resolve_error"
				fmt.Fprintln(cw, "{}")
				return
			}
			if err := m.ResolveBalances(context.Background(), store); err != nil {
				out = "ERR resolve_error"
				fmt.Fprintln(cw, "{}")
				return
			}
			// dump the resolved balance entries as the model's input
			bal := []any{}
			var keys []string
			for a, m2 := range m.Balances {
				for s := range m2 {
					keys = append(keys, string(a)+"/"+string(s))
				}
			}
			sort.Strings(keys)
			for _, k := range keys {
				p := strings.SplitN(k, "/", 2)
				bal = append(bal, J{"a": p[0], "s": p[1], "v": m.Balances[machine.AccountAddress(p[0])][machine.Asset(p[1])].String()})
			}
			cj, _ := json.Marshal(J{"stmts": stmts, "vars": []any{}, "bal": bal})
			fmt.Fprintln(cw, string(cj))
			fmt.Fprintf(tw, "### case %d\n%s\n", c, script)
			res, err := vm.Run(m, ledger.RunScript{})
			if err != nil {
				out = "ERR " + classify(err)
				return
			}
			var ps []string
			for _, p := range res.Postings {
				ps = append(ps, fmt.Sprintf("%s>%s:%s:%s", p.Source, p.Destination, p.Amount, p.Asset))
			}
			var bs []string
			for a, m2 := range m.Balances {
				for s, v := range m2 {
					bs = append(bs, fmt.Sprintf("%s/%s=%s", string(a), string(s), v))
				}
			}
			sort.Strings(bs)
			out = "OK " + strings.Join(ps, " ") + " | " + strings.Join(bs, " ")
		}()
	}
	fmt.Fprintln(os.Stderr, "stats:", stats)
}
