import sys
impl=[l.rstrip("\n") for l in open(sys.argv[1])]
model=[l.rstrip("\n") for l in open(sys.argv[2])]
cases=[l for l in open(sys.argv[3])]
def canon(l):
    if l.startswith("OK "):
        ps,_,bs=l[3:].partition(" | ")
        return "OK "+ps.strip()+" | "+" ".join(sorted(bs.split()))
    return l
bad=0
ok=0
kinds={}
for i,(a,b) in enumerate(zip(impl,model)):
    if cases[i].strip()=="{}": continue
    if canon(a)!=canon(b):
        bad+=1
        if bad<=int(sys.argv[4]) if len(sys.argv)>4 else 5:
            print("MISMATCH case-line",i); print(" impl :",canon(a)); print(" model:",canon(b)); print(" case :",cases[i][:1500])
    else:
        ok+=1
        k=a.split(" ")[0]+(" "+a.split(" ")[1] if a.startswith("ERR") else "")
        kinds[k]=kinds.get(k,0)+1
print("agree",ok,"disagree",bad,kinds, "lens",len(impl),len(model))
