import re, sys
from lark import Lark, Tree, Token

src = open('/repo/internal/storage/ledgerstore/migrations/0-init-schema.sql').read()

# split out plpgsql functions: name, args, declare, body
fn_re = re.compile(r"create (?:or replace )?function (\w+)\s*\((.*?)\)\s*returns\s+(.*?)\s+(?:security definer\s+)?language (plpgsql|sql).*?as\s*\$\$(.*?)\$\$", re.S|re.I)
fns = {}
for m in fn_re.finditer(src):
    fns[m.group(1)] = dict(args=m.group(2), ret=m.group(3), lang=m.group(4), body=m.group(5))
print(len(fns), "functions:", {k:v['lang'] for k,v in fns.items()})

grammar = r"""
start: declare? "begin" stmt* "end" ";"?
declare: "declare" decl+
decl: NAME type ("=" expr)? ";"
type: NAME ("without" "time" "zone")?
?stmt: select_into | if_stmt | assign | insert | update | perform | for_loop | return_stmt
select_into: "select" select_list ("into" target_list)? "from" NAME where? order? limit? ("into" target_list)? ";"
target_list: lvalue ("," lvalue)*
select_list: expr ("," expr)*
where: "where" expr
order: "order" "by" order_item ("," order_item)*
order_item: expr DIR?
DIR: "asc" | "desc"
limit: "limit" NUMBER
if_stmt: "if" expr "then" stmt* ("else" stmt*)? "end" "if" ";"
assign: lvalue "=" expr ";"
lvalue: NAME ("." NAME)?
insert: "insert" "into" NAME "(" name_list ")" "values" "(" expr_list ")" on_conflict? returning? ";"
on_conflict: "on" "conflict" "(" name_list ")" "do" "update" "set" set_list where?
returning: "returning" NAME "into" NAME
update: "update" NAME "set" set_list where ";"
set_list: set_item ("," set_item)*
set_item: NAME "=" expr
perform: "perform" call ";"
for_loop: "for" name_list "in" "(" subselect ")" "loop" stmt* "end" "loop" ";"
return_stmt: "return" NAME ";"
name_list: NAME ("," NAME)*
expr_list: expr ("," expr)*

subselect: "select" select_list ("from" from_item)? where? order? limit?
from_item: call | NAME NAME?

?expr: or_expr
?or_expr: and_expr ("or" and_expr)*
?and_expr: not_expr ("and" not_expr)*
?not_expr: "not" not_expr -> not_ | cmp_expr
?cmp_expr: add_expr (CMP add_expr)? | add_expr "is" "not" "null" -> is_not_null | add_expr "is" "null" -> is_null
CMP: "<=" | ">=" | "<>" | "=" | "<" | ">" | "@>"
?add_expr: mul_expr (ADDOP mul_expr)*
ADDOP: "+" | "||" | "-"
?mul_expr: json_expr
?json_expr: cast_expr (JOP cast_expr)*
JOP: "->>" | "->"
?cast_expr: atom ("::" type)*
?atom: call | case_expr | row | "(" subselect ")" -> scalar_subselect | "(" expr ")" field? -> paren | STRING | NUMBER | "true" -> true | "false" -> false | "null" -> null | "found" -> found | qname
field: "." NAME
row: "(" expr "," expr_list ")"
case_expr: "case" "when" expr "then" expr "else" expr "end"
call: NAME "(" [expr_list] ")"
qname: NAME ("." NAME)?
NAME: /[a-zA-Z_][a-zA-Z_0-9]*/
STRING: /'[^']*'/
NUMBER: /[0-9]+/
COMMENT: /--[^\n]*/
%import common.WS
%ignore WS
%ignore COMMENT
"""
kw = ["select","into","from","where","order","by","limit","if","then","else","end","insert","values","on","conflict","do","update","set","returning","perform","for","in","loop","return","and","or","not","is","null","case","when","true","false","declare","begin","asc","desc","found","without","time","zone"]
parser = Lark(grammar, parser="earley", lexer="dynamic", maybe_placeholders=False)
ok=0
for name, f in fns.items():
    if f['lang'] != 'plpgsql': continue
    try:
        t = parser.parse(f['body'].strip().lower() if False else f['body'].strip())
        ok+=1
        print("PARSED", name, "nodes:", sum(1 for _ in t.iter_subtrees()))
    except Exception as e:
        print("FAILED", name, str(e)[:300].replace("\n"," | "))
print("ok", ok)
