# Spike only: produce instrumented copies of commander.go / context.go with verifhook.Yield calls,
# to be substituted through the go build overlay.  The real framework commits the hooks in /repo instead.
import sys
s=open('/repo/internal/engine/command/commander.go').read()
s=s.replace('"github.com/pkg/errors"\n)', '"github.com/pkg/errors"\n\t"github.com/formancehq/ledger/internal/verifhook"\n)')
def ins_before(s, needle, hook, count=1):
    assert needle in s, needle
    return s.replace(needle, f'verifhook.Yield(ctx, "{hook}")\n\t\t'+needle, count)
s=ins_before(s, 'if err := commander.referencer.take(referenceTxReference, script.Reference); err != nil {', 'ref-take')
s=ins_before(s, '_, err := commander.store.GetTransactionByReference(ctx, script.Reference)', 'ref-lookup')
s=ins_before(s, 'unlock, err := commander.locker.Lock(ctx, lockAccounts)', 'lock')
s=ins_before(s, 'err = m.ResolveBalances(ctx, commander.store)', 'read-balances')
s=ins_before(s, 'result, err := vm.Run(m, script)', 'run-vm')
s=ins_before(s, 'tx := ledger.NewTransaction().', 'alloc-txid')
s=ins_before(s, 'return executionContext.AppendLog(ctx, log)\n\t})\n}\n\nfunc (commander *Commander) CreateTransaction', 'append-log')
open('commander.go','w').write(s)
c=open('/repo/internal/engine/command/context.go').read()
c=c.replace('"github.com/formancehq/stack/libs/go-libs/logging"\n)', '"github.com/formancehq/stack/libs/go-libs/logging"\n\t"github.com/formancehq/ledger/internal/verifhook"\n)')
c=c.replace('chainedLog := e.commander.chainLog(log)', 'verifhook.Yield(ctx, "chain")\n\tchainedLog := e.commander.chainLog(log)\n\tverifhook.Yield(ctx, "handoff")')
c=c.replace('\t<-done\n', '\tverifhook.Yield(ctx, "wait")\n\t<-done\n\tverifhook.Yield(ctx, "after-wait")\n')
open('context.go','w').write(c)
