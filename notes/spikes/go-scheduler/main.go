package main

import (
	"context"
	"fmt"
	"math/big"
	"os"
	"sync"
	"time"

	ledger "github.com/formancehq/ledger/internal"
	"github.com/formancehq/ledger/internal/bus"
	"github.com/formancehq/ledger/internal/engine/command"
	"github.com/formancehq/ledger/internal/storage/sqlutils"
	"github.com/formancehq/ledger/internal/verifhook"
	"github.com/formancehq/stack/libs/go-libs/logging"
	"github.com/formancehq/stack/libs/go-libs/metadata"
)

const P = -1 // persister actor id

type ev struct {
	actor   int
	point   string
	kind    int // 0 parked at yield, 1 blocked, 2 finished
	payload any
}

type Sched struct {
	mu       sync.Mutex
	arrive   chan ev
	resume   map[int]chan struct{}
	parked   map[int]string
	blocked  map[int]string
	finished map[int]bool
	expect   map[int]int // outstanding expected arrivals per actor
	trace    []string

	// mirrors
	lockHolders map[int]command.Accounts
	lockQueue   []int
	lockWant    map[int]command.Accounts
	persBusy    bool // batch at gate or in flight
	pending     int
	batchActors []int // actors in batch currently at gate
}

func (s *Sched) Yield(actor int, point string) {
	s.arrive <- ev{actor: actor, point: point}
	<-s.resume[actor]
}

func conflict(a, b command.Accounts) bool {
	in := func(x string, l []string) bool {
		for _, y := range l {
			if x == y {
				return true
			}
		}
		return false
	}
	for _, w := range a.Write {
		if in(w, b.Read) || in(w, b.Write) {
			return true
		}
	}
	for _, w := range b.Write {
		if in(w, a.Read) || in(w, a.Write) {
			return true
		}
	}
	return false
}

func (s *Sched) compatible(acc command.Accounts) bool {
	for _, h := range s.lockHolders {
		if conflict(acc, h) {
			return false
		}
	}
	return true
}

type lockWrap struct {
	real command.Locker
	s    *Sched
}

func actorOf(ctx context.Context) int { return ctx.Value(actorKey{}).(int) }

type actorKey struct{}

func (l *lockWrap) Lock(ctx context.Context, acc command.Accounts) (command.Unlock, error) {
	a := actorOf(ctx)
	s := l.s
	s.mu.Lock()
	will := !s.compatible(acc)
	if will {
		s.lockQueue = append(s.lockQueue, a)
		s.lockWant[a] = acc
	} else {
		s.lockHolders[a] = acc
	}
	s.mu.Unlock()
	if will {
		s.arrive <- ev{actor: a, point: "lock", kind: 1}
	}
	unlock, err := l.real.Lock(ctx, acc)
	if will {
		s.Yield(a, "lock-acquired")
	}
	return func(ctx context.Context) {
		unlock(ctx)
		s.mu.Lock()
		delete(s.lockHolders, a)
		// mirror recheck
		q := s.lockQueue
		s.lockQueue = nil
		for _, w := range q {
			if s.compatible(s.lockWant[w]) {
				s.lockHolders[w] = s.lockWant[w]
				s.expect[w]++
			} else {
				s.lockQueue = append(s.lockQueue, w)
			}
		}
		s.mu.Unlock()
	}, err
}

type store struct {
	mu   sync.Mutex
	logs []*ledger.ChainedLog
	s    *Sched
}

func (st *store) txs() []*ledger.Transaction {
	var r []*ledger.Transaction
	for _, l := range st.logs {
		switch p := l.Data.(type) {
		case ledger.NewTransactionLogPayload:
			r = append(r, p.Transaction)
		case ledger.RevertedTransactionLogPayload:
			r = append(r, p.RevertTransaction)
		}
	}
	return r
}
func (st *store) GetBalance(ctx context.Context, address, asset string) (*big.Int, error) {
	st.mu.Lock()
	defer st.mu.Unlock()
	b := new(big.Int)
	for _, t := range st.txs() {
		for _, p := range t.Postings {
			if p.Asset != asset {
				continue
			}
			if p.Source == address {
				b.Sub(b, p.Amount)
			}
			if p.Destination == address {
				b.Add(b, p.Amount)
			}
		}
	}
	return b, nil
}
func (st *store) GetAccount(ctx context.Context, address string) (*ledger.Account, error) {
	return &ledger.Account{Address: address, Metadata: metadata.Metadata{}}, nil
}
func (st *store) InsertLogs(ctx context.Context, logs ...*ledger.ChainedLog) error {
	st.s.arrive <- ev{actor: P, point: "insert", payload: logs}
	<-st.s.resume[P]
	st.mu.Lock()
	st.logs = append(st.logs, logs...)
	st.mu.Unlock()
	return nil
}
func (st *store) GetLastLog(ctx context.Context) (*ledger.ChainedLog, error) {
	st.mu.Lock()
	defer st.mu.Unlock()
	if len(st.logs) == 0 {
		return nil, sqlutils.ErrNotFound
	}
	return st.logs[len(st.logs)-1], nil
}
func (st *store) GetLastTransaction(ctx context.Context) (*ledger.ExpandedTransaction, error) {
	st.mu.Lock()
	defer st.mu.Unlock()
	t := st.txs()
	if len(t) == 0 {
		return nil, sqlutils.ErrNotFound
	}
	return &ledger.ExpandedTransaction{Transaction: *t[len(t)-1]}, nil
}
func (st *store) ReadLogWithIdempotencyKey(ctx context.Context, key string) (*ledger.ChainedLog, error) {
	st.mu.Lock()
	defer st.mu.Unlock()
	for _, l := range st.logs {
		if l.IdempotencyKey == key {
			return l, nil
		}
	}
	return nil, sqlutils.ErrNotFound
}
func (st *store) GetTransactionByReference(ctx context.Context, ref string) (*ledger.ExpandedTransaction, error) {
	st.mu.Lock()
	defer st.mu.Unlock()
	for _, t := range st.txs() {
		if t.Reference == ref {
			return &ledger.ExpandedTransaction{Transaction: *t}, nil
		}
	}
	return nil, sqlutils.ErrNotFound
}
func (st *store) GetTransaction(ctx context.Context, id *big.Int) (*ledger.Transaction, error) {
	st.mu.Lock()
	defer st.mu.Unlock()
	for _, t := range st.txs() {
		if t.ID.Cmp(id) == 0 {
			return t, nil
		}
	}
	return nil, sqlutils.ErrNotFound
}

type result struct {
	tx  *ledger.Transaction
	err error
}

// runOnce executes one schedule following plan; returns enabled counts per step, chosen, and outcome summary
func runOnce(plan []int, scripts []ledger.RunScript, seedLogs func(st *store)) (counts []int, chosen []int, summary string, trace []string) {
	s := &Sched{arrive: make(chan ev, 64), resume: map[int]chan struct{}{}, parked: map[int]string{}, blocked: map[int]string{}, finished: map[int]bool{},
		expect: map[int]int{}, lockHolders: map[int]command.Accounts{}, lockWant: map[int]command.Accounts{}}
	st := &store{s: s}
	seedLogs(st)
	s.resume[P] = make(chan struct{})
	ctx0 := logging.TestingContext()
	c := command.New(st, &lockWrap{real: command.NewDefaultLocker(), s: s}, command.NewCompiler(16), command.NewReferencer(), bus.NewNoOpMonitor())
	if err := c.Init(ctx0); err != nil {
		panic(err)
	}
	go c.Run(ctx0)
	results := make([]result, len(scripts))
	for i := range scripts {
		i := i
		s.resume[i] = make(chan struct{})
		ctx := verifhook.With(context.WithValue(ctx0, actorKey{}, i), s, i)
		s.expect[i]++
		go func() {
			s.Yield(i, "start")
			tx, err := c.CreateTransaction(ctx, command.Parameters{}, scripts[i])
			results[i] = result{tx, err}
			s.arrive <- ev{actor: i, kind: 2}
		}()
	}
	running := -2
	waitQuiet := func() {
		for {
			s.mu.Lock()
			need := 0
			for _, n := range s.expect {
				need += n
			}
			s.mu.Unlock()
			if need == 0 {
				return
			}
			select {
			case e := <-s.arrive:
				s.mu.Lock()
				switch e.kind {
				case 0:
					s.parked[e.actor] = e.point
					delete(s.blocked, e.actor)
					s.expect[e.actor]--
					if e.actor == P {
						s.persBusy = true
					}
				case 1:
					s.blocked[e.actor] = e.point
					s.expect[e.actor]--
				case 2:
					s.finished[e.actor] = true
					s.expect[e.actor]--
				}
				s.mu.Unlock()
			case <-time.After(5 * time.Second):
				fmt.Println("WATCHDOG: prediction mismatch; expect=", s.expect, "parked=", s.parked, "blocked=", s.blocked, "trace=", s.trace)
				os.Exit(2)
			}
		}
	}
	_ = running
	persisted := map[int]bool{}
	step := 0
	for {
		waitQuiet()
		// enabled actors, sorted: requests by id then P
		var enabled []int
		for i := range scripts {
			if _, ok := s.parked[i]; ok {
				enabled = append(enabled, i)
			}
		}
		if _, ok := s.parked[P]; ok {
			enabled = append(enabled, P)
		}
		if len(enabled) == 0 {
			break
		}
		ch := 0
		if step < len(plan) {
			ch = plan[step]
		}
		if ch >= len(enabled) {
			fmt.Println("NONDETERMINISM at step", step, "plan", plan, "enabled", enabled, "parked", s.parked, "blocked", s.blocked, "trace", s.trace)
			os.Exit(3)
		}
		counts = append(counts, len(enabled))
		chosen = append(chosen, ch)
		a := enabled[ch]
		pt := s.parked[a]
		s.trace = append(s.trace, fmt.Sprintf("%d:%s", a, pt))
		s.mu.Lock()
		delete(s.parked, a)
		if a == P {
			// releasing the gate: batch becomes durable, waiters wake
			// which actors are in the batch? identify by reference metadata
			// after return: if pending>0 expect P again
			if s.pending > 0 {
				s.pending = 0
				s.expect[P]++
			} else {
				s.persBusy = false
			}
		} else if pt == "wait" {
			if persisted[a] {
				s.expect[a]++
			} else {
				s.blocked[a] = "wait" // will block on <-done; no arrival expected now
			}
		} else {
			s.expect[a]++
			if pt == "handoff" {
				// the actor is about to call Batcher.Append: persister idle -> a batch will reach the gate; busy -> queued
				if !s.persBusy {
					s.persBusy = true
					s.expect[P]++
				} else {
					s.pending++
				}
			}
		}
		s.mu.Unlock()
		if a == P {
			// mark persisted for actors whose logs are in durable after release: do after resume
			before := len(st.logs)
			s.resume[a] <- struct{}{}
			// wait until store has appended (InsertLogs body runs promptly)
			for {
				st.mu.Lock()
				n := len(st.logs)
				st.mu.Unlock()
				if n > before {
					break
				}
				time.Sleep(50 * time.Microsecond)
			}
			st.mu.Lock()
			for _, l := range st.logs[before:] {
				ref := l.Data.(ledger.NewTransactionLogPayload).Transaction.Metadata["req"]
				var id int
				fmt.Sscan(ref, &id)
				persisted[id] = true
				s.mu.Lock()
				if s.blocked[id] == "wait" {
					delete(s.blocked, id)
					s.expect[id]++
				}
				s.mu.Unlock()
			}
			st.mu.Unlock()
		} else {
			s.resume[a] <- struct{}{}
		}
		step++
	}
	// summary
	accepted := 0
	for _, r := range results {
		if r.err == nil && r.tx != nil {
			accepted++
		}
	}
	bal, _ := st.GetBalance(ctx0, "alice", "USD")
	ids := ""
	for _, l := range st.logs {
		ids += l.ID.String() + ","
	}
	summary = fmt.Sprintf("accepted=%d alice=%s logids=%s", accepted, bal, ids)
	return counts, chosen, summary, s.trace
}

func main() {
	mk := func(i int, dest string) ledger.RunScript {
		return ledger.RunScript{Script: ledger.Script{Plain: fmt.Sprintf("send [USD 80] (\n source = @alice\n destination = @%s\n)\n", dest)}, Metadata: metadata.Metadata{"req": fmt.Sprint(i)}}
	}
	scripts := []ledger.RunScript{mk(0, "bob"), mk(1, "carol")}
	seed := func(st *store) {
		tx := ledger.NewTransaction().WithPostings(ledger.NewPosting("world", "alice", "USD", big.NewInt(100)))
		st.logs = append(st.logs, ledger.NewTransactionLog(tx, nil).ChainLog(nil))
	}
	plan := []int{}
	outcomes := map[string]int{}
	var firstBad []string
	n := 0
	start := time.Now()
	for {
		counts, chosen, summary, trace := runOnce(plan, scripts, seed)
		n++
		outcomes[summary]++
		if firstBad == nil && (summary[:10] == "accepted=2") {
			firstBad = trace
		}
		// backtrack
		i := len(chosen) - 1
		for i >= 0 && chosen[i]+1 >= counts[i] {
			i--
		}
		if i < 0 {
			break
		}
		plan = append(append([]int{}, chosen[:i]...), chosen[i]+1)
		if os.Getenv("V") != "" {
			fmt.Println("run", n, "counts", counts, "chosen", chosen, summary, trace)
		}
		if n >= 400000 {
			break
		}
	}
	fmt.Println("schedules:", n, "elapsed:", time.Since(start))
	for k, v := range outcomes {
		fmt.Println(v, k)
	}
	fmt.Println("first double-spend trace:", firstBad)
}
