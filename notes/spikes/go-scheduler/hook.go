package verifhook

import "context"

type key struct{}

type Scheduler interface{ Yield(actor int, point string) }

func With(ctx context.Context, s Scheduler, actor int) context.Context {
	return context.WithValue(ctx, key{}, &binding{s, actor})
}

type binding struct {
	s     Scheduler
	actor int
}

func Yield(ctx context.Context, point string) {
	if b, ok := ctx.Value(key{}).(*binding); ok {
		b.s.Yield(b.actor, point)
	}
}
