# Rewrites of the commander used to test the engine scheduler (round 3): python3 mutate-scheduler.py <name> <Cxx>; paths are those of the scratch worktrees used then.
import sys, subprocess, os, json
R='/tmp/agent-eng3/repo/internal/engine/command/'
def sub(f, old, new):
    s=open(R+f).read(); assert s.count(old)>=1,(f,old); open(R+f,'w').write(s.replace(old,new,1))
def reset(): subprocess.run(['git','-C','/tmp/agent-eng3/repo','checkout','-q','--','.'],check=True)
M={}
M['dry-run-commits']=lambda: sub('context.go','		return log.ChainLog(nil), ret, nil','		return e.commander.commit(log, tx, func() {}), ret, nil')
M['go-terminated']=lambda: sub('context.go','	defer e.terminated()','	defer func() { go e.terminated() }()')
M['yield-after-append']=lambda: sub('context.go','''	logging.FromContext(ctx).WithFields(map[string]any{
		"id": chainedLog.ID,
	}).Debugf("Appending log")''','''	verifhook.Yield(ctx, "handoff")''')
def ym():
    sub('commander.go','func (commander *Commander) commit(log *ledger.Log, tx *ledger.Transaction, onPersisted func()) *ledger.ChainedLog {\n\tcommander.mu.Lock()\n\tdefer commander.mu.Unlock()\n',
        'func (commander *Commander) commit(ctx context.Context, log *ledger.Log, tx *ledger.Transaction, onPersisted func()) *ledger.ChainedLog {\n\tcommander.mu.Lock()\n\tdefer commander.mu.Unlock()\n\tverifhook.Yield(ctx, "alloc-txid")\n')
    sub('context.go','e.commander.commit(log, tx, func() {','e.commander.commit(ctx, log, tx, func() {')
M['yield-inside-commit-section']=ym
M['wait-dropped']=lambda: sub('context.go','	<-done\n','	_ = done\n')
def twice():
    sub('context.go','''	chainedLog := e.commander.commit(log, tx, func() {
		close(done)
	})''','''	e.commander.commit(log, nil, func() {})
	chainedLog := e.commander.commit(log, tx, func() {
		close(done)
	})''')
M['append-twice']=twice
name, prop = sys.argv[1], sys.argv[2]
reset(); M[name]()
env=dict(os.environ, GOFLAGS='-mod=mod', GOPROXY='off', GOSUMDB='off', GOTOOLCHAIN='local', VERIF_REPO='/tmp/agent-eng3/repo')
p=subprocess.run(['bin/check',prop,'quick'],cwd='/tmp/vw-eng3',env=env,capture_output=True,text=True)
reset()
print('==',name,prop)
for l in p.stdout.splitlines():
    if l.startswith(('VIOLATION','OK','KNOWN')):
        print(l)
        if 'replay=' in l:
            r=json.load(open(l.split('replay=')[1].split()[0]))
            if r.get('no_failing_input_found'):
                print('   l1:',[x[:160] for x in r['proof_obligations_not_checking'][:2]]); print('   l2:',sorted({b.get('stream') for b in r['correspondence_not_checking']}), [str(b.get('detail') or b.get('where'))[:300] for b in r['correspondence_not_checking'] if b.get('stream') in ('engine-exec','engine-scheduler-watchdog')][:2])
            else: print('   ',json.dumps(r['signature']),'|',r['what'][:160],'| occ',r['occurrences'])
e=json.load(open('/tmp/vw-eng3/evidence/%s.json'%prop)); print('  wall',e['wall_s'],'l2',sorted(set(e['coverage']['l2_broken'])))
