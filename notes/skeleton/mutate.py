import sys, subprocess
R='/tmp/skel-repo/internal/engine/command/'
def sub(f, old, new, count=1):
    s=open(R+f).read()
    assert s.count(old)>=1, (f, old)
    s=s.replace(old,new,count)
    open(R+f,'w').write(s)
def reset():
    subprocess.run(['git','-C','/tmp/skel-repo','checkout','-q','--','.'],check=True)
M={}
def m(name):
    def d(f): M[name]=f; return f
    return d
@m('M1-unlock-deferred')
def _():
    sub('commander.go','''		executionContext.keepUntilTerminated(func() {
			unlock(ctx)
		})
''','''		defer unlock(ctx)
''')
@m('M2-ref-release-deferred')
def _():
    sub('commander.go','''			executionContext.keepUntilTerminated(func() {
				commander.referencer.release(referenceTxReference, script.Reference)
			})
''','''			defer commander.referencer.release(referenceTxReference, script.Reference)
''')
@m('M3-publish-before-wait')
def _():
    sub('context.go','''	logging.FromContext(ctx).WithFields(map[string]any{
		"id": chainedLog.ID,
	}).Debugf("Appending log")
	return chainedLog, done, nil''','''	if tx != nil {
		e.commander.monitor.CommittedTransactions(ctx, *tx, nil)
	}
	return chainedLog, done, nil''')
@m('M4-dry-run-commits')
def _():
    sub('context.go','''		return log.ChainLog(nil), ret, nil''','''		return e.commander.commit(log, tx, func() {}), ret, nil''')
@m('M5-append-before-chain')
def _():
    sub('commander.go','''	commander.lastLog = log.ChainLog(commander.lastLog)
	commander.Append(commander.lastLog, onPersisted)
''','''	commander.Append(commander.lastLog, onPersisted)
	commander.lastLog = log.ChainLog(commander.lastLog)
''')
@m('M6-revert-id-not-compared')
def _():
    sub('commander.go','''	if !ok || payload.RevertedTransactionID.Cmp(transactionToRevert.ID) != 0 {''','''	if !ok {''')
@m('M7-wait-dropped')
def _():
    sub('context.go','''	<-done
''','''	_ = done
''')
@m('M8-ik-lookup-before-take')
def _():
    sub('context.go','''		verifhook.Yield(ctx, "ik-take")
		if err := e.commander.referencer.take(referenceIks, ik); err != nil {
			return nil, err
		}
		defer e.commander.referencer.release(referenceIks, ik)

		verifhook.Yield(ctx, "ik-lookup")
		chainedLog, err := e.commander.store.ReadLogWithIdempotencyKey(ctx, ik)
		if err == nil {
			return chainedLog, nil
		}
		if err != nil && !storageerrors.IsNotFoundError(err) {
			return nil, err
		}
''','''		verifhook.Yield(ctx, "ik-lookup")
		chainedLog, err := e.commander.store.ReadLogWithIdempotencyKey(ctx, ik)
		if err == nil {
			return chainedLog, nil
		}
		if err != nil && !storageerrors.IsNotFoundError(err) {
			return nil, err
		}
		verifhook.Yield(ctx, "ik-take")
		if err := e.commander.referencer.take(referenceIks, ik); err != nil {
			return nil, err
		}
		defer e.commander.referencer.release(referenceIks, ik)
''')
@m('M9-unknown-construct-goroutine')
def _():
    sub('context.go','''	verifhook.Yield(ctx, "commit")
	done := make(chan struct{})''','''	verifhook.Yield(ctx, "commit")
	go e.terminated()
	done := make(chan struct{})''')
@m('M10-new-store-call')
def _():
    sub('commander.go','''		program, err := commander.compiler.Compile(script.Plain)''','''		_, _ = commander.store.GetLastLog(ctx)
		program, err := commander.compiler.Compile(script.Plain)''')
@m('H1-helper-for-reference-check')
def _():
    sub('commander.go','''		if script.Reference != "" {
			verifhook.Yield(ctx, "ref-take")
			if err := commander.referencer.take(referenceTxReference, script.Reference); err != nil {
				return nil, nil, NewErrConflict()
			}
			// the reference stays reserved until the transaction is visible in the store
			executionContext.keepUntilTerminated(func() {
				commander.referencer.release(referenceTxReference, script.Reference)
			})

			verifhook.Yield(ctx, "ref-lookup")
			_, err := commander.store.GetTransactionByReference(ctx, script.Reference)
			if err == nil {
				return nil, nil, NewErrConflict()
			}
			if err != nil && !storageerrors.IsNotFoundError(err) {
				return nil, nil, err
			}
		}
''','''		if script.Reference != "" {
			if err := commander.reserveReference(ctx, executionContext, script.Reference); err != nil {
				return nil, nil, err
			}
		}
''')
    sub('commander.go','''func (commander *Commander) CreateTransaction(''','''func (commander *Commander) reserveReference(ctx context.Context, executionContext *executionContext, reference string) error {
	verifhook.Yield(ctx, "ref-take")
	if err := commander.referencer.take(referenceTxReference, reference); err != nil {
		return NewErrConflict()
	}
	// the reference stays reserved until the transaction is visible in the store
	executionContext.keepUntilTerminated(func() {
		commander.referencer.release(referenceTxReference, reference)
	})

	verifhook.Yield(ctx, "ref-lookup")
	_, err := commander.store.GetTransactionByReference(ctx, reference)
	if err == nil {
		return NewErrConflict()
	}
	if err != nil && !storageerrors.IsNotFoundError(err) {
		return err
	}
	return nil
}

func (commander *Commander) CreateTransaction(''')
@m('H2-compile-before-reference')
def _():
    blk='''		program, err := commander.compiler.Compile(script.Plain)
		if err != nil {
			return nil, nil, NewErrCompilationFailed(err)
		}

		m := vm.NewMachine(*program)

		if err := m.SetVarsFromJSON(script.Vars); err != nil {
			return nil, nil, NewErrCompilationFailed(err)
		}

'''
    sub('commander.go',blk,'')
    sub('commander.go','''		if script.Reference != "" {
			verifhook.Yield(ctx, "ref-take")''',blk+'''		if script.Reference != "" {
			verifhook.Yield(ctx, "ref-take")''')
@m('H3-wait-in-helper-and-early-else')
def _():
    sub('context.go','''	verifhook.Yield(ctx, "wait")
	<-done
	verifhook.Yield(ctx, "done")
''','''	e.awaitPersistence(ctx, done)
''')
    sub('context.go','''func newExecutionContext(''','''func (e *executionContext) awaitPersistence(ctx context.Context, done chan struct{}) {
	verifhook.Yield(ctx, "wait")
	<-done
	verifhook.Yield(ctx, "done")
}

func newExecutionContext(''')
if __name__=='__main__':
    reset()
    if sys.argv[1]!='reset':
        M[sys.argv[1]]()
        p=subprocess.run(['go','build','./internal/engine/command/'],cwd='/tmp/skel-repo',capture_output=True,text=True)
        print('go build rc',p.returncode,p.stderr[-500:])
