#!/bin/bash
# quick static look at one mutation: translate, evaluate the clauses natively
export GOFLAGS=-mod=mod GOPROXY=off GOSUMDB=off GOTOOLCHAIN=local
W=/tmp/vw-skel-mut
m=$1
python3 /tmp/skel-mut/mutate.py $m >/dev/null
rm -f $W/lean/Generated/Commander.lean
(cd $W/extract/commander && go build -o $W/build/extract-commander . ) || exit 1
if ! $W/build/extract-commander -repo /tmp/skel-repo -out $W/lean/Generated/Commander.lean -json $W/build/commander.json 2>/tmp/skel-mut/$m.err; then
  echo "$m: TRANSLATOR FAILS: $(head -c 400 /tmp/skel-mut/$m.err)"; exit 0
fi
(cd $W/lean && lake build driver_skel 2>&1 | grep -E "error" | head -5)
echo '{"id":0}' | $W/lean/.lake/build/bin/driver_skel skelsummary | python3 -c "
import json,sys
o=json.loads(sys.stdin.readline())['out']['entry_points']
print('$m:', {e['entry_point']: (e['paths'], e['failing_clauses']) for e in o})
"
