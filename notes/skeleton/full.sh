#!/bin/bash
export GOFLAGS=-mod=mod GOPROXY=off GOSUMDB=off GOTOOLCHAIN=local
cd /tmp/vw-skel-mut
: > /tmp/skel-mut/results.txt
while read m c; do
  python3 /tmp/skel-mut/mutate.py $m >/dev/null
  s=$(date +%s)
  out=$(VERIF_REPO=/tmp/skel-repo VERIF_SEED=1 bin/check $c quick 2>/tmp/skel-mut/$m.stderr | tail -3)
  e=$(date +%s)
  echo "== $m $c ($((e-s))s)" >> /tmp/skel-mut/results.txt
  echo "$out" >> /tmp/skel-mut/results.txt
  f=$(echo "$out" | grep -o 'replay=[^ ]*' | head -1 | cut -d= -f2)
  if [ -n "$f" ] && [ -f "$f" ]; then python3 - "$f" >> /tmp/skel-mut/results.txt <<'PY'
import json,sys
r=json.load(open(sys.argv[1]))
if r.get('no_failing_input_found'):
    print('  L1:', [x[:300] for x in r['proof_obligations_not_checking']])
    print('  L2:', sorted({b.get('stream') for b in r['correspondence_not_checking']}))
else:
    print('  concrete run found:', r.get('signature'), '|', r.get('what','')[:200])
PY
  fi
done <<'LIST'
M1-unlock-deferred C02
M2-ref-release-deferred C11
M3-publish-before-wait C16
M4-dry-run-commits C14
M5-append-before-chain C05
M6-revert-id-not-compared C10
M7-wait-dropped C06
M8-ik-lookup-before-take C07
M9-unknown-construct-goroutine C05
M10-new-store-call C05
H1-helper-for-reference-check C11
H2-compile-before-reference C05
H3-wait-in-helper-and-early-else C06
LIST
python3 /tmp/skel-mut/mutate.py reset
echo ALLDONE >> /tmp/skel-mut/results.txt
