import json, os, re, shutil, sys
# usage: seedkeep.py <prop> <k> "<needs>" [<source change dir>]   -> /verif/seeded/<prop>-<k>/
prop, k, needs = sys.argv[1], sys.argv[2], sys.argv[3]
src = sys.argv[4] if len(sys.argv) > 4 else "/tmp/seed-%s-out/change%s" % (prop.lower(), k)
dst = "/verif/seeded/%s-%s" % (prop, k)
os.makedirs(dst, exist_ok=True)
shutil.copy(src + "/patch.diff", dst + "/patch.diff")
if os.path.isdir(dst + "/demo"): shutil.rmtree(dst + "/demo")
shutil.copytree(src + "/demo", dst + "/demo")
if os.path.exists(src + "/README.md"): shutil.copy(src + "/README.md", dst + "/README.md")
res = open(src + "/verif-result.txt").read()
m = re.search(r"== demo on pristine worktree\nrc=(\d+)", res); p0 = int(m.group(1)) if m else None
m = re.search(r"== demo with patch\nrc=(\d+)", res); p1 = int(m.group(1)) if m else None
m = re.search(r"baseline: (.*)", res); base = m.group(1) if m else None
checks = {}
for m in re.finditer(r"--- (C\d+): (.*)\n(?:    signature: (.*)\n)?(?:    broken: (.*)\n)?", res):
    checks[m.group(1)] = {"verdict": m.group(2)[:160], "signature": (m.group(3) or "")[:400], "broken": (m.group(4) or "")[:400]}
for f in os.listdir(src):
    if f.startswith("replay-"): shutil.copy(src + "/" + f, dst + "/" + f)
meta = {"property": prop, "origin": "fresh sub-agent given only the property text and a scratch worktree of /repo (nothing from /verif)",
        "needs_in_order_to_manifest": needs,
        "confirmed": {"demo_rc_on_pristine_tree": p0, "demo_rc_with_patch": p1, "baseline_suite_with_patch": base,
                      "how": "bin/seedtest %s /tmp/seed-%s %s  (demo before/after in the scratch worktree, bin/baseline with VERIF_REPO=<worktree>, then git -C /repo apply, bin/check … quick, git -C /repo checkout -- .)" % (src, prop.lower(), " ".join(checks))},
        "checks": checks,
        "caught": all(v["verdict"].startswith("VIOLATION") for v in checks.values()) and bool(checks),
        "caught_with_concrete_replay": all(v["verdict"].startswith("VIOLATION") and "no-failing-input-found" not in v["verdict"] for v in checks.values()) and bool(checks)}
json.dump(meta, open(dst + "/meta.json", "w"), indent=1)
print(dst, meta["caught"], meta["caught_with_concrete_replay"])
