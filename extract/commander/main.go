// Command commander re-extracts, from the Go sources of the repository under test, the PROTOCOL SKELETON of the four
// write entry points of internal/engine/command (CreateTransaction, RevertTransaction, SaveMeta, DeleteMetadata) and
// writes it as lean/Generated/Commander.lean (statement language: lean/Model/Engine/Skel.lean).
//
// How it reads the code (go/ast + go/parser only, no type information):
//
//   - a statement is translated by its SHAPE: if / switch / return / defer / block / assignment / call / channel receive;
//     anything else (for, go, select, send, goto, labels, named results, …) makes the translation FAIL;
//   - a call is, in this order: a protocol ACTION (table `actions` below, recognised by the selector path of the callee:
//     `….referencer.take`, `….store.GetTransaction`, `….locker.Lock`, `….monitor.X`, `verifhook.Yield`, …), a PRIMITIVE of
//     the package whose body is compared with the text recorded here (Referencer.take/release, keepUntilTerminated,
//     terminated, Batcher.Append — a change there fails the translation: the model of the primitive has to be looked at),
//     a closure bound to a parameter or a function / method of the package — INLINED as a `scope` (so extracting a helper
//     does not change the paths) —, or a call that cannot touch the protocol: it mentions none of the commander's
//     resources (store, locker, referencer, monitor, mu, lastLog, lastTXID, the batcher, the registered releases), no
//     value derived from them (an Unlock, a channel, a closure) and neither the commander nor the execution context
//     itself.  Such calls are skipped and listed in the summary.  A call or an assignment that does mention a resource
//     and is not recognised FAILS the translation, with the construct and its position;
//   - a condition is `err`-like (it must test the error of the call just made — anything else fails), a known fact
//     about the request or an earlier answer (table `atoms`, matched on the expression after parameters and
//     single-assignment locals were replaced by what they stand for), or unknown — then it is kept as `opaque` (both
//     branches are possible every time it is evaluated: an over-approximation);
//   - values: channels, the chained log, looked-up values and the entry point's parameters are followed through
//     assignments, parameter passing and returns as `assign` statements; the arguments of a publication are traced back
//     through selectors / type assertions / dereferences to such a variable (`Prov.of variable path`).
//
// Output is deterministic (no positions, no map iteration).  Standard library only.
// usage: commander -repo <dir> -out <Commander.lean> [-json <summary.json>]
package main

import (
	"bytes"
	"encoding/json"
	"flag"
	"fmt"
	"go/ast"
	"go/parser"
	"go/printer"
	"go/token"
	"os"
	"path/filepath"
	"regexp"
	"sort"
	"strconv"
	"strings"
)

const pkgDir = "internal/engine/command"
const batcherFile = "internal/engine/utils/batching/batcher.go"

var entryPoints = []string{"CreateTransaction", "RevertTransaction", "SaveMeta", "DeleteMetadata"}

// fields of Commander / executionContext / Batcher through which the protocol state is reached
var resourceFields = map[string]bool{"store": true, "locker": true, "referencer": true, "monitor": true, "mu": true, "lastLog": true,
	"lastTXID": true, "Batcher": true, "commander": true, "onTerminated": true, "running": true, "pending": true, "Runner": true}

// types whose values give access to the resources
var resourceTypes = map[string]bool{"*Commander": true, "*executionContext": true, "Commander": true, "executionContext": true,
	"Store": true, "Locker": true, "*Referencer": true, "bus.Monitor": true}

// the primitives: (receiver, name) -> body text as printed by go/printer.  If the body in the repository differs, the
// hand-written meaning of the primitive (Skel.lean: take / release / keep / terminated / append) may no longer be right.
var primitives = map[string]string{
	"Referencer.take": `{
	_, loaded := r.references[ref].LoadOrStore(fmt.Sprintf("%d/%s", ref, key), struct{}{})
	if loaded {
		return errors.New("already taken")
	}
	return nil
}`,
	"Referencer.release": `{
	r.references[ref].Delete(fmt.Sprintf("%d/%s", ref, key))
}`,
	"executionContext.keepUntilTerminated": `{
	e.onTerminated = append(e.onTerminated, release)
}`,
	"executionContext.terminated": `{
	for i := len(e.onTerminated) - 1; i >= 0; i-- {
		e.onTerminated[i]()
	}
	e.onTerminated = nil
}`,
	"Batcher.Append": `{
	s.mu.Lock()
	s.pending = append(s.pending, &pending[T]{
		callback: callback,
		object:   object,
	})
	s.mu.Unlock()
	s.Runner.Next()
}`,
}

var refKinds = map[string]string{"referenceIks": ".iks", "referenceTxReference": ".txref", "referenceReverts": ".reverts"}

// facts about the request or an earlier answer; matched on the canonical text of the condition
var atoms = []struct {
	re   *regexp.Regexp
	name string
	neg  bool
}{
	{regexp.MustCompile(`(^|\.)parameters\.DryRun$`), "dry", false},
	{regexp.MustCompile(`(^|\.)parameters\.IdempotencyKey != ""$`), "ik≠''", false},
	{regexp.MustCompile(`(^|\.)parameters\.IdempotencyKey == ""$`), "ik≠''", true},
	{regexp.MustCompile(`^script\.Reference != ""$`), "ref≠''", false},
	{regexp.MustCompile(`^script\.Reference == ""$`), "ref≠''", true},
	{regexp.MustCompile(`^script\.Script\.Plain == ""$`), "no-script", false},
	{regexp.MustCompile(`^script\.Timestamp\.IsZero\(\)$`), "ts-zero", false},
	{regexp.MustCompile(`^tx != nil$`), "tx≠nil", false},
	{regexp.MustCompile(`^tx == nil$`), "tx≠nil", true},
	{regexp.MustCompile(`^len\(result\.Postings\) == 0$`), "no-postings", false},
	{regexp.MustCompile(`^transactionToRevert\.Reverted$`), "reverted", false},
	{regexp.MustCompile(`^payload\.RevertedTransactionID\.Cmp\(transactionToRevert\.ID\) != 0$`), "payload-id=lookup-id", true},
	{regexp.MustCompile(`^payload\.RevertedTransactionID\.Cmp\(transactionToRevert\.ID\) == 0$`), "payload-id=lookup-id", false},
}

// ------------------------------------------------------------------------------------------------ skeleton tree

type stmt interface{}
type sAct struct{ a string }
type sAssign struct {
	x    string
	v    string // Lean text of the Val
	from string // variable read ("" = none)
}
type sIte struct {
	c    string
	t, e []stmt
}
type sRet struct{ r string }
type sDefer struct{ acts []string }
type sKeep struct{ acts []string }
type sScope struct {
	name string
	body []stmt
}
type sPanic struct{ why string }

// ------------------------------------------------------------------------------------------------ translator state

type binding struct {
	lit    *ast.FuncLit // a closure
	ext    string       // a function value from another package (rendered)
	expr   ast.Expr     // what a parameter / single-assignment local stands for (selector paths only)
	unlock bool         // the Unlock returned by locker.Lock
	atom   string       // the identifier is a named condition
}

type fctx struct {
	label   string
	targets []string // where the caller wants the results ("" = nowhere)
	nres    int
	errIdx  int // position of the error result, -1 = none
}

type translator struct {
	fset       *token.FileSet
	funcs      map[string]*ast.FuncDecl // "Recv.Name" or "Name"
	pureFuncs  map[string]bool          // functions of errors.go: constructors and predicates of error values
	imports    map[string]bool          // package names imported by the files of the package
	names      map[*ast.Object]string
	usedNames  map[string]bool
	bind       map[*ast.Object]*binding
	reassigned map[*ast.Object]bool
	resObjs    map[*ast.Object]bool
	stack      []string
	errObj     *ast.Object
	errFresh   bool
	reads      map[string]bool // followed variables some action reads
	chanVars   map[string]bool // followed variables that hold a channel
	// summary
	inlined  map[string]bool
	skipped  map[string]bool
	opaques  map[string]bool
	atomsHit map[string]bool
	yields   map[string][]string
	nActs    map[string]int
	cur      string // entry point being translated
}

func (t *translator) pos(n ast.Node) string {
	p := t.fset.Position(n.Pos())
	return fmt.Sprintf("%s:%d:%d", filepath.Base(p.Filename), p.Line, p.Column)
}

type failure struct{ msg string }

func (t *translator) fail(n ast.Node, format string, a ...any) {
	panic(failure{fmt.Sprintf("%s: %s", t.pos(n), fmt.Sprintf(format, a...))})
}

func (t *translator) src(n ast.Node) string {
	var b bytes.Buffer
	_ = printer.Fprint(&b, t.fset, n)
	return b.String()
}

func oneLine(s string) string { return strings.Join(strings.Fields(s), " ") }

// ------------------------------------------------------------------------------------------------ loading

func recvName(fd *ast.FuncDecl) string {
	if fd.Recv == nil || len(fd.Recv.List) == 0 {
		return ""
	}
	ty := fd.Recv.List[0].Type
	if s, ok := ty.(*ast.StarExpr); ok {
		ty = s.X
	}
	if ix, ok := ty.(*ast.IndexExpr); ok {
		ty = ix.X
	}
	if id, ok := ty.(*ast.Ident); ok {
		return id.Name
	}
	return "?"
}

func (t *translator) load(repo string) {
	dir := filepath.Join(repo, pkgDir)
	ents, err := os.ReadDir(dir)
	if err != nil {
		panic(failure{err.Error()})
	}
	var files []string
	for _, e := range ents {
		if strings.HasSuffix(e.Name(), ".go") && !strings.HasSuffix(e.Name(), "_test.go") {
			files = append(files, e.Name())
		}
	}
	sort.Strings(files)
	parsed := map[string]*ast.File{}
	for _, f := range files {
		af, err := parser.ParseFile(t.fset, filepath.Join(dir, f), nil, 0)
		if err != nil {
			panic(failure{err.Error()})
		}
		parsed[filepath.Join(dir, f)] = af
		for _, im := range af.Imports {
			p, _ := strconv.Unquote(im.Path.Value)
			n := p[strings.LastIndex(p, "/")+1:]
			if im.Name != nil {
				n = im.Name.Name
			}
			t.imports[n] = true
		}
	}
	// resolve package-level identifiers across the files of the package (deprecated API, still the only
	// type-free way to get cross-file objects)
	_, _ = ast.NewPackage(t.fset, parsed, nil, nil) //nolint:staticcheck
	for _, f := range files {
		af := parsed[filepath.Join(dir, f)]
		for _, d := range af.Decls {
			fd, ok := d.(*ast.FuncDecl)
			if !ok || fd.Body == nil {
				continue
			}
			key := fd.Name.Name
			if r := recvName(fd); r != "" {
				key = r + "." + key
			}
			if _, dup := t.funcs[key]; dup {
				t.fail(fd, "two declarations of %s", key)
			}
			t.funcs[key] = fd
			if f == "errors.go" {
				t.pureFuncs[fd.Name.Name] = true
			}
		}
		// identifiers assigned with `=` are never replaced by their definition
		ast.Inspect(af, func(n ast.Node) bool {
			switch x := n.(type) {
			case *ast.AssignStmt:
				if x.Tok != token.DEFINE {
					for _, l := range x.Lhs {
						if id, ok := l.(*ast.Ident); ok && id.Obj != nil {
							t.reassigned[id.Obj] = true
						}
					}
				}
			case *ast.IncDecStmt:
				if id, ok := x.X.(*ast.Ident); ok && id.Obj != nil {
					t.reassigned[id.Obj] = true
				}
			case *ast.UnaryExpr:
				if x.Op == token.AND {
					if id, ok := x.X.(*ast.Ident); ok && id.Obj != nil {
						t.reassigned[id.Obj] = true
					}
				}
			}
			return true
		})
	}
	// the batcher: only Append is used by the commander, as a primitive
	bf, err := parser.ParseFile(t.fset, filepath.Join(repo, batcherFile), nil, 0)
	if err != nil {
		panic(failure{err.Error()})
	}
	for _, d := range bf.Decls {
		if fd, ok := d.(*ast.FuncDecl); ok && fd.Body != nil && recvName(fd) == "Batcher" && fd.Name.Name == "Append" {
			t.funcs["Batcher.Append"] = fd
		}
	}
	var keys []string
	for k := range primitives {
		keys = append(keys, k)
	}
	sort.Strings(keys)
	for _, k := range keys {
		fd := t.funcs[k]
		if fd == nil {
			panic(failure{"primitive " + k + " not found"})
		}
		if got := t.src(fd.Body); oneLine(got) != oneLine(primitives[k]) {
			t.fail(fd, "the body of the primitive %s changed; its hand-written meaning (Model/Engine/Skel.lean) has to be reviewed and the text recorded in extract/commander updated.\n--- now:\n%s\n--- recorded:\n%s", k, got, primitives[k])
		}
	}
}

// ------------------------------------------------------------------------------------------------ names and rendering

func (t *translator) name(id *ast.Ident, label string) string {
	if id.Obj == nil {
		return label + "." + id.Name
	}
	if n, ok := t.names[id.Obj]; ok {
		return n
	}
	base := label + "." + id.Name
	n := base
	for k := 2; t.usedNames[n]; k++ {
		n = fmt.Sprintf("%s#%d", base, k)
	}
	t.usedNames[n] = true
	t.names[id.Obj] = n
	return n
}

func isPath(e ast.Expr) bool {
	switch x := e.(type) {
	case *ast.Ident:
		return true
	case *ast.SelectorExpr:
		return isPath(x.X)
	case *ast.StarExpr:
		return isPath(x.X)
	case *ast.ParenExpr:
		return isPath(x.X)
	}
	return false
}

// canonical text: parameters and single-assignment locals that stand for a selector path are replaced by it
func (t *translator) canon(e ast.Expr) string {
	switch x := e.(type) {
	case *ast.Ident:
		if x.Obj != nil && !t.reassigned[x.Obj] {
			if b := t.bind[x.Obj]; b != nil && b.expr != nil {
				return t.canon(b.expr)
			}
		}
		return x.Name
	case *ast.SelectorExpr:
		return t.canon(x.X) + "." + x.Sel.Name
	case *ast.StarExpr:
		return "*" + t.canon(x.X)
	case *ast.ParenExpr:
		return "(" + t.canon(x.X) + ")"
	case *ast.UnaryExpr:
		return x.Op.String() + t.canon(x.X)
	case *ast.BinaryExpr:
		return t.canon(x.X) + " " + x.Op.String() + " " + t.canon(x.Y)
	case *ast.CallExpr:
		var as []string
		for _, a := range x.Args {
			as = append(as, t.canon(a))
		}
		return t.canon(x.Fun) + "(" + strings.Join(as, ", ") + ")"
	case *ast.TypeAssertExpr:
		return t.canon(x.X) + ".(" + oneLine(t.src(x.Type)) + ")"
	case *ast.BasicLit:
		return x.Value
	}
	return oneLine(t.src(e))
}

func lstr(s string) string { return strconv.Quote(s) }

// ------------------------------------------------------------------------------------------------ resources

func typeText(e ast.Expr) string {
	switch x := e.(type) {
	case *ast.Ident:
		return x.Name
	case *ast.StarExpr:
		return "*" + typeText(x.X)
	case *ast.SelectorExpr:
		return typeText(x.X) + "." + x.Sel.Name
	}
	return "?"
}

// does the expression reach the protocol state?  (a resource field, a value of a resource type, a value derived from one)
func (t *translator) mentionsResource(e ast.Node) (string, bool) {
	why, hit := "", false
	ast.Inspect(e, func(n ast.Node) bool {
		if hit {
			return false
		}
		switch x := n.(type) {
		case *ast.SelectorExpr:
			if resourceFields[x.Sel.Name] {
				why, hit = "field ."+x.Sel.Name, true
				return false
			}
			if id, ok := x.X.(*ast.Ident); ok && id.Obj != nil && t.resObjs[id.Obj] {
				return false // a plain field (the parameters) of the commander / execution context
			}
		case *ast.Ident:
			if x.Obj != nil {
				if t.resObjs[x.Obj] {
					why, hit = "value "+x.Name+" of a resource type", true
				}
				if b := t.bind[x.Obj]; b != nil && (b.unlock || b.lit != nil) {
					why, hit = "value "+x.Name+" (an Unlock or a closure)", true
				}
				if n, ok := t.names[x.Obj]; ok && t.chanVars[n] {
					why, hit = "channel "+x.Name, true
				}
			}
		case *ast.FuncLit:
			why, hit = "a function literal", true
		case *ast.UnaryExpr:
			if x.Op == token.ARROW {
				why, hit = "a channel receive", true
			}
		}
		return true
	})
	return why, hit
}

func (t *translator) markParams(ft *ast.FuncType, recv *ast.FieldList) {
	mark := func(fl *ast.FieldList) {
		if fl == nil {
			return
		}
		for _, f := range fl.List {
			if resourceTypes[typeText(f.Type)] {
				for _, n := range f.Names {
					if n.Obj != nil {
						t.resObjs[n.Obj] = true
					}
				}
			}
		}
	}
	mark(recv)
	mark(ft.Params)
}

// ------------------------------------------------------------------------------------------------ expressions

// every call inside a value expression must be unable to touch the protocol
func (t *translator) requirePure(e ast.Expr) {
	if e == nil {
		return
	}
	ast.Inspect(e, func(n ast.Node) bool {
		c, ok := n.(*ast.CallExpr)
		if !ok {
			return true
		}
		t.requirePureCall(c)
		return true
	})
	if why, hit := t.mentionsResource(e); hit {
		t.fail(e, "expression `%s` mentions a protocol resource (%s) in a place the translator does not understand", oneLine(t.src(e)), why)
	}
}

func (t *translator) requirePureCall(c *ast.CallExpr) {
	switch f := c.Fun.(type) {
	case *ast.Ident:
		if f.Obj != nil {
			if b := t.bind[f.Obj]; b != nil && b.ext != "" {
				t.skipped[b.ext] = true
				return
			}
			if b := t.bind[f.Obj]; b != nil && (b.lit != nil || b.unlock) {
				t.fail(c, "call of %s inside an expression", f.Name)
			}
		}
		if t.pureFuncs[f.Name] {
			t.skipped[f.Name] = true
			return
		}
		if _, ok := t.funcs[f.Name]; ok {
			t.fail(c, "call of the package function %s inside an expression (only statement-level calls are inlined)", f.Name)
		}
		switch f.Name {
		case "len", "append", "make", "new", "string", "int", "int64", "cap":
			return
		}
		t.fail(c, "call of unknown function %s", f.Name)
	case *ast.SelectorExpr:
		if root, ok := f.X.(*ast.Ident); ok && root.Obj == nil && t.imports[root.Name] {
			switch root.Name + "." + f.Sel.Name {
			case "verifhook.Yield", "vm.Run":
				t.fail(c, "%s.%s inside an expression", root.Name, f.Sel.Name)
			}
			t.skipped[root.Name+"."+f.Sel.Name] = true
			return
		}
		if why, hit := t.mentionsResource(f.X); hit {
			t.fail(c, "call `%s` on a protocol resource (%s) is not a known action", oneLine(t.src(c.Fun)), why)
		}
		for _, k := range []string{"Commander." + f.Sel.Name, "executionContext." + f.Sel.Name} {
			if _, ok := t.funcs[k]; ok {
				t.fail(c, "call of the package method %s inside an expression (only statement-level calls are inlined)", k)
			}
		}
		t.skipped["(value)."+f.Sel.Name] = true
		return
	case *ast.ArrayType, *ast.MapType, *ast.ParenExpr, *ast.StarExpr: // conversions
		return
	}
	t.fail(c, "call `%s` has a callee the translator does not understand", oneLine(t.src(c.Fun)))
}

var reLastLog = regexp.MustCompile(`(^|\.)commander\.lastLog$`)
var reLastTXID = regexp.MustCompile(`(^|\.)commander\.lastTXID$`)

func isNil(e ast.Expr) bool {
	id, ok := e.(*ast.Ident)
	return ok && id.Name == "nil" && id.Obj == nil
}

// the value of an expression as far as it is followed: (Lean Val, variable read)
func (t *translator) valOf(e ast.Expr, fc *fctx, target string) (string, string) {
	switch x := e.(type) {
	case *ast.ParenExpr:
		return t.valOf(x.X, fc, target)
	case *ast.Ident:
		if isNil(x) {
			return ".nil", ""
		}
		if x.Obj != nil {
			if b := t.bind[x.Obj]; b != nil && (b.lit != nil || b.unlock || b.ext != "") {
				t.fail(e, "the function value %s is used as a plain value", x.Name)
			}
		}
		n := t.name(x, fc.label)
		return ".var " + lstr(n), n
	case *ast.SelectorExpr:
		if reLastLog.MatchString(t.canon(x)) {
			return `.var "commander.lastLog"`, "commander.lastLog"
		}
	case *ast.CallExpr:
		if s, ok := x.Fun.(*ast.SelectorExpr); ok && s.Sel.Name == "ChainLog" && len(x.Args) == 1 && isNil(x.Args[0]) {
			t.requirePure(s.X)
			return `.site "preview"`, ""
		}
		if id, ok := x.Fun.(*ast.Ident); ok && id.Name == "make" && id.Obj == nil && len(x.Args) == 1 {
			if _, ok := x.Args[0].(*ast.ChanType); ok {
				if target == "" {
					t.fail(e, "a channel is made but not kept in a variable")
				}
				t.chanVars[target] = true
				return `.site ` + lstr("chan:"+target), ""
			}
		}
	}
	if cl := compositeOfResource(e); cl != nil {
		// construction of an execution context: its fields are paths (the commander, the parameters) or plain values
		for _, el := range cl.Elts {
			kv, ok := el.(*ast.KeyValueExpr)
			if !ok {
				t.fail(el, "positional field in the construction of a resource value")
			}
			t.requirePureOrValue(kv.Value)
		}
		return `.site "value"`, ""
	}
	t.requirePure(e)
	return `.site "value"`, ""
}

func compositeOfResource(e ast.Expr) *ast.CompositeLit {
	if u, ok := e.(*ast.UnaryExpr); ok && u.Op == token.AND {
		e = u.X
	}
	cl, ok := e.(*ast.CompositeLit)
	if !ok || cl.Type == nil || !resourceTypes[typeText(cl.Type)] {
		return nil
	}
	return cl
}

// where a publication argument comes from
func (t *translator) provOf(e ast.Expr, fc *fctx) string {
	var path func(e ast.Expr) (string, string, bool)
	path = func(e ast.Expr) (string, string, bool) {
		switch x := e.(type) {
		case *ast.ParenExpr:
			return path(x.X)
		case *ast.StarExpr:
			return path(x.X)
		case *ast.SelectorExpr:
			v, p, ok := path(x.X)
			return v, p + "." + x.Sel.Name, ok
		case *ast.TypeAssertExpr:
			v, p, ok := path(x.X)
			return v, p + ".(" + oneLine(t.src(x.Type)) + ")", ok
		case *ast.CallExpr: // a rendering wrapper around one value
			if len(x.Args) == 1 {
				t.requirePureCall(x)
				return path(x.Args[0])
			}
		case *ast.Ident:
			if x.Obj != nil && !t.reassigned[x.Obj] {
				if as, ok := x.Obj.Decl.(*ast.AssignStmt); ok && as.Tok == token.DEFINE && len(as.Rhs) == 1 {
					if l0, ok := as.Lhs[0].(*ast.Ident); ok && l0.Obj == x.Obj {
						switch as.Rhs[0].(type) {
						case *ast.TypeAssertExpr, *ast.SelectorExpr, *ast.StarExpr, *ast.Ident:
							return path(as.Rhs[0])
						}
					}
				}
			}
			if x.Obj != nil {
				n := t.name(x, fc.label)
				t.reads[n] = true
				return n, "", true
			}
		}
		return "", "", false
	}
	if v, p, ok := path(e); ok {
		return fmt.Sprintf(".of %s %s", lstr(v), lstr(p))
	}
	t.requirePure(e)
	return ".other " + lstr(oneLine(t.src(e)))
}

// ------------------------------------------------------------------------------------------------ conditions

func (t *translator) isErrIdent(e ast.Expr) (bool, *ast.Ident) {
	id, ok := e.(*ast.Ident)
	if !ok || id.Obj == nil {
		return false, nil
	}
	if t.errObj != nil && id.Obj == t.errObj {
		return true, id
	}
	if id.Name == "err" {
		return true, id
	}
	return false, nil
}

func (t *translator) needFresh(id *ast.Ident) {
	if !(t.errFresh && t.errObj != nil && id.Obj == t.errObj) {
		t.fail(id, "`%s` is tested or returned here, but it is not the error of the call made just before (another call lies in between, or it was assigned elsewhere)", id.Name)
	}
}

func (t *translator) cond(e ast.Expr, fc *fctx) string {
	switch x := e.(type) {
	case *ast.ParenExpr:
		return t.cond(x.X, fc)
	case *ast.UnaryExpr:
		if x.Op == token.NOT {
			return "(.not " + t.cond(x.X, fc) + ")"
		}
	case *ast.BinaryExpr:
		switch x.Op {
		case token.LAND:
			return "(.and " + t.cond(x.X, fc) + " " + t.cond(x.Y, fc) + ")"
		case token.LOR:
			return "(.or " + t.cond(x.X, fc) + " " + t.cond(x.Y, fc) + ")"
		case token.EQL, token.NEQ:
			a, b := x.X, x.Y
			if isNil(a) {
				a, b = b, a
			}
			if isNil(b) {
				if is, id := t.isErrIdent(a); is {
					t.needFresh(id)
					if x.Op == token.EQL {
						return ".ok"
					}
					return "(.not .ok)"
				}
			}
		}
	case *ast.CallExpr:
		if oneLine(t.src(x.Fun)) == "storageerrors.IsNotFoundError" && len(x.Args) == 1 {
			if is, id := t.isErrIdent(x.Args[0]); is {
				t.needFresh(id)
				return ".notFound"
			}
			t.fail(x, "IsNotFoundError of something that is not the fresh error")
		}
	case *ast.Ident:
		if x.Obj != nil {
			if b := t.bind[x.Obj]; b != nil && b.atom != "" {
				t.atomsHit[b.atom] = true
				return "(.atom " + lstr(b.atom) + ")"
			}
		}
	}
	t.requirePure(e)
	c := t.canon(e)
	for _, a := range atoms {
		if a.re.MatchString(c) {
			t.atomsHit[a.name] = true
			if a.neg {
				return "(.not (.atom " + lstr(a.name) + "))"
			}
			return "(.atom " + lstr(a.name) + ")"
		}
	}
	t.opaques[c] = true
	return "(.opaque " + lstr(c) + ")"
}

// ------------------------------------------------------------------------------------------------ calls

type action struct {
	re     *regexp.Regexp
	errIdx int // which result is the error (-1: none)
	make   func(t *translator, c *ast.CallExpr, fc *fctx) string
}

func kindOf(t *translator, c *ast.CallExpr) (string, string) {
	if len(c.Args) != 2 {
		t.fail(c, "take/release with %d arguments", len(c.Args))
	}
	id, ok := c.Args[0].(*ast.Ident)
	if !ok || refKinds[id.Name] == "" {
		t.fail(c, "unknown reservation kind `%s`", oneLine(t.src(c.Args[0])))
	}
	t.requirePure(c.Args[1])
	return refKinds[id.Name], t.canon(c.Args[1])
}

func keyArg(t *translator, c *ast.CallExpr) string {
	if len(c.Args) != 2 {
		t.fail(c, "store lookup with %d arguments", len(c.Args))
	}
	t.requirePure(c.Args[1])
	return t.canon(c.Args[1])
}

func pureArgs(t *translator, c *ast.CallExpr, from int) {
	for _, a := range c.Args[from:] {
		t.requirePure(a)
	}
}

var actions = []action{
	{regexp.MustCompile(`^verifhook\.Yield$`), -1, func(t *translator, c *ast.CallExpr, fc *fctx) string {
		lit, ok := c.Args[1].(*ast.BasicLit)
		if !ok || lit.Kind != token.STRING {
			t.fail(c, "Yield point is not a string literal")
		}
		pt, _ := strconv.Unquote(lit.Value)
		t.yields[t.cur] = append(t.yields[t.cur], pt)
		return ".yield " + lstr(pt)
	}},
	{regexp.MustCompile(`(^|\.)referencer\.take$`), 0, func(t *translator, c *ast.CallExpr, fc *fctx) string {
		k, key := kindOf(t, c)
		return ".take " + k + " " + lstr(key)
	}},
	{regexp.MustCompile(`(^|\.)referencer\.release$`), -1, func(t *translator, c *ast.CallExpr, fc *fctx) string {
		k, key := kindOf(t, c)
		return ".release " + k + " " + lstr(key)
	}},
	{regexp.MustCompile(`(^|\.)store\.ReadLogWithIdempotencyKey$`), 1, func(t *translator, c *ast.CallExpr, fc *fctx) string {
		return ".readIk " + lstr(keyArg(t, c))
	}},
	{regexp.MustCompile(`(^|\.)store\.GetTransactionByReference$`), 1, func(t *translator, c *ast.CallExpr, fc *fctx) string {
		return ".readRef " + lstr(keyArg(t, c))
	}},
	{regexp.MustCompile(`(^|\.)store\.GetTransaction$`), 1, func(t *translator, c *ast.CallExpr, fc *fctx) string {
		return ".readTx " + lstr(keyArg(t, c))
	}},
	{regexp.MustCompile(`(^|\.)compiler\.Compile$`), 1, func(t *translator, c *ast.CallExpr, fc *fctx) string {
		pureArgs(t, c, 0)
		return ".compile"
	}},
	{regexp.MustCompile(`^\w+\.SetVarsFromJSON$`), 0, func(t *translator, c *ast.CallExpr, fc *fctx) string {
		pureArgs(t, c, 0)
		return ".setVars"
	}},
	{regexp.MustCompile(`^\w+\.ResolveResources$`), 2, func(t *translator, c *ast.CallExpr, fc *fctx) string {
		if len(c.Args) != 2 || !regexp.MustCompile(`(^|\.)commander\.store$`).MatchString(t.canon(c.Args[1])) {
			t.fail(c, "ResolveResources not over the commander's store")
		}
		return ".resolve"
	}},
	{regexp.MustCompile(`(^|\.)locker\.Lock$`), 1, func(t *translator, c *ast.CallExpr, fc *fctx) string {
		pureArgs(t, c, 0)
		return ".lock"
	}},
	{regexp.MustCompile(`^\w+\.ResolveBalances$`), 0, func(t *translator, c *ast.CallExpr, fc *fctx) string {
		if len(c.Args) != 2 || !regexp.MustCompile(`(^|\.)commander\.store$`).MatchString(t.canon(c.Args[1])) {
			t.fail(c, "ResolveBalances not over the commander's store")
		}
		return ".readBalances"
	}},
	{regexp.MustCompile(`^vm\.Run$`), 1, func(t *translator, c *ast.CallExpr, fc *fctx) string {
		pureArgs(t, c, 0)
		return ".vmRun"
	}},
	{regexp.MustCompile(`(^|\.)commander\.mu\.Lock$`), -1, func(t *translator, c *ast.CallExpr, fc *fctx) string { return ".muLock" }},
	{regexp.MustCompile(`(^|\.)commander\.mu\.Unlock$`), -1, func(t *translator, c *ast.CallExpr, fc *fctx) string { return ".muUnlock" }},
	{regexp.MustCompile(`(^|\.)commander\.Append$`), -1, func(t *translator, c *ast.CallExpr, fc *fctx) string {
		if len(c.Args) != 2 {
			t.fail(c, "Append with %d arguments", len(c.Args))
		}
		_, from := t.valOf(c.Args[0], fc, "")
		if from == "" {
			t.fail(c, "the appended log `%s` is not a followed variable", oneLine(t.src(c.Args[0])))
		}
		t.reads[from] = true
		var lit *ast.FuncLit
		switch a := c.Args[1].(type) {
		case *ast.FuncLit:
			lit = a
		case *ast.Ident:
			if a.Obj != nil && t.bind[a.Obj] != nil {
				lit = t.bind[a.Obj].lit
			}
		}
		if lit == nil {
			t.fail(c, "the callback of Append is not a closure the translator can see")
		}
		var closes []string
		for _, s := range lit.Body.List {
			es, ok := s.(*ast.ExprStmt)
			if !ok {
				t.fail(s, "the Append callback contains something else than close(channel)")
			}
			cl, ok := es.X.(*ast.CallExpr)
			if !ok {
				t.fail(s, "the Append callback contains something else than close(channel)")
			}
			id, ok := cl.Fun.(*ast.Ident)
			if !ok || id.Name != "close" || id.Obj != nil || len(cl.Args) != 1 {
				t.fail(s, "the Append callback contains something else than close(channel)")
			}
			ch, ok := cl.Args[0].(*ast.Ident)
			if !ok {
				t.fail(s, "close of something that is not a variable")
			}
			n := t.name(ch, fc.label)
			t.reads[n] = true
			closes = append(closes, lstr(n))
		}
		return ".append " + lstr(from) + " [" + strings.Join(closes, ", ") + "]"
	}},
	{regexp.MustCompile(`(^|\.)monitor\.\w+$`), -1, func(t *translator, c *ast.CallExpr, fc *fctx) string {
		kind := c.Fun.(*ast.SelectorExpr).Sel.Name
		var args []string
		for i, a := range c.Args {
			if i == 0 && t.canon(a) == "ctx" {
				continue
			}
			args = append(args, t.provOf(a, fc))
		}
		return ".publish " + lstr(kind) + " [" + strings.Join(args, ", ") + "]"
	}},
}

func (t *translator) findAction(c *ast.CallExpr) *action {
	callee := t.canon(c.Fun)
	for i := range actions {
		if actions[i].re.MatchString(callee) {
			return &actions[i]
		}
	}
	return nil
}

func (t *translator) emitAct(a string, out *[]stmt) {
	*out = append(*out, sAct{a})
	t.nActs[t.cur]++
}

// an action with results invalidates the error that was fresh
func (t *translator) afterCall() {
	t.errObj, t.errFresh = nil, false
}

func (t *translator) setErr(lhs []ast.Expr, idx int) {
	if idx >= 0 && idx < len(lhs) {
		if id, ok := lhs[idx].(*ast.Ident); ok && id.Name != "_" && id.Obj != nil {
			t.errObj, t.errFresh = id.Obj, true
		}
	}
}

// a simple action as the body of a defer / keepUntilTerminated closure
func (t *translator) simpleAct(c *ast.CallExpr, fc *fctx) string {
	if id, ok := c.Fun.(*ast.Ident); ok && id.Obj != nil {
		if b := t.bind[id.Obj]; b != nil && b.unlock {
			return ".unlock"
		}
	}
	if s, ok := c.Fun.(*ast.SelectorExpr); ok && s.Sel.Name == "terminated" && t.isCtxRecv(s.X) {
		return ".terminated"
	}
	if a := t.findAction(c); a != nil && a.errIdx < 0 {
		act := a.make(t, c, fc)
		if strings.HasPrefix(act, ".release") || act == ".muUnlock" {
			return act
		}
	}
	t.fail(c, "a deferred / registered call that is not a release, an unlock, mu.Unlock or terminated(): `%s`", oneLine(t.src(c)))
	return ""
}

func (t *translator) isCtxRecv(e ast.Expr) bool {
	if id, ok := e.(*ast.Ident); ok && id.Obj != nil {
		return t.resObjs[id.Obj]
	}
	return false
}

// statement-level call; lhs may be nil; targets are where the results go
func (t *translator) call(c *ast.CallExpr, lhs []ast.Expr, targets []string, fc *fctx, out *[]stmt) {
	// builtins with a protocol meaning
	if id, ok := c.Fun.(*ast.Ident); ok && id.Obj == nil {
		switch id.Name {
		case "close":
			ch, ok := c.Args[0].(*ast.Ident)
			if !ok {
				t.fail(c, "close of something that is not a variable")
			}
			n := t.name(ch, fc.label)
			t.reads[n] = true
			t.emitAct(".chanClose "+lstr(n), out)
			return
		case "panic":
			*out = append(*out, sPanic{oneLine(t.src(c.Args[0]))})
			return
		}
	}
	// the Unlock returned by the locker
	if id, ok := c.Fun.(*ast.Ident); ok && id.Obj != nil {
		if b := t.bind[id.Obj]; b != nil {
			switch {
			case b.unlock:
				t.emitAct(".unlock", out)
				return
			case b.lit != nil:
				t.inline("closure:"+id.Name, b.lit.Type, nil, nil, b.lit.Body, c, targets, lhs, fc, out)
				return
			case b.ext != "":
				for _, a := range c.Args {
					t.requirePure(a)
				}
				t.skipped[b.ext] = true
				t.assignOpaque(targets, out)
				return
			}
		}
	}
	// protocol actions
	if a := t.findAction(c); a != nil {
		act := a.make(t, c, fc)
		t.emitAct(act, out)
		if a.errIdx >= 0 {
			t.afterCall()
			t.setErr(lhs, a.errIdx)
		}
		switch {
		case strings.HasPrefix(act, ".readIk"):
			t.assignSite(targets, 0, "ikRead", out)
		case strings.HasPrefix(act, ".readRef"):
			t.assignSite(targets, 0, "refRead", out)
		case strings.HasPrefix(act, ".readTx"):
			t.assignSite(targets, 0, "txRead", out)
		case act == ".lock":
			if len(lhs) > 0 {
				if id, ok := lhs[0].(*ast.Ident); ok && id.Name != "_" && id.Obj != nil {
					t.bind[id.Obj] = &binding{unlock: true}
				}
			}
		}
		return
	}
	// primitives and functions of the package
	if s, ok := c.Fun.(*ast.SelectorExpr); ok {
		if t.isCtxRecv(s.X) || reCommander.MatchString(t.canon(s.X)) {
			switch s.Sel.Name {
			case "keepUntilTerminated":
				lit, ok := c.Args[0].(*ast.FuncLit)
				if !ok || len(c.Args) != 1 {
					t.fail(c, "keepUntilTerminated of something that is not a function literal")
				}
				var acts []string
				for _, st := range lit.Body.List {
					es, ok := st.(*ast.ExprStmt)
					if !ok {
						t.fail(st, "a registered release contains a statement that is not a call")
					}
					cl, ok := es.X.(*ast.CallExpr)
					if !ok {
						t.fail(st, "a registered release contains a statement that is not a call")
					}
					acts = append(acts, t.simpleAct(cl, fc))
				}
				*out = append(*out, sKeep{acts})
				return
			case "terminated":
				t.emitAct(".terminated", out)
				return
			}
			for _, k := range []string{"Commander." + s.Sel.Name, "executionContext." + s.Sel.Name} {
				if fd, ok := t.funcs[k]; ok {
					t.inline(k, fd.Type, fd.Recv, s.X, fd.Body, c, targets, lhs, fc, out)
					return
				}
			}
			t.fail(c, "call `%s` on the commander / execution context: neither a known action nor a method of the package", oneLine(t.src(c.Fun)))
		}
	}
	if id, ok := c.Fun.(*ast.Ident); ok {
		if fd, ok := t.funcs[id.Name]; ok && !t.pureFuncs[id.Name] && fd.Recv == nil {
			t.inline(id.Name, fd.Type, nil, nil, fd.Body, c, targets, lhs, fc, out)
			return
		}
	}
	// cannot touch the protocol
	t.requirePureCall(c)
	for _, a := range c.Args {
		t.requirePure(a)
	}
	if s, ok := c.Fun.(*ast.SelectorExpr); ok {
		t.requirePure(s.X)
	}
	t.assignOpaque(targets, out)
}

// a call of a function / method of the package that would be inlined
func (t *translator) isPackageCall(c *ast.CallExpr) bool {
	if s, ok := c.Fun.(*ast.SelectorExpr); ok && (t.isCtxRecv(s.X) || reCommander.MatchString(t.canon(s.X))) {
		for _, k := range []string{"Commander." + s.Sel.Name, "executionContext." + s.Sel.Name} {
			if _, ok := t.funcs[k]; ok {
				return true
			}
		}
	}
	if id, ok := c.Fun.(*ast.Ident); ok {
		if id.Obj != nil && t.bind[id.Obj] != nil && t.bind[id.Obj].lit != nil {
			return true
		}
		if fd, ok := t.funcs[id.Name]; ok && !t.pureFuncs[id.Name] && fd.Recv == nil {
			return true
		}
	}
	return false
}

var reCommander = regexp.MustCompile(`(^|\.)commander$`)

func (t *translator) assignSite(targets []string, i int, site string, out *[]stmt) {
	if i < len(targets) && targets[i] != "" {
		*out = append(*out, sAssign{targets[i], ".site " + lstr(site), ""})
	}
}

func (t *translator) assignOpaque(targets []string, out *[]stmt) {
	for i := range targets {
		t.assignSite(targets, i, "value", out)
	}
}

func (t *translator) inline(label string, ft *ast.FuncType, recv *ast.FieldList, recvArg ast.Expr, body *ast.BlockStmt, c *ast.CallExpr,
	targets []string, lhs []ast.Expr, fc *fctx, out *[]stmt) {
	for _, s := range t.stack {
		if s == label {
			t.fail(c, "recursive call of %s", label)
		}
	}
	t.inlined[label] = true
	nfc := &fctx{label: strings.TrimPrefix(strings.TrimPrefix(label, "Commander."), "executionContext."), errIdx: -1}
	if ft.Results != nil {
		for _, f := range ft.Results.List {
			if len(f.Names) > 0 {
				t.fail(f, "named results are not supported (%s)", label)
			}
			if typeText(f.Type) == "error" {
				nfc.errIdx = nfc.nres
			}
			if resourceTypes[typeText(f.Type)] && nfc.nres < len(lhs) {
				if id, ok := lhs[nfc.nres].(*ast.Ident); ok && id.Obj != nil {
					t.resObjs[id.Obj] = true
				}
			}
			nfc.nres++
		}
	}
	nfc.targets = make([]string, nfc.nres)
	copy(nfc.targets, targets)
	t.markParams(ft, recv)
	var pre []stmt
	bindParam := func(p *ast.Ident, arg ast.Expr) {
		if p.Obj == nil || p.Name == "_" {
			t.requirePureOrValue(arg)
			return
		}
		switch a := arg.(type) {
		case *ast.FuncLit:
			t.bind[p.Obj] = &binding{lit: a}
			return
		case *ast.Ident:
			if a.Obj != nil {
				if b := t.bind[a.Obj]; b != nil && (b.lit != nil || b.ext != "" || b.unlock) {
					t.bind[p.Obj] = b
					return
				}
			}
			if a.Obj == nil && !isNil(a) {
				if _, ok := t.funcs[a.Name]; ok {
					t.fail(arg, "a function of the package passed as a value (%s)", a.Name)
				}
			}
		case *ast.SelectorExpr:
			if root, ok := a.X.(*ast.Ident); ok && root.Obj == nil && t.imports[root.Name] && !isPathValue(a) {
				t.bind[p.Obj] = &binding{ext: root.Name + "." + a.Sel.Name}
				return
			}
		}
		if isPath(arg) && !t.reassigned[p.Obj] {
			t.bind[p.Obj] = &binding{expr: arg}
		}
		if _, isRes := t.mentionsResource(arg); isRes && isPath(arg) {
			t.resObjs[p.Obj] = true
			return
		}
		v, from := t.valOf(arg, fc, "")
		pre = append(pre, sAssign{t.name(p, nfc.label), v, from})
	}
	if recv != nil && len(recv.List) == 1 && len(recv.List[0].Names) == 1 {
		bindParam(recv.List[0].Names[0], recvArg)
	}
	var params []*ast.Ident
	if ft.Params != nil {
		for _, f := range ft.Params.List {
			if len(f.Names) == 0 {
				t.fail(f, "unnamed parameter (%s)", label)
			}
			params = append(params, f.Names...)
		}
	}
	if len(params) != len(c.Args) {
		t.fail(c, "%s called with %d arguments, declared with %d (variadic calls are not supported)", label, len(c.Args), len(params))
	}
	for i, p := range params {
		bindParam(p, c.Args[i])
	}
	*out = append(*out, pre...)
	t.stack = append(t.stack, label)
	t.afterCall()
	var inner []stmt
	t.block(body.List, nfc, &inner)
	t.stack = t.stack[:len(t.stack)-1]
	*out = append(*out, sScope{label, inner})
	t.afterCall()
	t.setErr(lhs, nfc.errIdx)
	if nfc.errIdx >= 0 && lhs == nil && fc.errIdx >= 0 {
		// tail call: the caller's own error position receives it (see ret)
		t.errFresh = false
	}
}

// selectors like ledger.NewTransactionLog are function values, not paths into a value
func isPathValue(s *ast.SelectorExpr) bool { return false }

func (t *translator) requirePureOrValue(e ast.Expr) {
	if _, ok := e.(*ast.FuncLit); ok {
		return
	}
	if isPath(e) {
		return
	}
	t.requirePure(e)
}

// ------------------------------------------------------------------------------------------------ statements

func (t *translator) block(list []ast.Stmt, fc *fctx, out *[]stmt) {
	for _, s := range list {
		t.stmt(s, fc, out)
	}
}

func (t *translator) targetsOf(lhs []ast.Expr, fc *fctx) []string {
	ts := make([]string, len(lhs))
	for i, l := range lhs {
		if id, ok := l.(*ast.Ident); ok && id.Name != "_" {
			ts[i] = t.name(id, fc.label)
		} else if s, ok := l.(*ast.SelectorExpr); ok && reLastLog.MatchString(t.canon(s)) {
			ts[i] = "commander.lastLog"
		}
	}
	return ts
}

func (t *translator) assign(s *ast.AssignStmt, fc *fctx, out *[]stmt) {
	if s.Tok != token.DEFINE && s.Tok != token.ASSIGN {
		t.fail(s, "compound assignment")
	}
	// the statements of the commit section, recognised by their text
	if len(s.Lhs) == 1 && len(s.Rhs) == 1 {
		l, r := t.canon(s.Lhs[0]), t.canon(s.Rhs[0])
		switch {
		case reLastTXID.MatchString(l):
			if r != "big.NewInt(0).Add("+l+", big.NewInt(1))" || s.Tok != token.ASSIGN {
				t.fail(s, "lastTXID is assigned something else than lastTXID + 1: `%s`", r)
			}
			t.emitAct(".allocTxid", out)
			return
		case regexp.MustCompile(`^\w+\.ID$`).MatchString(l) && regexp.MustCompile(`^big\.NewInt\(0\)\.Set\((\w+\.)*commander\.lastTXID\)$`).MatchString(r):
			t.emitAct(".stampTxid", out)
			return
		case reLastLog.MatchString(l):
			if !regexp.MustCompile(`^\w+\.ChainLog\(` + regexp.QuoteMeta(l) + `\)$`).MatchString(r) {
				t.fail(s, "lastLog is assigned something else than log.ChainLog(lastLog): `%s`", r)
			}
			t.emitAct(".chainLog", out)
			*out = append(*out, sAssign{"commander.lastLog", `.site "chained"`, ""})
			return
		case regexp.MustCompile(`^(\w+) = `).MatchString(l+" = ") && regexp.MustCompile(`^`+regexp.QuoteMeta(l)+`\.WithIdempotencyKey\((\w+\.)*parameters\.IdempotencyKey\)$`).MatchString(r):
			t.emitAct(".setIk", out)
			return
		}
	}
	if len(s.Rhs) == 1 {
		switch r := s.Rhs[0].(type) {
		case *ast.CallExpr:
			if !t.isValueCall(r) {
				t.call(r, s.Lhs, t.targetsOf(s.Lhs, fc), fc, out)
				return
			}
		case *ast.TypeAssertExpr:
			if len(s.Lhs) == 2 {
				t.requirePure(r)
				if id, ok := s.Lhs[1].(*ast.Ident); ok && id.Obj != nil && id.Name != "_" {
					if regexp.MustCompile(`^\w+\.Data\.\(ledger\.\w+Payload\)$`).MatchString(t.canon(r)) && s.Tok == token.DEFINE {
						t.bind[id.Obj] = &binding{atom: "payload-kind-ok"}
					}
				}
				return
			}
		case *ast.UnaryExpr:
			if r.Op == token.ARROW {
				t.fail(s, "a channel receive whose value is used")
			}
		}
	}
	if len(s.Lhs) != len(s.Rhs) {
		t.fail(s, "assignment of %d values to %d places", len(s.Rhs), len(s.Lhs))
	}
	for i, l := range s.Lhs {
		switch lv := l.(type) {
		case *ast.Ident:
			if lv.Name == "_" {
				t.requirePure(s.Rhs[i])
				continue
			}
			n := t.name(lv, fc.label)
			v, from := t.valOf(s.Rhs[i], fc, n)
			*out = append(*out, sAssign{n, v, from})
			if s.Tok == token.DEFINE && lv.Obj != nil && isPath(s.Rhs[i]) && !t.reassigned[lv.Obj] {
				t.bind[lv.Obj] = &binding{expr: s.Rhs[i]}
				if _, isRes := t.mentionsResource(s.Rhs[i]); isRes {
					t.resObjs[lv.Obj] = true
				}
			}
		default:
			// a field / element of a local value
			if why, hit := t.mentionsResource(l); hit {
				t.fail(s, "assignment to `%s` (%s) is not a known protocol step", oneLine(t.src(l)), why)
			}
			t.requirePure(s.Rhs[i])
		}
	}
}

// a call that is a plain value: make(chan), x.ChainLog(nil)
func (t *translator) isValueCall(c *ast.CallExpr) bool {
	if id, ok := c.Fun.(*ast.Ident); ok && id.Obj == nil && id.Name == "make" {
		return true
	}
	if s, ok := c.Fun.(*ast.SelectorExpr); ok && s.Sel.Name == "ChainLog" && len(c.Args) == 1 && isNil(c.Args[0]) {
		return true
	}
	return false
}

func (t *translator) ret(s *ast.ReturnStmt, fc *fctx, out *[]stmt) {
	if len(s.Results) == 1 && fc.nres > 1 {
		// return f(...): the callee's results are the caller's
		c, ok := s.Results[0].(*ast.CallExpr)
		if !ok {
			t.fail(s, "one value returned for %d results", fc.nres)
		}
		t.call(c, nil, fc.targets, fc, out)
		*out = append(*out, sRet{".same"})
		return
	}
	if len(s.Results) != fc.nres {
		t.fail(s, "return of %d values from a function with %d results", len(s.Results), fc.nres)
	}
	r := ".ok"
	for i, e := range s.Results {
		if i == fc.errIdx {
			switch x := e.(type) {
			case *ast.Ident:
				switch {
				case isNil(x):
					r = ".ok"
				case x.Obj != nil && x.Obj.Kind == ast.Var && x.Obj.Decl != nil && t.isPackageVar(x):
					r = ".err " + lstr(x.Name)
				default:
					t.needFresh(x)
					r = ".same"
				}
			case *ast.CallExpr:
				t.requirePure(stripFreshErr(t, x))
				r = ".err " + lstr(t.canon(x.Fun))
			default:
				t.fail(e, "an error value the translator does not understand: `%s`", oneLine(t.src(e)))
			}
			continue
		}
		// peekTXID: the only value that is read from the commander's position without being a followed variable
		if regexp.MustCompile(`^big\.NewInt\(0\)\.Add\((\w+\.)*commander\.lastTXID, big\.NewInt\(1\)\)$`).MatchString(t.canon(e)) {
			t.emitAct(".peekTxid", out)
			continue
		}
		tgt := ""
		if i < len(fc.targets) {
			tgt = fc.targets[i]
		}
		if c, ok := e.(*ast.CallExpr); ok && !t.isValueCall(c) {
			if a := t.findAction(c); a != nil {
				t.fail(e, "a protocol action inside a return expression")
			}
			if t.isPackageCall(c) { // return f(x), y, nil: the call is made first
				t.call(c, nil, []string{tgt}, fc, out)
				continue
			}
		}
		if tgt != "" {
			v, from := t.valOf(e, fc, tgt)
			*out = append(*out, sAssign{tgt, v, from})
		} else if len(t.stack) == 1 && !isNil(e) {
			// what the entry point hands back to its caller
			t.emitAct(".answer ("+t.provOf(e, fc)+")", out)
		} else {
			t.requirePureOrFollowed(e, fc)
		}
	}
	*out = append(*out, sRet{r})
}

// errors.Wrap(err, "...") and NewErrX(err) take the fresh error as an argument: that is a pure use
func stripFreshErr(t *translator, c *ast.CallExpr) ast.Expr {
	for _, a := range c.Args {
		if is, id := t.isErrIdent(a); is {
			t.needFresh(id)
		}
	}
	return c
}

func (t *translator) isPackageVar(x *ast.Ident) bool {
	_, ok := x.Obj.Decl.(*ast.ValueSpec)
	if !ok {
		return false
	}
	return strings.HasPrefix(x.Name, "Err")
}

func (t *translator) requirePureOrFollowed(e ast.Expr, fc *fctx) {
	if isPath(e) {
		if _, hit := t.mentionsResource(e); hit {
			if reLastLog.MatchString(t.canon(e)) {
				return
			}
		} else {
			return
		}
	}
	if c, ok := e.(*ast.CallExpr); ok && t.isValueCall(c) {
		return
	}
	t.requirePure(e)
}

func (t *translator) stmt(s ast.Stmt, fc *fctx, out *[]stmt) {
	switch x := s.(type) {
	case *ast.EmptyStmt:
	case *ast.BlockStmt:
		t.block(x.List, fc, out)
	case *ast.ExprStmt:
		switch e := x.X.(type) {
		case *ast.CallExpr:
			t.call(e, nil, nil, fc, out)
		case *ast.UnaryExpr:
			if e.Op != token.ARROW {
				t.fail(s, "expression statement `%s`", oneLine(t.src(s)))
			}
			ch, ok := e.X.(*ast.Ident)
			if !ok {
				t.fail(s, "receive from something that is not a variable")
			}
			n := t.name(ch, fc.label)
			t.reads[n] = true
			t.emitAct(".wait "+lstr(n), out)
		default:
			t.fail(s, "expression statement `%s`", oneLine(t.src(s)))
		}
	case *ast.AssignStmt:
		t.assign(x, fc, out)
	case *ast.DeclStmt:
		gd, ok := x.Decl.(*ast.GenDecl)
		if !ok || gd.Tok != token.VAR {
			t.fail(s, "declaration `%s`", oneLine(t.src(s)))
		}
		for _, sp := range gd.Specs {
			vs := sp.(*ast.ValueSpec)
			for i, n := range vs.Names {
				if i < len(vs.Values) {
					nm := t.name(n, fc.label)
					v, from := t.valOf(vs.Values[i], fc, nm)
					*out = append(*out, sAssign{nm, v, from})
				}
			}
		}
	case *ast.IfStmt:
		if x.Init != nil {
			t.stmt(x.Init, fc, out)
		}
		// a parameter that was given the literal nil: the test is decided at the call site
		if cc := t.canon(x.Cond); cc == "nil != nil" || cc == "nil == nil" {
			if cc == "nil == nil" {
				t.block(x.Body.List, fc, out)
			} else if x.Else != nil {
				t.stmt(x.Else, fc, out)
			}
			return
		}
		c := t.cond(x.Cond, fc)
		// the error stays fresh in both branches until the next call
		eo, ef := t.errObj, t.errFresh
		var th, el []stmt
		t.block(x.Body.List, fc, &th)
		t.errObj, t.errFresh = eo, ef
		if x.Else != nil {
			t.stmt(x.Else, fc, &el)
			t.errObj, t.errFresh = eo, ef
		}
		if containsCall(th) || containsCall(el) {
			// after a branch that made a call the old error is not the most recent one any more
			t.errFresh = false
		}
		if len(th) == 0 && len(el) == 0 {
			return // nothing protocol-relevant depends on the test
		}
		*out = append(*out, sIte{c, th, el})
	case *ast.SwitchStmt:
		if x.Init != nil || x.Tag == nil {
			t.fail(s, "switch with an init statement or without a tag")
		}
		t.requirePure(x.Tag)
		tag := t.canon(x.Tag)
		type arm struct {
			conds []string
			body  []stmt
		}
		var arms []arm
		var def []stmt
		hasDef := false
		for _, cc := range x.Body.List {
			cl := cc.(*ast.CaseClause)
			var body []stmt
			for _, bs := range cl.Body {
				if br, ok := bs.(*ast.BranchStmt); ok {
					t.fail(br, "%s in a switch", br.Tok)
				}
			}
			eo, ef := t.errObj, t.errFresh
			t.block(cl.Body, fc, &body)
			t.errObj, t.errFresh = eo, ef
			if containsCall(body) {
				ef = false
			}
			if cl.List == nil {
				def, hasDef = body, true
				continue
			}
			var cs []string
			for _, e := range cl.List {
				t.requirePure(e)
				a := tag + "=" + t.canon(e)
				t.atomsHit[a] = true
				cs = append(cs, "(.atom "+lstr(a)+")")
			}
			arms = append(arms, arm{cs, body})
		}
		_ = hasDef
		t.errFresh = false
		cur := def
		for i := len(arms) - 1; i >= 0; i-- {
			c := arms[i].conds[0]
			for _, o := range arms[i].conds[1:] {
				c = "(.or " + c + " " + o + ")"
			}
			cur = []stmt{sIte{c, arms[i].body, cur}}
		}
		*out = append(*out, cur...)
	case *ast.ReturnStmt:
		t.ret(x, fc, out)
	case *ast.DeferStmt:
		*out = append(*out, sDefer{[]string{t.simpleAct(x.Call, fc)}})
	default:
		t.fail(s, "statement the translator does not understand: `%s`", oneLine(t.src(s)))
	}
}

func containsCall(ss []stmt) bool {
	for _, s := range ss {
		switch x := s.(type) {
		case sAct:
			return true
		case sScope:
			return true
		case sIte:
			if containsCall(x.t) || containsCall(x.e) {
				return true
			}
		}
	}
	return false
}

// ------------------------------------------------------------------------------------------------ output

func (t *translator) live(ss []stmt) {
	for changed := true; changed; {
		changed = false
		var walk func(ss []stmt)
		walk = func(ss []stmt) {
			for _, s := range ss {
				switch x := s.(type) {
				case sAssign:
					if t.reads[x.x] && x.from != "" && !t.reads[x.from] {
						t.reads[x.from] = true
						changed = true
					}
				case sIte:
					walk(x.t)
					walk(x.e)
				case sScope:
					walk(x.body)
				}
			}
		}
		walk(ss)
	}
}

func (t *translator) print(ss []stmt, ind string, b *strings.Builder) {
	var items []string
	for _, s := range ss {
		switch x := s.(type) {
		case sAct:
			items = append(items, ind+".act ("+x.a+")")
		case sAssign:
			if t.reads[x.x] {
				items = append(items, ind+".assign "+lstr(x.x)+" ("+x.v+")")
			}
		case sRet:
			items = append(items, ind+".ret ("+x.r+")")
		case sDefer:
			items = append(items, ind+".defer ["+strings.Join(x.acts, ", ")+"]")
		case sKeep:
			items = append(items, ind+".keep ["+strings.Join(x.acts, ", ")+"]")
		case sPanic:
			items = append(items, ind+".panic "+lstr(x.why))
		case sIte:
			var tb, eb strings.Builder
			t.print(x.t, ind+"    ", &tb)
			t.print(x.e, ind+"    ", &eb)
			items = append(items, ind+".ite "+x.c+"\n"+ind+"  (block [\n"+tb.String()+ind+"  ])\n"+ind+"  (block [\n"+eb.String()+ind+"  ])")
		case sScope:
			var sb strings.Builder
			t.print(x.body, ind+"  ", &sb)
			items = append(items, ind+".scope "+lstr(x.name)+" (block [\n"+sb.String()+ind+"])")
		}
	}
	for i, it := range items {
		b.WriteString(it)
		if i < len(items)-1 {
			b.WriteString(",")
		}
		b.WriteString("\n")
	}
}

func sortedKeys(m map[string]bool) []string {
	var ks []string
	for k := range m {
		ks = append(ks, k)
	}
	sort.Strings(ks)
	return ks
}

func lowerFirst(s string) string { return strings.ToLower(s[:1]) + s[1:] }

func run(repo, out, js string) (err error) {
	defer func() {
		if r := recover(); r != nil {
			if f, ok := r.(failure); ok {
				err = fmt.Errorf("%s", f.msg)
				return
			}
			panic(r)
		}
	}()
	t := &translator{fset: token.NewFileSet(), funcs: map[string]*ast.FuncDecl{}, pureFuncs: map[string]bool{}, imports: map[string]bool{},
		names: map[*ast.Object]string{}, usedNames: map[string]bool{}, bind: map[*ast.Object]*binding{}, reassigned: map[*ast.Object]bool{},
		resObjs: map[*ast.Object]bool{}, reads: map[string]bool{}, inlined: map[string]bool{}, skipped: map[string]bool{}, opaques: map[string]bool{},
		atomsHit: map[string]bool{}, yields: map[string][]string{}, nActs: map[string]int{}, chanVars: map[string]bool{}}
	t.load(repo)
	var b strings.Builder
	b.WriteString("import Model.Engine.Skel\n")
	b.WriteString("/-! GENERATED by extract/commander (go/ast) from " + pkgDir + "/*.go of the repository under test, on every run of the\nengine checks.  Do not edit; not committed.  The statement language and its meaning: Model/Engine/Skel.lean. -/\n")
	b.WriteString("namespace Generated.Commander\nopen Engine.Skel\n\n")
	bodies := map[string][]stmt{}
	for _, ep := range entryPoints {
		fd := t.funcs["Commander."+ep]
		if fd == nil {
			return fmt.Errorf("entry point Commander.%s not found", ep)
		}
		t.cur = ep
		fc := &fctx{label: ep, errIdx: -1}
		for _, f := range fd.Type.Results.List {
			if len(f.Names) > 0 {
				t.fail(f, "named results are not supported (%s)", ep)
			}
			if typeText(f.Type) == "error" {
				fc.errIdx = fc.nres
			}
			fc.nres++
		}
		fc.targets = make([]string, fc.nres)
		t.markParams(fd.Type, fd.Recv)
		var body []stmt
		for _, f := range fd.Type.Params.List {
			for _, n := range f.Names {
				if n.Obj != nil && !t.resObjs[n.Obj] {
					body = append(body, sAssign{t.name(n, ep), ".site " + lstr("req:"+n.Name), ""})
				}
			}
		}
		t.stack = []string{"Commander." + ep}
		t.afterCall()
		t.block(fd.Body.List, fc, &body)
		bodies[ep] = body
	}
	for _, ep := range entryPoints {
		t.live(bodies[ep])
	}
	for _, ep := range entryPoints {
		b.WriteString("/-- `Commander." + ep + "` -/\ndef " + lowerFirst(ep) + " : Stmt := block [\n")
		t.print(bodies[ep], "  ", &b)
		b.WriteString("]\n\n")
	}
	b.WriteString("def entryPoints : List (String × Stmt) := [")
	for i, ep := range entryPoints {
		if i > 0 {
			b.WriteString(", ")
		}
		b.WriteString("(" + lstr(ep) + ", " + lowerFirst(ep) + ")")
	}
	b.WriteString("]\n\nend Generated.Commander\n")
	if err := os.WriteFile(out, []byte(b.String()), 0o644); err != nil {
		return err
	}
	if js != "" {
		var prims []string
		for k := range primitives {
			prims = append(prims, k)
		}
		sort.Strings(prims)
		sum := map[string]any{"entry_points": entryPoints, "inlined": sortedKeys(t.inlined), "primitives_checked": prims,
			"calls_skipped_as_unable_to_touch_the_protocol": sortedKeys(t.skipped), "atoms": sortedKeys(t.atomsHit),
			"opaque_conditions": sortedKeys(t.opaques), "yield_points": t.yields, "actions": t.nActs}
		bs, _ := json.MarshalIndent(sum, "", " ")
		if err := os.WriteFile(js, bs, 0o644); err != nil {
			return err
		}
	}
	return nil
}

func main() {
	repo := flag.String("repo", "/repo", "")
	out := flag.String("out", "", "")
	js := flag.String("json", "", "")
	flag.Parse()
	if *out == "" {
		fmt.Fprintln(os.Stderr, "extract-commander: -out is required")
		os.Exit(1)
	}
	if err := run(*repo, *out, *js); err != nil {
		_ = os.Remove(*out)
		fmt.Fprintln(os.Stderr, "extract-commander: "+err.Error())
		os.Exit(1)
	}
}
