module verif/extract/commander

go 1.23
