#!/usr/bin/env python3-vt
"""PL/pgSQL -> Lean transliteration of internal/storage/ledgerstore/migrations/0-init-schema.sql (C04, stage 2).

usage: translate.py <schema.sql> <out.lean> <summary.json>

Only syntax is translated: one Lean structure per table, one Lean definition per function / trigger, as applications of the
combinators of lean/Model/Store/Sql.lean (which fixes what they MEAN and is trusted base).  Anything outside the grammar
below, any unknown function call, any name that cannot be resolved unambiguously stops the translator with an error that
names the construct: nothing is ever skipped silently.  What is deliberately not translated is listed by name in
UNTRANSLATED_READ (read-side `language sql` functions with CTEs / aggregates / distinct on / lateral) and IGNORED_DDL."""
import hashlib
import json
import re
import sys

from lark import Lark, Token, Tree


class Unsupported(Exception):
    pass


# ---------------------------------------------------------------- top level: split the file into statements

def strip_comments(src):
    out, i, n = [], 0, len(src)
    while i < n:
        if src.startswith("--", i):
            while i < n and src[i] != "\n":
                i += 1
        elif src.startswith("/*", i):
            j = src.find("*/", i + 2)
            if j < 0:
                raise Unsupported("unterminated /* comment")
            i = j + 2
        elif src[i] == "'":
            j = i + 1
            while True:
                if j >= n:
                    raise Unsupported("unterminated string literal")
                if src[j] == "'":
                    if j + 1 < n and src[j + 1] == "'":
                        j += 2
                        continue
                    break
                j += 1
            out.append(src[i:j + 1])
            i = j + 1
        else:
            out.append(src[i])
            i += 1
    return "".join(out)


def split_statements(src):
    stmts, cur, i, n, depth = [], [], 0, len(src), 0
    while i < n:
        if src.startswith("$$", i):
            j = src.find("$$", i + 2)
            if j < 0:
                raise Unsupported("unterminated $$ body")
            cur.append(src[i:j + 2])
            i = j + 2
        elif src[i] == "'":
            j = src.index("'", i + 1)
            cur.append(src[i:j + 1])
            i = j + 1
        elif src[i] == ";" and depth == 0:
            s = "".join(cur).strip()
            if s:
                stmts.append(s)
            cur = []
            i += 1
        else:
            if src[i] == "(":
                depth += 1
            elif src[i] == ")":
                depth -= 1
            cur.append(src[i])
            i += 1
    s = "".join(cur).strip()
    if s:
        stmts.append(s)
    return stmts


IGNORED_DDL = [r"create\s+aggregate\b", r"create\s+(unique\s+)?index\b", r"create\s+type\s+\w+\s+as\s+enum\b",
               r"create\s+type\s+account_with_volumes\b", r"create\s+type\s+volumes_with_asset\b"]

# read-side functions that are outside the translated subset (they do not take part in the projection of the log)
UNTRANSLATED_READ = {"first_agg", "array_distinct", "balance_from_volumes", "get_all_assets", "get_all_account_effective_volumes",
                     "get_all_account_volumes", "volumes_to_jsonb", "get_account_aggregated_effective_volumes",
                     "get_account_aggregated_volumes", "aggregate_ledger_volumes", "get_aggregated_effective_volumes_for_transaction",
                     "get_aggregated_volumes_for_transaction", "get_transaction", "get_latest_move_for_account_and_asset"}
# `language sql` functions translated by NAME to a Lean function of Sql.lean (their bodies use window functions)
BY_NAME = {"explode_address": "Sql.explodeAddress"}

LEAN_RESERVED = {"end", "from", "at", "with", "do", "then", "else", "if", "in", "open", "section", "namespace", "instance", "class",
                 "structure", "def", "theorem", "fun", "let", "have", "show", "by", "match", "where", "import", "export", "private",
                 "protected", "mutual", "deriving", "universe", "variable", "example", "axiom", "inductive", "set_option", "local",
                 "macro", "syntax", "notation", "infix", "prefix", "postfix", "attribute", "using", "calc", "return", "for", "unless",
                 "try", "catch", "finally", "mut", "break", "continue", "nomatch", "forall", "exists", "Type", "Prop", "Sort"}


def lid(name):
    return "«%s»" % name if name in LEAN_RESERVED else name


# ---------------------------------------------------------------- grammar of function bodies

GRAMMAR = r"""
plpgsql: declare? "begin" stmt* "end" ";"?
sqlbody: update_stmt ";"? | select_one ";"?

declare: "declare" decl+
decl: NAME type ("=" expr)? ";"
type: NAME ("without" "time" "zone")?

?stmt: select_into | if_stmt | assign | insert_stmt | update_stmt ";" | perform | for_loop | return_stmt

select_into: "select" select_list into? "from" table_ref where? order? limit? into? ";"
select_one: "select" select_list "from" table_ref where? order? limit?
into: "into" lvalue ("," lvalue)*
select_list: expr ("," expr)*
table_ref: NAME NAME?
where: "where" expr
order: "order" "by" order_item ("," order_item)*
order_item: expr DIR?
DIR: "asc" | "desc"
limit: "limit" NUMBER

if_stmt: "if" expr "then" block ("else" block)? "end" "if" ";"
block: stmt*
assign: lvalue "=" expr ";"
lvalue: NAME ("." NAME)?
insert_stmt: "insert" "into" NAME "(" name_list ")" "values" "(" expr_list ")" on_conflict? returning? ";"
on_conflict: "on" "conflict" "(" name_list ")" "do" "update" "set" set_list where?
returning: "returning" NAME "into" NAME
update_stmt: "update" NAME "set" set_list where
set_list: set_item ("," set_item)*
set_item: NAME "=" expr
perform: "perform" call ";"
for_loop: "for" name_list "in" "(" loop_query ")" "loop" block "end" "loop" ";"
loop_query: "select" call -> loop_elements
          | "select" "*" "from" call -> loop_each
return_stmt: "return" NAME ";"
name_list: NAME ("," NAME)*
expr_list: expr ("," expr)*

subselect: "select" select_list ("as" NAME)? ("from" from_item)? where? order? limit?
from_item: call NAME -> from_call
         | NAME NAME? -> from_table

?expr: or_e
?or_e: and_e | or_e "or" and_e -> or_
?and_e: not_e | and_e "and" not_e -> and_
?not_e: "not" not_e -> not_ | is_e
?is_e: cmp_e | cmp_e "is" "null" -> is_null | cmp_e "is" "not" "null" -> is_not_null
?cmp_e: oth_e | oth_e CMP oth_e -> cmp
?oth_e: add_e | oth_e OTHOP add_e -> binop
?add_e: cast_e | add_e ADDOP cast_e -> binop
?cast_e: atom | cast_e "::" type -> cast
?atom: call
     | "case" "when" expr "then" expr "else" expr "end" -> case_
     | "(" expr_list ")" ("." NAME)? -> paren
     | "(" subselect ")" -> scalar_sub
     | STRING -> string
     | NUMBER -> number
     | "true" -> true
     | "false" -> false
     | "null" -> null
     | "found" -> found
     | NAME ("." NAME)? -> qname
call: NAME "(" [expr_list] ")"

CMP: "<=" | ">=" | "<>" | "=" | "<" | ">"
OTHOP: "->>" | "->" | "||" | "@>"
ADDOP: "+" | "-"
NAME: /[a-z_][a-z_0-9]*/
STRING: /'[^']*'/
NUMBER: /[0-9]+/
%import common.WS
%ignore WS
"""

PARSER_PL = Lark(GRAMMAR, start="plpgsql", parser="lalr", maybe_placeholders=False)
PARSER_SQL = Lark(GRAMMAR, start="sqlbody", parser="lalr", maybe_placeholders=False)


def lower_outside_strings(s):
    out, i, n = [], 0, len(s)
    while i < n:
        if s[i] == "'":
            j = s.index("'", i + 1)
            out.append(s[i:j + 1])
            i = j + 1
        else:
            out.append(s[i].lower())
            i += 1
    return "".join(out)


# ---------------------------------------------------------------- schema objects

class Table:
    def __init__(self, name, cols):
        self.name, self.cols = name, cols      # cols: list of (name, type, default-lean)
        self.after_insert, self.after_update = [], []

    @property
    def row(self):
        return "".join(p.capitalize() for p in self.name.split("_")) + "Row"

    def colnames(self):
        return [c[0] for c in self.cols]


class Func:
    def __init__(self, name, params, ret, lang, body):
        self.name, self.params, self.ret, self.lang, self.body = name, params, ret, lang, body
        self.trigger_table = None
        self.deps = set()
        self.lean = None


COL_TYPES = {"bigserial", "varchar", "numeric", "timestamp", "jsonb", "boolean", "bigint", "volumes", "log_type", "bytea"}


def parse_default(d):
    d = d.strip()
    if d == "'{}'::jsonb":
        return "Val.json (J.obj [])"
    if re.fullmatch(r"[0-9]+", d):
        return "Val.int %s" % d
    if d == "null":
        return "Val.null"
    raise Unsupported("column default %r" % d)


def parse_table(stmt):
    m = re.fullmatch(r"create\s+table\s+(\w+)\s*\((.*)\)", stmt, re.S)
    if not m:
        raise Unsupported("create table shape: %s" % stmt[:80])
    name, body = m.group(1), m.group(2)
    cols = []
    parts, depth, cur = [], 0, []
    for ch in body:
        if ch == "(":
            depth += 1
        elif ch == ")":
            depth -= 1
        if ch == "," and depth == 0:
            parts.append("".join(cur).strip())
            cur = []
        else:
            cur.append(ch)
    parts.append("".join(cur).strip())
    for p in parts:
        if not p:
            continue
        if re.match(r"primary\s+key\s*\(", p):
            continue
        m = re.match(r"(\w+)\s+(\w+)(\s+without\s+time\s+zone)?(\s*\(\s*\d+\s*\))?(.*)$", p, re.S)
        if not m:
            raise Unsupported("column definition %r" % p)
        cname, ctype, rest = m.group(1), m.group(2), m.group(5)
        if ctype not in COL_TYPES:
            raise Unsupported("column type %r of %s.%s" % (ctype, name, cname))
        default = "Val.null"
        dm = re.search(r"\bdefault\s+('[^']*'::\w+|\w+)", rest)
        if dm:
            default = parse_default(dm.group(1))
        leftover = re.sub(r"\bdefault\s+('[^']*'::\w+|\w+)", "", rest)
        leftover = re.sub(r"\bnot\s+null\b|\bprimary\s+key\b|\breferences\s+\w+\s*\(\s*\w+\s*\)", "", leftover).strip()
        if leftover:
            raise Unsupported("column constraint %r of %s.%s" % (leftover, name, cname))
        cols.append((cname, ctype, default))
    return Table(name, cols)


def parse_function(stmt):
    m = re.fullmatch(r"create\s+(?:or\s+replace\s+)?function\s+(\w+)\s*\((.*?)\)\s*returns\s+(.*?)\s+as\s*\$\$(.*)\$\$", stmt, re.S)
    if not m:
        raise Unsupported("create function shape: %s" % stmt[:100])
    name, args, mid, body = m.group(1), m.group(2), m.group(3), m.group(4)
    lm = re.search(r"\blanguage\s+(\w+)", mid)
    if not lm:
        raise Unsupported("function %s: no language" % name)
    ret = re.split(r"\b(language|security|stable|immutable|strict|parallel)\b", mid)[0].strip()
    params = []
    for a in [x.strip() for x in args.split(",") if x.strip()]:
        am = re.fullmatch(r"(\w+)\s+([\w\[\]]+(?:\s+without\s+time\s+zone)?)(\s+default\s+\w+)?", a)
        if not am:
            if re.fullmatch(r"any\w+", a):      # polymorphic helper functions (first_agg, array_distinct): never translated
                params.append((None, a, False))
                continue
            raise Unsupported("parameter %r of %s" % (a, name))
        params.append((am.group(1), am.group(2), bool(am.group(3))))
    return Func(name, params, ret, lm.group(1), body)


# ---------------------------------------------------------------- emitter

class Ctx:
    def __init__(self, em, fn, vars_, vol_vars, new_table):
        self.em, self.fn, self.vars, self.vol_vars, self.new_table = em, fn, vars_, vol_vars, new_table
        self.row_table = None      # Table whose row is `r` in the current lambda
        self.row_names = set()     # qualifiers that mean `r`
        self.lam = {}              # value variables bound by a lambda (alias of jsonb_array_elements)

    def with_row(self, table, alias=None):
        c = Ctx(self.em, self.fn, self.vars, self.vol_vars, self.new_table)
        c.row_table, c.row_names, c.lam = table, {table.name} | ({alias} if alias else set()), dict(self.lam)
        return c

    def with_lam(self, name, lean):
        c = Ctx(self.em, self.fn, self.vars, self.vol_vars, self.new_table)
        c.row_table, c.row_names, c.lam = self.row_table, set(self.row_names), dict(self.lam, **{name: lean})
        return c


class Emitter:
    def __init__(self, tables, funcs):
        self.tables, self.funcs = tables, funcs

    def S(self, fn):
        return "DB × %s.Env" % fn.name

    # ---- expressions
    def expr(self, t, c):
        if isinstance(t, Token):
            raise Unsupported("%s: bare token %r" % (c.fn.name, t))
        d = t.data
        ch = t.children
        if d in ("or_", "and_"):
            return "(Val.%s %s %s)" % ("or" if d == "or_" else "and", self.expr(ch[0], c), self.expr(ch[1], c))
        if d == "not_":
            return "(Val.not %s)" % self.expr(ch[0], c)
        if d == "is_null":
            return "(Val.isNull %s)" % self.expr(ch[0], c)
        if d == "is_not_null":
            return "(Val.isNotNull %s)" % self.expr(ch[0], c)
        if d == "cmp":
            op = {"=": "eq", "<>": "ne", "<": "lt", ">": "gt", "<=": "le", ">=": "ge"}[str(ch[1])]
            return "(Val.%s %s %s)" % (op, self.expr(ch[0], c), self.expr(ch[2], c))
        if d == "binop":
            op = {"->": "arrow", "->>": "arrowText", "||": "concat", "@>": "containsJ", "+": "add", "-": "sub"}[str(ch[1])]
            return "(Val.%s %s %s)" % (op, self.expr(ch[0], c), self.expr(ch[2], c))
        if d == "cast":
            ty = " ".join(str(x) for x in ch[1].children)
            inner = ch[0]
            if isinstance(inner, Tree) and inner.data == "string" and ty == "jsonb":
                if str(inner.children[0]) != "'{}'":
                    raise Unsupported("%s: jsonb literal %s" % (c.fn.name, inner.children[0]))
                return "(Val.json (J.obj []))"
            f = {"numeric": "castNumeric", "timestamp": "castTimestamp", "timestamp without time zone": "castTimestamp",
                 "varchar": "castVarchar", "jsonb": "castJsonb", "volumes": "castVolumes"}.get(ty)
            if f is None:
                raise Unsupported("%s: cast to %r" % (c.fn.name, ty))
            return "(Val.%s %s)" % (f, self.expr(inner, c))
        if d == "case_":
            return "(if Sql.truthy %s then %s else %s)" % tuple(self.expr(x, c) for x in ch)
        if d == "paren":
            items = ch[0].children
            fieldname = str(ch[1]) if len(ch) > 1 else None
            if len(items) == 1:
                e = self.expr(items[0], c)
            elif len(items) == 2:
                e = "(Val.vol %s %s)" % (self.expr(items[0], c), self.expr(items[1], c))
            else:
                raise Unsupported("%s: row constructor with %d fields" % (c.fn.name, len(items)))
            return "(Val.field \"%s\" %s)" % (fieldname, e) if fieldname else e
        if d == "scalar_sub":
            return self.scalar_sub(ch[0], c)
        if d == "string":
            s = str(ch[0])[1:-1]
            return "(Val.text %s)" % json.dumps(s, ensure_ascii=False)
        if d == "number":
            return "(Val.int %s)" % ch[0]
        if d == "true":
            return "(Val.bool true)"
        if d == "false":
            return "(Val.bool false)"
        if d == "null":
            return "Val.null"
        if d == "found":
            return "(Val.bool s.2.found)"
        if d == "qname":
            return self.qname([str(x) for x in ch], c)
        if d == "call":
            return self.call(t, c)
        raise Unsupported("%s: expression node %s" % (c.fn.name, d))

    def qname(self, parts, c):
        if len(parts) == 1:
            a = parts[0]
            is_var = a in c.vars
            is_lam = a in c.lam
            is_col = c.row_table is not None and a in c.row_table.colnames()
            if is_var + is_lam + is_col > 1:
                raise Unsupported("%s: name %r is ambiguous (variable and column)" % (c.fn.name, a))
            if is_lam:
                return c.lam[a]
            if is_var:
                return "s.2.%s" % lid(a)
            if is_col:
                return "r.%s" % lid(a)
            raise Unsupported("%s: unknown name %r" % (c.fn.name, a))
        a, b = parts
        if a == "new":
            if c.new_table is None or b not in c.new_table.colnames():
                raise Unsupported("%s: new.%s" % (c.fn.name, b))
            return "new.%s" % lid(b)
        if a in c.row_names:
            if b not in c.row_table.colnames():
                raise Unsupported("%s: %s.%s is not a column" % (c.fn.name, a, b))
            return "r.%s" % lid(b)
        if a in c.vars:
            if a not in c.vol_vars or b not in ("inputs", "outputs"):
                raise Unsupported("%s: field %s of variable %s" % (c.fn.name, b, a))
            return "(Val.field \"%s\" s.2.%s)" % (b, lid(a))
        raise Unsupported("%s: qualified name %s.%s" % (c.fn.name, a, b))

    def call(self, t, c):
        name = str(t.children[0])
        args = t.children[1].children if len(t.children) > 1 else []
        if name == "coalesce" and len(args) == 2:
            return "(Val.coalesce %s %s)" % (self.expr(args[0], c), self.expr(args[1], c))
        if name == "to_json" and len(args) == 1 and isinstance(args[0], Tree) and args[0].data == "call" and str(args[0].children[0]) == "string_to_array":
            a2 = args[0].children[1].children
            if len(a2) != 2 or not (isinstance(a2[1], Tree) and a2[1].data == "string" and str(a2[1].children[0]) == "':'"):
                raise Unsupported("%s: string_to_array separator" % c.fn.name)
            return "(Sql.addressArray %s)" % self.expr(a2[0], c)
        if name == "jsonb_pretty" and len(args) == 1:
            return "(Val.jsonbPretty %s)" % self.expr(args[0], c)
        if name in BY_NAME and len(args) == 1:
            return "(%s %s)" % (BY_NAME[name], self.expr(args[0], c))
        raise Unsupported("%s: call of %s/%d in an expression" % (c.fn.name, name, len(args)))

    def keys(self, order, c):
        if order is None:
            return "[]"
        ks = []
        for it in order.children:
            e = self.expr(it.children[0], c)
            desc = len(it.children) > 1 and str(it.children[1]) == "desc"
            ks.append("{ get := fun r => %s, desc := %s }" % (e, "true" if desc else "false"))
        return "[" + ", ".join(ks) + "]"

    def parts(self, t):
        got = {"into": []}
        for x in t.children:
            if isinstance(x, Tree):
                if x.data == "into":
                    got["into"].append(x)
                else:
                    got[x.data] = x
        return got

    def scalar_sub(self, t, c):
        p = self.parts(t)
        sl = p["select_list"].children
        if len(sl) != 1:
            raise Unsupported("%s: scalar sub-select with %d columns" % (c.fn.name, len(sl)))
        e = sl[0]
        if "from_call" not in p and "from_table" not in p:
            if any(k in p for k in ("where", "order", "limit")):
                raise Unsupported("%s: sub-select without FROM but with clauses" % c.fn.name)
            return self.expr(e, c)
        if "from_call" in p:
            fc = p["from_call"]
            callee, alias = fc.children[0], str(fc.children[1])
            if str(callee.children[0]) != "jsonb_array_elements" or any(k in p for k in ("where", "order", "limit")):
                raise Unsupported("%s: sub-select over %s" % (c.fn.name, callee.children[0]))
            if not (isinstance(e, Tree) and e.data == "call" and str(e.children[0]) == "to_jsonb"):
                raise Unsupported("%s: aggregate sub-select shape" % c.fn.name)
            inner = e.children[1].children[0]
            if not (isinstance(inner, Tree) and inner.data == "call" and str(inner.children[0]) == "array_agg"):
                raise Unsupported("%s: aggregate sub-select shape (array_agg)" % c.fn.name)
            body = self.expr(inner.children[1].children[0], c.with_lam(alias, alias))
            arr = self.expr(callee.children[1].children[0], c)
            return "(Sql.aggElements (fun (%s : Val) => %s) %s)" % (alias, body, arr)
        ft = p["from_table"]
        tname = str(ft.children[0])
        alias = str(ft.children[1]) if len(ft.children) > 1 else None
        table = self.table(tname, c)
        rc = c.with_row(table, alias)
        if "limit" in p and str(p["limit"].children[0]) != "1":
            raise Unsupported("%s: limit %s" % (c.fn.name, p["limit"].children[0]))
        if "limit" not in p:
            raise Unsupported("%s: scalar sub-select over a table without limit 1" % c.fn.name)
        where = self.expr(p["where"].children[0], rc) if "where" in p else "(Val.bool true)"
        c.fn.deps.add(("read", tname))
        return "(Sql.col (Sql.selectFirst s.1.%s (fun r => %s) %s) (fun r => %s))" % (
            lid(tname), where, self.keys(p.get("order"), rc), self.expr(e, rc))

    def table(self, name, c):
        if name not in self.tables:
            raise Unsupported("%s: unknown table %r" % (c.fn.name, name))
        return self.tables[name]

    # ---- statements: each is a Lean term of type S -> S
    def block(self, stmts, c, ind):
        pad = "  " * ind
        S = self.S(c.fn)
        if not stmts:
            return "(fun (s : %s) => s)" % S
        lines = ["(fun (s : %s) =>" % S]
        for st in stmts:
            lines.append("%s  let s := %s s" % (pad, self.stmt(st, c, ind + 1)))
        lines.append("%s  s)" % pad)
        return "\n".join(lines)

    def stmt(self, t, c, ind):
        pad = "  " * ind
        S = self.S(c.fn)
        d = t.data
        if d == "select_into":
            p = self.parts(t)
            if len(p["into"]) != 1:
                raise Unsupported("%s: select without exactly one INTO" % c.fn.name)
            tr = p["table_ref"]
            tname = str(tr.children[0])
            alias = str(tr.children[1]) if len(tr.children) > 1 else None
            table = self.table(tname, c)
            rc = c.with_row(table, alias)
            if "limit" in p and str(p["limit"].children[0]) != "1":
                raise Unsupported("%s: limit %s" % (c.fn.name, p["limit"].children[0]))
            where = self.expr(p["where"].children[0], rc) if "where" in p else "(Val.bool true)"
            exprs = [self.expr(e, rc) for e in p["select_list"].children]
            targets = [[str(x) for x in lv.children] for lv in p["into"][0].children]
            for tg in targets:
                if len(tg) != 1 or tg[0] not in c.vars:
                    raise Unsupported("%s: INTO target %s" % (c.fn.name, ".".join(tg)))
            c.fn.deps.add(("read", tname))
            if len(targets) == 1 and targets[0][0] in c.vol_vars:
                if len(exprs) != 2:
                    raise Unsupported("%s: %d columns into composite %s" % (c.fn.name, len(exprs), targets[0][0]))
                assigns = ["%s := Val.vol (Sql.col res (fun r => %s)) (Sql.col res (fun r => %s))" % (lid(targets[0][0]), exprs[0], exprs[1])]
            elif len(targets) == len(exprs):
                assigns = ["%s := Sql.col res (fun r => %s)" % (lid(tg[0]), e) for tg, e in zip(targets, exprs)]
            else:
                raise Unsupported("%s: %d columns into %d targets" % (c.fn.name, len(exprs), len(targets)))
            return ("(fun (s : %s) =>\n%s  let res := Sql.selectFirst s.1.%s (fun r => %s) %s\n%s  (s.1, { s.2 with %s, found := res.isSome }))" % (
                S, pad, lid(tname), where, self.keys(p.get("order"), rc), pad, ", ".join(assigns)))
        if d == "if_stmt":
            cond = self.expr(t.children[0], c)
            b1 = self.block(t.children[1].children, c, ind + 1)
            b2 = self.block(t.children[2].children, c, ind + 1) if len(t.children) > 2 else "(fun (s : %s) => s)" % S
            return "(fun (s : %s) =>\n%s  if Sql.truthy %s then\n%s    %s s\n%s  else\n%s    %s s)" % (S, pad, cond, pad, b1, pad, pad, b2)
        if d == "assign":
            lv = [str(x) for x in t.children[0].children]
            e = self.expr(t.children[1], c)
            if lv[0] not in c.vars:
                raise Unsupported("%s: assignment to %s" % (c.fn.name, lv[0]))
            if len(lv) == 1:
                return "(fun (s : %s) => (s.1, { s.2 with %s := %s }))" % (S, lid(lv[0]), e)
            if lv[0] not in c.vol_vars or lv[1] not in ("inputs", "outputs"):
                raise Unsupported("%s: assignment to %s.%s" % (c.fn.name, lv[0], lv[1]))
            return "(fun (s : %s) => (s.1, { s.2 with %s := Val.setField \"%s\" s.2.%s %s }))" % (S, lid(lv[0]), lv[1], lid(lv[0]), e)
        if d == "insert_stmt":
            return self.insert(t, c, ind)
        if d == "update_stmt":
            tname = str(t.children[0])
            table = self.table(tname, c)
            rc = c.with_row(table)
            sets = self.set_list(t.children[1], rc, table)
            where = self.expr(t.children[2].children[0], rc)
            c.fn.deps.add(("update", tname))
            return "(fun (s : %s) => (update_%s s.1 (fun r => %s) (fun r => { r with %s }), s.2))" % (S, tname, where, sets)
        if d == "perform":
            call = t.children[0]
            name = str(call.children[0])
            args = call.children[1].children if len(call.children) > 1 else []
            if name not in self.funcs:
                raise Unsupported("%s: perform of unknown function %s" % (c.fn.name, name))
            callee = self.funcs[name]
            if len(args) != len(callee.params):
                raise Unsupported("%s: perform %s with %d arguments (has %d parameters)" % (c.fn.name, name, len(args), len(callee.params)))
            c.fn.deps.add(("call", name))
            return "(fun (s : %s) => (%s s.1 %s, s.2))" % (S, lid(name), " ".join(self.expr(a, c) for a in args))
        if d == "for_loop":
            names = [str(x) for x in t.children[0].children]
            q = t.children[1]
            body = self.block(t.children[2].children, c, ind + 1)
            for nme in names:
                if nme not in c.vars:
                    raise Unsupported("%s: loop variable %s is not declared" % (c.fn.name, nme))
            qcall = q.children[0]
            qname = str(qcall.children[0])
            qargs = qcall.children[1].children
            if q.data == "loop_elements" and qname == "jsonb_array_elements" and len(names) == 1 and len(qargs) == 1:
                return ("(fun (s : %s) =>\n%s  Sql.forEach (Sql.jsonbArrayElements %s) (fun (x : Val) (s : %s) =>\n%s    %s (s.1, { s.2 with %s := x })) s)" % (
                    S, pad, self.expr(qargs[0], c), S, pad, body, lid(names[0])))
            if q.data == "loop_each" and qname == "jsonb_each_text" and len(names) == 2 and len(qargs) == 1:
                return ("(fun (s : %s) =>\n%s  Sql.forEach (Sql.jsonbEachText %s) (fun (kv : Val × Val) (s : %s) =>\n%s    %s (s.1, { s.2 with %s := kv.1, %s := kv.2 })) s)" % (
                    S, pad, self.expr(qargs[0], c), S, pad, body, lid(names[0]), lid(names[1])))
            raise Unsupported("%s: for loop over %s" % (c.fn.name, qname))
        if d == "return_stmt":
            if str(t.children[0]) != "new":
                raise Unsupported("%s: return %s" % (c.fn.name, t.children[0]))
            return "(fun (s : %s) => s)" % S
        raise Unsupported("%s: statement %s" % (c.fn.name, d))

    def set_list(self, t, rc, table):
        out = []
        for it in t.children:
            col = str(it.children[0])
            if col not in table.colnames():
                raise Unsupported("%s: set of unknown column %s.%s" % (rc.fn.name, table.name, col))
            out.append("%s := %s" % (lid(col), self.expr(it.children[1], rc)))
        return ", ".join(out)

    def insert(self, t, c, ind):
        pad = "  " * ind
        S = self.S(c.fn)
        tname = str(t.children[0])
        table = self.table(tname, c)
        cols = [str(x) for x in t.children[1].children]
        vals = t.children[2].children
        if len(cols) != len(vals):
            raise Unsupported("%s: insert into %s: %d columns, %d values" % (c.fn.name, tname, len(cols), len(vals)))
        given = {}
        for col, v in zip(cols, vals):
            if col not in table.colnames():
                raise Unsupported("%s: insert into unknown column %s.%s" % (c.fn.name, tname, col))
            given[col] = self.expr(v, c)
        fields = []
        for cname, ctype, default in table.cols:
            fields.append("%s := %s" % (lid(cname), given.get(cname, "Val.null" if ctype == "bigserial" else default)))
        row = "({ %s } : %s)" % (", ".join(fields), table.row)
        rest = {x.data: x for x in t.children[3:] if isinstance(x, Tree)}
        ret = ""
        if "returning" in rest:
            rcol, rvar = str(rest["returning"].children[0]), str(rest["returning"].children[1])
            if rcol not in table.colnames() or rvar not in c.vars:
                raise Unsupported("%s: returning %s into %s" % (c.fn.name, rcol, rvar))
            ret = (rcol, rvar)
        if "on_conflict" in rest:
            oc = rest["on_conflict"]
            ccols = [str(x) for x in oc.children[0].children]
            rc = c.with_row(table)
            sets = self.set_list(oc.children[1], rc, table)
            cond = self.expr(oc.children[2].children[0], rc) if len(oc.children) > 2 else "(Val.bool true)"
            if ret:
                raise Unsupported("%s: on conflict with returning" % c.fn.name)
            conflict = " && ".join("Sql.truthy (Val.eq r.%s row.%s)" % (lid(x), lid(x)) for x in ccols)
            c.fn.deps.add(("upsert", tname))
            return ("(fun (s : %s) =>\n%s  let row := %s\n%s  (upsert_%s s.1 row (fun r => %s) (fun r => %s) (fun r => { r with %s }), s.2))" % (
                S, pad, row, pad, tname, conflict, cond, sets))
        c.fn.deps.add(("insert", tname))
        if ret:
            return "(fun (s : %s) =>\n%s  let ins := insert_%s s.1 %s\n%s  (ins.1, { s.2 with %s := ins.2.%s }))" % (
                S, pad, tname, row, pad, lid(ret[1]), lid(ret[0]))
        return "(fun (s : %s) =>\n%s  let ins := insert_%s s.1 %s\n%s  (ins.1, s.2))" % (S, pad, tname, row, pad)

    # ---- functions
    def function(self, fn):
        body = lower_outside_strings(fn.body.strip())
        is_trigger = fn.ret == "trigger"
        new_table = self.tables[fn.trigger_table] if is_trigger else None
        if is_trigger and fn.trigger_table is None:
            raise Unsupported("trigger function %s is not attached to a table" % fn.name)
        try:
            tree = (PARSER_PL if fn.lang == "plpgsql" else PARSER_SQL).parse(body)
        except Exception as e:
            raise Unsupported("function %s: outside the grammar: %s" % (fn.name, str(e).split("\n")[0][:300]))
        params = [] if is_trigger else [p[0] for p in fn.params]
        decls = []
        stmts = []
        if fn.lang == "plpgsql":
            for x in tree.children:
                if isinstance(x, Tree) and x.data == "declare":
                    for dcl in x.children:
                        ty = " ".join(str(y) for y in dcl.children[1].children)
                        decls.append((str(dcl.children[0]), ty, dcl.children[2] if len(dcl.children) > 2 else None))
                else:
                    stmts.append(x)
        else:
            st = tree.children[0]
            if st.data != "update_stmt":
                raise Unsupported("function %s: language sql body is not an UPDATE (read functions are handled by name)" % fn.name)
            stmts = [st]
        vars_ = set(params) | {d[0] for d in decls}
        if len(vars_) != len(params) + len(decls):
            raise Unsupported("function %s: duplicate variable names" % fn.name)
        vol_vars = {d[0] for d in decls if d[1] == "volumes"}
        c = Ctx(self, fn, vars_, vol_vars, new_table)
        env_fields = ["  %s : Val" % lid(v) for v in params] + ["  %s : Val" % lid(d[0]) for d in decls] + ["  found : Bool"]
        inits = ["%s := %s" % (lid(v), lid(v)) for v in params]
        c0 = Ctx(self, fn, set(), set(), new_table)
        for name, ty, init in decls:
            if init is not None:
                inits.append("%s := %s" % (lid(name), self.expr(init, c0)))
            else:
                inits.append("%s := %s" % (lid(name), "Val.vol Val.null Val.null" if ty == "volumes" else "Val.null"))
        inits.append("found := false")
        blk = self.block(stmts, c, 1)
        sig = "(new : %s)" % new_table.row if is_trigger else " ".join("(%s : Val)" % lid(p) for p in params)
        out = ["structure %s.Env where" % fn.name] + env_fields + ["", "/-- `%s` (%s) -/" % (fn.name, "trigger on " + fn.trigger_table if is_trigger else fn.lang),
               "def %s (db : DB) %s : DB :=" % (lid(fn.name), sig),
               "  let s : DB × %s.Env := (db, { %s })" % (fn.name, ", ".join(inits)),
               "  (%s s).1" % blk, ""]
        fn.lean = "\n".join(out)


def table_wrappers(t):
    """insert_T / update_T / upsert_T: the statement plus its row-level AFTER triggers (name order)"""
    ai = "".join("\n  let db := %s db r.2" % lid(f) for f in sorted(t.after_insert))
    au = "".join("\n  let db := Sql.fireEach %s db r.2" % lid(f) for f in sorted(t.after_update))
    ui = "".join("\n    let db := %s db row" % lid(f) for f in sorted(t.after_insert))
    uu = "".join("\n    let db := Sql.fireEach %s db rows" % lid(f) for f in sorted(t.after_update))
    return "\n".join([
        "def insert_%s (db : DB) (row : %s) : DB × %s :=" % (t.name, t.row, t.row),
        "  let r := Sql.insertRow tbl_%s db row" % t.name,
        "  let db := r.1" + ai,
        "  (db, r.2)", "",
        "def update_%s (db : DB) (pred : %s → Val) (upd : %s → %s) : DB :=" % (t.name, t.row, t.row, t.row),
        "  let r := Sql.updateWhere tbl_%s db pred upd" % t.name,
        "  let db := r.1" + au,
        "  db", "",
        "def upsert_%s (db : DB) (row : %s) (conflict : %s → Bool) (cond : %s → Val) (upd : %s → %s) : DB :=" % (t.name, t.row, t.row, t.row, t.row, t.row),
        "  let r := Sql.upsertRow tbl_%s db row conflict cond upd" % t.name,
        "  match r.2 with",
        "  | .inserted row =>",
        "    let db := r.1" + ui,
        "    db",
        "  | .updated rows =>",
        "    let db := r.1" + uu,
        "    db", ""])


def main(schema_path, out_path, summary_path):
    raw = open(schema_path).read()
    src = strip_comments(raw)
    tables, funcs, triggers, ignored = {}, {}, [], []
    for st in split_statements(src):
        low = lower_outside_strings(st)
        if any(re.match(p, low) for p in IGNORED_DDL):
            ignored.append(re.sub(r"\s+", " ", low)[:60])
            continue
        if re.match(r"create\s+type\s+volumes\s+as\b", low):
            if re.sub(r"\s+", " ", low) != "create type volumes as ( inputs numeric, outputs numeric )":
                raise Unsupported("composite type volumes changed: %s" % re.sub(r"\s+", " ", low))
            continue
        if re.match(r"create\s+table\b", low):
            t = parse_table(low)
            tables[t.name] = t
            continue
        if re.match(r"create\s+(or\s+replace\s+)?function\b", low):
            m = re.match(r"(.*?\$\$)(.*)(\$\$)$", st, re.S)
            head = lower_outside_strings(m.group(1))
            f = parse_function(head + m.group(2) + "$$")
            if f.name in funcs:
                raise Unsupported("function %s defined twice" % f.name)
            funcs[f.name] = f
            continue
        m = re.fullmatch(r'create\s+trigger\s+"?(\w+)"?\s+after\s+(insert|update)\s+on\s+"?(\w+)"?\s+for\s+each\s+row\s+execute\s+procedure\s+(\w+)\s*\(\s*\)', low)
        if m:
            triggers.append({"name": m.group(1), "event": m.group(2), "table": m.group(3), "function": m.group(4)})
            continue
        raise Unsupported("top-level statement outside the subset: %s" % re.sub(r"\s+", " ", low)[:120])

    for tg in sorted(triggers, key=lambda x: x["name"]):
        if tg["table"] not in tables or tg["function"] not in funcs:
            raise Unsupported("trigger %s refers to unknown table/function" % tg["name"])
        f = funcs[tg["function"]]
        if f.trigger_table not in (None, tg["table"]):
            raise Unsupported("trigger function %s used on two tables" % f.name)
        f.trigger_table = tg["table"]
        (tables[tg["table"]].after_insert if tg["event"] == "insert" else tables[tg["table"]].after_update).append(f.name)

    em = Emitter(tables, funcs)
    translated, untranslated = [], []
    for name, f in funcs.items():
        if name in BY_NAME:
            untranslated.append({"name": name, "why": "translated by name to " + BY_NAME[name]})
            continue
        if f.lang == "plpgsql" or (f.lang == "sql" and re.match(r"\s*update\b", f.body.strip(), re.I)):
            em.function(f)
            translated.append(name)
            continue
        if name in UNTRANSLATED_READ:
            untranslated.append({"name": name, "why": "read-side function outside the translated subset"})
            continue
        if f.lang == "sql" and name == "get_account_balance":
            untranslated.append({"name": name, "why": "read function; its single SELECT is modelled by hand in Model/Store/Reads (stage 2g)"})
            continue
        raise Unsupported("function %s (language %s) is neither translatable nor on the list of known read functions" % (name, f.lang))

    # ---- order: wrappers of a table need its trigger functions; functions need the wrappers / callees they use
    nodes = {}
    for t in tables.values():
        nodes["tbl:" + t.name] = {("fn", f) for f in t.after_insert + t.after_update}
    for name in translated:
        deps = set()
        for kind, x in funcs[name].deps:
            if kind == "call":
                deps.add(("fn", x))
            elif kind in ("insert", "update", "upsert"):
                deps.add(("tbl", x))
        nodes["fn:" + name] = deps
    order, state = [], {}

    def visit(n):
        if state.get(n) == 2:
            return
        if state.get(n) == 1:
            raise Unsupported("recursion through %s (triggers / calls form a cycle)" % n)
        state[n] = 1
        for kind, x in sorted(nodes[n]):
            k = kind + ":" + x
            if k not in nodes:
                raise Unsupported("%s depends on %s which is not translated" % (n, k))
            visit(k)
        state[n] = 2
        order.append(n)
    for n in sorted(nodes):
        visit(n)

    L = ["import Model.Store.Sql",
         "/-! GENERATED by extract/plpgsql/translate.py from %s — do not edit; rewritten on every run." % "internal/storage/ledgerstore/migrations/0-init-schema.sql",
         "source sha256: %s -/" % hashlib.sha256(raw.encode()).hexdigest(),
         "set_option linter.unusedVariables false",
         "namespace Schema", "open Sql", ""]
    for t in tables.values():
        L.append("/-- table `%s` -/" % t.name)
        L.append("structure %s where" % t.row)
        for cname, ctype, default in t.cols:
            L.append("  %s : Val := %s   -- %s" % (lid(cname), "Val.null" if ctype == "bigserial" else default, ctype))
        L.append("deriving Repr, BEq, Inhabited")
        L.append("")
    L.append("structure DB where")
    for t in tables.values():
        L.append("  %s : List %s := []" % (lid(t.name), t.row))
    for t in tables.values():
        L.append("  %s_seq : Nat := 1" % t.name)
    L.append("deriving Repr, Inhabited")
    L.append("")
    for t in tables.values():
        L.append("def tbl_%s : Table DB %s :=" % (t.name, t.row))
        L.append("  { rows := fun db => db.%s, setRows := fun db rs => { db with %s := rs }, nextSeq := fun db => db.%s_seq," % (lid(t.name), lid(t.name), t.name))
        L.append("    setNextSeq := fun db n => { db with %s_seq := n }, setSeq := fun r v => { r with seq := v } }" % t.name)
        L.append("")
    for n in order:
        kind, x = n.split(":", 1)
        if kind == "tbl":
            L.append(table_wrappers(tables[x]))
        else:
            L.append(funcs[x].lean)
    L.append("/-- names of what was translated (the proofs and the driver check that nothing they rely on disappeared) -/")
    L.append("def translatedFunctions : List String := [%s]" % ", ".join(json.dumps(x) for x in sorted(translated)))
    L.append("def triggerWiring : List (String × String × String × String) := [%s]" % ", ".join(
        "(%s, %s, %s, %s)" % tuple(json.dumps(tg[k]) for k in ("name", "event", "table", "function")) for tg in sorted(triggers, key=lambda x: x["name"])))
    L.append("")
    L.append("end Schema")
    open(out_path, "w").write("\n".join(L) + "\n")
    json.dump({"source_sha256": hashlib.sha256(raw.encode()).hexdigest(),
               "tables": {t.name: [c[0] for c in t.cols] for t in tables.values()},
               "translated_functions": sorted(translated), "not_translated": untranslated,
               "triggers": sorted(triggers, key=lambda x: x["name"]), "ignored_ddl": ignored,
               "definition_order": order}, open(summary_path, "w"), indent=1, sort_keys=True)


if __name__ == "__main__":
    try:
        main(*sys.argv[1:4])
    except Unsupported as e:
        print("extract/plpgsql: UNSUPPORTED: %s" % e, file=sys.stderr)
        sys.exit(3)
