module verif/extract/opcodes

go 1.23
