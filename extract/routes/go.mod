module verif/extract/routes

go 1.23
