// Command routes re-extracts, from the Go sources of the repository under test, everything model H (C19) is about:
//
//   - the chi route tree built by api.NewRouter (router.go) and by the v1/v2 NewRouter functions it mounts (routes.go):
//     every registered route (API version, method, mount chain, pattern, handler) and every middleware stack;
//   - the read-only gate api.ReadOnly (read_only.go): the set of methods it lets through, and where it is installed;
//   - a WRITE classification of every handler and middleware: can it reach, in the call graph of the packages under
//     internal/api (syntactic, by name, conservative), a selector named CreateTransaction|RevertTransaction|SaveMeta|DeleteMetadata;
//   - every assignment to a `.Method` / `.RouteMethod` field in those packages (a method-rewriting middleware would
//     invalidate "routing never changes the method").
//
// It writes lean/Generated/Routes.lean (definitions only).  Anything it does not recognise makes it FAIL (exit 1):
// the check then reports a broken tie instead of proving something about a stale or partial table.
//
// Standard library only (go/ast, go/parser).  usage: routes -repo <dir> -out <Routes.lean> [-json <summary.json>]
package main

import (
	"encoding/json"
	"flag"
	"fmt"
	"go/ast"
	"go/parser"
	"go/token"
	"os"
	"path/filepath"
	"sort"
	"strconv"
	"strings"
)

const modulePath = "github.com/formancehq/ledger"
const apiScope = modulePath + "/internal/api"

var writeNames = map[string]bool{"CreateTransaction": true, "RevertTransaction": true, "SaveMeta": true, "DeleteMetadata": true}

var httpMethodConst = map[string]string{"MethodGet": "GET", "MethodHead": "HEAD", "MethodPost": "POST", "MethodPut": "PUT", "MethodPatch": "PATCH",
	"MethodDelete": "DELETE", "MethodConnect": "CONNECT", "MethodOptions": "OPTIONS", "MethodTrace": "TRACE"}

var chiVerb = map[string]string{"Get": "GET", "Head": "HEAD", "Post": "POST", "Put": "PUT", "Patch": "PATCH", "Delete": "DELETE",
	"Connect": "CONNECT", "Options": "OPTIONS", "Trace": "TRACE"}

var allMethods = []string{"CONNECT", "DELETE", "GET", "HEAD", "OPTIONS", "PATCH", "POST", "PUT", "TRACE"}

// middlewares / handlers from other modules that are known not to write and not to touch the method (trusted, listed in the evidence)
var externalMw = map[string]string{
	"github.com/go-chi/chi/v5/middleware.Recoverer":              "other",
	"github.com/formancehq/stack/libs/go-libs/auth.Middleware()": "other",
	"github.com/riandyrn/otelchi.Middleware()":                   "other",
	"github.com/go-chi/cors.New().Handler":                       "cors",
}

// middlewares of the packages under internal/api whose short-circuit behaviour the model knows (they are still analysed for writes)
var knownMwKind = map[string]string{
	apiScope + "/backend.LedgerMiddleware": "ledger", // 404 by itself when the {ledger} URL parameter is empty
}
var externalHandlers = map[string]bool{
	"*github.com/formancehq/stack/libs/go-libs/health.HealthController.Check": true,
}

var fset = token.NewFileSet()
var repo string

func fail(pos token.Pos, format string, a ...any) {
	where := ""
	if pos.IsValid() {
		p := fset.Position(pos)
		rel, _ := filepath.Rel(repo, p.Filename)
		where = fmt.Sprintf("%s:%d: ", rel, p.Line)
	}
	fmt.Fprintf(os.Stderr, "extract/routes: %s"+format+"\n", append([]any{where}, a...)...)
	os.Exit(1)
}

// ---------------------------------------------------------------- packages

type pkgInfo struct {
	path   string // import path
	name   string
	files  []*ast.File
	funcs  map[string][]ast.Node    // package-level function / method / var-initialiser bodies by name
	decl   map[string]*ast.FuncDecl // plain functions
	fileOf map[ast.Node]*ast.File   // enclosing file (for import resolution)
	reach  map[string]*bool         // memo of write reachability
}

var pkgs = map[string]*pkgInfo{}

func loadPkg(importPath string) *pkgInfo {
	if p, ok := pkgs[importPath]; ok {
		return p
	}
	if !strings.HasPrefix(importPath, modulePath) {
		fail(token.NoPos, "package %s is not part of the module", importPath)
	}
	dir := filepath.Join(repo, strings.TrimPrefix(importPath, modulePath))
	ents, err := os.ReadDir(dir)
	if err != nil {
		fail(token.NoPos, "cannot read %s: %v", dir, err)
	}
	p := &pkgInfo{path: importPath, funcs: map[string][]ast.Node{}, decl: map[string]*ast.FuncDecl{}, fileOf: map[ast.Node]*ast.File{}, reach: map[string]*bool{}}
	pkgs[importPath] = p
	for _, e := range ents {
		n := e.Name()
		if e.IsDir() || !strings.HasSuffix(n, ".go") || strings.HasSuffix(n, "_test.go") {
			continue
		}
		f, err := parser.ParseFile(fset, filepath.Join(dir, n), nil, parser.SkipObjectResolution)
		if err != nil {
			fail(token.NoPos, "parse %s: %v", n, err)
		}
		p.name = f.Name.Name
		p.files = append(p.files, f)
		for _, d := range f.Decls {
			switch d := d.(type) {
			case *ast.FuncDecl:
				if d.Body == nil {
					continue
				}
				p.funcs[d.Name.Name] = append(p.funcs[d.Name.Name], d)
				p.fileOf[d] = f
				if d.Recv == nil {
					p.decl[d.Name.Name] = d
				}
			case *ast.GenDecl:
				if d.Tok != token.VAR {
					continue
				}
				for _, s := range d.Specs {
					vs := s.(*ast.ValueSpec)
					for i, nm := range vs.Names {
						if i < len(vs.Values) {
							p.funcs[nm.Name] = append(p.funcs[nm.Name], vs.Values[i])
							p.fileOf[vs.Values[i]] = f
						}
					}
				}
			}
		}
	}
	if len(p.files) == 0 {
		fail(token.NoPos, "no Go files in %s", dir)
	}
	return p
}

func imports(f *ast.File) map[string]string {
	m := map[string]string{}
	for _, im := range f.Imports {
		path, _ := strconv.Unquote(im.Path.Value)
		name := ""
		if im.Name != nil {
			name = im.Name.Name
		} else {
			parts := strings.Split(path, "/")
			name = parts[len(parts)-1]
			if !inScope(path) && len(parts) > 1 && len(name) > 1 && name[0] == 'v' && strings.Trim(name[1:], "0123456789") == "" {
				name = parts[len(parts)-2] // github.com/go-chi/chi/v5 is package chi
			}
		}
		m[name] = path
	}
	return m
}

func inScope(path string) bool { return path == apiScope || strings.HasPrefix(path, apiScope+"/") }

// ---------------------------------------------------------------- write reachability (syntactic, by name, conservative)

// writesNode: can the code of `n` (a function body, a literal, an expression) reach a write, following mentions of
// functions of the packages under internal/api.
func (p *pkgInfo) writesNode(n ast.Node, f *ast.File, stack map[string]bool) bool {
	imps := imports(f)
	found := false
	skipSel := map[*ast.Ident]bool{}
	ast.Inspect(n, func(x ast.Node) bool {
		if found {
			return false
		}
		switch e := x.(type) {
		case *ast.SelectorExpr:
			skipSel[e.Sel] = true
			if writeNames[e.Sel.Name] {
				found = true
				return false
			}
			if id, ok := e.X.(*ast.Ident); ok {
				if ip, ok := imps[id.Name]; ok {
					if inScope(ip) {
						if loadPkg(ip).writesFunc(e.Sel.Name, stack) {
							found = true
						}
					}
					return false
				}
			}
			// a method of this package, by name
			if _, ok := p.funcs[e.Sel.Name]; ok && p.writesFunc(e.Sel.Name, stack) {
				found = true
			}
		case *ast.Ident:
			if skipSel[e] {
				return true
			}
			if _, ok := p.funcs[e.Name]; ok && p.writesFunc(e.Name, stack) {
				found = true
			}
		}
		return true
	})
	return found
}

func (p *pkgInfo) writesFunc(name string, stack map[string]bool) bool {
	key := p.path + "." + name
	if r := p.reach[name]; r != nil {
		return *r
	}
	if stack[key] {
		return false // cycle: decided by the other members
	}
	bodies, ok := p.funcs[name]
	if !ok {
		// a name of an in-scope package that is not a function/var with a body (type, const, interface method): no code
		return false
	}
	stack[key] = true
	res := false
	for _, b := range bodies {
		if p.writesNode(b, p.fileOf[b], stack) {
			res = true
			break
		}
	}
	delete(stack, key)
	if len(stack) == 0 || res { // only memoise results that do not depend on an open cycle
		p.reach[name] = &res
	}
	return res
}

// ---------------------------------------------------------------- the router tree

type mw struct {
	Name   string `json:"name"`
	Kind   string `json:"kind"` // gate | cors | ledger | other
	Cond   string `json:"cond"` // always | ifReadOnly
	Writes bool   `json:"writes"`
}

type route struct {
	Version string   `json:"version"`
	Method  string   `json:"method"`
	Mounts  []string `json:"mounts"`
	Pattern string   `json:"pattern"`
	Handler string   `json:"handler"`
	Writes  bool     `json:"writes"`
	Inline  []string `json:"inline_middlewares"`
	Src     string   `json:"src"`
}

type mount struct {
	pattern string
	pre     []mw // inline middlewares of the Group/With the mount was declared in
	sub     *mux
}

type mux struct {
	version   string
	mws       []mw
	routes    []*route
	mounts    []*mount
	populated bool // a route or mount has been registered (chi refuses Use afterwards)
	attached  bool
	pos       token.Pos
}

type view struct {
	m      *mux
	inline []mw
	isInl  bool
}

type interp struct {
	p        *pkgInfo
	file     *ast.File
	readOnly string // name of the bool parameter of the enclosing NewRouter ("" = none)
	created  []*mux
}

var gateFunc *ast.FuncDecl // api.ReadOnly, verified
var gatePass []string

func src(pos token.Pos) string {
	p := fset.Position(pos)
	return fmt.Sprintf("%s:%d", filepath.Base(p.Filename), p.Line)
}

func exprText(e ast.Expr) string {
	switch e := e.(type) {
	case *ast.Ident:
		return e.Name
	case *ast.SelectorExpr:
		return exprText(e.X) + "." + e.Sel.Name
	case *ast.CallExpr:
		return exprText(e.Fun) + "()"
	case *ast.FuncLit:
		return "func@" + src(e.Pos())
	case *ast.StarExpr:
		return "*" + exprText(e.X)
	}
	return fmt.Sprintf("?%T@%s", e, src(e.Pos()))
}

func strLit(e ast.Expr, what string) string {
	b, ok := e.(*ast.BasicLit)
	if !ok || b.Kind != token.STRING {
		fail(e.Pos(), "%s is not a string literal (%s)", what, exprText(e))
	}
	s, err := strconv.Unquote(b.Value)
	if err != nil {
		fail(e.Pos(), "bad string literal")
	}
	return s
}

func checkPattern(e ast.Expr, pat string) {
	if !strings.HasPrefix(pat, "/") {
		fail(e.Pos(), "pattern %q does not start with '/'", pat)
	}
	for _, seg := range strings.Split(pat[1:], "/") {
		isParam := strings.HasPrefix(seg, "{") && strings.HasSuffix(seg, "}")
		if strings.ContainsAny(seg, "*{}:") && !(isParam && !strings.ContainsAny(seg[1:len(seg)-1], "*{}:")) {
			fail(e.Pos(), "pattern %q: segment %q is neither static nor a plain {param} (wildcards and regexps are not modelled)", pat, seg)
		}
	}
}

// paramType returns the textual type of parameter `name` of the function enclosing, "" when unknown
func paramType(fd *ast.FuncDecl, name string, imps map[string]string) string {
	for _, fl := range fd.Type.Params.List {
		for _, n := range fl.Names {
			if n.Name == name {
				return qualType(fl.Type, imps)
			}
		}
	}
	return ""
}

func qualType(e ast.Expr, imps map[string]string) string {
	switch t := e.(type) {
	case *ast.StarExpr:
		return "*" + qualType(t.X, imps)
	case *ast.SelectorExpr:
		if id, ok := t.X.(*ast.Ident); ok {
			if ip, ok := imps[id.Name]; ok {
				return ip + "." + t.Sel.Name
			}
		}
	case *ast.Ident:
		return t.Name
	}
	return "?"
}

// classify a middleware expression
func (in *interp) middleware(e ast.Expr, fd *ast.FuncDecl, cond string) mw {
	imps := imports(in.file)
	name := exprText(e)
	mk := func(kind string, writes bool) mw { return mw{Name: name, Kind: kind, Cond: cond, Writes: writes} }
	localFunc := func(id *ast.Ident) mw {
		d, ok := in.p.decl[id.Name]
		if !ok {
			fail(e.Pos(), "middleware %s: not a function of package %s", name, in.p.name)
		}
		if d == gateFunc {
			return mk("gate", false)
		}
		return mk("other", in.p.writesFunc(id.Name, map[string]bool{}))
	}
	switch x := e.(type) {
	case *ast.Ident:
		return localFunc(x)
	case *ast.FuncLit:
		return mk("other", in.p.writesNode(x, in.file, map[string]bool{}))
	case *ast.CallExpr:
		switch f := x.Fun.(type) {
		case *ast.Ident: // factory of this package
			return localFunc(f)
		case *ast.SelectorExpr:
			if id, ok := f.X.(*ast.Ident); ok {
				if ip, ok := imps[id.Name]; ok {
					if inScope(ip) {
						q := loadPkg(ip)
						if _, ok := q.decl[f.Sel.Name]; !ok {
							fail(e.Pos(), "middleware %s: %s has no function %s", name, ip, f.Sel.Name)
						}
						kind := "other"
						if k, ok := knownMwKind[ip+"."+f.Sel.Name]; ok {
							kind = k
						}
						return mk(kind, q.writesFunc(f.Sel.Name, map[string]bool{}))
					}
					if k, ok := externalMw[ip+"."+f.Sel.Name+"()"]; ok {
						return mk(k, false)
					}
				}
			}
		}
	case *ast.SelectorExpr:
		if id, ok := x.X.(*ast.Ident); ok {
			if ip, ok := imps[id.Name]; ok {
				if inScope(ip) {
					q := loadPkg(ip)
					if d, ok := q.decl[x.Sel.Name]; ok {
						if d == gateFunc {
							return mk("gate", false)
						}
						return mk("other", q.writesFunc(x.Sel.Name, map[string]bool{}))
					}
				}
				if k, ok := externalMw[ip+"."+x.Sel.Name]; ok {
					return mk(k, false)
				}
			}
		}
		// cors.New(cors.Options{…}).Handler
		if c, ok := x.X.(*ast.CallExpr); ok {
			if cs, ok := c.Fun.(*ast.SelectorExpr); ok {
				if id, ok := cs.X.(*ast.Ident); ok {
					if k, ok := externalMw[imps[id.Name]+"."+cs.Sel.Name+"()."+x.Sel.Name]; ok {
						ast.Inspect(c, func(n ast.Node) bool {
							if kv, ok := n.(*ast.KeyValueExpr); ok {
								if kid, ok := kv.Key.(*ast.Ident); ok && kid.Name == "OptionsPassthrough" {
									fail(kv.Pos(), "cors OptionsPassthrough is set: preflight handling is not modelled for that option")
								}
							}
							return true
						})
						w := false
						for _, a := range c.Args { // the options may carry closures of this package
							if in.p.writesNode(a, in.file, map[string]bool{}) {
								w = true
							}
						}
						return mk(k, w)
					}
				}
			}
		}
	}
	fail(e.Pos(), "unrecognised middleware expression %s", name)
	return mw{}
}

// classify a handler expression: (name, writes)
func (in *interp) handler(e ast.Expr, fd *ast.FuncDecl) (string, bool) {
	imps := imports(in.file)
	name := exprText(e)
	switch x := e.(type) {
	case *ast.Ident:
		if _, ok := in.p.decl[x.Name]; ok {
			return name, in.p.writesFunc(x.Name, map[string]bool{})
		}
	case *ast.FuncLit:
		return name, in.p.writesNode(x, in.file, map[string]bool{})
	case *ast.CallExpr:
		if id, ok := x.Fun.(*ast.Ident); ok {
			if _, ok := in.p.decl[id.Name]; ok {
				w := in.p.writesFunc(id.Name, map[string]bool{})
				for _, a := range x.Args {
					if in.p.writesNode(a, in.file, map[string]bool{}) {
						w = true
					}
				}
				return name, w
			}
		}
	case *ast.SelectorExpr:
		if id, ok := x.X.(*ast.Ident); ok {
			if t := paramType(fd, id.Name, imps); t != "" && externalHandlers[t+"."+x.Sel.Name] {
				return name, false
			}
		}
	}
	// unknown -> write (conservative); the name says so
	return "UNKNOWN:" + name, true
}

func (in *interp) newMux(pos token.Pos) *mux {
	m := &mux{version: in.p.name, pos: pos}
	in.created = append(in.created, m)
	return m
}

// a call that yields a mux: chi.NewRouter() / chi.NewMux() / <in-scope pkg>.NewRouter(…)
func (in *interp) muxExpr(e ast.Expr, env map[string]*view) *mux {
	if id, ok := e.(*ast.Ident); ok {
		v, ok := env[id.Name]
		if !ok || v.isInl {
			fail(e.Pos(), "%s is not a router built here", id.Name)
		}
		return v.m
	}
	c, ok := e.(*ast.CallExpr)
	if !ok {
		return nil
	}
	s, ok := c.Fun.(*ast.SelectorExpr)
	if !ok {
		return nil
	}
	id, ok := s.X.(*ast.Ident)
	if !ok {
		return nil
	}
	ip, ok := imports(in.file)[id.Name]
	if !ok {
		return nil
	}
	if ip == "github.com/go-chi/chi/v5" && (s.Sel.Name == "NewRouter" || s.Sel.Name == "NewMux") && len(c.Args) == 0 {
		return in.newMux(c.Pos())
	}
	if inScope(ip) && s.Sel.Name == "NewRouter" {
		return buildRouter(loadPkg(ip), "")
	}
	return nil
}

func (in *interp) block(stmts []ast.Stmt, env map[string]*view, fd *ast.FuncDecl, topLevel bool) *mux {
	var returned *mux
	for _, st := range stmts {
		if returned != nil {
			fail(st.Pos(), "statement after return")
		}
		switch s := st.(type) {
		case *ast.AssignStmt:
			if len(s.Lhs) != 1 || len(s.Rhs) != 1 || s.Tok != token.DEFINE {
				fail(s.Pos(), "unrecognised assignment in a router-building function")
			}
			id, ok := s.Lhs[0].(*ast.Ident)
			m := in.muxExpr(s.Rhs[0], env)
			if !ok || m == nil {
				fail(s.Pos(), "unrecognised assignment (only `x := chi.NewRouter()`, `x := vN.NewRouter(…)` are understood): %s", exprText(s.Rhs[0]))
			}
			env[id.Name] = &view{m: m}
		case *ast.ExprStmt:
			c, ok := s.X.(*ast.CallExpr)
			if !ok {
				fail(s.Pos(), "unrecognised statement")
			}
			in.routerCall(c, env, fd)
		case *ast.IfStmt:
			cid, ok := s.Cond.(*ast.Ident)
			if !ok || in.readOnly == "" || cid.Name != in.readOnly || s.Init != nil || s.Else != nil {
				fail(s.Pos(), "unrecognised `if` (only `if %s { <router>.Use(…) }` is understood)", in.readOnly)
			}
			for _, b := range s.Body.List {
				es, ok := b.(*ast.ExprStmt)
				var c *ast.CallExpr
				if ok {
					c, ok = es.X.(*ast.CallExpr)
				}
				var sel *ast.SelectorExpr
				if ok {
					sel, ok = c.Fun.(*ast.SelectorExpr)
				}
				if !ok || sel.Sel.Name != "Use" {
					fail(b.Pos(), "unrecognised statement under `if %s` (only <router>.Use(…))", in.readOnly)
				}
				in.use(in.viewOf(sel.X, env, fd), c, fd, "ifReadOnly")
			}
		case *ast.ReturnStmt:
			if !topLevel || len(s.Results) != 1 {
				fail(s.Pos(), "unrecognised return")
			}
			id, ok := s.Results[0].(*ast.Ident)
			if !ok || env[id.Name] == nil || env[id.Name].isInl {
				fail(s.Pos(), "the function does not return a router it built")
			}
			returned = env[id.Name].m
		default:
			fail(st.Pos(), "unrecognised statement %T in a router-building function", st)
		}
	}
	return returned
}

// viewOf evaluates the receiver of a router call: an identifier, or <router>.With(mws…)
func (in *interp) viewOf(e ast.Expr, env map[string]*view, fd *ast.FuncDecl) *view {
	switch x := e.(type) {
	case *ast.Ident:
		if v, ok := env[x.Name]; ok {
			return v
		}
	case *ast.CallExpr:
		if s, ok := x.Fun.(*ast.SelectorExpr); ok && s.Sel.Name == "With" {
			base := in.viewOf(s.X, env, fd)
			v := &view{m: base.m, inline: append([]mw{}, base.inline...), isInl: true}
			for _, a := range x.Args {
				v.inline = append(v.inline, in.middleware(a, fd, "always"))
			}
			return v
		}
	}
	fail(e.Pos(), "unrecognised router expression %s", exprText(e))
	return nil
}

func (in *interp) use(v *view, c *ast.CallExpr, fd *ast.FuncDecl, cond string) {
	if c.Ellipsis.IsValid() {
		fail(c.Pos(), "Use(xs...) is not understood")
	}
	for _, a := range c.Args {
		w := in.middleware(a, fd, cond)
		if v.isInl {
			if cond != "always" {
				fail(c.Pos(), "conditional middleware on an inline router is not understood")
			}
			v.inline = append(v.inline, w)
		} else {
			if v.m.populated {
				fail(c.Pos(), "Use after routes were registered on the same mux (chi panics)")
			}
			v.m.mws = append(v.m.mws, w)
		}
	}
}

func funcLitArg(e ast.Expr) (*ast.FuncLit, string) {
	fl, ok := e.(*ast.FuncLit)
	if !ok || len(fl.Type.Params.List) != 1 || len(fl.Type.Params.List[0].Names) != 1 {
		fail(e.Pos(), "expected a func(r chi.Router) literal")
	}
	return fl, fl.Type.Params.List[0].Names[0].Name
}

func childEnv(env map[string]*view, name string, v *view) map[string]*view {
	ne := map[string]*view{}
	for k, x := range env {
		ne[k] = x
	}
	ne[name] = v
	return ne
}

func (in *interp) routerCall(c *ast.CallExpr, env map[string]*view, fd *ast.FuncDecl) {
	sel, ok := c.Fun.(*ast.SelectorExpr)
	if !ok {
		fail(c.Pos(), "unrecognised call %s", exprText(c.Fun))
	}
	v := in.viewOf(sel.X, env, fd)
	inlineNames := func() []string {
		out := []string{}
		for _, w := range v.inline {
			out = append(out, w.Name)
		}
		return out
	}
	inlineWrites := func() bool {
		for _, w := range v.inline {
			if w.Writes {
				return true
			}
		}
		return false
	}
	addRoute := func(methods []string, patE, hE ast.Expr) {
		pat := strLit(patE, "route pattern")
		checkPattern(patE, pat)
		name, w := in.handler(hE, fd)
		for _, m := range methods {
			v.m.routes = append(v.m.routes, &route{Version: in.p.name, Method: m, Pattern: pat, Handler: name,
				Writes: w || inlineWrites(), Inline: inlineNames(), Src: src(c.Pos())})
		}
		v.m.populated = true
	}
	argc := func(n int) {
		if len(c.Args) != n {
			fail(c.Pos(), "%s: expected %d arguments", sel.Sel.Name, n)
		}
	}
	switch name := sel.Sel.Name; name {
	case "Use":
		in.use(v, c, fd, "always")
	case "Get", "Head", "Post", "Put", "Patch", "Delete", "Connect", "Options", "Trace":
		argc(2)
		addRoute([]string{chiVerb[name]}, c.Args[0], c.Args[1])
	case "Method", "MethodFunc":
		argc(3)
		m := ""
		if s, ok := c.Args[0].(*ast.SelectorExpr); ok && httpMethodConst[s.Sel.Name] != "" {
			m = httpMethodConst[s.Sel.Name]
		} else {
			m = strings.ToUpper(strLit(c.Args[0], "method"))
		}
		known := false
		for _, k := range allMethods {
			known = known || k == m
		}
		if !known {
			fail(c.Pos(), "method %q is not a chi method", m)
		}
		addRoute([]string{m}, c.Args[1], c.Args[2])
	case "Handle", "HandleFunc":
		argc(2)
		addRoute(allMethods, c.Args[0], c.Args[1])
	case "Group":
		argc(1)
		fl, pn := funcLitArg(c.Args[0])
		nv := &view{m: v.m, inline: append([]mw{}, v.inline...), isInl: true}
		in.block(fl.Body.List, childEnv(env, pn, nv), fd, false)
	case "Route":
		argc(2)
		pat := strLit(c.Args[0], "Route pattern")
		checkPattern(c.Args[0], pat)
		fl, pn := funcLitArg(c.Args[1])
		sub := in.newMux(c.Pos())
		sub.attached = true
		v.m.mounts = append(v.m.mounts, &mount{pattern: pat, pre: append([]mw{}, v.inline...), sub: sub})
		v.m.populated = true
		in.block(fl.Body.List, childEnv(env, pn, &view{m: sub}), fd, false)
	case "Mount":
		argc(2)
		pat := strLit(c.Args[0], "Mount pattern")
		checkPattern(c.Args[0], pat)
		sub := in.muxExpr(c.Args[1], env)
		if sub == nil {
			fail(c.Pos(), "Mount of something that is not a router built from the analysed sources: %s", exprText(c.Args[1]))
		}
		if sub.attached {
			fail(c.Pos(), "router mounted twice")
		}
		sub.attached = true
		v.m.mounts = append(v.m.mounts, &mount{pattern: pat, pre: append([]mw{}, v.inline...), sub: sub})
		v.m.populated = true
	default:
		fail(c.Pos(), "unrecognised router method %s", name)
	}
}

// buildRouter interprets <pkg>.NewRouter and returns the mux it returns
func buildRouter(p *pkgInfo, readOnlyWanted string) *mux {
	fd, ok := p.decl["NewRouter"]
	if !ok {
		fail(token.NoPos, "package %s has no NewRouter", p.path)
	}
	in := &interp{p: p, file: p.fileOf[fd]}
	for _, fl := range fd.Type.Params.List {
		if id, ok := fl.Type.(*ast.Ident); ok && id.Name == "bool" {
			for _, n := range fl.Names {
				if strings.EqualFold(n.Name, "readOnly") {
					in.readOnly = n.Name
				}
			}
		}
	}
	if readOnlyWanted != "" && in.readOnly == "" {
		fail(fd.Pos(), "%s.NewRouter has no `readOnly bool` parameter", p.name)
	}
	m := in.block(fd.Body.List, map[string]*view{}, fd, true)
	if m == nil {
		fail(fd.Pos(), "%s.NewRouter does not return a router", p.name)
	}
	for _, c := range in.created {
		if c != m && !c.attached {
			fail(c.pos, "a router is built here but never mounted or returned")
		}
	}
	return m
}

// ---------------------------------------------------------------- api.ReadOnly

func verifyGate(p *pkgInfo) {
	fd, ok := p.decl["ReadOnly"]
	if !ok {
		fail(token.NoPos, "package %s has no function ReadOnly", p.path)
	}
	bad := func(pos token.Pos, why string) { fail(pos, "ReadOnly does not have the recognised shape: %s", why) }
	if len(fd.Type.Params.List) != 1 || len(fd.Type.Params.List[0].Names) != 1 || len(fd.Body.List) != 1 {
		bad(fd.Pos(), "expected func ReadOnly(h http.Handler) http.Handler { return http.HandlerFunc(func(w, r) {…}) }")
	}
	next := fd.Type.Params.List[0].Names[0].Name
	ret, ok := fd.Body.List[0].(*ast.ReturnStmt)
	if !ok || len(ret.Results) != 1 {
		bad(fd.Pos(), "body is not a single return")
	}
	conv, ok := ret.Results[0].(*ast.CallExpr)
	if !ok || exprText(conv.Fun) != "http.HandlerFunc" || len(conv.Args) != 1 {
		bad(ret.Pos(), "does not return http.HandlerFunc(…)")
	}
	fl, ok := conv.Args[0].(*ast.FuncLit)
	if !ok || len(fl.Type.Params.List) != 2 || len(fl.Body.List) != 2 {
		bad(conv.Pos(), "inner function is not `func(w, r) { if … {…; return}; h.ServeHTTP(w, r) }`")
	}
	wn, rn := fl.Type.Params.List[0].Names[0].Name, fl.Type.Params.List[1].Names[0].Name
	ifs, ok := fl.Body.List[0].(*ast.IfStmt)
	if !ok || ifs.Init != nil || ifs.Else != nil {
		bad(fl.Body.List[0].Pos(), "first statement is not a plain if")
	}
	var conj func(e ast.Expr)
	conj = func(e ast.Expr) {
		switch b := e.(type) {
		case *ast.ParenExpr:
			conj(b.X)
			return
		case *ast.BinaryExpr:
			if b.Op == token.LAND {
				conj(b.X)
				conj(b.Y)
				return
			}
			if b.Op == token.NEQ && exprText(b.X) == rn+".Method" {
				if s, ok := b.Y.(*ast.SelectorExpr); ok && exprText(s.X) == "http" && httpMethodConst[s.Sel.Name] != "" {
					gatePass = append(gatePass, httpMethodConst[s.Sel.Name])
					return
				}
				if l, ok := b.Y.(*ast.BasicLit); ok && l.Kind == token.STRING {
					gatePass = append(gatePass, strLit(l, "method"))
					return
				}
			}
		}
		bad(e.Pos(), "condition is not a conjunction of `"+rn+".Method != <method constant>`")
	}
	conj(ifs.Cond)
	// the rejecting branch must end in return and must not hand the request on
	if n := len(ifs.Body.List); n == 0 {
		bad(ifs.Pos(), "empty rejecting branch")
	} else if r, ok := ifs.Body.List[n-1].(*ast.ReturnStmt); !ok || len(r.Results) != 0 {
		bad(ifs.Body.Pos(), "rejecting branch does not end in return")
	}
	ast.Inspect(ifs.Body, func(n ast.Node) bool {
		if id, ok := n.(*ast.Ident); ok && id.Name == next {
			bad(id.Pos(), "rejecting branch mentions the next handler")
		}
		return true
	})
	if p.writesNode(fd.Body, p.fileOf[fd], map[string]bool{}) {
		bad(fd.Pos(), "it can reach a write")
	}
	es, ok := fl.Body.List[1].(*ast.ExprStmt)
	if !ok {
		bad(fl.Body.List[1].Pos(), "second statement is not h.ServeHTTP(w, r)")
	}
	call, ok := es.X.(*ast.CallExpr)
	if !ok || exprText(call.Fun) != next+".ServeHTTP" || len(call.Args) != 2 || exprText(call.Args[0]) != wn || exprText(call.Args[1]) != rn {
		bad(es.Pos(), "second statement is not "+next+".ServeHTTP("+wn+", "+rn+")")
	}
	sort.Strings(gatePass)
	gateFunc = fd
}

// ---------------------------------------------------------------- method rewrites

func methodWriters() []string {
	out := []string{}
	names := []string{}
	for ip := range pkgs {
		names = append(names, ip)
	}
	sort.Strings(names)
	for _, ip := range names {
		for _, f := range pkgs[ip].files {
			ast.Inspect(f, func(n ast.Node) bool {
				check := func(e ast.Expr) {
					if s, ok := e.(*ast.SelectorExpr); ok && (s.Sel.Name == "Method" || s.Sel.Name == "RouteMethod") {
						out = append(out, fmt.Sprintf("%s:%s", src(s.Pos()), exprText(s)))
					}
				}
				switch a := n.(type) {
				case *ast.AssignStmt:
					for _, l := range a.Lhs {
						check(l)
					}
				case *ast.IncDecStmt:
					check(a.X)
				case *ast.UnaryExpr:
					if a.Op == token.AND {
						check(a.X)
					}
				}
				return true
			})
		}
	}
	return out
}

// ---------------------------------------------------------------- output

type muxOut struct {
	Chain []string `json:"chain"`
	Mws   []mw     `json:"mws"`
}

func flatten(m *mux, chain []string, pre []mw, routes *[]*route, muxes *[]muxOut) {
	*muxes = append(*muxes, muxOut{Chain: append([]string{}, chain...), Mws: append(append([]mw{}, pre...), m.mws...)})
	for _, r := range m.routes {
		r.Mounts = append([]string{}, chain...)
		*routes = append(*routes, r)
	}
	for _, mt := range m.mounts {
		flatten(mt.sub, append(append([]string{}, chain...), mt.pattern), mt.pre, routes, muxes)
	}
}

func q(s string) string {
	var b strings.Builder
	b.WriteByte('"')
	for _, r := range s {
		switch {
		case r == '"' || r == '\\':
			b.WriteByte('\\')
			b.WriteRune(r)
		case r < 0x20 || r > 0x7e:
			fmt.Fprintf(&b, "\\u{%x}", r)
		default:
			b.WriteRune(r)
		}
	}
	b.WriteByte('"')
	return b.String()
}

func qList(xs []string) string {
	ys := make([]string, len(xs))
	for i, x := range xs {
		ys[i] = q(x)
	}
	return "[" + strings.Join(ys, ", ") + "]"
}

func main() {
	out := flag.String("out", "", "Lean file to write")
	js := flag.String("json", "", "optional JSON summary")
	flag.StringVar(&repo, "repo", "/repo", "repository under test")
	flag.Parse()
	if *out == "" {
		fail(token.NoPos, "-out is required")
	}
	var err error
	if repo, err = filepath.Abs(repo); err != nil {
		fail(token.NoPos, "%v", err)
	}

	api := loadPkg(apiScope)
	verifyGate(api)
	top := buildRouter(api, "readOnly")
	var routes []*route
	var muxes []muxOut
	flatten(top, nil, nil, &routes, &muxes)
	if len(routes) == 0 {
		fail(token.NoPos, "no route found")
	}
	// chi refuses two handlers for one (mux, method, pattern); a duplicate means the extractor misread something
	seen := map[string]bool{}
	for _, r := range routes {
		k := strings.Join(r.Mounts, "|") + " " + r.Method + " " + r.Pattern
		if seen[k] {
			// chi lets a later registration replace an earlier one; the model keeps the first — refuse
			fail(token.NoPos, "route registered twice: %s (%s)", k, r.Src)
		}
		seen[k] = true
	}
	mwr := methodWriters()

	var b strings.Builder
	b.WriteString("import Model.Router\n")
	b.WriteString("/-! GENERATED by extract/routes (go/ast) from internal/api/{read_only,router}.go and internal/api/{v1,v2}/routes.go of the\nrepository under test, on every run of the check.  Do not edit; not committed. -/\n")
	b.WriteString("namespace Generated\nopen Router\n\n")
	b.WriteString("/-- the methods `api.ReadOnly` lets through (sorted) -/\n")
	fmt.Fprintf(&b, "def gatePassMethods : List String := %s\n\n", qList(gatePass))
	b.WriteString("/-- every assignment to / address of a `.Method` or `.RouteMethod` field in the packages under internal/api -/\n")
	fmt.Fprintf(&b, "def methodWriters : List String := %s\n\n", qList(mwr))
	unresolved := []string{}
	for _, r := range routes {
		if strings.HasPrefix(r.Handler, "UNKNOWN:") {
			unresolved = append(unresolved, r.Version+" "+r.Method+" "+strings.Join(r.Mounts, "")+r.Pattern+" "+r.Handler)
		}
	}
	b.WriteString("/-- routes whose handler expression the extractor could not resolve (classified `writes := true` by default) -/\n")
	fmt.Fprintf(&b, "def unresolvedHandlers : List String := %s\n\n", qList(unresolved))
	b.WriteString("/-- every mux reachable from the one `api.NewRouter` returns, with its `Use` stack in order -/\n")
	b.WriteString("def muxes : List Mux := [\n")
	for i, m := range muxes {
		ws := []string{}
		for _, w := range m.Mws {
			ws = append(ws, fmt.Sprintf("⟨%s, .%s, .%s, %v⟩", q(w.Name), w.Kind, w.Cond, w.Writes))
		}
		sep := ","
		if i == len(muxes)-1 {
			sep = ""
		}
		fmt.Fprintf(&b, "  { chain := %s, mws := [%s] }%s\n", qList(m.Chain), strings.Join(ws, ", "), sep)
	}
	b.WriteString("]\n\n")
	b.WriteString("def routes : List Route := [\n")
	for i, r := range routes {
		sep := ","
		if i == len(routes)-1 {
			sep = ""
		}
		fmt.Fprintf(&b, "  { version := %s, method := %s, mounts := %s, pattern := %s, handler := %s, writes := %v }%s\n",
			q(r.Version), q(r.Method), qList(r.Mounts), q(r.Pattern), q(r.Handler), r.Writes, sep)
	}
	b.WriteString("]\n\n")
	b.WriteString("def config : Config := { pass := gatePassMethods, muxes := muxes, routes := routes }\n\nend Generated\n")
	if err := os.WriteFile(*out, []byte(b.String()), 0o644); err != nil {
		fail(token.NoPos, "%v", err)
	}
	if *js != "" {
		nw := 0
		for _, r := range routes {
			if r.Writes {
				nw++
			}
		}
		pk := []string{}
		for ip := range pkgs {
			pk = append(pk, ip)
		}
		sort.Strings(pk)
		data, _ := json.MarshalIndent(map[string]any{"routes": routes, "muxes": muxes, "gate_pass": gatePass, "method_writers": mwr,
			"write_routes": nw, "packages_analysed": pk}, "", " ")
		if err := os.WriteFile(*js, data, 0o644); err != nil {
			fail(token.NoPos, "%v", err)
		}
	}
}
