// Offline search for pairs of DIFFERENT posting-list shapes whose TxToScriptData texts collide under common weak 32-bit keys.
//
// ledger.TxToScriptData emits a text that depends only on the SHAPE of the posting list: which posting uses which account
// variable ($va0, $va1, … in order of first appearance; @world literally) and which monetary variable ($vm0, …), plus the
// overdraft flag.  Account names, assets and amounts travel as variable values.  A compilation cache keyed by a weak digest of
// the text therefore hands a later request the program of ANOTHER shape; when both shapes declare the same variables the
// program runs on the later request's values: other number of postings, other accounts.
//
// The tool enumerates canonical shapes systematically (n = 1, 2, … postings; sources / destinations: world or an account index
// introduced in order of first appearance; monetary indices likewise; both values of the overdraft flag), renders each through
// the REAL ledger.TxToScriptData, computes every digest below and reports, per digest, the best colliding pairs (same variable
// set first, then fewest postings).  Nothing is appended to the texts: the function emits no comments, so only shapes vary.
//
// Built into /repo's module through `go build -overlay` (tools/collide/find); writes JSON lines to -out.
package main

import (
	"crypto/md5"
	"crypto/sha1"
	"crypto/sha256"
	"encoding/binary"
	"encoding/hex"
	"encoding/json"
	"flag"
	"fmt"
	"hash/adler32"
	"hash/crc32"
	"hash/fnv"
	"math/big"
	"os"
	"sort"

	ledger "github.com/formancehq/ledger/internal"
)

type digest struct {
	name string
	f    func([]byte) uint32
}

var castagnoli = crc32.MakeTable(crc32.Castagnoli)

var digests = []digest{
	{"crc32-ieee", func(b []byte) uint32 { return crc32.ChecksumIEEE(b) }},
	{"crc32c", func(b []byte) uint32 { return crc32.Checksum(b, castagnoli) }},
	{"fnv1a-32", func(b []byte) uint32 { h := fnv.New32a(); h.Write(b); return h.Sum32() }},
	{"fnv1-32", func(b []byte) uint32 { h := fnv.New32(); h.Write(b); return h.Sum32() }},
	{"adler32", func(b []byte) uint32 { return adler32.Checksum(b) }},
	{"java-hashcode-31", func(b []byte) uint32 {
		var h uint32
		for _, c := range b {
			h = 31*h + uint32(c)
		}
		return h
	}},
	{"djb2-33", func(b []byte) uint32 {
		h := uint32(5381)
		for _, c := range b {
			h = 33*h + uint32(c)
		}
		return h
	}},
	{"sha256-first-4-bytes", func(b []byte) uint32 { s := sha256.Sum256(b); return binary.BigEndian.Uint32(s[:4]) }},
	{"sha256-last-4-bytes", func(b []byte) uint32 { s := sha256.Sum256(b); return binary.BigEndian.Uint32(s[28:]) }},
	{"md5-first-4-bytes", func(b []byte) uint32 { s := md5.Sum(b); return binary.BigEndian.Uint32(s[:4]) }},
	{"sha1-first-4-bytes", func(b []byte) uint32 { s := sha1.Sum(b); return binary.BigEndian.Uint32(s[:4]) }},
}

type post struct{ s, d, m int8 } // s, d: -1 = world, k = k-th account in order of first appearance; m: k-th monetary

type shape struct {
	off, n uint32
	nA, nM int8
	force  bool
}

var (
	flat   []post
	shapes []shape
)

func postings(ps []post) ledger.Postings {
	name := func(k int8) string {
		if k < 0 {
			return "world"
		}
		return fmt.Sprintf("a%d", k)
	}
	out := make(ledger.Postings, len(ps))
	for i, p := range ps {
		out[i] = ledger.Posting{Source: name(p.s), Destination: name(p.d), Asset: "USD", Amount: big.NewInt(int64(p.m) + 1)}
	}
	return out
}

func text(ps []post, force bool) string {
	return ledger.TxToScriptData(ledger.TransactionData{Postings: postings(ps)}, force).Script.Plain
}

func enumerate(n, maxA, maxM int, limit int, emit func([]post, int8, int8)) {
	cur := make([]post, n)
	var rec func(i int, ua, um int8)
	rec = func(i int, ua, um int8) {
		if len(shapes) >= limit {
			return
		}
		if i == n {
			emit(cur, ua, um)
			return
		}
		for s := int8(-1); s <= ua && int(s) < maxA; s++ {
			ua1 := ua
			if s == ua {
				ua1++
			}
			for d := int8(-1); d <= ua1 && int(d) < maxA; d++ {
				ua2 := ua1
				if d == ua1 {
					ua2++
				}
				for m := int8(0); m <= um && int(m) < maxM; m++ {
					um1 := um
					if m == um {
						um1++
					}
					cur[i] = post{s, d, m}
					rec(i+1, ua2, um1)
				}
			}
		}
	}
	rec(0, 0, 0)
}

type kv struct {
	key uint32
	idx uint32
}

type side struct {
	Shape [][3]int `json:"shape"`
	Force bool     `json:"force"`
	Text  string   `json:"text_hex"`
}

type pair struct {
	Digest   string `json:"digest"`
	Key      string `json:"key"`
	SameVars bool   `json:"same_variables"`
	Accounts [2]int `json:"accounts"`
	Monetary [2]int `json:"monetaries"`
	A, B     side
}

func main() {
	maxN := flag.Int("maxn", 6, "posting lists of 1..maxn postings")
	maxA := flag.Int("accounts", 3, "at most this many distinct non-world accounts")
	maxM := flag.Int("monetaries", 2, "at most this many distinct (asset, amount) pairs")
	limit := flag.Int("limit", 2600000, "stop after this many shapes per overdraft flag")
	per := flag.Int("pairs", 2, "pairs reported per digest and overdraft flag")
	out := flag.String("out", "", "output file (JSON lines)")
	flag.Parse()

	for _, force := range []bool{false, true} {
		start := len(shapes)
		for n := 1; n <= *maxN; n++ {
			enumerate(n, *maxA, *maxM, start+*limit, func(ps []post, ua, um int8) {
				shapes = append(shapes, shape{off: uint32(len(flat)), n: uint32(len(ps)), nA: ua, nM: um, force: force})
				flat = append(flat, ps...)
			})
		}
		fmt.Fprintf(os.Stderr, "force=%v: %d shapes\n", force, len(shapes)-start)
	}
	tabs := make([][]kv, len(digests))
	for k := range tabs {
		tabs[k] = make([]kv, len(shapes))
	}
	for i, sh := range shapes {
		b := []byte(text(flat[sh.off:sh.off+sh.n], sh.force))
		for k, d := range digests {
			tabs[k][i] = kv{d.f(b), uint32(i)}
		}
		if i%500000 == 0 {
			fmt.Fprintf(os.Stderr, "hashed %d\n", i)
		}
	}
	f := os.Stdout
	if *out != "" {
		var err error
		if f, err = os.Create(*out); err != nil {
			panic(err)
		}
		defer f.Close()
	}
	enc := json.NewEncoder(f)
	mk := func(i uint32) side {
		sh := shapes[i]
		ps := flat[sh.off : sh.off+sh.n]
		s := side{Force: sh.force, Text: hex.EncodeToString([]byte(text(ps, sh.force)))}
		for _, p := range ps {
			s.Shape = append(s.Shape, [3]int{int(p.s), int(p.d), int(p.m)})
		}
		return s
	}
	for k, d := range digests {
		t := tabs[k]
		sort.Slice(t, func(a, b int) bool { return t[a].key < t[b].key || (t[a].key == t[b].key && t[a].idx < t[b].idx) })
		type cand struct {
			a, b  uint32
			score int
		}
		best := map[bool][]cand{}
		total := 0
		for i := 0; i < len(t); {
			j := i + 1
			for j < len(t) && t[j].key == t[i].key {
				j++
			}
			if j-i > 8 { // a very weak digest: look at the first few of the run only
				j = i + 8
			}
			for x := i; x < j; x++ {
				for y := x + 1; y < j; y++ {
					a, b := shapes[t[x].idx], shapes[t[y].idx]
					if a.force != b.force {
						continue
					}
					total++
					sc := int(a.n + b.n)
					if a.nA != b.nA || a.nM != b.nM {
						sc += 1000
					}
					best[a.force] = append(best[a.force], cand{t[x].idx, t[y].idx, sc})
				}
			}
			for j < len(t) && t[j].key == t[i].key {
				j++
			}
			i = j
		}
		fmt.Fprintf(os.Stderr, "%s: %d colliding pairs\n", d.name, total)
		for _, force := range []bool{false, true} {
			cs := best[force]
			sort.Slice(cs, func(a, b int) bool {
				return cs[a].score < cs[b].score || (cs[a].score == cs[b].score && cs[a].a < cs[b].a)
			})
			for n := 0; n < len(cs) && n < *per; n++ {
				a, b := shapes[cs[n].a], shapes[cs[n].b]
				_ = enc.Encode(pair{Digest: d.name, Key: fmt.Sprintf("%08x", d.f([]byte(text(flat[a.off:a.off+a.n], a.force)))),
					SameVars: a.nA == b.nA && a.nM == b.nM, Accounts: [2]int{int(a.nA), int(b.nA)}, Monetary: [2]int{int(a.nM), int(b.nM)},
					A: mk(cs[n].a), B: mk(cs[n].b)})
			}
		}
	}
}
