"""Regeneration of lean/Generated/*.lean from /repo's current working tree (translators live in /verif/extract)."""
import os
from .common import LEAN, log

GENERATORS = []   # (name, function) — each writes one file under lean/Generated and returns an error string or None


def register(name):
    def deco(f):
        GENERATORS.append((name, f))
        return f
    return deco


def all():
    os.makedirs(os.path.join(LEAN, "Generated"), exist_ok=True)
    errs = []
    for name, f in GENERATORS:
        e = f()
        if e:
            errs.append("%s: %s" % (name, e))
            log("[regen] %s FAILED: %s" % (name, e))
    return errs
