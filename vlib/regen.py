"""Regeneration of lean/Generated/*.lean from /repo's current working tree (translators live in /verif/extract)."""
import os
from .common import LEAN, log

GENERATORS = []   # (name, function) — each writes one file under lean/Generated and returns an error string or None


def register(name):
    def deco(f):
        GENERATORS.append((name, f))
        return f
    return deco


def all():
    os.makedirs(os.path.join(LEAN, "Generated"), exist_ok=True)
    errs = []
    for name, f in GENERATORS:
        e = f()
        if e:
            errs.append("%s: %s" % (name, e))
            log("[regen] %s FAILED: %s" % (name, e))
    return errs


# ---------------------------------------------------------------- C19: route tables, middleware stacks, read-only gate

@register("routes")
def routes():
    """extract/routes (go/ast) -> lean/Generated/Routes.lean (+ build/routes.json for the evidence).
    The old file is removed first: a failing extractor leaves NO table behind, so nothing is proved about a stale one."""
    import subprocess
    from .common import VERIF, REPO, BUILD, GOENV
    out = os.path.join(LEAN, "Generated", "Routes.lean")
    summary = os.path.join(BUILD, "routes.json")
    for f in (out, summary):
        if os.path.exists(f):
            os.remove(f)
    os.makedirs(BUILD, exist_ok=True)
    src = os.path.join(VERIF, "extract", "routes")
    binary = os.path.join(BUILD, "extract-routes")
    if os.path.exists(binary):
        os.remove(binary)
    p = subprocess.run(["go", "build", "-o", binary, "."], cwd=src, env=GOENV, capture_output=True, text=True, timeout=600)
    if p.returncode != 0:
        return "go build extract/routes failed: " + p.stderr[-1500:]
    p = subprocess.run([binary, "-repo", REPO, "-out", out, "-json", summary], capture_output=True, text=True, timeout=600)
    if p.returncode != 0:
        if os.path.exists(out):
            os.remove(out)
        return (p.stderr.strip() or "extract-routes failed")[-1500:]
    return None


# ---------------------------------------------------------------- C04: PL/pgSQL projection of the log (0-init-schema.sql)

@register("schema")
def schema():
    """extract/plpgsql (lark, run with python3-vt) -> lean/Generated/Schema.lean (+ build/schema.json for the evidence).
    The old file is removed first: when the translator meets a construct outside its grammar NO definition is left behind,
    Props.C04 stops building and the check reports which construct it was."""
    import subprocess
    from .common import VERIF, REPO, BUILD
    out = os.path.join(LEAN, "Generated", "Schema.lean")
    summary = os.path.join(BUILD, "schema.json")
    for f in (out, summary):
        if os.path.exists(f):
            os.remove(f)
    os.makedirs(BUILD, exist_ok=True)
    src = os.path.join(REPO, "internal/storage/ledgerstore/migrations/0-init-schema.sql")
    if not os.path.exists(src):
        return "schema file not found: " + src
    try:
        p = subprocess.run(["python3-vt", os.path.join(VERIF, "extract", "plpgsql", "translate.py"), src, out, summary],
                           capture_output=True, text=True, timeout=600)
    except FileNotFoundError:
        return "python3-vt (tooling interpreter with lark) not found"
    if p.returncode != 0:
        for f in (out, summary):
            if os.path.exists(f):
                os.remove(f)
        return (p.stderr.strip() or "translate.py failed")[-1500:]
    return None


# ---------------------------------------------------------------- C08 / C12: opcode and machine.Type numberings of the Numscript VM

@register("opcodes")
def opcodes():
    """extract/opcodes (go/ast) -> lean/Generated/Opcodes.lean (+ build/opcodes.json for the evidence).
    The old file is removed first: a failing extractor leaves NO table behind."""
    import subprocess
    from .common import VERIF, REPO, BUILD, GOENV
    out = os.path.join(LEAN, "Generated", "Opcodes.lean")
    summary = os.path.join(BUILD, "opcodes.json")
    for f in (out, summary):
        if os.path.exists(f):
            os.remove(f)
    os.makedirs(BUILD, exist_ok=True)
    os.makedirs(os.path.join(LEAN, "Generated"), exist_ok=True)
    src = os.path.join(VERIF, "extract", "opcodes")
    binary = os.path.join(BUILD, "extract-opcodes")
    if os.path.exists(binary):
        os.remove(binary)
    p = subprocess.run(["go", "build", "-o", binary, "."], cwd=src, env=GOENV, capture_output=True, text=True, timeout=600)
    if p.returncode != 0:
        return "go build extract/opcodes failed: " + p.stderr[-1500:]
    p = subprocess.run([binary, "-repo", REPO, "-out", out, "-json", summary], capture_output=True, text=True, timeout=600)
    if p.returncode != 0:
        if os.path.exists(out):
            os.remove(out)
        return (p.stderr.strip() or "extract-opcodes failed")[-1500:]
    return None


# ---------------------------------------------------------------- engine properties: the commander's protocol skeleton

@register("commander")
def commander():
    """extract/commander (go/ast) -> lean/Generated/Commander.lean (+ build/commander.json for the evidence).
    The old file is removed first: when the translator meets a construct it does not understand NO skeleton is left
    behind, Props.Skeleton stops building and the engine checks report which construct it was."""
    import subprocess
    from .common import VERIF, REPO, BUILD, GOENV
    out = os.path.join(LEAN, "Generated", "Commander.lean")
    summary = os.path.join(BUILD, "commander.json")
    for f in (out, summary):
        if os.path.exists(f):
            os.remove(f)
    os.makedirs(BUILD, exist_ok=True)
    os.makedirs(os.path.join(LEAN, "Generated"), exist_ok=True)
    src = os.path.join(VERIF, "extract", "commander")
    binary = os.path.join(BUILD, "extract-commander")
    if os.path.exists(binary):
        os.remove(binary)
    p = subprocess.run(["go", "build", "-o", binary, "."], cwd=src, env=GOENV, capture_output=True, text=True, timeout=600)
    if p.returncode != 0:
        return "go build extract/commander failed: " + p.stderr[-1500:]
    p = subprocess.run([binary, "-repo", REPO, "-out", out, "-json", summary], capture_output=True, text=True, timeout=600)
    if p.returncode != 0:
        if os.path.exists(out):
            os.remove(out)
        return (p.stderr.strip() or "extract-commander failed")[-2500:]
    return None
