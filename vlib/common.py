"""Shared machinery of /verif/bin/check (stdlib only; runs with the system python3).

Layers (DESIGN.md section 2.1):
  L1  lake build of Props.<id> + axiom audit           -> obligations / discharged
  L2  correspondence: Go harness (real code) vs Lean driver (model) on the same input lines
  L3  property oracle evaluated on the implementation's outputs
Verdict and evidence are produced by Ctx.finish().
"""
import hashlib
import json
import os
import re
import subprocess
import sys
import time

VERIF = os.path.dirname(os.path.dirname(os.path.abspath(__file__)))
REPO = os.environ.get("VERIF_REPO") or "/repo"   # an empty value means: not set
BUILD = os.path.join(VERIF, "build")
LEAN = os.path.join(VERIF, "lean")
HARNESS_SRC = os.path.join(VERIF, "harness")
HARNESS_BIN = os.path.join(BUILD, "verifharness")
DRIVER_BIN = os.path.join(LEAN, ".lake", "build", "bin", "driver")
ALLOWED_AXIOMS = {"propext", "Classical.choice", "Quot.sound"}
FORBIDDEN = re.compile(r"\bsorry\b|\badmit\b|^\s*axiom\s|native_decide|bv_decide|implemented_by|\bunsafe\s|maxHeartbeats\s+0\b", re.M)

GOENV = dict(os.environ, GOFLAGS="-mod=mod", GOPROXY="off", GOSUMDB="off", GOTOOLCHAIN="local",
             CGO_ENABLED=os.environ.get("CGO_ENABLED", "0"))


def log(*a):
    print(*a, file=sys.stderr, flush=True)


def sh(cmd, cwd=None, env=None, timeout=None, stdin=None, check=False):
    p = subprocess.run(cmd, cwd=cwd, env=env, timeout=timeout, stdin=stdin, capture_output=True, text=True)
    if check and p.returncode != 0:
        raise RuntimeError("command failed: %s\n%s\n%s" % (cmd, p.stdout[-4000:], p.stderr[-4000:]))
    return p


# ---------------------------------------------------------------- harness build (from /repo's working tree)

def overlay_map():
    """harness/*.go -> /repo/internal/verifharness/ ; harness/export/<pkg path with '__'>/*.go -> added to that package."""
    rep = {}
    for f in sorted(os.listdir(HARNESS_SRC)):
        if f.endswith(".go"):
            rep[os.path.join(REPO, "internal/verifharness", f)] = os.path.join(HARNESS_SRC, f)
    exp = os.path.join(HARNESS_SRC, "export")
    if os.path.isdir(exp):
        for d in sorted(os.listdir(exp)):
            pkg = d.replace("__", "/")
            for f in sorted(os.listdir(os.path.join(exp, d))):
                if f.endswith(".go"):
                    rep[os.path.join(REPO, pkg, f)] = os.path.join(exp, d, f)
    return rep


def build_harness(race=False):
    """Builds the harness into /repo's module.  When the whole harness does not compile (a change of /repo altered an API one
    harness file uses), the files the compiler complains about are left out and the build is repeated, so that only the areas
    served by those files are lost (their checks then report a broken correspondence), not every property's check.  main.go or
    an error inside /repo's own packages cannot be left out: then there is no harness."""
    os.makedirs(BUILD, exist_ok=True)
    out = HARNESS_BIN + ("-race" if race else "")
    if os.path.exists(out):
        os.remove(out)  # never run a stale binary
    ov = os.path.join(BUILD, "overlay.json")
    rep = overlay_map()
    dropped, first_err = [], ""
    env = dict(GOENV)
    cmd = ["go", "build", "-tags", "verif", "-overlay", ov, "-o", out]
    if race:
        cmd.insert(2, "-race")
        env["CGO_ENABLED"] = "1"
    cmd.append("./internal/verifharness")
    t = time.time()
    for _ in range(8):
        with open(ov, "w") as fh:
            json.dump({"Replace": rep}, fh, indent=1)
        p = sh(cmd, cwd=REPO, env=env, timeout=900)
        if p.returncode == 0:
            log("[harness] built in %.1fs%s" % (time.time() - t, (" WITHOUT " + ", ".join(dropped)) if dropped else ""))
            HARNESS_DROPPED[:] = dropped
            return out, ""
        first_err = first_err or p.stderr
        bad = set()
        for m in re.finditer(r"^(?:\./)?([^\s:]+\.go):\d+", p.stderr, re.M):
            k = os.path.normpath(os.path.join(REPO, m.group(1)))
            if k in rep and os.path.basename(k) != "main.go":
                bad.add(k)
        if not bad:
            break
        for k in sorted(bad):
            dropped.append(os.path.relpath(rep.pop(k), VERIF))
    return None, first_err[-6000:]


HARNESS_DROPPED = []   # harness sources left out of the last build (see build_harness)


# ---------------------------------------------------------------- Lean build + audit

def lake_build(targets, timeout=3000):
    t = time.time()
    p = sh(["lake", "build"] + list(targets), cwd=LEAN, timeout=timeout)
    log("[lake] build %s: rc=%d %.1fs" % (" ".join(targets), p.returncode, time.time() - t))
    return p.returncode == 0, (p.stdout + p.stderr)[-8000:]


def strip_lean_comments(src):
    out, i, depth, n = [], 0, 0, len(src)
    while i < n:
        if src.startswith("/-", i):
            depth += 1
            i += 2
        elif depth and src.startswith("-/", i):
            depth -= 1
            i += 2
        elif depth:
            if src[i] == "\n":
                out.append("\n")
            i += 1
        elif src.startswith("--", i):
            while i < n and src[i] != "\n":
                i += 1
        else:
            out.append(src[i])
            i += 1
    return "".join(out)


def forbidden_tokens():
    hits = []
    for root, _, files in os.walk(LEAN):
        if ".lake" in root:
            continue
        for f in files:
            if f.endswith(".lean"):
                p = os.path.join(root, f)
                src = strip_lean_comments(open(p).read())
                for m in FORBIDDEN.finditer(src):
                    line = src.count("\n", 0, m.start()) + 1
                    hits.append("%s:%d:%s" % (os.path.relpath(p, VERIF), line, m.group(0).strip()))
    return hits


def property_theorems(prop):
    """Names of the theorems of Props/<prop>.lean (convention: all inside `namespace <prop>`)."""
    path = os.path.join(LEAN, "Props", prop + ".lean")
    src = strip_lean_comments(open(path).read())
    names = re.findall(r"^\s*(?:@\[[^\]]*\]\s*)?theorem\s+([A-Za-z_][\w.']*)", src, re.M)
    return [prop + "." + n for n in names], path


def audit(prop):
    """Returns dict(obligations, discharged, theorems=[{name, axioms, ok}], errors)."""
    names, _ = property_theorems(prop)
    os.makedirs(BUILD, exist_ok=True)
    f = os.path.join(BUILD, "Audit_%s.lean" % prop)
    with open(f, "w") as fh:
        fh.write("import Props.%s\n" % prop)
        for n in names:
            fh.write("#print axioms %s\n" % n)
    p = sh(["lake", "env", "lean", f], cwd=LEAN, timeout=1800)
    text = p.stdout + p.stderr
    res = []
    # output: "'C18.foo' depends on axioms: [propext, Quot.sound]" or "'C18.foo' does not depend on any axioms"
    flat = re.sub(r"\s+", " ", text)
    for n in names:
        m = re.search(r"'%s' (does not depend on any axioms|depends on axioms: \[([^\]]*)\])" % re.escape(n), flat)
        if not m:
            res.append({"name": n, "axioms": None, "ok": False})
            continue
        ax = [a.strip() for a in (m.group(2) or "").split(",") if a.strip()]
        res.append({"name": n, "axioms": ax, "ok": all(a in ALLOWED_AXIOMS for a in ax)})
    return {"obligations": len(names), "discharged": sum(1 for r in res if r["ok"]), "theorems": res,
            "raw": text[-3000:] if p.returncode != 0 else ""}


# ---------------------------------------------------------------- running harness / driver

def read_jsonl(path):
    out = []
    with open(path) as fh:
        for line in fh:
            line = line.strip()
            if line:
                out.append(json.loads(line))
    return out


def write_jsonl(path, rows):
    with open(path, "w") as fh:
        for r in rows:
            fh.write(json.dumps(r, sort_keys=True, separators=(",", ":")) + "\n")


def run_harness(args, timeout=3000, binary=None, env=None):
    e = dict(os.environ, GOMEMLIMIT="6GiB")
    if env:
        e.update(env)
    p = sh([binary or HARNESS_BIN] + [str(a) for a in args], cwd=BUILD, timeout=timeout, env=e)
    return p


# the areas whose model imports a file regenerated from /repo have their own executable: when the translator cannot read the
# sources (no Generated/<X>.lean) only the properties decided with that file lose their driver
DRIVER_OF_AREA = {"router": "driver_router"}


def driver_bin(area):
    return os.path.join(os.path.dirname(DRIVER_BIN), DRIVER_OF_AREA.get(area, "driver"))


def run_driver(area, infile, outfile, timeout=3000):
    with open(infile) as fin:
        p = subprocess.run([driver_bin(area), area], stdin=fin, capture_output=True, text=True, timeout=timeout)
    with open(outfile, "w") as fh:
        fh.write(p.stdout)
    return p


def canon(x):
    return json.dumps(x, sort_keys=True, separators=(",", ":"))


def shash(x):
    return hashlib.sha1(canon(x).encode()).hexdigest()[:16]


# ---------------------------------------------------------------- known findings

def load_known():
    p = os.path.join(VERIF, "known_findings.json")
    if not os.path.exists(p):
        return []
    return json.load(open(p)).get("entries", [])


def sig_matches(entry_sig, sig):
    return all(sig.get(k) == v for k, v in entry_sig.items())


# ---------------------------------------------------------------- check context

class Ctx:
    def __init__(self, prop, tier, seed, replay_file=None):
        self.prop, self.tier, self.seed = prop, tier, seed
        self.replay_file = replay_file   # known before the stale replays are removed: the file may be one of them
        self.t0 = time.time()
        self.cov = {"obligations": 0, "discharged": 0, "checker_cmd": "", "trusted_base": [],
                    "evaluations": 0, "distinct_nontrivial": 0, "rule": "", "samples": []}
        self.assumptions = []
        self.l1_broken = []       # names of theorems / build failures
        self.l2_broken = []       # correspondence streams that disagree: dict(stream, id, input, impl, model)
        self.violations = []      # dict(sig, what, replay)
        self.notes = []
        self.workdir = os.path.join(BUILD, "run", prop)
        os.makedirs(self.workdir, exist_ok=True)
        os.makedirs(os.path.join(VERIF, "replays"), exist_ok=True)
        for f in os.listdir(os.path.join(VERIF, "replays")):  # replays of earlier runs of this property are stale
            if f.startswith(prop + "-") and not self.replay_file:
                os.remove(os.path.join(VERIF, "replays", f))

    @property
    def quick(self):
        return self.tier == "quick"

    def path(self, name):
        return os.path.join(self.workdir, name)

    # ---- L1
    def l1(self, extra_targets=(), extra=()):
        """`extra`: further modules under Props/ (e.g. "Skeleton") that this property also rests on: they are built and
        every theorem in them is audited like the property's own; their theorems count as obligations."""
        hits = forbidden_tokens()
        if hits:
            self.l1_broken.append("forbidden tokens in Lean sources: " + "; ".join(hits[:10]))
        self.cov["obligations"] = 0
        self.cov["discharged"] = 0
        self.cov["theorems"] = []
        mods = [self.prop] + list(extra)
        for k, mod in enumerate(mods):
            if not os.path.exists(os.path.join(LEAN, "Props", mod + ".lean")):
                self.l1_broken.append("Props/%s.lean does not exist" % mod)
                continue
            ok, out = lake_build(["Props." + mod] + (list(extra_targets) if k == 0 else []))
            names, _ = property_theorems(mod)
            if not ok:
                bad = sorted(set(re.findall(r"error: ([^\n]*)", out)))[:8]
                self.l1_broken.append("lake build Props.%s failed: %s" % (mod, " | ".join(bad) or out[-600:]))
                self.cov["obligations"] += len(names)
                continue
            a = audit(mod)
            self.cov["obligations"] += a["obligations"]
            self.cov["discharged"] += a["discharged"]
            self.cov["theorems"] += [{"name": t["name"], "axioms": t["axioms"]} for t in a["theorems"]]
            for t in a["theorems"]:
                if not t["ok"]:
                    self.l1_broken.append("theorem %s: axioms %s" % (t["name"], t["axioms"]))
            if self.tier == "thorough":
                p = sh(["lake", "env", "leanchecker", "Props." + mod], cwd=LEAN, timeout=3000)
                self.cov["leanchecker_rc"] = max(p.returncode, self.cov.get("leanchecker_rc", 0))
                if p.returncode != 0:
                    self.l1_broken.append("leanchecker Props.%s: %s" % (mod, (p.stdout + p.stderr)[-400:]))
        self.cov["checker_cmd"] = "; ".join(
            "cd /verif/lean && lake build Props.%s && lake env lean ../build/Audit_%s.lean  (#print axioms of every theorem in Props/%s.lean)%s" % (
                m, m, m, "; lake env leanchecker Props.%s" % m if self.tier == "thorough" else "") for m in mods)
        return not self.l1_broken

    def ensure_driver(self, area=None):
        ok, out = lake_build([DRIVER_OF_AREA.get(area, "driver")])
        if not ok:
            self.l2_broken.append({"stream": "driver-build", "detail": out[-1500:]})
        return ok

    def ensure_harness(self, race=False):
        b, err = build_harness(race=race)
        if b is None:
            self.l2_broken.append({"stream": "harness-build", "detail": err[-3000:]})
        return b

    # ---- L2 helper: compare impl and model outputs line by line
    def diff(self, stream, inputs, impl, model, key="out", limit=5):
        mi = {r["id"]: r for r in impl}
        mm = {r["id"]: r for r in model}
        n = 0
        for inp in inputs:
            i = inp["id"]
            a, b = mi.get(i), mm.get(i)
            if a is None or b is None or canon(a.get(key)) != canon(b.get(key)):
                n += 1
                if n <= limit:
                    self.l2_broken.append({"stream": stream, "id": i, "input": inp,
                                           "impl": a.get(key) if a else None, "model": b.get(key) if b else None})
        self.cov.setdefault("disagreements", {})[stream] = n
        self.cov.setdefault("compared", {})[stream] = len(inputs)
        return n

    def violation(self, sig, what, replay):
        self.violations.append({"sig": sig, "what": what, "replay": replay})

    # ---- verdict
    def finish(self):
        # disk: the intermediate streams of a thorough run are gigabytes per check; what a failure needs is in replays/ (each replay
        # carries its input), so the big intermediates of this run go
        try:
            for f in os.listdir(self.workdir):
                fp = os.path.join(self.workdir, f)
                if os.path.isfile(fp) and os.path.getsize(fp) > 64 * 1024 * 1024:
                    os.remove(fp)
        except OSError:
            pass
        known = [e for e in load_known() if e.get("property") == self.prop and e.get("kind") == "finding"]
        rc = 0
        lines = []
        seen_known, new = {}, []
        for v in self.violations:
            k = next((e for e in known if sig_matches(e["signature"], v["sig"])), None)
            if k is not None:
                seen_known.setdefault(k["id"], (k, 0))
                seen_known[k["id"]] = (k, seen_known[k["id"]][1] + 1)
            else:
                new.append(v)
        for kid, (k, cnt) in sorted(seen_known.items()):
            lines.append("KNOWN-FINDING: property=%s %s (id=%s, %d occurrence(s) this run)" % (self.prop, k["what"], kid, cnt))
        # group new violations by signature, one replay file each
        bysig = {}
        for v in new:
            bysig.setdefault(canon(v["sig"]), []).append(v)
        for n, (s, vs) in enumerate(sorted(bysig.items())):
            v = min(vs, key=lambda x: len(canon(x["replay"])))
            path = os.path.join(VERIF, "replays", "%s-%d-%d.json" % (self.prop, self.seed, n))
            json.dump({"property": self.prop, "signature": v["sig"], "what": v["what"], "replay": v["replay"],
                       "occurrences": len(vs), "rerun": "bin/check %s --replay %s" % (self.prop, path)},
                      open(path, "w"), indent=1, sort_keys=True)
            lines.append("VIOLATION property=%s replay=%s" % (self.prop, path))
            rc = 1
        if not new and (self.l1_broken or self.l2_broken):
            path = os.path.join(VERIF, "replays", "%s-%d-unproved.json" % (self.prop, self.seed))
            json.dump({"property": self.prop, "no_failing_input_found": True,
                       "proof_obligations_not_checking": self.l1_broken,
                       "correspondence_not_checking": self.l2_broken,
                       "searched": self.cov.get("search", "the generated cases of this run and their oracle evaluation")},
                      open(path, "w"), indent=1, sort_keys=True)
            lines.append("VIOLATION property=%s replay=%s no-failing-input-found" % (self.prop, path))
            rc = 1
        elif new and (self.l1_broken or self.l2_broken):
            self.notes.append("proof/correspondence also broken: %s %s" % (self.l1_broken[:3], [b.get("stream") for b in self.l2_broken[:3]]))
        self.cov["known_findings_seen"] = sorted(seen_known)
        self.cov["l1_broken"] = self.l1_broken
        self.cov["l2_broken"] = [b.get("stream") for b in self.l2_broken]
        if self.notes:
            self.cov["notes"] = self.notes
        ev = {"property_id": self.prop, "tier": self.tier, "seed": self.seed, "level": "proof",
              "coverage": self.cov, "assumptions": self.assumptions,
              "wall_s": round(time.time() - self.t0, 2), "violations": len(new) + (1 if rc and not new else 0)}
        os.makedirs(os.path.join(VERIF, "evidence"), exist_ok=True)
        json.dump(ev, open(os.path.join(VERIF, "evidence", self.prop + ".json"), "w"), indent=1, sort_keys=True)
        for l in lines:
            print(l, flush=True)
        if rc == 0:
            print("OK property=%s tier=%s obligations=%d discharged=%d evaluations=%d wall=%.1fs" % (
                self.prop, self.tier, self.cov["obligations"], self.cov["discharged"], self.cov["evaluations"], time.time() - self.t0), flush=True)
        return rc


def corpus_inputs(area):
    """minimised past failures / witnesses of fixed defects; always run first (ids are negative)"""
    d = os.path.join(VERIF, "corpus", area)
    rows = []
    if os.path.isdir(d):
        for f in sorted(os.listdir(d)):
            if f.endswith(".jsonl"):
                rows += read_jsonl(os.path.join(d, f))
    for k, r in enumerate(rows):
        r["id"] = -(k + 1)
        r["corpus"] = True
    return rows


def pipeline(ctx, area, n, extra_gen=(), timeout=3000, model=True):
    """gen (seeded) + corpus -> exec on the real code -> Lean driver on the same lines.
    Returns (inputs, impl_by_id, model_by_id) or None when a stage could not run (recorded as l2_broken)."""
    if ctx.replay_file:
        rp = json.load(open(ctx.replay_file))
        inputs = rp["replay"]["inputs"] if "inputs" in rp.get("replay", {}) else [rp["replay"]["input"]]
        for k, r in enumerate(inputs):
            r.setdefault("id", k)
    else:
        gen = ctx.path(area + ".gen.jsonl")
        p = run_harness([area, "gen", "-seed", ctx.seed, "-n", n, "-tier", ctx.tier, "-out", gen] + list(extra_gen), timeout=timeout)
        if p.returncode != 0:
            ctx.l2_broken.append({"stream": area + "-gen", "detail": (p.stdout + p.stderr)[-2000:]})
            return None
        inputs = corpus_inputs(area) + read_jsonl(gen)
    inp = ctx.path(area + ".in.jsonl")
    write_jsonl(inp, inputs)
    implf, modelf = ctx.path(area + ".impl.jsonl"), ctx.path(area + ".model.jsonl")
    p = run_harness([area, "exec", "-in", inp, "-out", implf], timeout=timeout)
    open(ctx.path(area + ".exec.stderr"), "w").write(p.stderr)
    if p.returncode != 0:
        ctx.l2_broken.append({"stream": area + "-exec", "detail": (p.stdout + p.stderr)[-2000:]})
        return None
    impl = {r["id"]: r["out"] for r in read_jsonl(implf)}
    if not model:
        return inputs, impl, {}
    p = run_driver(area, inp, modelf, timeout=timeout)
    if p.returncode != 0:
        ctx.l2_broken.append({"stream": area + "-driver", "detail": (p.stdout + p.stderr)[-2000:]})
        return None
    model = {r["id"]: r["out"] for r in read_jsonl(modelf)}
    return inputs, impl, model


def compare(ctx, stream, inputs, impl, model, proj_impl=lambda i, o: o, proj_model=lambda i, o: o, limit=5):
    n = 0
    for inp in inputs:
        i = inp["id"]
        a = proj_impl(inp, impl[i]) if i in impl else None
        b = proj_model(inp, model[i]) if i in model else None
        if a is None or b is None or canon(a) != canon(b):
            n += 1
            if n <= limit:
                ctx.l2_broken.append({"stream": stream, "id": i, "input": inp, "impl": a, "model": b})
    ctx.cov.setdefault("disagreements", {})[stream] = n
    ctx.cov.setdefault("compared", {})[stream] = len(inputs)
    return n
