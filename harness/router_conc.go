package main

// Area "router" (C19), ops "interleave" and "stress": several requests served AT ONCE by ONE read-only router instance.
//
// The "req" op builds a fresh router for every request; whatever a middleware keeps between requests (a variable captured by the
// constructor instead of the per-request closure, a cache, a pool) can only show when one instance serves overlapping requests.
//
// {"op":"interleave","method","target","headers","body","reader":{"method","target"}}
//     One fixed legal schedule of two concurrent requests, no timing involved: the write request is served with a ResponseWriter
//     and a Body that, every time the server touches them (Header / WriteHeader / Write / Read: the places where a real connection
//     can block), let one complete safe request run on another goroutine, on the same router, before they return.
//     -> {"ro":{"status","code","rejected","writes":[kind…],"reader_runs":n}, "ro_m":{…}}        (_m: mounted as cmd/serve.go mounts it)
// {"op":"stress","readers":R,"writers":W,"writes":N,"wreqs":[{method,target,body}…],"rreqs":[{method,target}…]}
//     Un-orchestrated: R goroutines loop over safe requests while W goroutines send N write requests in total; the writers'
//     ResponseWriter yields the processor (runtime.Gosched) whenever it is touched.  Bounded, no sleeps.
//     -> {"alone":{"attempts","not_rejected","writes","kinds":{…},"first":[{method,target,status,writes}…],"reads_served"}, "mounted":{…}}

import (
	"io"
	"net/http"
	"net/http/httptest"
	"runtime"
	"strings"
	"sync"
	"sync/atomic"

	"github.com/go-chi/chi/v5"
)

type hookWriter struct {
	rec  *httptest.ResponseRecorder
	hook func()
}

func (w *hookWriter) Header() http.Header { w.hook(); return w.rec.Header() }
func (w *hookWriter) WriteHeader(c int)   { w.hook(); w.rec.WriteHeader(c) }
func (w *hookWriter) Write(b []byte) (int, error) {
	w.hook()
	return w.rec.Write(b)
}

type hookBody struct {
	r    io.Reader
	hook func()
}

func (b *hookBody) Read(p []byte) (int, error) { b.hook(); return b.r.Read(p) }
func (b *hookBody) Close() error               { return nil }

// sharedReadOnly: one read-only api router over one recording backend, alone or mounted under an outer chi router
func sharedReadOnly(mounted bool) (http.Handler, *fakeLedger) {
	fl := &fakeLedger{}
	router := newRealRouter(&fakeBackend{l: fl}, true)
	if !mounted {
		return router, fl
	}
	outer := chi.NewRouter()
	outer.Use(func(next http.Handler) http.Handler {
		return http.HandlerFunc(func(w http.ResponseWriter, r *http.Request) { next.ServeHTTP(w, r) })
	})
	outer.Mount("/", router)
	return outer, fl
}

func writeKinds(fl *fakeLedger) []any {
	fl.mu.Lock()
	defer fl.mu.Unlock()
	ws := []any{}
	for _, c := range fl.writes {
		ws = append(ws, c.Kind)
	}
	return ws
}

func serveQuietly(h http.Handler, w http.ResponseWriter, req *http.Request) {
	defer func() { _ = recover() }()
	h.ServeHTTP(w, req)
}

func execInterleave(in J) J {
	method, _ := in["method"].(string)
	target, _ := in["target"].(string)
	body, _ := in["body"].(string)
	hs := headerPairs(in)
	rd, _ := in["reader"].(map[string]any)
	rm, _ := rd["method"].(string)
	rt, _ := rd["target"].(string)
	out := J{}
	for _, mode := range []string{"ro", "ro_m"} {
		mounted := mode == "ro_m"
		out[mode] = safeExec(func(J) J {
			h, fl := sharedReadOnly(mounted)
			b := buildRequest(method, target, hs, body)
			if b.parse == "unparsable" {
				return J{"outcome": "unparsable", "writes": []any{}, "rejected": false}
			}
			runs := 0
			hook := func() {
				if runs >= 12 {
					return
				}
				runs++
				rb := buildRequest(rm, rt, nil, "")
				if rb.req == nil {
					return
				}
				done := make(chan struct{})
				go func() {
					defer close(done)
					serveQuietly(h, httptest.NewRecorder(), rb.req)
				}()
				<-done
			}
			b.req.Body = &hookBody{r: strings.NewReader(body), hook: hook}
			rec := httptest.NewRecorder()
			h.ServeHTTP(&hookWriter{rec: rec, hook: hook}, b.req)
			code := errorCodeOf(rec)
			return J{"status": rec.Code, "code": code, "rejected": rec.Code == http.StatusBadRequest && code == "READ_ONLY",
				"writes": writeKinds(fl), "reader_runs": runs}
		}, nil)
	}
	return out
}

func errorCodeOf(rec *httptest.ResponseRecorder) string {
	s := rec.Body.String()
	const k = `"errorCode":"`
	i := strings.Index(s, k)
	if i < 0 {
		return ""
	}
	s = s[i+len(k):]
	if j := strings.IndexByte(s, '"'); j >= 0 {
		return s[:j]
	}
	return ""
}

type simpleReq struct{ method, target, body string }

func simpleReqs(v any) []simpleReq {
	var out []simpleReq
	xs, _ := v.([]any)
	for _, x := range xs {
		m, _ := x.(map[string]any)
		a, _ := m["method"].(string)
		t, _ := m["target"].(string)
		b, _ := m["body"].(string)
		out = append(out, simpleReq{a, t, b})
	}
	return out
}

func execStress(in J) J {
	readers, writers, total := int(jInt64(in["readers"])), int(jInt64(in["writers"])), int(jInt64(in["writes"]))
	wreqs, rreqs := simpleReqs(in["wreqs"]), simpleReqs(in["rreqs"])
	out := J{}
	if len(wreqs) == 0 || len(rreqs) == 0 || readers <= 0 || writers <= 0 {
		return J{"error": "empty stress input"}
	}
	for _, shape := range []string{"alone", "mounted"} {
		h, fl := sharedReadOnly(shape == "mounted")
		var stop atomic.Bool
		var readsServed, notRejected atomic.Int64
		var rwg, wwg sync.WaitGroup
		for g := 0; g < readers; g++ {
			rwg.Add(1)
			go func(g int) {
				defer rwg.Done()
				for k := g; !stop.Load(); k++ {
					q := rreqs[k%len(rreqs)]
					if b := buildRequest(q.method, q.target, nil, ""); b.req != nil {
						serveQuietly(h, httptest.NewRecorder(), b.req)
						readsServed.Add(1)
					}
				}
			}(g)
		}
		var mu sync.Mutex
		first := []any{}
		n := total / 2
		for g := 0; g < writers; g++ {
			wwg.Add(1)
			go func(g int) {
				defer wwg.Done()
				for k := g; k < n; k += writers {
					q := wreqs[k%len(wreqs)]
					b := buildRequest(q.method, q.target, [][2]string{{"Content-Type", "application/json"}}, q.body)
					if b.req == nil {
						continue
					}
					rec := httptest.NewRecorder()
					serveQuietly(h, &hookWriter{rec: rec, hook: runtime.Gosched}, b.req)
					if !(rec.Code == http.StatusBadRequest && errorCodeOf(rec) == "READ_ONLY") {
						notRejected.Add(1)
						mu.Lock()
						if len(first) < 5 {
							first = append(first, J{"method": q.method, "target": q.target, "status": rec.Code})
						}
						mu.Unlock()
					}
				}
			}(g)
		}
		wwg.Wait()
		stop.Store(true)
		rwg.Wait()
		kinds := map[string]int{}
		ws := writeKinds(fl)
		for _, k := range ws {
			kinds[k.(string)]++
		}
		kj := J{}
		for k, v := range kinds {
			kj[k] = v
		}
		out[shape] = J{"attempts": n, "not_rejected": notRejected.Load(), "writes": len(ws), "kinds": kj, "first": first,
			"reads_served": readsServed.Load()}
	}
	return out
}

// genRouterConcurrent: the write requests are those of family (A) (every registered route whose method is not safe, its own
// method, an intact path, a body its handler accepts) plus PUT / PATCH on the same paths; the safe requests are GET / HEAD / OPTIONS
// on read routes, a path that matches nothing, and the health check.
func genRouterConcurrent(r *rng, tier string, routes []routeKey, emit func(J)) {
	var wreqs, rreqs []any
	for _, k := range routes {
		segs := instantiate(k.Pattern, r, "ledger0")
		target := "/" + strings.Join(segs, "/")
		if safeMethod(k.Method) {
			rreqs = append(rreqs, J{"method": k.Method, "target": target})
			continue
		}
		bk := bodyFor(k.Pattern, r, false)
		wreqs = append(wreqs, J{"method": k.Method, "target": target, "body": bodies[bk]})
	}
	rreqs = append(rreqs, J{"method": "GET", "target": "/nowhere"}, J{"method": "OPTIONS", "target": "/api/ledger/v2/ledger0/transactions"},
		J{"method": "HEAD", "target": "/api/ledger/_healthcheck"})
	nw := len(wreqs)
	for i := 0; i < nw; i++ {
		w := wreqs[i].(J)
		for _, m := range []string{"PUT", "PATCH"} {
			if r.p(25) {
				wreqs = append(wreqs, J{"method": m, "target": w["target"], "body": w["body"]})
			}
		}
	}
	variants := 2
	if tier == "thorough" {
		variants = 8
	}
	for _, wa := range wreqs {
		w := wa.(J)
		for v := 0; v < variants; v++ {
			rd := rreqs[r.n(len(rreqs))].(J)
			hs := []any{}
			if r.p(50) {
				hs = append(hs, []any{"Content-Type", "application/json"})
			}
			emit(J{"op": "interleave", "method": w["method"], "target": w["target"], "headers": hs, "body": w["body"],
				"reader": J{"method": rd["method"], "target": rd["target"]}})
		}
	}
	writes := 2000
	if tier == "thorough" {
		writes = 40000
	}
	emit(J{"op": "stress", "readers": 8, "writers": 4, "writes": writes, "wreqs": wreqs, "rreqs": rreqs})
}
