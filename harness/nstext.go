package main

// Area "nstext" (C12, C08): script TEXTS for the real front end (ANTLR lexer + parser as driven by
// compiler.CompileFull) and, when the text is accepted, the whole pipeline as in execNumscript.
//
// Three streams (field "stream"):
//   gen   — every program of the numscript generator: pretty-printed text + the generator's AST
//   mut   — token-level mutations of such programs (field "kinds": the mutations applied)
//   bytes — the byte-level stream of area nsbytes (token soups, truncations, random bytes)
//
// input : {"stream":…, "hex": hex of the raw bytes offered as script, "ast": generator AST (gen only), "vars","meta","bal","ameta", "kinds":[…]}
// output: {"lexerr":bool, "toks":[[type,text]…] (default-channel tokens, only when the lexer reported no error),
//          "syntax":bool (no lexer and no parser error reported to the listener), "compiled":bool (CompileFull produced a program),
//          "result": outcome object of execNumscript on the same text} | {"panic":…} | {"hang":true}

import (
	"encoding/base64"
	"encoding/hex"
	"strings"
	"time"

	"github.com/antlr/antlr4/runtime/Go/antlr"
	"github.com/formancehq/ledger/internal/machine/script/compiler"
	nsparser "github.com/formancehq/ledger/internal/machine/script/parser"
)

func init() { register("nstext", &area{gen: genNsText, exec: execNsText}) }

// ------------------------------------------------------------------ generator

type nsPiece struct {
	text string
	typ  int // ANTLR token type; 0 = gap (whitespace / comment between tokens)
}

// split a text into tokens and the gaps between them, using the real lexer only to find the boundaries
func nsPieces(text string) []nsPiece {
	rs := []rune(text)
	lx := nsparser.NewNumScriptLexer(antlr.NewInputStream(text))
	lx.RemoveErrorListeners()
	var out []nsPiece
	pos := 0
	for _, t := range lx.GetAllTokens() {
		a, b := t.GetStart(), t.GetStop()
		if a < pos || b < a || b >= len(rs) {
			continue
		}
		if a > pos {
			out = append(out, nsPiece{string(rs[pos:a]), 0})
		} else if len(out) > 0 && out[len(out)-1].typ != 0 {
			out = append(out, nsPiece{"", 0})
		}
		out = append(out, nsPiece{string(rs[a : b+1]), t.GetTokenType()})
		pos = b + 1
	}
	if pos < len(rs) {
		out = append(out, nsPiece{string(rs[pos:]), 0})
	}
	return out
}

func nsJoin(ps []nsPiece) string {
	var sb strings.Builder
	for _, p := range ps {
		sb.WriteString(p.text)
	}
	return sb.String()
}

func nsTokIdx(ps []nsPiece, pred func(nsPiece) bool) []int {
	var ix []int
	for i, p := range ps {
		if p.typ != 0 && pred(p) {
			ix = append(ix, i)
		}
	}
	return ix
}

var nsComments = []string{"/* c */", "/**/", "/* a /* b */ c */", "/* a /* b */", "/* open", "/*/", "/* * / */", "/* x */ */", "/*/**/*/", "/*/*/*/",
	"// line\n", "// line", "//\n", "// a\r\n", "//x\n\n", "/* é ∑ */", "/* \n */", "/* // */", "// /* \n", "/*/* */ /* */*/", "/* /* /* */ */"}

var nsVocabulary = []string{"vars", "meta", "set_tx_meta", "set_account_meta", "print", "fail", "send", "source", "from", "max", "destination", "to",
	"allocate", "+", "-", "(", ")", "[", "]", "{", "}", "=", "account", "asset", "number", "monetary", "portion", "string", "remaining", "kept",
	"balance", "save", "%", "*", ",", "allowing overdraft up to", "allowing unbounded overdraft", "\n", "@x", "$v0", "USD", "7", "1/2", "\"s\"", "[USD 1]", "[USD *]"}

func nsBreakLiteral(r *rng, p nsPiece) string {
	t := p.text
	switch p.typ {
	case nsparser.NumScriptLexerACCOUNT:
		return r.pick([]string{t + "-", t + ":", "@-" + t[1:], t + ":sub", t + "--x", t + "-x_1:Y", "@", t + ".x", "@" + strings.ToUpper(t[1:]), t + "é", "@ " + t[1:]})
	case nsparser.NumScriptLexerNUMBER:
		return r.pick([]string{t + ".5", "0" + t, t + " /2", t + "/", "-" + t, t + "%", t + "e3", t + "_0", t + "/USD", t + t + t + t + t + t + t, "+" + t})
	case nsparser.NumScriptLexerPORTION:
		return r.pick([]string{"1 / 2", "1  /2", "1/ 2", "1 /2", "1/2/3", "150%", "12.5%", "1.%", ".5%", "0/0", "3/2", "1/0", "100%", "100.0%", "100.01%", "0%", "00/1",
			"1/2%", "5 %", "1//2", "1/2A", "2/4", "1/\t2", "1\n/2"})
	case nsparser.NumScriptLexerSTRING:
		in := strings.Trim(t, `"`)
		return r.pick([]string{`"` + in + ` x"`, `"` + in + `.x"`, `"` + in, in + `"`, `"é"`, `""`, `"` + in + `""`, `"a-b_C 9"`, `'` + in + `'`, `"` + in + "\n\"", `"a\"b"`})
	case nsparser.NumScriptLexerVARIABLE_NAME:
		return r.pick([]string{"$" + strings.ToUpper(t[1:]), "$0" + t[1:], t + "_x9", "$", "$_", t + "X", "$ " + t[1:], t + "-1", "$$" + t[1:], t + "é"})
	case nsparser.NumScriptLexerASSET:
		return r.pick([]string{t + "/2", strings.ToLower(t), "U S D", t + "/", "/", t + "2", "/" + t, t + "//", t + "-X", t + "x", "1/" + t, t + ".2", "EUR/100"})
	}
	return strings.ToUpper(t)
}

// one mutation; returns its kind ("" = not applicable this time)
func nsMutate(r *rng, ps []nsPiece) ([]nsPiece, string) {
	toks := nsTokIdx(ps, func(nsPiece) bool { return true })
	if len(toks) < 2 {
		return ps, ""
	}
	gaps := []int{}
	for i, p := range ps {
		if p.typ == 0 {
			gaps = append(gaps, i)
		}
	}
	cp := func() []nsPiece { return append([]nsPiece{}, ps...) }
	switch r.n(18) {
	case 0: // drop a token
		i := toks[r.n(len(toks))]
		q := cp()
		return append(q[:i], q[i+1:]...), "drop"
	case 1: // duplicate a token
		i := toks[r.n(len(toks))]
		q := append([]nsPiece{}, ps[:i+1]...)
		q = append(q, nsPiece{" ", 0}, ps[i])
		return append(q, ps[i+1:]...), "dup"
	case 2: // swap two tokens (adjacent mostly)
		k := r.n(len(toks) - 1)
		i, j := toks[k], toks[k+1]
		if r.p(30) {
			j = toks[r.n(len(toks))]
		}
		q := cp()
		q[i], q[j] = q[j], q[i]
		return q, "swap"
	case 3, 4: // break a literal
		lits := nsTokIdx(ps, func(p nsPiece) bool {
			switch p.typ {
			case nsparser.NumScriptLexerACCOUNT, nsparser.NumScriptLexerNUMBER, nsparser.NumScriptLexerPORTION, nsparser.NumScriptLexerSTRING,
				nsparser.NumScriptLexerVARIABLE_NAME, nsparser.NumScriptLexerASSET:
				return true
			}
			return false
		})
		if len(lits) == 0 {
			return ps, ""
		}
		i := lits[r.n(len(lits))]
		q := cp()
		q[i] = nsPiece{nsBreakLiteral(r, ps[i]), ps[i].typ}
		return q, "literal"
	case 5: // strip a NEWLINE the grammar requires
		nl := nsTokIdx(ps, func(p nsPiece) bool { return p.typ == nsparser.NumScriptLexerNEWLINE })
		if len(nl) == 0 {
			return ps, ""
		}
		q := cp()
		q[nl[r.n(len(nl))]] = nsPiece{" ", 0}
		return q, "strip-newline"
	case 6: // add a NEWLINE where there was only space
		if len(gaps) == 0 {
			return ps, ""
		}
		q := cp()
		q[gaps[r.n(len(gaps))]] = nsPiece{r.pick([]string{"\n", "\n  ", " \n", "\r\n"}), 0}
		return q, "add-newline"
	case 7: // blank lines: a second NEWLINE token next to an existing one, or a longer run inside one token
		nl := nsTokIdx(ps, func(p nsPiece) bool { return p.typ == nsparser.NumScriptLexerNEWLINE })
		if len(nl) == 0 {
			return ps, ""
		}
		i := nl[r.n(len(nl))]
		q := cp()
		q[i] = nsPiece{r.pick([]string{"\n\n", "\n \n", "\n\t\n", "\n\r\n", "\n/* c */\n", "\n// c\n", "\r\r", "\n\n\n"}), q[i].typ}
		return q, "blank-line"
	case 8, 9: // a comment at a random place
		i := r.n(len(ps))
		q := append([]nsPiece{}, ps[:i]...)
		q = append(q, nsPiece{r.pick(nsComments), 0})
		return append(q, ps[i:]...), "comment"
	case 10: // CRLF / CR line ends
		q := cp()
		how := r.n(3)
		for i := range q {
			if q[i].typ == nsparser.NumScriptLexerNEWLINE && (how != 2 || r.p(50)) {
				q[i].text = strings.ReplaceAll(q[i].text, "\n", []string{"\r\n", "\r", "\r\n"}[how])
			}
		}
		return q, "crlf"
	case 11: // spaces inside the multi-word literal tokens
		od := nsTokIdx(ps, func(p nsPiece) bool {
			return p.typ == nsparser.NumScriptLexerT__1 || p.typ == nsparser.NumScriptLexerT__2
		})
		if len(od) == 0 {
			return ps, ""
		}
		i := od[r.n(len(od))]
		q := cp()
		words := strings.Split(ps[i].text, " ")
		k := r.n(len(words) - 1)
		sep := r.pick([]string{"  ", "\t", "\n", "", " /* c */ ", "_"})
		q[i] = nsPiece{strings.Join(words[:k+1], " ") + sep + strings.Join(words[k+1:], " "), ps[i].typ}
		return q, "overdraft-spacing"
	case 12: // glue: remove the space between two tokens
		var sp []int
		for _, i := range gaps {
			if ps[i].text != "" && !strings.ContainsAny(ps[i].text, "\r\n") {
				sp = append(sp, i)
			}
		}
		if len(sp) == 0 {
			return ps, ""
		}
		q := cp()
		i := sp[r.n(len(sp))]
		if r.p(30) {
			for _, j := range sp {
				q[j].text = ""
			}
			return q, "glue-all"
		}
		q[i].text = ""
		return q, "glue"
	case 13: // replace a token by another word of the language
		i := toks[r.n(len(toks))]
		q := cp()
		q[i] = nsPiece{r.pick(nsVocabulary), 1}
		return q, "replace"
	case 14: // insert a word of the language
		i := r.n(len(ps))
		q := append([]nsPiece{}, ps[:i]...)
		q = append(q, nsPiece{" ", 0}, nsPiece{r.pick(nsVocabulary), 1}, nsPiece{" ", 0})
		return append(q, ps[i:]...), "insert"
	case 15: // the ends of the text
		q := cp()
		switch r.n(6) {
		case 0:
			for len(q) > 0 && (q[len(q)-1].typ == nsparser.NumScriptLexerNEWLINE || q[len(q)-1].typ == 0) {
				q = q[:len(q)-1]
			}
			return q, "no-final-newline"
		case 1:
			return append([]nsPiece{{r.pick([]string{"\n", "\n\n", "  ", " \n", "\t", "\r\n \r\n"}), 0}}, q...), "leading-space"
		case 2:
			return append(q, nsPiece{r.pick([]string{"\n", " ", "\n \n", "\t", "\n\n\n"}), 0}), "trailing-space"
		case 3:
			return append(q, nsPiece{r.pick([]string{"// end", "/* end */", "/* end", "// end\n"}), 0}), "trailing-comment"
		case 4:
			return append([]nsPiece{{r.pick([]string{"// head\n", "/* head */", "/* head */\n", "// head\n\n"}), 0}}, q...), "leading-comment"
		default:
			k := r.n(len(q))
			return q[:k], "truncate"
		}
	case 16: // a character no rule knows, or a non-ASCII one
		i := r.n(len(ps))
		q := append([]nsPiece{}, ps[:i]...)
		q = append(q, nsPiece{r.pick([]string{"#", ";", "é", "\x00", " ", "\f", ".", "!", "\xff", " ", "'", "<", "&", "^", "~", "\\"}), 0})
		return append(q, ps[i:]...), "foreign-char"
	default: // tabs for spaces
		q := cp()
		for i := range q {
			if q[i].typ == 0 && q[i].text != "" && r.p(50) {
				q[i].text = strings.ReplaceAll(q[i].text, " ", "\t")
			}
		}
		return q, "tabs"
	}
}

// ---- grammar-directed texts: syntactically valid by construction (rule by rule of NumScript.g4), typed only by
// chance (the hint `want` is followed 88 % of the time), so that every shape the PARSER accepts is reached — a
// portion literal where an account is expected, nested monetaries, `$x from` against `$x +` at the head of a block —
// and the static rules see ill-typed programs the type-directed generator never writes.
type nsGram struct {
	r    *rng
	vars []string // declared names with their types, "ty name"
}

func (g *nsGram) sp() string {
	switch g.r.n(30) {
	case 0:
		return ""
	case 1:
		return "\t"
	case 2:
		return " /* c */ "
	case 3:
		return "  "
	}
	return " "
}

func (g *nsGram) varOf(ty string) string {
	var c []string
	for _, v := range g.vars {
		if strings.HasPrefix(v, ty+" ") {
			c = append(c, "$"+v[len(ty)+1:])
		}
	}
	if len(c) == 0 || g.r.p(50) {
		return ""
	}
	return c[g.r.n(len(c))]
}

func (g *nsGram) atom(want string, depth int) string {
	if !g.r.p(88) {
		want = g.r.pick([]string{"account", "asset", "number", "string", "portion", "monetary", "var"})
	}
	if v := g.varOf(want); v != "" {
		return v
	}
	switch want {
	case "account":
		return g.r.pick([]string{"@a", "@b", "@c", "@world", "@x:y-z", "@a_1"})
	case "asset":
		if g.r.p(3) {
			return "//" // lexes as an ASSET only when no newline follows: otherwise it starts a comment
		}
		return g.r.pick([]string{"USD", "USD", "USD", "EUR", "COIN/2", "A1", "1/USD"})
	case "number":
		return g.r.pick([]string{"0", "1", "7", "42", "007", "18446744073709551616"})
	case "string":
		return g.r.pick([]string{`"k"`, `""`, `"a b-c_D"`})
	case "portion":
		return g.r.pick([]string{"1/2", "50%", "1 / 3", "12.5%", "0%", "100%", "3/2", "1/0", "0/5"})
	case "monetary":
		if depth <= 0 {
			return "[USD 1]"
		}
		return "[" + g.expr("asset", depth-1) + g.sp() + g.r.pick([]string{"0", "1", "5", "30", "100"}) + "]"
	}
	if len(g.vars) > 0 {
		v := g.vars[g.r.n(len(g.vars))]
		return "$" + v[strings.Index(v, " ")+1:]
	}
	return "$nope"
}

func (g *nsGram) expr(want string, depth int) string {
	e := g.atom(want, depth)
	for g.r.p(15) {
		e += g.sp() + g.r.pick([]string{"+", "-"}) + g.sp() + g.atom(want, depth)
	}
	return e
}

func (g *nsGram) source(depth int, ind string) string {
	k := g.r.n(10)
	if depth <= 0 || k < 5 {
		t := g.expr("account", 1)
		switch g.r.n(8) {
		case 0:
			t += " allowing overdraft up to" + g.sp() + g.expr("monetary", 1)
		case 1:
			t += " allowing unbounded overdraft"
		}
		return t
	}
	if k < 7 {
		return "max" + g.sp() + g.expr("monetary", 1) + " from " + g.source(depth-1, ind)
	}
	t := "{\n"
	for i, n := 0, 1+g.r.n(3); i < n; i++ {
		t += ind + "  " + g.source(depth-1, ind+"  ") + "\n"
	}
	return t + ind + "}"
}

func (g *nsGram) portion() string {
	switch g.r.n(6) {
	case 0:
		return "remaining"
	case 1:
		if v := g.varOf("portion"); v != "" {
			return v
		}
		if len(g.vars) > 0 && g.r.p(30) {
			v := g.vars[g.r.n(len(g.vars))]
			return "$" + v[strings.Index(v, " ")+1:]
		}
	}
	return g.r.pick([]string{"1/2", "50%", "1 / 3", "12.5%", "0%", "100%", "3/2", "1/4", "25%", "0/5"})
}

func (g *nsGram) kod(depth int, ind string) string {
	if g.r.p(25) {
		return "kept"
	}
	return "to " + g.dest(depth, ind)
}

func (g *nsGram) dest(depth int, ind string) string {
	k := g.r.n(10)
	if depth <= 0 || k < 5 {
		return g.expr("account", 1)
	}
	t := "{\n"
	if k < 8 {
		for i, n := 0, 1+g.r.n(3); i < n; i++ {
			t += ind + "  max " + g.expr("monetary", 1) + " " + g.kod(depth-1, ind+"  ") + "\n"
		}
		t += ind + "  remaining " + g.kod(depth-1, ind+"  ") + "\n"
	} else {
		for i, n := 0, 1+g.r.n(3); i < n; i++ {
			t += ind + "  " + g.portion() + " " + g.kod(depth-1, ind+"  ") + "\n"
		}
	}
	return t + ind + "}"
}

func (g *nsGram) amount() string {
	if g.r.p(20) {
		return "[" + g.expr("asset", 1) + g.sp() + "*]"
	}
	return g.expr("monetary", 2)
}

func (g *nsGram) stmt() string {
	switch g.r.n(10) {
	case 0:
		return "print" + g.sp() + g.expr(g.r.pick([]string{"number", "monetary", "account"}), 2)
	case 1:
		return "save " + g.amount() + " from " + g.expr("account", 1)
	case 2:
		return "set_tx_meta(" + g.r.pick([]string{`"k"`, `"k2"`}) + "," + g.sp() + g.expr(g.r.pick([]string{"number", "string", "portion", "monetary"}), 1) + ")"
	case 3:
		return "set_account_meta(" + g.expr("account", 1) + ", " + `"m"` + "," + g.sp() + g.expr(g.r.pick([]string{"number", "string", "asset"}), 1) + ")"
	case 4:
		if g.r.p(30) {
			return "fail"
		}
	}
	src := ""
	if g.r.p(25) {
		src = "{\n"
		for i, n := 0, 1+g.r.n(3); i < n; i++ {
			src += "    " + g.portion() + " from " + g.source(1, "    ") + "\n"
		}
		src += "  }"
	} else {
		src = g.source(2, "  ")
	}
	dst := g.dest(2, "  ")
	if g.r.p(15) {
		return "send " + g.amount() + " (\n  destination" + g.sp() + "=" + g.sp() + dst + "\n  source = " + src + "\n)"
	}
	return "send " + g.amount() + g.sp() + "(\n  source" + g.sp() + "=" + g.sp() + src + "\n  destination = " + dst + "\n)"
}

func nsGrammarText(r *rng) (string, J) {
	g := &nsGram{r: r}
	t := g.r.pick([]string{"", "", "\n", "\n\n"})
	vars := J{}
	if g.r.p(40) {
		t += "vars {\n"
		for i, n := 0, 1+g.r.n(4); i < n; i++ {
			ty := g.r.pick([]string{"account", "account", "monetary", "asset", "number", "string", "portion"})
			name := string(rune('p' + i))
			decl := "  " + ty + " $" + name
			switch {
			case g.r.p(15):
				decl += " = meta(" + g.expr("account", 0) + ", " + `"k1"` + ")"
			case g.r.p(15):
				decl += " = balance(" + g.expr("account", 0) + ", " + g.expr("asset", 0) + ")"
			default:
				vars[name] = map[string]string{"account": "a", "monetary": "USD 10", "asset": "USD", "number": "3", "string": "s", "portion": "1/4"}[ty]
			}
			g.vars = append(g.vars, ty+" "+name)
			t += decl + g.r.pick([]string{"\n", "\n", "\n\n", "\n \n"})
		}
		t += "}\n"
	}
	for i, n := 0, 1+g.r.n(3); i < n; i++ {
		if i > 0 {
			t += "\n"
		}
		t += g.stmt()
	}
	t += g.r.pick([]string{"", "\n", "\n\n", " "})
	return t, J{"vars": vars, "meta": J{}, "ameta": [][]string{{"a", "k1", "b"}, {"b", "k1", "USD 4"}},
		"bal": [][]string{{"a", "USD", "100"}, {"b", "USD", "5"}, {"c", "USD", "0"}, {"a", "EUR", "20"}, {"world", "USD", "-105"}}}
}

func nsDefaultEnv(text string) J {
	vars := J{}
	if strings.Contains(text, "account $x") {
		vars["x"] = "a"
	}
	return J{"vars": vars, "meta": J{}, "ameta": [][]string{},
		"bal": [][]string{{"a", "USD", "100"}, {"b", "USD", "5"}, {"world", "USD", "-105"}}}
}

func genNsText(r *rng, n int, tier string, emit func(J)) {
	// n texts per stream
	var base []J
	genNumscriptBase(r.fork(), n, tier, func(j J) { base = append(base, j) })
	carry := func(stream string, text string, b J) J {
		return J{"stream": stream, "hex": hex.EncodeToString([]byte(text)), "vars": b["vars"], "meta": b["meta"], "bal": b["bal"], "ameta": b["ameta"]}
	}
	for _, b := range base {
		j := carry("gen", b["text"].(string), b)
		j["ast"] = b["ast"]
		emit(j)
	}
	mr := r.fork()
	for i := 0; i < n; i++ {
		b := base[mr.n(len(base))]
		var kinds []string
		want := 1 + mr.n(2)
		if mr.p(35) { // a grammar-directed text, as it is (2 of 3) or mutated once
			text, env := nsGrammarText(mr.fork())
			b = J{"text": text, "vars": env["vars"], "meta": env["meta"], "bal": env["bal"], "ameta": env["ameta"]}
			kinds = []string{"grammar"}
			want = 1 + mr.n(3)/2
		}
		ps := nsPieces(b["text"].(string))
		for k := 0; len(kinds) < want && k < 8; k++ {
			var kind string
			ps, kind = nsMutate(mr, ps)
			if kind != "" {
				kinds = append(kinds, kind)
				if len(kinds) < want {
					ps = nsPieces(nsJoin(ps)) // re-tokenise so that the second mutation sees real tokens
				}
			}
		}
		j := carry("mut", nsJoin(ps), b)
		j["kinds"] = kinds
		emit(j)
	}
	genNsBytes(r.fork(), n, tier, func(j J) {
		raw, _ := base64.StdEncoding.DecodeString(j["b64"].(string))
		emit(carry("bytes", string(raw), nsDefaultEnv(string(raw))))
	})
}

// ------------------------------------------------------------------ exec

type nsCountListener struct {
	*antlr.DefaultErrorListener
	n int
}

func (l *nsCountListener) SyntaxError(antlr.Recognizer, interface{}, int, int, string, antlr.RecognitionException) {
	l.n++
}

func nsFrontEnd(raw string, in J) J {
	out := J{}
	// (1) the lexer alone: its errors and the tokens the parser will see
	ll := &nsCountListener{}
	lx := nsparser.NewNumScriptLexer(antlr.NewInputStream(raw))
	lx.RemoveErrorListeners()
	lx.AddErrorListener(ll)
	toks := [][]any{}
	for _, t := range lx.GetAllTokens() {
		if t.GetChannel() == antlr.TokenDefaultChannel {
			toks = append(toks, []any{t.GetTokenType(), t.GetText()})
		}
	}
	out["lexerr"] = ll.n > 0
	if ll.n == 0 {
		out["toks"] = toks
	}
	// (2) lexer + parser exactly as CompileFull sets them up
	el := &nsCountListener{}
	lexer := nsparser.NewNumScriptLexer(antlr.NewInputStream(raw))
	lexer.RemoveErrorListeners()
	lexer.AddErrorListener(el)
	p := nsparser.NewNumScriptParser(antlr.NewCommonTokenStream(lexer, antlr.LexerDefaultTokenChannel))
	p.RemoveErrorListeners()
	p.AddErrorListener(el)
	p.BuildParseTrees = true
	p.Script()
	out["syntax"] = el.n == 0
	// (3) the real entry point
	art := compiler.CompileFull(raw)
	out["compiled"] = art.Program != nil
	out["errors"] = len(art.Errors)
	// (4) the whole pipeline on this text
	run := J{"text": raw, "vars": in["vars"], "meta": in["meta"], "bal": in["bal"], "ameta": in["ameta"]}
	out["result"] = safeExec(execNumscript, run)
	return out
}

func execNsText(in J) J {
	b, err := hex.DecodeString(in["hex"].(string))
	if err != nil {
		return J{"bad_input": err.Error()}
	}
	raw := string(b)
	done := make(chan J, 1)
	go func() { done <- safeExec(func(J) J { return nsFrontEnd(raw, in) }, in) }()
	select {
	case o := <-done:
		return o
	case <-time.After(10 * time.Second):
		return J{"hang": true}
	}
}
