package main

// Area "nscmd" (C12, C08): a Numscript case (the inputs of area "numscript": text, variables, balances, account metadata,
// request metadata) submitted to the REAL command.Commander (CreateTransaction over the in-memory store holding those balances
// and metadata), next to the outcome of the compiler + VM run directly (execNumscript).  "Compiling and running the script
// terminates with either a result or a reported error; it never panics or hangs" is a statement about what the engine does
// with a script, and the commander adds its own glue around the machine (printer, error wrapping, empty results): the request
// must terminate (watchdog), must not panic, and must commit exactly the postings the machine computed.
//
// output: {"vm": <execNumscript outcome>, "cmd": {"outcome": "ok"|"error"|"panic"|"hang", "class": error class, "postings": [...]}}

import (
	"context"
	"fmt"
	"math/big"
	"time"

	ledger "github.com/formancehq/ledger/internal"
	"github.com/formancehq/ledger/internal/engine/command"
	"github.com/formancehq/stack/libs/go-libs/metadata"
)

func init() { register("nscmd", &area{gen: genNumscript, exec: execNsCmd}) }

const nsCmdWatchdog = 4 * time.Second

func execNsCmd(in J) J {
	vmOut := execNumscript(in)
	out := J{"vm": vmOut}
	ctx, cancel := context.WithCancel(context.Background())
	defer cancel()

	var bal [][3]string
	if bl, ok := in["bal"].([]any); ok {
		for _, x := range bl {
			t := x.([]any)
			a, s, v := t[0].(string), t[1].(string), t[2].(string)
			if a == "world" {
				continue // the balance of world is whatever the others make it
			}
			if n, ok := new(big.Int).SetString(v, 10); !ok || n.Sign() == 0 {
				continue
			}
			bal = append(bal, [3]string{a, s, v})
		}
	}
	setup := safeExec(func(J) J {
		e := newTxEngineOn(ctx, bal, nil)
		// account metadata: one SET_METADATA log per (account, key), applied by the in-memory store
		if am, ok := in["ameta"].([]any); ok {
			var prev *ledger.ChainedLog
			if l, err := e.store.GetLastLog(ctx); err == nil {
				prev = l
			}
			for _, x := range am {
				t := x.([]any)
				l := ledger.NewSetMetadataLog(ledger.Now(), ledger.SetMetadataLogPayload{TargetType: ledger.MetaTargetTypeAccount,
					TargetID: t[0].(string), Metadata: metadata.Metadata{t[1].(string): t[2].(string)}}).ChainLog(prev)
				if err := e.store.InsertLogs(ctx, l); err != nil {
					return J{"error": err.Error()}
				}
				prev = l
			}
			// the commander read its last log at Init: start another one on the store as it is now
			e.cmd.Close()
			e2 := &txEngine{store: e.store}
			e2.cmd = command.New(e.store, command.NoOpLocker, command.NewCompiler(16), command.NewReferencer(), nsCmdMonitor{})
			if err := e2.cmd.Init(ctx); err != nil {
				return J{"error": err.Error()}
			}
			go e2.cmd.Run(ctx)
			nsCmdEngine = e2
			return J{}
		}
		nsCmdEngine = e
		return J{}
	}, in)
	if _, bad := setup["panic"]; bad || setup["error"] != nil {
		out["cmd"] = J{"outcome": "setup-failed", "detail": fmt.Sprint(setup)}
		return out
	}
	e := nsCmdEngine
	defer func() { go e.close() }() // a hanging request keeps the runner busy: do not wait for it

	text, _ := in["text"].(string)
	vars := map[string]string{}
	if v, ok := in["vars"].(map[string]any); ok {
		for k, x := range v {
			vars[k], _ = x.(string)
		}
	}
	md := metadata.Metadata{}
	if v, ok := in["meta"].(map[string]any); ok {
		for k, x := range v {
			md[k], _ = x.(string)
		}
	}
	done := make(chan J, 1)
	go func() {
		done <- safeExec(func(J) J {
			tx, err := e.cmd.CreateTransaction(ctx, command.Parameters{}, ledger.RunScript{Script: ledger.Script{Plain: text, Vars: vars}, Metadata: md})
			if err != nil {
				_ = err.Error()
				return J{"outcome": "error", "class": engClassify(err)}
			}
			ps := []any{}
			for _, p := range tx.Postings {
				ps = append(ps, []any{p.Source, p.Destination, p.Amount.String(), p.Asset})
			}
			return J{"outcome": "ok", "postings": ps, "txmeta": tx.Metadata}
		}, in)
	}()
	select {
	case r := <-done:
		if p, ok := r["panic"]; ok {
			out["cmd"] = J{"outcome": "panic", "panic": p}
		} else {
			out["cmd"] = r
		}
	case <-time.After(nsCmdWatchdog):
		out["cmd"] = J{"outcome": "hang", "after": nsCmdWatchdog.String()}
	}
	return out
}

var nsCmdEngine *txEngine

// nsCmdMonitor discards events (bus.Monitor)
type nsCmdMonitor struct{}

func (nsCmdMonitor) CommittedTransactions(ctx context.Context, res ledger.Transaction, accountMetadata map[string]metadata.Metadata) {
}
func (nsCmdMonitor) SavedMetadata(ctx context.Context, targetType, id string, metadata metadata.Metadata) {
}
func (nsCmdMonitor) RevertedTransaction(ctx context.Context, reverted, revert *ledger.Transaction) {}
func (nsCmdMonitor) DeletedMetadata(ctx context.Context, targetType string, targetID any, key string) {
}
