package main

// Area "numscript": type-directed Numscript program generator (AST as JSON + pretty-printed text) and the real
// pipeline compile -> SetVarsFromJSON -> ResolveResources -> ResolveBalances -> vm.Run.
//
// About 30 % of the programs come from three focused shapes (input field "shape"): "ordered" (one send over an ordered, possibly
// nested list of plain / capped / bounded-overdraft sources in one asset, the same account at non-adjacent places), "allot" (one send
// of a likely large amount through portions: fractional percents, denominators up to 10^4, totals at / one unit under / over 100 %),
// "save-receive" (an account is saved from, then receives, then another account pays); the rest is the general generator.
// Two further shapes replace about one program in nine; their choices come from a side stream of the program's own generator, so the
// other programs of a seed are what they were without them: "window" (one send through portions: amounts in the window where
// amount x reduced numerator crosses 2^63 with portions whose reduced numerator is > 1, and percentages with zeros right after the
// decimal point — as literals, portion variables and portions read from metadata — on the destination or on the source side, payers
// that can pay) and "rebind" (an `asset $cur` variable is the asset of monetary literals in send amounts, caps, overdrafts,
// metadata values and saves).  Every program whose variables can take other values also carries "vars2" (/ "ameta2"): a second
// variable map (stored metadata) for the SAME text — assets, accounts, monetaries, numbers, portions switched.
// In front of about 7 % of the programs an ADDITIONAL focused multi-statement case is emitted (numscript_focus.go: "deep-debt",
// "repeat-piece", "self-transfer", "kept-in-order", "sendall-unbounded"; fields "shape", "focus"), from a stream of its own.
//
// input : {"text":…, "ast":{"vars":[…],"stmts":[…]}, "vars":{name:raw}, "meta":{k:v}, "bal":[[acct,asset,int]…], "ameta":[[acct,key,val]…],
//          "vars2":{name:raw}?, "ameta2":[[acct,key,val]…]?}
// output: {"err":class,"stage":…} | {"postings":[[src,dst,amt,asset]…],"txmeta":{…},"ameta":{acct:{…}},"lockR":[…],"lockW":[…],"bal":[[a,s,v]…]}
//         + "unstable":outcome of the 2nd run when it differs; with vars2/ameta2: + "rebind":{"ok":…,"varies":…} and, when the compiled
//         program that has already run does not behave like a fresh compilation of the text, "remembers":{"run":k,"cached":…,"fresh":…}

import (
	"context"
	"encoding/json"
	"errors"
	"fmt"
	"math/big"
	"sort"
	"strings"

	ledger "github.com/formancehq/ledger/internal"
	"github.com/formancehq/ledger/internal/machine"
	"github.com/formancehq/ledger/internal/machine/script/compiler"
	"github.com/formancehq/ledger/internal/machine/vm"
	"github.com/formancehq/ledger/internal/machine/vm/program"
	"github.com/formancehq/stack/libs/go-libs/metadata"
)

func init() {
	register("numscript", &area{gen: genNumscript, exec: execNumscript})
}

// ------------------------------------------------------------------ generator

var nsAccts = []string{"a", "b", "c", "d", "e"}

type nsVar struct {
	ty, name string
	origin   J      // nil | meta | balance
	value    string // raw value (caller var or stored metadata)
}

type nsGen struct {
	r     *rng
	vars  []nsVar
	asset string
	bad   int // per-mille probability of a deliberately wrong choice
	used  map[string]bool
	nums  []*big.Int // amounts seen (for the balance lattice)
	depth int
	hot   string          // one account per program is reached again and again, so that statements collide on it
	large int             // per-cent probability that an amount is a large one (10^6, 10^9, 2^70 …)
	wide  bool            // portions: fractional percents, large denominators, totals next to 100 % are likely
	rich  map[string]bool // accounts whose balance must cover the amounts of the program (balance table)
	pos   map[string]bool // "account asset" pairs that should hold a positive balance
	avar  int             // per-cent probability that an asset is named through an asset variable when one exists (0 = the default 25)
}

func (g *nsGen) wrong() bool { return g.bad > 0 && g.r.n(1000) < g.bad }

func (g *nsGen) varsOf(ty string) []nsVar {
	var out []nsVar
	for _, v := range g.vars {
		if v.ty == ty {
			out = append(out, v)
		}
	}
	return out
}

// amounts where rounding of shares shows: a missing fraction of a share is more than one unit per entry
var nsLarge = []string{"1000000", "1000000000", "1180591620717411303424" /* 2^70 */, "3000000", "999999", "1000001", "123456789"}

func (g *nsGen) note(s string) string {
	b, _ := new(big.Int).SetString(s, 10)
	g.nums = append(g.nums, b)
	return s
}

func (g *nsGen) amountStr() string {
	if g.large > 0 && g.r.p(g.large) {
		return g.note(g.r.pick(nsLarge))
	}
	switch g.r.n(15) {
	case 0:
		return "0"
	case 1:
		return "1"
	case 2:
		return "36893488147419103232" // 2^65
	case 3:
		return "18446744073709551616" // 2^64
	case 4:
		return g.note(g.r.pick(nsLarge))
	default:
		return g.note(fmt.Sprint(g.r.n(60)))
	}
}

func lit(k, v string) J { return J{"k": k, "v": v} }

func (g *nsGen) acctExpr(pool []string) J {
	if g.wrong() {
		return lit("num", "7")
	}
	if vs := g.varsOf("account"); len(vs) > 0 && g.r.p(30) {
		return lit("var", vs[g.r.n(len(vs))].name)
	}
	if g.hot != "" && g.r.p(35) {
		return lit("acct", g.hot)
	}
	return lit("acct", g.r.pick(pool))
}

func (g *nsGen) assetExpr() J {
	avar := 25
	if g.avar > 0 {
		avar = g.avar
	}
	if vs := g.varsOf("asset"); len(vs) > 0 && g.r.p(avar) {
		return lit("var", vs[g.r.n(len(vs))].name)
	}
	if g.wrong() {
		return lit("str", "USD")
	}
	return lit("asset", g.asset)
}

func (g *nsGen) monAtom() J {
	if vs := g.varsOf("monetary"); len(vs) > 0 && g.r.p(25) {
		return lit("var", vs[g.r.n(len(vs))].name)
	}
	if g.wrong() {
		return lit("num", "3")
	}
	ae := g.assetExpr()
	if g.r.p(3) {
		ae = lit("asset", "EUR")
	}
	return J{"k": "mon", "asset": ae, "amt": g.amountStr()}
}

func (g *nsGen) monExpr() J {
	e := g.monAtom()
	for g.r.p(12) {
		op := "add"
		if g.r.p(40) {
			op = "sub"
		}
		e = J{"k": op, "l": e, "r": g.monAtom()}
	}
	return e
}

func exprKey(e J) string {
	switch e["k"] {
	case "acct":
		return "@" + e["v"].(string)
	case "var":
		return "$" + e["v"].(string)
	}
	return "?"
}

// source: `last` = may be / contain an unbounded source; isAll = send [A *]
func (g *nsGen) source(depth int, last bool, isAll bool) J {
	k := g.r.n(10)
	if depth <= 0 || k < 5 {
		if last && !isAll && g.r.p(18) || g.wrong() {
			if g.wrong() {
				return J{"k": "acct", "e": lit("acct", "world"), "od": J{"k": "unbounded"}}
			}
			return J{"k": "acct", "e": lit("acct", "world"), "od": nil}
		}
		var e J
		for try := 0; try < 6; try++ {
			e = g.acctExpr(nsAccts)
			if !g.used[exprKey(e)] || g.wrong() {
				break
			}
		}
		g.used[exprKey(e)] = true
		switch {
		case g.r.p(15):
			return J{"k": "acct", "e": e, "od": J{"k": "upto", "e": g.monExpr()}}
		case (last && !isAll && g.r.p(10)) || g.wrong():
			return J{"k": "acct", "e": e, "od": J{"k": "unbounded"}}
		default:
			return J{"k": "acct", "e": e, "od": nil}
		}
	}
	if k < 7 {
		saved := g.used
		g.used = map[string]bool{} // a capped source starts a fresh "emptied" scope
		s := g.source(depth-1, true, false)
		g.used = saved
		return J{"k": "max", "cap": g.monExpr(), "s": s}
	}
	n := 2 + g.r.n(2)
	var ss []any
	for i := 0; i < n; i++ {
		ss = append(ss, g.source(depth-1, last && i == n-1, isAll))
	}
	return J{"k": "inorder", "ss": ss}
}

// pctText renders k/den as a percentage with at most four decimals ("" when it has no such expansion);
// pad adds a trailing zero ("12.50%": same value, other text)
func pctText(k, den int, pad bool) string {
	num := int64(k) * 100 * 10000
	if den <= 0 || num%int64(den) != 0 {
		return ""
	}
	v := num / int64(den)
	ip, fp := v/10000, v%10000
	if fp == 0 {
		if pad {
			return fmt.Sprintf("%d.0%%", ip)
		}
		return fmt.Sprintf("%d%%", ip)
	}
	f := strings.TrimRight(fmt.Sprintf("%04d", fp), "0")
	if pad && len(f) < 4 {
		f += "0"
	}
	return fmt.Sprintf("%d.%s%%", ip, f)
}

func (g *nsGen) nPortions() int {
	if (g.wide && g.r.p(30)) || g.r.p(5) {
		return 4 + g.r.n(4)
	}
	return 2 + g.r.n(2)
}

// portions: n entries over one denominator.  Shapes: a random split that adds up to 100 % (last entry constant or
// `remaining`), equal shares (33.33% x 3: exact or just under), a total one unit of the denominator under / over 100 %.
func (g *nsGen) portions(n int, allowVar bool) []J {
	var js []J
	dens := []int{2, 3, 4, 5, 7, 10, 100}
	wide := g.wide || g.r.p(25)
	if wide {
		dens = []int{2, 3, 4, 5, 6, 7, 8, 9, 10, 100, 100, 1000, 1000, 10000, 10000, 10000, 10000, 10000, 10000}
	}
	den := dens[g.r.n(len(dens))]
	left := den
	mk := func(k int) J {
		t := fmt.Sprintf("%d/%d", k, den)
		if pt := pctText(k, den, g.r.p(8)); pt != "" && g.r.p(60) {
			t = pt
		}
		return J{"k": "const", "n": fmt.Sprint(k), "d": fmt.Sprint(den), "t": t}
	}
	shape := "split"
	if wide {
		switch x := g.r.n(100); {
		case x < 18:
			shape = "equal"
		case x < 38:
			shape = "under"
		case x < 43:
			shape = "over"
		}
	}
	pvars := g.varsOf("portion")
	hasVar := false
	for i := 0; i < n-1; i++ {
		if shape == "split" && allowVar && len(pvars) > 0 && g.r.p(25) {
			js = append(js, J{"k": "var", "v": pvars[g.r.n(len(pvars))].name})
			hasVar = true
			continue
		}
		k := 0
		if shape == "equal" {
			k = den / n
		} else if left > 0 {
			k = g.r.n(left + 1)
		}
		if i == 0 && k == left && left > 0 {
			k = left - 1
		}
		left -= k
		js = append(js, mk(k))
	}
	switch {
	case g.wrong():
		js = append(js, J{"k": "badconst", "t": "150%"})
	case g.wrong() || shape == "over":
		js = append(js, mk(left+1))
	case shape == "under" && left > 0:
		js = append(js, mk(left-1))
	case shape == "equal" && g.r.p(50):
		js = append(js, mk(den/n))
	case hasVar || (left > 0 && g.r.p(70)):
		if left == 0 { // constants already 100 %: the compiler rejects `remaining` here; keep the program valid
			js[0] = mk(0)
			for i := 1; i < len(js); i++ {
				if js[i]["k"] == "const" {
					js[i] = mk(0)
				}
			}
		}
		js = append(js, J{"k": "remaining"})
	default:
		js = append(js, mk(left))
	}
	if g.wrong() {
		js[0] = J{"k": "remaining"}
	}
	return js
}

func (g *nsGen) kd(depth int) J {
	kept := 20
	if g.wide {
		kept = 6
	}
	if g.r.p(kept) {
		return J{"k": "kept"}
	}
	return J{"k": "to", "d": g.dest(depth)}
}

func (g *nsGen) dest(depth int) J {
	k := g.r.n(10)
	if depth <= 0 || k < 5 {
		return J{"k": "acct", "e": g.acctExpr(append(append([]string{}, nsAccts...), "x", "y", "world"))}
	}
	if k < 8 {
		n := 1 + g.r.n(3)
		var caps []any
		for i := 0; i < n; i++ {
			caps = append(caps, J{"cap": g.monExpr(), "kd": g.kd(depth - 1)})
		}
		return J{"k": "inorder", "caps": caps, "rest": g.kd(depth - 1)}
	}
	return g.destAllot(depth)
}

func (g *nsGen) destAllot(depth int) J {
	n := g.nPortions()
	ps := g.portions(n, true)
	var items []any
	for i := 0; i < n; i++ {
		items = append(items, J{"p": ps[i], "kd": g.kd(depth - 1)})
	}
	return J{"k": "allot", "items": items}
}

func (g *nsGen) anyExpr() J {
	switch g.r.n(7) {
	case 0:
		return g.acctExpr(nsAccts)
	case 1:
		return g.assetExpr()
	case 2:
		e := J(lit("num", fmt.Sprint(g.r.n(100))))
		if vs := g.varsOf("number"); len(vs) > 0 && g.r.p(50) {
			e = lit("var", vs[g.r.n(len(vs))].name)
		}
		if g.r.p(30) {
			op := "add"
			if g.r.p(50) {
				op = "sub"
			}
			e = J{"k": op, "l": e, "r": lit("num", fmt.Sprint(g.r.n(200)))}
		}
		return e
	case 3:
		if vs := g.varsOf("string"); len(vs) > 0 && g.r.p(50) {
			return lit("var", vs[g.r.n(len(vs))].name)
		}
		return lit("str", g.r.pick([]string{"hello", "a b", "", "x-1_Y"}))
	case 4:
		if vs := g.varsOf("portion"); len(vs) > 0 && g.r.p(50) {
			return lit("var", vs[g.r.n(len(vs))].name)
		}
		return J{"k": "portion", "n": "1", "d": "4", "t": g.r.pick([]string{"1/4", "25%", "2/8"})}
	default:
		return g.monExpr()
	}
}

func (g *nsGen) stmt(depthS, depthD int) J {
	g.asset = "USD"
	if g.r.p(4) {
		g.asset = "COIN"
	}
	switch x := g.r.n(100); {
	case x < 9:
		acc := g.acctExpr(nsAccts)
		if g.r.p(50) {
			return J{"k": "saveMon", "e": g.monExpr(), "acc": acc}
		}
		return J{"k": "saveAll", "asset": g.assetExpr(), "acc": acc}
	case x < 10:
		return J{"k": "fail"}
	case x < 16:
		return J{"k": "setTxMeta", "key": g.r.pick([]string{"k1", "k2", "note"}), "v": g.anyExpr()}
	case x < 21:
		return J{"k": "setAccountMeta", "acc": g.acctExpr(nsAccts), "key": g.r.pick([]string{"m1", "m2"}), "v": g.anyExpr()}
	case x < 24:
		return J{"k": "print", "e": g.anyExpr()}
	}
	all := g.r.p(15)
	var amt J
	if all {
		amt = J{"k": "all", "asset": g.assetExpr()}
	} else {
		amt = J{"k": "mon", "e": g.monExpr()}
	}
	g.used = map[string]bool{}
	var src J
	if (!all && g.r.p(20)) || g.wrong() {
		n := g.nPortions()
		ps := g.portions(n, true)
		var items []any
		for i := 0; i < n; i++ {
			g.used = map[string]bool{}
			items = append(items, J{"p": ps[i], "s": g.source(depthS-1, true, false)})
		}
		src = J{"k": "allot", "items": items}
	} else {
		src = J{"k": "src", "s": g.source(depthS, true, all)}
	}
	return J{"k": "send", "amt": amt, "src": src, "dst": g.dest(depthD), "destFirst": g.r.p(8)}
}

// ---- focused program shapes (a share of the cases; the rest comes from the general generator above)

func (g *nsGen) litMon(asset, amt string) J {
	return J{"k": "mon", "asset": lit("asset", asset), "amt": amt}
}

func (g *nsGen) smallMon(asset string, lo, span int) J {
	if vs := g.varsOf("monetary"); len(vs) > 0 && g.r.p(15) {
		return lit("var", vs[g.r.n(len(vs))].name)
	}
	return g.litMon(asset, g.note(fmt.Sprint(lo+g.r.n(span))))
}

// ordered source lists in one asset made of `@x`, `@x allowing overdraft up to [A k]`, `max [A m] from …` and nested
// lists; an account met inside a `max … from` (which does not count as emptied) comes back later in the list
func (g *nsGen) ordLeaf(asset string, emptied map[string]bool, seenMax *[]J, inMax bool) J {
	var e J
	if len(*seenMax) > 0 && g.r.p(45) {
		if c := (*seenMax)[g.r.n(len(*seenMax))]; inMax || !emptied[exprKey(c)] {
			e = c
		}
	}
	for try := 0; e == nil || (try < 8 && !inMax && emptied[exprKey(e)]); try++ {
		e = g.acctExpr(nsAccts)
	}
	if inMax {
		*seenMax = append(*seenMax, e)
	} else {
		emptied[exprKey(e)] = true
	}
	if g.r.p(22) {
		return J{"k": "acct", "e": e, "od": J{"k": "upto", "e": g.smallMon(asset, 0, 30)}}
	}
	return J{"k": "acct", "e": e, "od": nil}
}

func (g *nsGen) ordList(depth int, asset string, emptied map[string]bool, seenMax *[]J, inMax bool) J {
	n := 2 + g.r.n(3)
	var ss []any
	for i := 0; i < n; i++ {
		switch x := g.r.n(100); {
		case x < 40:
			ss = append(ss, g.ordLeaf(asset, emptied, seenMax, inMax))
		case x < 78 || depth <= 0:
			ss = append(ss, J{"k": "max", "cap": g.smallMon(asset, 0, 40), "s": g.ordLeaf(asset, map[string]bool{}, seenMax, true)})
		case x < 90:
			ss = append(ss, J{"k": "max", "cap": g.smallMon(asset, 0, 40), "s": g.ordList(depth-1, asset, map[string]bool{}, seenMax, true)})
		default:
			ss = append(ss, g.ordList(depth-1, asset, emptied, seenMax, inMax))
		}
	}
	return J{"k": "inorder", "ss": ss}
}

func (g *nsGen) plainDest() J {
	return J{"k": "acct", "e": g.acctExpr(append(append([]string{}, nsAccts...), "x", "y"))}
}

func (g *nsGen) cheapStmt() J {
	if g.r.p(50) {
		return J{"k": "setTxMeta", "key": g.r.pick([]string{"k1", "k2", "note"}), "v": g.anyExpr()}
	}
	return J{"k": "print", "e": g.anyExpr()}
}

func (g *nsGen) orderedProgram(depth int) []any {
	g.asset = "USD"
	if g.r.p(15) {
		g.asset = "COIN"
	}
	var seen []J
	src := g.ordList(depth-1, g.asset, map[string]bool{}, &seen, false)
	dst := g.plainDest()
	if g.r.p(15) {
		dst = g.dest(1 + g.r.n(depth))
	}
	send := J{"k": "send", "amt": J{"k": "mon", "e": g.smallMon(g.asset, 5, 95)}, "src": J{"k": "src", "s": src}, "dst": dst, "destFirst": g.r.p(8)}
	stmts := []any{send}
	switch x := g.r.n(100); {
	case x < 12:
		stmts = append(stmts, g.cheapStmt())
	case x < 20:
		stmts = append([]any{g.cheapStmt()}, stmts...)
	case x < 30:
		stmts = append(stmts, g.stmt(1+g.r.n(depth), 1+g.r.n(depth)))
	}
	return stmts
}

// one send of a (likely large) amount through an allotment on the source or on the destination side, sources that
// can pay: exactness of the shares is what is looked at
func (g *nsGen) allotProgram(depth int) []any {
	g.asset = "USD"
	if g.r.p(15) {
		g.asset = "COIN"
	}
	leaf := func() J {
		switch x := g.r.n(100); {
		case x < 35:
			return J{"k": "acct", "e": lit("acct", "world"), "od": nil}
		case x < 50:
			return J{"k": "acct", "e": lit("acct", g.r.pick(nsAccts)), "od": J{"k": "unbounded"}}
		case x < 90:
			a := g.r.pick(nsAccts)
			g.rich[a] = true
			return J{"k": "acct", "e": lit("acct", a), "od": nil}
		}
		g.used = map[string]bool{}
		return g.source(1+g.r.n(2), true, false)
	}
	amt := J{"k": "mon", "e": g.monExpr()}
	var src, dst J
	if g.r.p(50) {
		n := g.nPortions()
		ps := g.portions(n, true)
		var items []any
		for i := 0; i < n; i++ {
			items = append(items, J{"p": ps[i], "s": leaf()})
		}
		src = J{"k": "allot", "items": items}
		dst = g.plainDest()
		if g.r.p(30) {
			dst = g.dest(1 + g.r.n(depth))
		}
	} else {
		src = J{"k": "src", "s": leaf()}
		dst = g.destAllot(1 + g.r.n(2))
	}
	stmts := []any{J{"k": "send", "amt": amt, "src": src, "dst": dst, "destFirst": g.r.p(8)}}
	if g.r.p(15) {
		stmts = append(stmts, g.stmt(1+g.r.n(depth), 1+g.r.n(depth)))
	}
	return stmts
}

// an account is saved from (`save [A *] from @x` / `save [A k] from @x`), then receives funds in the same script,
// then (often) another account pays: the statements meet on the tracked balance of @x
func (g *nsGen) saveThenReceiveProgram(depth int) []any {
	g.asset = "USD"
	if g.r.p(25) {
		g.asset = "COIN"
	}
	x := g.hot
	g.pos[x+" "+g.asset] = true
	var save J
	if g.r.p(80) {
		save = J{"k": "saveAll", "asset": lit("asset", g.asset), "acc": lit("acct", x)}
	} else {
		save = J{"k": "saveMon", "e": g.smallMon(g.asset, 0, 60), "acc": lit("acct", x)}
	}
	v := g.amountStr()
	payer := J{"k": "acct", "e": lit("acct", "world"), "od": nil}
	if g.r.p(35) {
		a := g.r.pick(nsAccts)
		g.rich[a] = true
		payer = J{"k": "acct", "e": lit("acct", a), "od": nil}
	}
	dst := J{"k": "acct", "e": lit("acct", x)}
	if g.r.p(20) {
		dst = g.dest(1 + g.r.n(depth)) // the hot account is a likely target in there
	}
	recv := J{"k": "send", "amt": J{"k": "mon", "e": g.litMon(g.asset, v)}, "src": J{"k": "src", "s": payer}, "dst": dst, "destFirst": g.r.p(8)}
	stmts := []any{save, recv}
	if g.r.p(12) {
		stmts = []any{recv, save}
	}
	if g.r.p(60) {
		w := v
		if g.r.p(40) {
			w = g.amountStr()
		}
		g.used = map[string]bool{}
		var s J
		if g.r.p(70) {
			s = J{"k": "acct", "e": g.acctExpr(nsAccts), "od": nil}
		} else {
			s = g.source(1+g.r.n(depth), true, false)
		}
		stmts = append(stmts, J{"k": "send", "amt": J{"k": "mon", "e": g.litMon(g.asset, w)}, "src": J{"k": "src", "s": s}, "dst": g.plainDest(), "destFirst": false})
	}
	if g.r.p(15) {
		stmts = append([]any{g.stmt(1+g.r.n(depth), 1+g.r.n(depth))}, stmts...)
	}
	return stmts
}

// ---- "window": one send through portions where the arithmetic of the shares is delicate

type nsPct struct{ t, n, d string } // text as written, and its value n/d spelt out here (never through the code under test)

var nsRem = nsPct{t: "remaining"}

// splits with a reduced numerator > 1 (20 % leaves 4/5 to `remaining`): amount x numerator crosses 2^63 for the amounts below
var nsSplits = [][]nsPct{
	{{"20%", "20", "100"}, nsRem},
	{{"15.5%", "155", "1000"}, nsRem},
	{{"2/3", "2", "3"}, {"1/3", "1", "3"}},
	{{"2.9%", "29", "1000"}, nsRem},
	{{"30%", "30", "100"}, {"70%", "70", "100"}},
	{{"1/3", "1", "3"}, nsRem},
	{{"12.5%", "125", "1000"}, {"2.9%", "29", "1000"}, nsRem},
	{{"3/7", "3", "7"}, {"4/7", "4", "7"}},
}

// percentages with zeros right after the decimal point
var nsZeroPcts = []nsPct{{"2.05%", "205", "10000"}, {"0.05%", "5", "10000"}, {"10.01%", "1001", "10000"}, {"0.001%", "1", "100000"},
	{"1.005%", "1005", "100000"}, {"99.09%", "9909", "10000"}, {"0.07%", "7", "10000"}, {"50.0025%", "500025", "1000000"}}

// amounts below 2^63 whose product with a small numerator is not: 5e18, 8e18+1, 2^63-1, 2^62, 0.12 and 0.15 of an 18-decimals unit
var nsWindowAmts = []string{"5000000000000000000", "8000000000000000001", "9223372036854775807", "4611686018427387904",
	"120000000000000000", "150000000000000000"}

func (g *nsGen) declare(decls *[]any, ty, name, value string, origin J) {
	g.vars = append(g.vars, nsVar{ty: ty, name: name, origin: origin, value: value})
	*decls = append(*decls, J{"ty": ty, "name": name, "origin": origin})
}

func (g *nsGen) distinctAccts(n int, pool []string) []string {
	xs := append([]string{}, pool...)
	for i := len(xs) - 1; i > 0; i-- {
		j := g.r.n(i + 1)
		xs[i], xs[j] = xs[j], xs[i]
	}
	return xs[:n]
}

func (g *nsGen) windowProgram() ([]any, []any) {
	var decls []any
	g.asset = "USD"
	if g.r.p(20) {
		g.asset = "COIN"
	}
	var split []nsPct
	zero := g.r.p(50)
	if zero {
		z := nsZeroPcts[g.r.n(len(nsZeroPcts))]
		split = []nsPct{z, nsRem}
		if z.t != "99.09%" && g.r.p(30) {
			split = []nsPct{z, nsZeroPcts[g.r.n(3)], nsRem}
		}
		if g.r.p(25) {
			split[0], split[len(split)-1] = split[len(split)-1], split[0] // `remaining` first
		}
	} else {
		split = append([]nsPct{}, nsSplits[g.r.n(len(nsSplits))]...)
	}
	amt := g.r.pick(nsWindowAmts)
	if (zero && g.r.p(50)) || (!zero && g.r.p(12)) {
		amt = g.r.pick([]string{"1000000", "1000000000", "123456789", "999999", "20000"})
	}
	g.note(amt)
	// how each portion is carried: literal, portion variable of the request, portion variable read from metadata
	ps := make([]J, len(split))
	hasVar, hasRem := false, false
	for i, e := range split {
		switch {
		case e.t == "remaining":
			ps[i] = J{"k": "remaining"}
			hasRem = true
		case g.r.p(45) && (hasRem || i < len(split)-1): // without `remaining` the last entry stays a literal (it becomes `remaining` below)
			name := fmt.Sprintf("p%d", i)
			var origin J
			if g.r.p(45) {
				origin = J{"k": "meta", "acc": lit("acct", g.r.pick([]string{"cfg", "a", "c"})), "key": fmt.Sprintf("k%d", 5+i)}
			}
			g.declare(&decls, "portion", name, e.t, origin)
			ps[i] = J{"k": "var", "v": name}
			hasVar = true
		default:
			ps[i] = J{"k": "const", "n": e.n, "d": e.d, "t": e.t}
		}
	}
	if hasVar && !hasRem { // a variable portion needs `remaining`: the last entry (a literal) becomes it, same value
		ps[len(ps)-1] = J{"k": "remaining"}
	}
	payer := func(world bool) J {
		switch x := g.r.n(100); {
		case x < 30 && world:
			return J{"k": "acct", "e": lit("acct", "world"), "od": nil}
		case x < 50:
			return J{"k": "acct", "e": lit("acct", g.r.pick(nsAccts)), "od": J{"k": "unbounded"}}
		}
		a := g.r.pick(nsAccts)
		g.rich[a] = true
		return J{"k": "acct", "e": lit("acct", a), "od": nil}
	}
	var src, dst J
	if g.r.p(50) {
		accts := g.distinctAccts(len(ps), append(append([]string{}, nsAccts...), "x", "y"))
		var items []any
		for i := range ps {
			kd := J{"k": "to", "d": J{"k": "acct", "e": lit("acct", accts[i])}}
			if g.r.p(5) {
				kd = J{"k": "kept"}
			}
			items = append(items, J{"p": ps[i], "kd": kd})
		}
		src, dst = J{"k": "src", "s": payer(true)}, J{"k": "allot", "items": items}
	} else {
		accts := g.distinctAccts(len(ps), nsAccts)
		var items []any
		for i := range ps {
			var s J
			switch x := g.r.n(100); {
			case x < 25:
				s = J{"k": "acct", "e": lit("acct", accts[i]), "od": J{"k": "unbounded"}}
			case x < 35 && i == len(ps)-1:
				s = J{"k": "acct", "e": lit("acct", "world"), "od": nil}
			case x < 45:
				g.rich[accts[i]] = true
				s = J{"k": "max", "cap": g.litMon(g.asset, amt), "s": J{"k": "acct", "e": lit("acct", accts[i]), "od": nil}}
			default:
				g.rich[accts[i]] = true
				s = J{"k": "acct", "e": lit("acct", accts[i]), "od": nil}
			}
			items = append(items, J{"p": ps[i], "s": s})
		}
		src, dst = J{"k": "allot", "items": items}, J{"k": "acct", "e": lit("acct", g.r.pick([]string{"x", "y", "d", "e"}))}
	}
	stmts := []any{J{"k": "send", "amt": J{"k": "mon", "e": g.litMon(g.asset, amt)}, "src": src, "dst": dst, "destFirst": g.r.p(8)}}
	if g.r.p(12) {
		stmts = append(stmts, g.cheapStmt())
	}
	return decls, stmts
}

// ---- "rebind": the asset of monetary literals is a variable (`[$cur 100]`) in send amounts, caps, overdrafts, metadata values, saves

func (g *nsGen) rebindProgram(depth int) ([]any, []any) {
	var decls []any
	assets := []string{"USD", "EUR", "COIN"}
	g.declare(&decls, "asset", "cur", g.r.pick(assets), nil)
	hasAcc, hasMon, hasNum := g.r.p(50), g.r.p(30), g.r.p(30)
	if hasAcc {
		g.declare(&decls, "account", "acc", g.r.pick(nsAccts), nil)
	}
	if hasMon {
		g.declare(&decls, "monetary", "m", g.r.pick(assets)+" "+g.note(fmt.Sprint(1+g.r.n(80))), nil)
	}
	if hasNum {
		g.declare(&decls, "number", "n", fmt.Sprint(g.r.n(50)), nil)
	}
	if g.r.p(15) {
		g.declare(&decls, "portion", "p", g.r.pick([]string{"1/2", "10%", "2.05%", "1/3"}), nil)
	}
	for _, a := range nsAccts {
		g.rich[a] = true
	}
	if g.r.p(40) { // the general generator, assets mostly through the variable
		g.avar = 85
		var stmts []any
		for i, ns := 0, 1+g.r.n(3); i < ns; i++ {
			stmts = append(stmts, g.stmt(1+g.r.n(depth), 1+g.r.n(depth)))
		}
		return decls, stmts
	}
	g.asset = "USD"
	cur := lit("var", "cur")
	mon := func(lo, span int) J { return J{"k": "mon", "asset": cur, "amt": g.note(fmt.Sprint(lo + g.r.n(span)))} }
	acct := func() J {
		if hasAcc && g.r.p(40) {
			return lit("var", "acc")
		}
		return lit("acct", g.r.pick(nsAccts))
	}
	var amt J = mon(1, 200)
	if hasMon && g.r.p(25) {
		amt = lit("var", "m")
	}
	a := lit("acct", g.r.pick(nsAccts))
	var s J
	switch g.r.n(6) {
	case 0:
		s = J{"k": "acct", "e": lit("acct", "world"), "od": nil}
	case 1:
		s = J{"k": "acct", "e": a, "od": nil}
	case 2:
		s = J{"k": "acct", "e": a, "od": J{"k": "upto", "e": mon(0, 300)}}
	case 3:
		s = J{"k": "max", "cap": mon(0, 300), "s": J{"k": "acct", "e": a, "od": J{"k": "unbounded"}}}
	case 4:
		s = J{"k": "inorder", "ss": []any{J{"k": "max", "cap": mon(0, 60), "s": J{"k": "acct", "e": a, "od": nil}}, J{"k": "acct", "e": lit("acct", "world"), "od": nil}}}
	default:
		s = J{"k": "inorder", "ss": []any{J{"k": "acct", "e": a, "od": J{"k": "upto", "e": mon(0, 30)}}, J{"k": "acct", "e": lit("acct", "world"), "od": nil}}}
	}
	var d J
	switch g.r.n(4) {
	case 0, 1:
		d = J{"k": "acct", "e": acct()}
	case 2:
		d = J{"k": "allot", "items": []any{
			J{"p": J{"k": "const", "n": "10", "d": "100", "t": "10%"}, "kd": J{"k": "to", "d": J{"k": "acct", "e": lit("acct", "x")}}},
			J{"p": J{"k": "remaining"}, "kd": J{"k": "to", "d": J{"k": "acct", "e": acct()}}}}}
	default:
		d = J{"k": "inorder", "caps": []any{J{"cap": mon(0, 40), "kd": J{"k": "to", "d": J{"k": "acct", "e": lit("acct", "x")}}}},
			"rest": J{"k": "to", "d": J{"k": "acct", "e": acct()}}}
	}
	var send J
	if g.r.p(12) {
		send = J{"k": "send", "amt": J{"k": "all", "asset": cur}, "src": J{"k": "src", "s": J{"k": "acct", "e": a, "od": nil}}, "dst": d, "destFirst": false}
	} else {
		send = J{"k": "send", "amt": J{"k": "mon", "e": amt}, "src": J{"k": "src", "s": s}, "dst": d, "destFirst": g.r.p(8)}
	}
	stmts := []any{send}
	if g.r.p(25) { // after the send, from its source account, in an asset named otherwise than the send's
		stmts = append(stmts, J{"k": "saveAll", "asset": lit("asset", g.r.pick(assets)), "acc": a})
	}
	for i, n := 0, g.r.n(3); i < n; i++ {
		switch g.r.n(6) {
		case 0:
			stmts = append(stmts, J{"k": "setTxMeta", "key": g.r.pick([]string{"k1", "k2", "note"}), "v": mon(0, 200)})
		case 1:
			stmts = append(stmts, J{"k": "setAccountMeta", "acc": acct(), "key": g.r.pick([]string{"m1", "m2"}), "v": mon(0, 200)})
		case 2:
			stmts = append([]any{J{"k": "saveMon", "e": mon(0, 40), "acc": a}}, stmts...)
		case 3:
			stmts = append([]any{J{"k": "saveAll", "asset": cur, "acc": lit("acct", g.r.pick(nsAccts))}}, stmts...)
		case 4:
			stmts = append(stmts, J{"k": "print", "e": mon(0, 9)})
		default:
			if hasNum {
				stmts = append(stmts, J{"k": "setTxMeta", "key": "k2", "v": J{"k": "add", "l": lit("var", "n"), "r": lit("num", "1")}})
			} else {
				stmts = append(stmts, J{"k": "setTxMeta", "key": "k2", "v": cur})
			}
		}
	}
	return decls, stmts
}

// altValue: another legal value of the variable's type
func altValue(r *rng, ty, cur string) string {
	other := func(xs []string) string {
		for try := 0; try < 20; try++ {
			if x := r.pick(xs); x != cur {
				return x
			}
		}
		return cur
	}
	switch ty {
	case "asset":
		return other([]string{"USD", "EUR", "COIN"})
	case "account":
		return other(nsAccts)
	case "monetary":
		parts := strings.SplitN(cur, " ", 2)
		n, ok := new(big.Int).SetString(parts[len(parts)-1], 10)
		if len(parts) != 2 || !ok {
			return cur
		}
		a := parts[0]
		k := r.n(3)
		if k != 1 {
			for _, x := range []string{"EUR", "COIN", "USD"} {
				if x != a {
					a = x
					break
				}
			}
		}
		if k != 0 {
			n = new(big.Int).Add(n, big.NewInt(int64(1+r.n(7))))
		}
		return a + " " + n.String()
	case "number":
		n, ok := new(big.Int).SetString(cur, 10)
		if !ok {
			return cur
		}
		return new(big.Int).Add(n, big.NewInt(int64(1+r.n(5)))).String()
	case "string":
		return other([]string{"s", "hello world", "", "t"})
	case "portion":
		return other([]string{"1/2", "10%", "0%", "1/3", "12.5%", "2.05%", "0.05%", "1/4"})
	}
	return cur
}

// secondBinding: the variable map / stored metadata of the program with the values of its variables switched (nil, nil when nothing can be)
func (g *nsGen) secondBinding(r *rng, vars J, ameta [][]string) (J, [][]string) {
	vars2, changedV := J{}, false
	for k, v := range vars {
		vars2[k] = v
	}
	ameta2, changedM := [][]string{}, false
	for _, t := range ameta {
		ameta2 = append(ameta2, append([]string{}, t...))
	}
	for _, v := range g.vars {
		switch {
		case v.origin == nil:
			if cur, ok := vars[v.name].(string); ok && cur == v.value && (!changedV || r.p(75)) {
				if nv := altValue(r, v.ty, cur); nv != cur {
					vars2[v.name] = nv
					changedV = true
				}
			}
		case v.origin["k"] == "meta":
			for _, t := range ameta2 {
				if t[1] == v.origin["key"].(string) && t[2] == v.value && r.p(50) {
					if nv := altValue(r, v.ty, t[2]); nv != t[2] {
						t[2] = nv
						changedM = true
					}
				}
			}
		}
	}
	if !changedV {
		vars2 = nil
	}
	if !changedM {
		ameta2 = nil
	}
	return vars2, ameta2
}

func (g *nsGen) declareVars() []any {
	var decls []any
	n := 0
	if g.r.p(45) {
		n = 1 + g.r.n(4)
	}
	for i := 0; i < n; i++ {
		name := fmt.Sprintf("v%d", i)
		if g.wrong() && i > 0 {
			name = "v0"
		}
		ty := g.r.pick([]string{"account", "account", "monetary", "monetary", "asset", "number", "string", "portion"})
		v := nsVar{ty: ty, name: name}
		switch ty {
		case "account":
			v.value = g.r.pick(nsAccts)
			if g.r.p(35) {
				v.origin = J{"k": "meta", "acc": g.acctExpr(nsAccts), "key": g.r.pick([]string{"k1", "k2"})}
			}
		case "monetary":
			v.value = "USD " + g.amountStr()
			switch {
			case g.r.p(30):
				v.origin = J{"k": "balance", "acc": g.acctExpr(nsAccts), "asset": g.assetExpr()}
			case g.r.p(15):
				v.origin = J{"k": "meta", "acc": g.acctExpr(nsAccts), "key": g.r.pick([]string{"k3", "k4"})}
			}
		case "asset":
			v.value = g.r.pick([]string{"USD", "USD", "EUR", "COIN"})
		case "number":
			v.value = fmt.Sprint(g.r.n(50))
		case "string":
			v.value = g.r.pick([]string{"s", "hello world", ""})
		case "portion":
			v.value = g.r.pick([]string{"1/2", "10%", "0%", "1/3", "12.5%", "100%", "33.33%", "0.01%", "9999/10000"})
			if g.r.p(15) {
				v.origin = J{"k": "meta", "acc": g.acctExpr(nsAccts), "key": "k5"}
			}
		}
		if g.wrong() && ty != "monetary" {
			v.origin = J{"k": "balance", "acc": g.acctExpr(nsAccts), "asset": g.assetExpr()}
		}
		decls = append(decls, J{"ty": ty, "name": name, "origin": v.origin})
		g.vars = append(g.vars, v)
	}
	return decls
}

func genNumscript(r *rng, n int, tier string, emit func(J)) { genNumscriptOpt(r, n, tier, emit, true) }

// genNumscriptBase: the programs without the focused shapes of numscript_focus.go (for the areas that only want program texts to
// start from: they keep the stream they had)
func genNumscriptBase(r *rng, n int, tier string, emit func(J)) { genNumscriptOpt(r, n, tier, emit, false) }

func genNumscriptOpt(r *rng, n int, tier string, emit func(J), focused bool) {
	depth := 3
	if tier == "thorough" {
		depth = 5
	}
	for c := 0; c < n; c++ {
		g := &nsGen{r: r.fork(), used: map[string]bool{}, asset: "USD", rich: map[string]bool{}, pos: map[string]bool{}}
		// focused multi-statement shapes (numscript_focus.go): an ADDITIONAL case in front of about 7 % of the programs, decided and
		// drawn from a stream of its own (no draw from the program's generator): program c itself is what it was
		if fx := (&rng{s: g.r.s ^ 0xa0761d6478bd642f}); focused {
			fx.next()
			if fx.n(100) < 7 {
				emit(focusCase(fx.fork()))
			}
		}
		// a side stream of this program's generator, taken without a draw: what is decided from it (the two shapes below, the second
		// variable map) leaves the choices of the main stream — hence every other program of the seed — as they were
		side := &rng{s: g.r.s ^ 0x5bd1e9955bd1e995}
		side.next()
		prof := ""
		switch x := side.n(100); {
		case x < 7:
			prof = "window"
		case x < 11:
			prof = "rebind"
		}
		if prof != "" {
			g.r = side.fork()
		}
		g.hot = g.r.pick(nsAccts)
		if prof == "" && g.r.p(20) {
			g.bad = 15
		}
		if prof == "" {
			switch x := g.r.n(100); {
			case x < 11:
				prof = "ordered"
			case x < 25:
				prof = "allot"
			case x < 31:
				prof = "save-receive"
			}
		}
		var decls []any
		if prof == "" || (prof != "window" && prof != "rebind" && g.r.p(25)) {
			decls = g.declareVars()
		}
		var stmts []any
		switch prof {
		case "window":
			decls, stmts = g.windowProgram()
		case "rebind":
			decls, stmts = g.rebindProgram(depth)
		case "ordered":
			stmts = g.orderedProgram(depth)
		case "allot":
			g.wide, g.large = true, 70
			stmts = g.allotProgram(depth)
		case "save-receive":
			g.large = 15
			stmts = g.saveThenReceiveProgram(depth)
		default:
			ns := 1 + g.r.n(3)
			for i := 0; i < ns; i++ {
				stmts = append(stmts, g.stmt(1+g.r.n(depth), 1+g.r.n(depth)))
			}
		}
		ast := J{"vars": decls, "stmts": stmts}
		// request variables and stored metadata
		vars := J{}
		var ameta [][]string
		for _, v := range g.vars {
			if v.origin == nil {
				switch {
				case g.r.p(2): // missing
				case g.r.p(2):
					vars[v.name] = g.r.pick([]string{"!!", "null", "", " ", "-1", "1e3", "USD -1", "USD", "1/0", "200%", "@a", "a b"})
				default:
					vars[v.name] = v.value
				}
			} else if v.origin["k"] == "meta" {
				acc := v.origin["acc"].(J)
				a := ""
				if acc["k"] == "acct" {
					a = acc["v"].(string)
				} else {
					for _, w := range g.vars {
						if w.name == acc["v"] {
							a = w.value
						}
					}
				}
				dupKey := false
				for _, t := range ameta {
					if t[0] == a && t[1] == v.origin["key"].(string) {
						dupKey = true // one stored value per (account, key)
					}
				}
				if !dupKey && !g.r.p(4) {
					val := v.value
					if g.r.p(3) {
						val = "@@"
					}
					ameta = append(ameta, []string{a, v.origin["key"].(string), val})
				}
			}
		}
		if g.r.p(2) {
			vars["extra"] = "1"
		}
		meta := J{}
		if g.r.p(20) {
			meta[g.r.pick([]string{"k1", "req", "note"})] = "from-request"
		}
		// balances from the amounts in the program: "runs dry exactly here" must be likely
		var bal [][]string
		top := big.NewInt(0)
		for _, k := range g.nums {
			if k.Cmp(top) > 0 {
				top = k
			}
		}
		for _, a := range append(append([]string{}, nsAccts...), "world") {
			for _, s := range []string{"USD", "EUR", "COIN"} {
				var b *big.Int
				k := big.NewInt(0)
				if len(g.nums) > 0 {
					k = g.nums[g.r.n(len(g.nums))]
				}
				switch g.r.n(13) {
				case 0:
					b = big.NewInt(0)
				case 1:
					b = new(big.Int).Neg(k)
				case 2:
					b, _ = new(big.Int).SetString("73786976294838206464", 10) // 2^66
				case 3:
					b = new(big.Int).Sub(k, big.NewInt(1))
				case 4:
					b = new(big.Int).Set(k)
				case 5:
					b = new(big.Int).Add(k, big.NewInt(1))
				case 6:
					b = big.NewInt(-int64(g.r.n(20)))
				case 7, 8:
					b = big.NewInt(int64(g.r.n(400)))
				case 9:
					b = new(big.Int).Add(k, k)
				default:
					b = big.NewInt(int64(g.r.n(60)))
				}
				switch {
				case a == "world":
					b = big.NewInt(-int64(g.r.n(1000)))
				case g.rich[a] && g.r.p(75): // can pay every amount of the program
					b = new(big.Int).Mul(top, big.NewInt(int64(1+g.r.n(3))))
					b.Add(b, big.NewInt(int64(g.r.n(3))))
				case g.pos[a+" "+s] && g.r.p(85):
					b = big.NewInt(int64(1 + g.r.n(400)))
				case a == g.hot && g.r.p(30):
					b = big.NewInt(-int64(1 + g.r.n(40)))
				}
				bal = append(bal, []string{a, s, b.String()})
			}
		}
		cas := J{"text": printScript(ast), "ast": ast, "vars": vars, "meta": meta, "bal": bal, "ameta": ameta, "mut": g.bad > 0, "shape": prof}
		if v2, m2 := g.secondBinding(side, vars, ameta); v2 != nil || m2 != nil {
			if v2 != nil {
				cas["vars2"] = v2
			}
			if m2 != nil {
				cas["ameta2"] = m2
			}
		}
		emit(cas)
		// C02: one program in eight is followed by a variant of itself in which an account in source position is ALSO the
		// value of a fresh account variable that is no source (a destination, a `save` / `set_account_meta` target).  Drawn
		// from this program's own generator (a fork of the main one) AFTER the program is complete, so the base programs
		// of a seed are exactly what they were without the variants.
		if g.r.p(13) {
			if v := g.aliasVariant(ast, vars, ameta); v != nil {
				emit(J{"text": printScript(asJ(v["ast"])), "ast": v["ast"], "vars": v["vars"], "meta": meta, "bal": bal, "ameta": v["ameta"],
					"mut": g.bad > 0, "alias": v["alias"]})
			}
		}
	}
}

// ---- aliasing variants (C02: "whichever way the source account is named")

func deepCopy(x any) any {
	b, _ := json.Marshal(x)
	var y any
	json.Unmarshal(b, &y)
	return y
}

func sourceAcctExprs(s J, out *[]J) {
	switch s["k"] {
	case "acct":
		*out = append(*out, asJ(s["e"]))
	case "max":
		sourceAcctExprs(asJ(s["s"]), out)
	case "inorder":
		for _, x := range s["ss"].([]any) {
			sourceAcctExprs(asJ(x), out)
		}
	}
}

func stmtSourceExprs(st J) []J {
	var out []J
	if st["k"] != "send" {
		return nil
	}
	src := asJ(st["src"])
	if src["k"] == "src" {
		sourceAcctExprs(asJ(src["s"]), &out)
	} else {
		for _, x := range src["items"].([]any) {
			sourceAcctExprs(asJ(asJ(x)["s"]), &out)
		}
	}
	return out
}

// the nodes {"k":"acct","e":…} of a destination tree
func destLeaves(d J, out *[]J) {
	kd := func(k J) {
		if k["k"] == "to" {
			destLeaves(asJ(k["d"]), out)
		}
	}
	switch d["k"] {
	case "acct":
		*out = append(*out, d)
	case "inorder":
		for _, x := range d["caps"].([]any) {
			kd(asJ(asJ(x)["kd"]))
		}
		kd(asJ(d["rest"]))
	case "allot":
		for _, x := range d["items"].([]any) {
			kd(asJ(asJ(x)["kd"]))
		}
	}
}

// aliasVariant returns {"ast","vars","ameta","alias"} or nil when the program has no usable source account.
func (g *nsGen) aliasVariant(ast0 J, vars0 J, ameta0 [][]string) J {
	ast := asJ(deepCopy(ast0))
	stmts := ast["stmts"].([]any)
	// the accounts in source position, with the value each is meant to take
	type cand struct{ val, how string }
	var cands []cand
	for _, x := range stmts {
		for _, e := range stmtSourceExprs(asJ(x)) {
			switch e["k"] {
			case "acct":
				if v := e["v"].(string); v != "world" {
					cands = append(cands, cand{v, "lit"})
				}
			case "var":
				for _, w := range g.vars {
					if w.name == e["v"] && w.ty == "account" && w.origin == nil {
						cands = append(cands, cand{w.value, "var"})
					} else if w.name == e["v"] && w.ty == "account" {
						cands = append(cands, cand{w.value, "meta"})
					}
				}
			}
		}
	}
	if len(cands) == 0 {
		return nil
	}
	c := cands[g.r.n(len(cands))]
	// the fresh variable: plain or read from metadata; declared first (lowest resource index) or last
	decl := J{"ty": "account", "name": "al", "origin": nil}
	vars := J{}
	for k, v := range vars0 {
		vars[k] = v
	}
	ameta := append([][]string{}, ameta0...)
	origin := "var"
	if g.r.p(50) {
		origin = "meta"
		holder := g.r.pick([]string{"reg", "a", "c"})
		decl["origin"] = J{"k": "meta", "acc": lit("acct", holder), "key": "ka"}
		ameta = append(ameta, []string{holder, "ka", c.val})
	} else {
		vars["al"] = c.val
	}
	decls, _ := ast["vars"].([]any)
	pos := "first"
	if len(decls) > 0 && g.r.p(30) {
		pos = "last"
		decls = append(decls, decl)
	} else {
		decls = append([]any{decl}, decls...)
	}
	ast["vars"] = decls
	// where the variable is used — never as a source
	al := lit("var", "al")
	use := ""
	var leaves []J
	for _, x := range stmts {
		if st := asJ(x); st["k"] == "send" {
			destLeaves(asJ(st["dst"]), &leaves)
		}
	}
	switch k := g.r.n(10); {
	case k < 4 && len(leaves) > 0:
		use = "dest"
		leaves[g.r.n(len(leaves))]["e"] = al
	case k < 6:
		use = "dest-of-added-send"
		stmts = append(stmts, J{"k": "send", "amt": J{"k": "mon", "e": J{"k": "mon", "asset": lit("asset", "USD"), "amt": "1"}},
			"src": J{"k": "src", "s": J{"k": "acct", "e": lit("acct", "world"), "od": nil}}, "dst": J{"k": "acct", "e": al}, "destFirst": false})
	case k < 8:
		use = "setmeta"
		stmts = append(stmts, J{"k": "setAccountMeta", "acc": al, "key": "m1", "v": lit("num", "1")})
	case k < 9:
		use = "save"
		st := J{"k": "saveMon", "e": J{"k": "mon", "asset": lit("asset", "USD"), "amt": "1"}, "acc": al}
		stmts = append([]any{st}, stmts...) // a save acts on what follows
	default:
		use = "unused" // declared, resolved (hence involved), never mentioned again
	}
	ast["stmts"] = stmts
	return J{"ast": ast, "vars": vars, "ameta": ameta, "alias": c.how + "-source+" + origin + "-" + use + "-" + pos}
}

// ------------------------------------------------------------------ pretty printer (AST -> text)

func printExpr(e J) string {
	switch e["k"] {
	case "acct":
		return "@" + e["v"].(string)
	case "asset":
		return e["v"].(string)
	case "num":
		return e["v"].(string)
	case "str":
		return `"` + e["v"].(string) + `"`
	case "portion", "badportion":
		return e["t"].(string)
	case "mon":
		return "[" + printExpr(e["asset"].(J)) + " " + e["amt"].(string) + "]"
	case "var":
		return "$" + e["v"].(string)
	case "add":
		return printExpr(e["l"].(J)) + " + " + printExpr(e["r"].(J))
	case "sub":
		return printExpr(e["l"].(J)) + " - " + printExpr(e["r"].(J))
	}
	panic("bad expr")
}

func asJ(x any) J {
	if x == nil {
		return nil
	}
	if j, ok := x.(J); ok {
		return j
	}
	return J(x.(map[string]any))
}

func printSource(s J, ind string) string {
	switch s["k"] {
	case "acct":
		t := printExpr(asJ(s["e"]))
		if od := asJ(s["od"]); od != nil {
			if od["k"] == "upto" {
				t += " allowing overdraft up to " + printExpr(asJ(od["e"]))
			} else {
				t += " allowing unbounded overdraft"
			}
		}
		return t
	case "max":
		return "max " + printExpr(asJ(s["cap"])) + " from " + printSource(asJ(s["s"]), ind)
	case "inorder":
		t := "{\n"
		for _, x := range s["ss"].([]any) {
			t += ind + "  " + printSource(asJ(x), ind+"  ") + "\n"
		}
		return t + ind + "}"
	}
	panic("bad source")
}

func printPortion(p J) string {
	switch p["k"] {
	case "const", "badconst":
		return p["t"].(string)
	case "var":
		return "$" + p["v"].(string)
	}
	return "remaining"
}

func printKD(kd J, ind string) string {
	if kd["k"] == "kept" {
		return "kept"
	}
	return "to " + printDest(asJ(kd["d"]), ind)
}

func printDest(d J, ind string) string {
	switch d["k"] {
	case "acct":
		return printExpr(asJ(d["e"]))
	case "inorder":
		t := "{\n"
		for _, x := range d["caps"].([]any) {
			c := asJ(x)
			t += ind + "  max " + printExpr(asJ(c["cap"])) + " " + printKD(asJ(c["kd"]), ind+"  ") + "\n"
		}
		t += ind + "  remaining " + printKD(asJ(d["rest"]), ind+"  ") + "\n"
		return t + ind + "}"
	case "allot":
		t := "{\n"
		for _, x := range d["items"].([]any) {
			c := asJ(x)
			t += ind + "  " + printPortion(asJ(c["p"])) + " " + printKD(asJ(c["kd"]), ind+"  ") + "\n"
		}
		return t + ind + "}"
	}
	panic("bad dest")
}

func printStmt(s J) string {
	switch s["k"] {
	case "fail":
		return "fail"
	case "print":
		return "print " + printExpr(asJ(s["e"]))
	case "setTxMeta":
		return `set_tx_meta("` + s["key"].(string) + `", ` + printExpr(asJ(s["v"])) + `)`
	case "setAccountMeta":
		return `set_account_meta(` + printExpr(asJ(s["acc"])) + `, "` + s["key"].(string) + `", ` + printExpr(asJ(s["v"])) + `)`
	case "saveMon":
		return "save " + printExpr(asJ(s["e"])) + " from " + printExpr(asJ(s["acc"]))
	case "saveAll":
		return "save [" + printExpr(asJ(s["asset"])) + " *] from " + printExpr(asJ(s["acc"]))
	case "send":
		amt := asJ(s["amt"])
		at := ""
		if amt["k"] == "all" {
			at = "[" + printExpr(asJ(amt["asset"])) + " *]"
		} else {
			at = printExpr(asJ(amt["e"]))
		}
		src := asJ(s["src"])
		st := ""
		if src["k"] == "src" {
			st = printSource(asJ(src["s"]), "  ")
		} else {
			st = "{\n"
			for _, x := range src["items"].([]any) {
				c := asJ(x)
				st += "    " + printPortion(asJ(c["p"])) + " from " + printSource(asJ(c["s"]), "    ") + "\n"
			}
			st += "  }"
		}
		dt := printDest(asJ(s["dst"]), "  ")
		if b, _ := s["destFirst"].(bool); b {
			return "send " + at + " (\n  destination = " + dt + "\n  source = " + st + "\n)"
		}
		return "send " + at + " (\n  source = " + st + "\n  destination = " + dt + "\n)"
	}
	panic("bad stmt")
}

func printScript(ast J) string {
	t := ""
	if vs, _ := ast["vars"].([]any); len(vs) > 0 {
		t += "vars {\n"
		for _, x := range vs {
			d := asJ(x)
			t += "  " + d["ty"].(string) + " $" + d["name"].(string)
			if o := asJ(d["origin"]); o != nil {
				if o["k"] == "meta" {
					t += " = meta(" + printExpr(asJ(o["acc"])) + `, "` + o["key"].(string) + `")`
				} else {
					t += " = balance(" + printExpr(asJ(o["acc"])) + ", " + printExpr(asJ(o["asset"])) + ")"
				}
			}
			t += "\n"
		}
		t += "}\n"
	}
	var lines []string
	for _, x := range ast["stmts"].([]any) {
		lines = append(lines, printStmt(asJ(x)))
	}
	return t + strings.Join(lines, "\n") + "\n"
}

// ------------------------------------------------------------------ exec

func nsClassify(err error) string {
	switch {
	case errors.Is(err, &machine.ErrInsufficientFund{}):
		return "insufficient_funds"
	case errors.Is(err, &machine.ErrInvalidScript{}):
		return "invalid_script"
	case errors.Is(err, &machine.ErrNegativeAmount{}):
		return "negative_amount"
	case errors.Is(err, &machine.ErrMissingMetadata{}):
		return "missing_metadata"
	case errors.Is(err, &machine.ErrInvalidVars{}):
		return "invalid_vars"
	case errors.Is(err, &machine.ErrMetadataOverride{}):
		return "metadata_override"
	case errors.Is(err, machine.ErrScriptFailed):
		return "script_failed"
	}
	return "runtime_other"
}

func storeFromInput(in J) vm.StaticStore {
	store := vm.StaticStore{}
	get := func(a string) *vm.AccountWithBalances {
		if _, ok := store[a]; !ok {
			store[a] = &vm.AccountWithBalances{Account: ledger.Account{Address: a, Metadata: metadata.Metadata{}}, Balances: map[string]*big.Int{}}
		}
		return store[a]
	}
	if bl, ok := in["bal"].([]any); ok {
		for _, x := range bl {
			t := x.([]any)
			b, _ := new(big.Int).SetString(t[2].(string), 10)
			get(t[0].(string)).Balances[t[1].(string)] = b
		}
	}
	if am, ok := in["ameta"].([]any); ok {
		for _, x := range am {
			t := x.([]any)
			get(t[0].(string)).Metadata[t[1].(string)] = t[2].(string)
		}
	}
	return store
}

func uniqSortedNoWorld(xs []string) []string {
	m := map[string]bool{}
	for _, x := range xs {
		if x != "world" {
			m[x] = true
		}
	}
	out := make([]string, 0, len(m))
	for x := range m {
		out = append(out, x)
	}
	sort.Strings(out)
	return out
}

// execNumscript compiles once and runs the SAME compiled program twice (C12: an execution leaves nothing behind
// that changes a later one; C08: a cached program behaves like a fresh one), then — when the case has a second variable
// map — a third time on that map, against a fresh compilation of the text.
func execNumscript(in J) J {
	text, _ := in["text"].(string)
	prog, err := compiler.Compile(text)
	if err != nil {
		_ = err.Error()
		return J{"err": "compile_error", "stage": "compile"}
	}
	first := safeExec(func(J) J { return runCompiled(prog, text, in) }, in)
	second := safeExec(func(J) J { return runCompiled(prog, text, in) }, in)
	b1, _ := json.Marshal(first)
	b2, _ := json.Marshal(second)
	if string(b1) != string(b2) {
		first["unstable"] = second
	}
	// C08 / C12: a compiled program must not remember a run.  The SAME compiled program, which has now run twice, runs on the
	// second variable map (stored metadata) of the case; a FRESH compilation of the same text on the same map says what that must
	// give.  Then the used program goes back to the first map: it must repeat its first outcome.
	_, hasV := in["vars2"]
	_, hasM := in["ameta2"]
	if hasV || hasM {
		in2 := J{}
		for k, v := range in {
			in2[k] = v
		}
		if hasV {
			in2["vars"] = in["vars2"]
		}
		if hasM {
			in2["ameta"] = in["ameta2"]
		}
		third := safeExec(func(J) J { return runCompiled(prog, text, in2) }, in2)
		fresh := safeExec(func(J) J {
			p2, err := compiler.Compile(text)
			if err != nil {
				return J{"err": "compile_error", "stage": "compile"}
			}
			return runCompiled(p2, text, in2)
		}, in2)
		fourth := safeExec(func(J) J { return runCompiled(prog, text, in) }, in)
		b3, _ := json.Marshal(third)
		bf, _ := json.Marshal(fresh)
		b4, _ := json.Marshal(fourth)
		_, ok := fresh["postings"]
		first["rebind"] = J{"ok": ok, "varies": string(bf) != string(b1)}
		if string(b3) != string(bf) {
			first["remembers"] = J{"run": 3, "on": "second variable map", "cached": third, "fresh": fresh}
		} else if string(b4) != string(b1) {
			var f1 any
			json.Unmarshal(b1, &f1)
			first["remembers"] = J{"run": 4, "on": "first variable map again", "cached": fourth, "fresh": f1}
		}
	}
	return first
}

func runCompiled(prog *program.Program, text string, in J) J {
	store := storeFromInput(in)
	m := vm.NewMachine(*prog)
	m.Printer = func(ch chan machine.Value) {
		for range ch {
		}
	}
	vars := map[string]string{}
	if v, ok := in["vars"].(map[string]any); ok {
		for k, x := range v {
			vars[k], _ = x.(string)
		}
	}
	if err := m.SetVarsFromJSON(vars); err != nil {
		return J{"err": "invalid_vars", "stage": "vars"}
	}
	involved, sources, err := m.ResolveResources(context.Background(), store)
	if err != nil {
		c := nsClassify(err)
		if c == "runtime_other" {
			c = "resolve_error"
		}
		return J{"err": c, "stage": "resolve"}
	}
	if err := m.ResolveBalances(context.Background(), store); err != nil {
		return J{"err": nsClassify(err), "stage": "balances"}
	}
	md := metadata.Metadata{}
	if v, ok := in["meta"].(map[string]any); ok {
		for k, x := range v {
			md[k], _ = x.(string)
		}
	}
	res, err := vm.Run(m, ledger.RunScript{Script: ledger.Script{Plain: text, Vars: vars}, Metadata: md})
	if err != nil {
		return J{"err": nsClassify(err), "stage": "run"}
	}
	ps := []any{}
	for _, p := range res.Postings {
		ps = append(ps, []any{p.Source, p.Destination, p.Amount.String(), p.Asset})
	}
	bal := [][]string{}
	for a, m2 := range m.Balances {
		for s, v := range m2 {
			bal = append(bal, []string{string(a), string(s), v.String()})
		}
	}
	sort.Slice(bal, func(i, j int) bool {
		if bal[i][0] != bal[j][0] {
			return bal[i][0] < bal[j][0]
		}
		return bal[i][1] < bal[j][1]
	})
	am := J{}
	for a, kv := range res.AccountMetadata {
		am[a] = kv
	}
	return J{"postings": ps, "txmeta": res.Metadata, "ameta": am,
		"lockR": uniqSortedNoWorld(involved), "lockW": uniqSortedNoWorld(sources), "bal": bal}
}
