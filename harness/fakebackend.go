package main

// A recording fake of backend.Backend / backend.Ledger, shared by the bulk (C18) and router (C19) areas.
// Write calls are recorded; their outcome is scripted by the caller through `decide`.

import (
	"context"
	"math/big"
	"sync"

	ledger "github.com/formancehq/ledger/internal"
	"github.com/formancehq/ledger/internal/api/backend"
	"github.com/formancehq/ledger/internal/engine"
	"github.com/formancehq/ledger/internal/engine/command"
	"github.com/formancehq/ledger/internal/storage/driver"
	"github.com/formancehq/ledger/internal/storage/ledgerstore"
	"github.com/formancehq/ledger/internal/storage/sqlutils"
	"github.com/formancehq/ledger/internal/storage/systemstore"
	sharedapi "github.com/formancehq/stack/libs/go-libs/api"
	"github.com/formancehq/stack/libs/go-libs/metadata"
	"github.com/formancehq/stack/libs/go-libs/migrations"
)

type writeCall struct {
	Kind   string // create | revert | savemeta | deletemeta | createledger
	Params command.Parameters
	Script ledger.RunScript
	ID     *big.Int
	Force  bool
	Target string
	TID    any
	Meta   metadata.Metadata
	Key    string
}

type fakeLedger struct {
	mu     sync.Mutex
	writes []writeCall
	reads  []string
	decide func(c writeCall) error // nil = success
}

func (f *fakeLedger) rec(c writeCall) error {
	f.mu.Lock()
	defer f.mu.Unlock()
	f.writes = append(f.writes, c)
	if f.decide != nil {
		return f.decide(c)
	}
	return nil
}
func (f *fakeLedger) read(n string) { f.mu.Lock(); f.reads = append(f.reads, n); f.mu.Unlock() }

func (f *fakeLedger) GetAccountWithVolumes(ctx context.Context, q ledgerstore.GetAccountQuery) (*ledger.ExpandedAccount, error) {
	f.read("GetAccountWithVolumes")
	return &ledger.ExpandedAccount{}, nil
}
func (f *fakeLedger) GetAccountsWithVolumes(ctx context.Context, q ledgerstore.GetAccountsQuery) (*sharedapi.Cursor[ledger.ExpandedAccount], error) {
	f.read("GetAccountsWithVolumes")
	return &sharedapi.Cursor[ledger.ExpandedAccount]{}, nil
}
func (f *fakeLedger) CountAccounts(ctx context.Context, q ledgerstore.GetAccountsQuery) (int, error) {
	f.read("CountAccounts")
	return 0, nil
}
func (f *fakeLedger) GetAggregatedBalances(ctx context.Context, q ledgerstore.GetAggregatedBalanceQuery) (ledger.BalancesByAssets, error) {
	f.read("GetAggregatedBalances")
	return ledger.BalancesByAssets{}, nil
}
func (f *fakeLedger) GetMigrationsInfo(ctx context.Context) ([]migrations.Info, error) {
	f.read("GetMigrationsInfo")
	return nil, nil
}
func (f *fakeLedger) Stats(ctx context.Context) (engine.Stats, error) {
	f.read("Stats")
	return engine.Stats{}, nil
}
func (f *fakeLedger) GetLogs(ctx context.Context, q ledgerstore.GetLogsQuery) (*sharedapi.Cursor[ledger.ChainedLog], error) {
	f.read("GetLogs")
	return &sharedapi.Cursor[ledger.ChainedLog]{}, nil
}
func (f *fakeLedger) CountTransactions(ctx context.Context, q ledgerstore.GetTransactionsQuery) (int, error) {
	f.read("CountTransactions")
	return 0, nil
}
func (f *fakeLedger) GetTransactions(ctx context.Context, q ledgerstore.GetTransactionsQuery) (*sharedapi.Cursor[ledger.ExpandedTransaction], error) {
	f.read("GetTransactions")
	return &sharedapi.Cursor[ledger.ExpandedTransaction]{}, nil
}
func (f *fakeLedger) GetTransactionWithVolumes(ctx context.Context, q ledgerstore.GetTransactionQuery) (*ledger.ExpandedTransaction, error) {
	f.read("GetTransactionWithVolumes")
	return &ledger.ExpandedTransaction{}, nil
}
func (f *fakeLedger) CreateTransaction(ctx context.Context, p command.Parameters, data ledger.RunScript) (*ledger.Transaction, error) {
	if err := f.rec(writeCall{Kind: "create", Params: p, Script: data}); err != nil {
		return nil, err
	}
	return ledger.NewTransaction().WithID(big.NewInt(0)), nil
}
func (f *fakeLedger) RevertTransaction(ctx context.Context, p command.Parameters, id *big.Int, force bool) (*ledger.Transaction, error) {
	if err := f.rec(writeCall{Kind: "revert", Params: p, ID: id, Force: force}); err != nil {
		return nil, err
	}
	return ledger.NewTransaction().WithID(big.NewInt(1)), nil
}
func (f *fakeLedger) SaveMeta(ctx context.Context, p command.Parameters, targetType string, targetID any, m metadata.Metadata) error {
	return f.rec(writeCall{Kind: "savemeta", Params: p, Target: targetType, TID: targetID, Meta: m})
}
func (f *fakeLedger) DeleteMetadata(ctx context.Context, p command.Parameters, targetType string, targetID any, key string) error {
	return f.rec(writeCall{Kind: "deletemeta", Params: p, Target: targetType, TID: targetID, Key: key})
}
func (f *fakeLedger) IsDatabaseUpToDate(ctx context.Context) (bool, error) { return true, nil }

var _ backend.Ledger = (*fakeLedger)(nil)

type fakeBackend struct {
	l              *fakeLedger
	ledgerCreates  []string
	ledgerNotFound bool
}

func (b *fakeBackend) GetLedgerEngine(ctx context.Context, name string) (backend.Ledger, error) {
	return b.l, nil
}
func (b *fakeBackend) GetLedger(ctx context.Context, name string) (*systemstore.Ledger, error) {
	if b.ledgerNotFound {
		return nil, sqlutils.ErrNotFound
	}
	return &systemstore.Ledger{Name: name}, nil
}
func (b *fakeBackend) ListLedgers(ctx context.Context, q systemstore.ListLedgersQuery) (*sharedapi.Cursor[systemstore.Ledger], error) {
	return &sharedapi.Cursor[systemstore.Ledger]{}, nil
}
func (b *fakeBackend) CreateLedger(ctx context.Context, name string, c driver.LedgerConfiguration) error {
	b.ledgerCreates = append(b.ledgerCreates, name)
	return nil
}
func (b *fakeBackend) GetVersion() string { return "verif" }

var _ backend.Backend = (*fakeBackend)(nil)
