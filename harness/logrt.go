package main

// Area "logrt" (C13): log entries through their stored JSON form and back, on the REAL code.
//
// input kinds
//   {"kind":"chain","logs":[L…]}        L = {"type":T,"date":rfc3339,"ik":s, …payload…}
//        NEW_TRANSACTION      "tx":TX, "am":{account:{k:v}|null}|null
//        REVERTED_TRANSACTION "rid":"n", "tx":TX
//        SET_METADATA         "tt":"ACCOUNT","acc":s | "tt":"TRANSACTION","txid":"n" ; "md":{k:v}|null
//        DELETE_METADATA      same target ; "key":s
//        TX = {"postings":[{"s","d","amt":"n","asset"}]|null,"md":{k:v}|null,"ts":rfc3339,"ref":s,"id":"n","reverted":b}
//      timestamps (transaction timestamps AND log dates) are given as the API receives them (text) and go through
//      ledger.ParseTime, which converts them to UTC.
//      The logs are built with the repo's own constructors, chained with Log.ChainLog, each entry is marshalled
//      (json.Marshal), unmarshalled (ChainedLog.UnmarshalJSON), re-chained to the decoded predecessor, and written by the
//      REAL ledgerstore.Store.InsertLogs into the table of logstore.go ("batches":[sizes] = how many entries per InsertLogs
//      call, default one), from which every row is read back (Logs.ToCore) and looked up (GetLastLog, ReadLogWithIdempotencyKey).
//   {"kind":"raw","json":text}           json.Unmarshal of arbitrary text into a ChainedLog
//   {"kind":"time","s":text}             ledger.ParseTime, Format, UTC, the instant (Unix seconds, nanoseconds)
//   {"kind":"sha","hex":bytes}           crypto/sha256
//   {"kind":"v1","rows":[{"id","type","hash","date","data"}]}  excluded point: legacy rows through LogV1.ToLogsV2 + ToCore
//   {"kind":"ikbytes","hex":bytes}       excluded point: an idempotency key that is not valid UTF-8 (HTTP header bytes)
//   {"kind":"keybytes","hex":bytes,"pos":"key"|"address"}  observed point: a metadata key (or the account address) given as raw bytes in the path of
//        DELETE /{ledger}/accounts/{address}/metadata/{key}: the request line
//        goes through http.ReadRequest and the REAL v2 router (recording backend), then the key that reached the backend through a
//        DELETE_METADATA log, the real InsertLogs and the row read back
//
// output: see execLogrt; everything that came out of a map is sorted, big integers are decimal strings,
// times are [year,month,day,hour,min,sec,nanos,offsetSeconds] read in their own zone.

import (
	"bufio"
	"bytes"
	"crypto/sha256"
	"encoding/hex"
	"encoding/json"
	"fmt"
	"math/big"
	"net/http"
	"net/http/httptest"
	"sort"
	"strconv"
	"strings"
	"time"
	"unicode/utf8"

	ledger "github.com/formancehq/ledger/internal"
	v2 "github.com/formancehq/ledger/internal/api/v2"
	"github.com/formancehq/ledger/internal/opentelemetry/metrics"
	"github.com/formancehq/stack/libs/go-libs/auth"
	"github.com/formancehq/stack/libs/go-libs/health"
	"github.com/formancehq/ledger/internal/storage/ledgerstore"
	"github.com/formancehq/stack/libs/go-libs/metadata"
)

func init() {
	register("logrt", &area{gen: genLogrt, exec: execLogrt})
}

// ---------------------------------------------------------------- generator

var lrStrings = []string{
	"world", "bank", "users:001", "orders:1234:pending", "a", "k", "v", "", "USD", "USD/2", "EUR/2", "COIN",
	"é", "naïve café", "日本語", "😀", "ключ", "<script>alert(1)</script>", "a&b", "x<y>z", "\"quoted\"", "back\\slash",
	"tab\there", "line\nbreak", "cr\rhere", "bell\x07", "bs\bff\f", "nul\x00byte", "esc\x1b", "del\x7f", "ls\u2028ps\u2029",
	"mixed <é&😀>\n", "/slash/", "sp ace", "0", "-1", "null", "{}", "1e21",
}

var lrPlain = []string{"world", "bank", "users:001", "orders:1234:pending", "a", "k", "v", "USD", "USD/2", "EUR/2", "COIN", "ref-1", "key"}

func lrStr(r *rng) string {
	if r.p(55) {
		return r.pick(lrPlain)
	}
	return r.pick(lrStrings)
}

func lrMeta(r *rng) any {
	switch x := r.n(100); {
	case x < 10:
		return nil
	case x < 25:
		return J{}
	}
	m := J{}
	for i, n := 0, 1+r.n(4); i < n; i++ {
		m[lrStr(r)] = lrStr(r)
	}
	return m
}

var lrBig = []string{
	"0", "1", "2", "100", "4611686018427387904", "9007199254740993", "9223372036854775807", "9223372036854775808",
	"18446744073709551615", "18446744073709551616", "1180591620717411303424", "1180591620717411303425",
	"1000000000000000000000000000000", "340282366920938463463374607431768211456",
}

func lrAmount(r *rng) string {
	switch x := r.n(100); {
	case x < 40:
		return strconv.Itoa(r.n(100000))
	case x < 43:
		return "-" + strconv.Itoa(1+r.n(1000))
	}
	return r.pick(lrBig)
}

func lrSmallID(r *rng) string {
	if r.p(85) {
		return strconv.Itoa(r.n(1000))
	}
	return r.pick(lrBig)
}

// a timestamp as a client may send it: any zone, any number of fraction digits
func lrTimestamp(r *rng, extremes bool) string {
	year := 1970 + r.n(131)
	switch r.n(40) {
	case 0:
		year = 0
	case 1:
		year = 9999
	case 2:
		year = 1 + r.n(9998)
	}
	month := 1 + r.n(12)
	dim := []int{31, 28, 31, 30, 31, 30, 31, 31, 30, 31, 30, 31}[month-1]
	if month == 2 && year%4 == 0 && (year%100 != 0 || year%400 == 0) {
		dim = 29
	}
	day := 1 + r.n(dim)
	if r.p(15) {
		day = dim
	}
	h, mi, s := r.n(24), r.n(60), r.n(60)
	if r.p(12) {
		h, mi, s = 23, 59, 59
	}
	if r.p(5) {
		month, day = 12, 31
	}
	frac := ""
	switch x := r.n(100); {
	case x < 25:
	case x < 45: // microseconds or coarser
		frac = "." + fmt.Sprintf("%06d", r.n(1000000))[:1+r.n(6)]
	case x < 80: // sub-microsecond digits
		frac = "." + fmt.Sprintf("%09d", r.n(1000000000))[:7+r.n(3)]
	case x < 90: // rounding carries
		frac = r.pick([]string{".9999995", ".999999500", ".9999994", ".999999999", ".0000005", ".0000004999", ".1234565", ".5"})
	default: // more digits than nanoseconds
		frac = "." + fmt.Sprintf("%09d", r.n(1000000000)) + fmt.Sprintf("%03d", r.n(1000))
	}
	if frac != "" && r.p(3) {
		frac = "," + frac[1:]
	}
	zone := "Z"
	switch x := r.n(100); {
	case x < 45:
	case x < 90:
		zone = r.pick([]string{"+02:00", "-07:00", "+05:30", "-03:30", "+14:00", "-12:00", "+00:00", "-00:00", "+01:00", "+09:00", "+23:59", "-23:59", "+00:01", "-00:01", "+12:45"})
	case x < 97:
		zone = fmt.Sprintf("%s%02d:%02d", r.pick([]string{"+", "-"}), r.n(24), r.n(60))
	default:
		zone = r.pick([]string{"+24:00", "-24:00", "+24:59", "+23:60"})
		if extremes {
			zone = r.pick([]string{"+24:60", "-24:60", "+24:00"})
		}
	}
	if r.p(8) {
		return lrBorderTimestamp(r, frac)
	}
	return fmt.Sprintf("%04d-%02d-%02dT%02d:%02d:%02d%s%s", year, month, day, h, mi, s, frac, zone)
}

// a timestamp at a border that the conversion to UTC (and the rounding carry) can cross: the first / last day of the
// years 0000, 0001, 9999, the turn of a year, the end of February in leap / common / century years, written with an
// offset up to the extremes time.Parse accepts (+-24:60) and a time of day within the offset's reach of midnight
func lrBorderTimestamp(r *rng, frac string) string {
	type ymd struct{ y, m, d int }
	day := []ymd{{0, 1, 1}, {0, 1, 2}, {0, 12, 31}, {1, 1, 1}, {9999, 12, 31}, {9999, 12, 30}, {9999, 1, 1}, {2023, 12, 31}, {2024, 1, 1},
		{2024, 2, 29}, {2024, 3, 1}, {2023, 2, 28}, {2023, 3, 1}, {2100, 2, 28}, {2100, 3, 1}, {2000, 2, 29}, {2000, 3, 1}, {1900, 3, 1},
		{1970, 1, 1}, {1969, 12, 31}, {400, 3, 1}, {4, 2, 29}}[r.n(22)]
	sign := r.pick([]string{"+", "-"})
	oh, om := r.n(25), r.n(61)
	switch r.n(6) {
	case 0:
		oh, om = 24, 60
	case 1:
		oh, om = 0, 1
	case 2:
		oh, om = 14, 0
	}
	// the time of day whose UTC reading falls just before / at / just after midnight
	off := oh*3600 + om*60
	tod := r.n(86400)
	switch r.n(5) {
	case 0: // UTC reading = 00:00:00 of this or a neighbouring day
		tod = off % 86400
	case 1:
		tod = (off + 86399) % 86400
	case 2:
		tod = (86400 - off%86400) % 86400
	case 3:
		tod = (2*86400 - off%86400 - 1) % 86400
	}
	if frac == "" && r.p(50) {
		frac = r.pick([]string{".9999995", ".9999994", ".999999999", ".0000005"})
	}
	return fmt.Sprintf("%04d-%02d-%02dT%02d:%02d:%02d%s%s%02d:%02d", day.y, day.m, day.d, tod/3600, tod/60%60, tod%60, frac, sign, oh, om)
}

// a log date: what Now() produces (UTC, on a microsecond)
func lrNow(r *rng) string {
	t := time.Unix(int64(r.n(2000000000)), int64(r.n(1000000))*1000).UTC()
	return t.Format(time.RFC3339Nano)
}

func lrTx(r *rng, extremes bool) J {
	var postings any
	switch x := r.n(100); {
	case x < 4:
		postings = nil
	case x < 8:
		postings = []any{}
	default:
		ps := []any{}
		for i, n := 0, 1+r.n(4); i < n; i++ {
			ps = append(ps, J{"s": lrStr(r), "d": lrStr(r), "amt": lrAmount(r), "asset": lrStr(r)})
		}
		postings = ps
	}
	ref := ""
	if r.p(50) {
		ref = lrStr(r)
	}
	return J{"postings": postings, "md": lrMeta(r), "ts": lrTimestamp(r, extremes), "ref": ref, "id": lrSmallID(r), "reverted": r.p(10)}
}

// an idempotency key as a client may send it (the Idempotency-Key header / the "ik" of a bulk element are not limited in length):
// lengths around the width of the column (255 characters; bytes and characters differ for multi-byte alphabets), a UUID, one
// character, keys made of several UUIDs or a URL; alphabets: ASCII, multi-byte letters (2, 3 and 4 bytes), and what a careless
// quoting would trip over (quotes, backslashes, control characters other than NUL, SQL comment / COPY escape shapes)
var lrKeyLens = []int{1, 2, 36, 100, 254, 255, 255, 256, 256, 257, 300, 300, 512, 1000}
var lrKeyAlphabets = [][]string{
	{"k", "e", "y", "0", "1", "-", "_", ":"},
	{"0", "1", "2", "3", "4", "5", "6", "7", "8", "9", "a", "b", "c", "d", "e", "f", "-"},
	{"é", "ü", "ж", "λ"},
	{"日", "本", "語", "€"},
	{"😀", "🚀", "𝄞"},
	{"a", "é", "日", "😀", " "},
	{"'", "\"", "\\", "a", "`", ";", "-", "-", "/", "*", "%", "_", "$", "?"},
	{"\t", "\n", "\r", "\x01", "\x1b", "\x7f", "\\", ".", "N", "\u2028", "a"},
	{"h", "t", "p", "s", ":", "/", ".", "?", "=", "&", "%", "2", "F", "x"},
}

func lrKey(r *rng) string {
	n := lrKeyLens[r.n(len(lrKeyLens))]
	if r.p(10) {
		n = 1 + r.n(400)
	}
	al := lrKeyAlphabets[r.n(len(lrKeyAlphabets))]
	var b strings.Builder
	for i := 0; i < n; i++ {
		b.WriteString(al[r.n(len(al))])
	}
	return b.String()
}

func lrLog(r *rng) J {
	l := J{"ik": "", "date": lrNow(r)}
	if r.p(45) {
		l["ik"] = lrStr(r)
		if r.p(30) {
			l["ik"] = lrKey(r)
		}
	}
	if r.p(3) { // a log date written with an offset (never produced: Now() is UTC): ParseTime hands it over in UTC like any other
		l["date"] = lrTimestamp(r, false)
	}
	extremes := r.p(2)
	switch r.n(6) {
	case 0, 1:
		l["type"] = "NEW_TRANSACTION"
		l["tx"] = lrTx(r, extremes)
		switch x := r.n(100); {
		case x < 30:
			l["am"] = nil
		case x < 45:
			l["am"] = J{}
		default:
			am := J{}
			for i, n := 0, 1+r.n(3); i < n; i++ {
				am[lrStr(r)] = lrMeta(r)
			}
			l["am"] = am
		}
	case 2:
		l["type"] = "REVERTED_TRANSACTION"
		l["rid"] = lrSmallID(r)
		l["tx"] = lrTx(r, extremes)
	case 3, 4:
		l["type"] = "SET_METADATA"
		l["md"] = lrMeta(r)
		lrTarget(r, l)
	default:
		l["type"] = "DELETE_METADATA"
		l["key"] = lrStr(r)
		lrTarget(r, l)
	}
	return l
}

func lrTarget(r *rng, l J) {
	if r.p(50) {
		l["tt"] = "ACCOUNT"
		l["acc"] = lrStr(r)
		return
	}
	l["tt"] = "TRANSACTION"
	switch x := r.n(100); {
	case x < 70:
		l["txid"] = strconv.Itoa(r.n(100000))
	case x < 97:
		l["txid"] = r.pick([]string{"0", "9007199254740992", "9007199254740993", "4611686018427387904", "9223372036854775808", "18446744073709551615", "1234567890123456789"})
	default: // excluded point: transaction ids are allocated from 0 upwards, none reaches 2^64
		l["txid"] = r.pick([]string{"18446744073709551616", "1180591620717411303424", "-1"})
		l["excluded"] = "txid-outside-uint64"
	}
}

var lrRaw = []string{
	`{"type":"SET_METADATA","data":{"targetType":"account","targetId":"a","metadata":{"k":"v"}},"date":"2023-01-02T03:04:05Z","idempotencyKey":"","id":1,"hash":"AQID"}`,
	`{"type":"SET_METADATA","data":{"targetType":"transaction","targetId":7,"metadata":null},"date":"2023-01-02T03:04:05.1234567+02:00","idempotencyKey":"x","id":1,"hash":null}`,
	`{"type":"SET_METADATA","data":{"targetType":"TRANSACTION","targetId":18446744073709551616,"metadata":{}},"date":"2023-01-02T03:04:05Z","idempotencyKey":"","id":1,"hash":""}`,
	`{"type":"SET_METADATA","data":{"targetType":"TRANSACTION","targetId":"7","metadata":{}},"date":"2023-01-02T03:04:05Z","idempotencyKey":"","id":1,"hash":""}`,
	`{"type":"SET_METADATA","data":{"targetType":"LEDGER","targetId":"7","metadata":{}},"date":"2023-01-02T03:04:05Z","idempotencyKey":"","id":1,"hash":""}`,
	`{"type":"DELETE_METADATA","data":{"targetType":"TRANSACTION","targetId":-1,"key":"k"},"date":"2023-01-02T03:04:05Z","idempotencyKey":"","id":1,"hash":""}`,
	`{"type":"DELETE_METADATA","data":{"targetType":"Account","targetId":"a:b","key":"k"},"date":"2023-01-02T03:04:05Z","idempotencyKey":"","id":2,"hash":"AQ=="}`,
	`{"type":"DELETE_METADATA","data":{"targetType":"nothing","targetId":"a:b","key":"k"},"date":"2023-01-02T03:04:05Z","idempotencyKey":"","id":2,"hash":"AQ=="}`,
	`{"type":"UNKNOWN","data":{},"date":"2023-01-02T03:04:05Z","idempotencyKey":"","id":1,"hash":""}`,
	`{"data":{"targetType":"ACCOUNT","targetId":"z","metadata":{"b":"1","a":"2","b":"3"}},"date":"2023-01-02T03:04:05Z","id":1}`,
	`{"type":"NEW_TRANSACTION","data":{"transaction":{"postings":[{"source":"a","destination":"b","amount":1180591620717411303424,"asset":"USD"}],"metadata":{"z":"1","a":null},"timestamp":"2023-01-02T03:04:05.9999995-07:00","id":5,"reverted":true},"accountMetadata":{"b":{"y":"1","x":"2"},"a":null}},"date":"2023-12-31T23:59:59.9999996Z","idempotencyKey":"k","id":1180591620717411303424,"hash":"3q2+7w=="}`,
	`{"type":"NEW_TRANSACTION","data":{"transaction":{"postings":null,"metadata":null,"timestamp":"2023-01-02T03:04:05Z","reference":"","id":0,"reverted":false},"accountMetadata":null},"date":"2023-01-02T03:04:05Z","idempotencyKey":"","id":0,"hash":"AQI="}`,
	`{"type":"NEW_TRANSACTION","data":{"transaction":{"postings":[],"metadata":{},"timestamp":"10000-01-01T00:00:00Z","id":0},"accountMetadata":{}},"date":"2023-01-02T03:04:05Z","idempotencyKey":"","id":0,"hash":"AQI="}`,
	`{"type":"NEW_TRANSACTION","data":{"transaction":{"postings":[],"metadata":{},"timestamp":"2023-01-01T00:00:00+25:00","id":0},"accountMetadata":{}},"date":"2023-01-02T03:04:05Z","idempotencyKey":"","id":0,"hash":"AQI="}`,
	`{"type":"NEW_TRANSACTION","data":{"transaction":{"postings":[{"source":"a","destination":"b","amount":"12","asset":"USD"}],"metadata":{},"timestamp":"2023-01-02T03:04:05Z","id":0},"accountMetadata":{}},"date":"2023-01-02T03:04:05Z","idempotencyKey":"","id":0,"hash":"AQI="}`,
	`{"type":"NEW_TRANSACTION","data":{"transaction":{"postings":[],"metadata":{"k":5},"timestamp":"2023-01-02T03:04:05Z","id":0},"accountMetadata":{}},"date":"2023-01-02T03:04:05Z","idempotencyKey":"","id":0,"hash":"AQI="}`,
	`{"type":"REVERTED_TRANSACTION","data":{"revertedTransactionID":3,"transaction":{"postings":[{"source":"b","destination":"a","amount":-4,"asset":"é"}],"metadata":{},"timestamp":"0000-02-29T00:00:00,5+23:59","reference":"r<>","id":4,"reverted":false}},"date":"2023-01-02T03:04:05.000001Z","idempotencyKey":"","id":9,"hash":"////"}`,
	`{"type":"REVERTED_TRANSACTION","data":{"revertedTransactionID":3,"transaction":{"postings":[],"metadata":{},"timestamp":"2023-02-29T00:00:00Z","id":4}},"date":"2023-01-02T03:04:05Z","idempotencyKey":"","id":9,"hash":""}`,
	`{"type":"REVERTED_TRANSACTION","data":{"revertedTransactionID":3,"transaction":{"postings":[],"metadata":{},"timestamp":"2023-01-02T03:04:05Z","id":4}},"date":"2023-01-02T03:04:05Z","idempotencyKey":"","id":9,"hash":"not base64!"}`,
	`{"type":"REVERTED_TRANSACTION","data":{"revertedTransactionID":3,"transaction":{"postings":[],"metadata":{},"timestamp":"2023-01-02T03:04:05Z","id":4}},"date":20230102,"idempotencyKey":"","id":9,"hash":""}`,
	`{"type":"SET_METADATA","date":"2023-01-02T03:04:05Z","idempotencyKey":"","id":1,"hash":""}`,
	`[1,2]`,
}

var lrTimes = []string{
	"2023-01-02T03:04:05Z", "2023-01-02T03:04:05.9999995Z", "9999-12-31T23:59:59.9999995Z", "9999-12-31T23:59:59.9999994Z",
	"9999-12-31T23:59:59.9999995-01:00", "2023-12-31T23:59:59.9999995+02:00", "2024-02-28T23:59:59.9999999Z", "2023-02-28T23:59:59.9999999Z",
	"2100-02-28T23:59:59.9999999Z", "2000-02-28T23:59:59.9999999Z", "0000-01-01T00:00:00+01:00", "0000-12-31T23:59:59.9999996+14:00",
	"2023-01-01T00:00:00+24:60", "2023-01-01T00:00:00-24:60", "2023-01-01T00:00:00+24:00", "2023-01-01T00:00:00+23:60", "2023-01-01T00:00:00+24:59",
	"2023-01-01T00:00:00+25:00", "2023-01-01T00:00:00+24:61", "2023-01-01T00:00:00,123456789Z", "2023-01-01T00:00:00.Z", "2023-01-01T00:00:00.1234567890123Z",
	"2023-01-01T24:00:00Z", "2023-01-01T23:60:00Z", "2023-01-01T23:59:60Z", "2023-02-30T00:00:00Z", "2023-13-01T00:00:00Z", "2023-00-10T00:00:00Z", "2023-01-00T00:00:00Z",
	"2023-01-01t00:00:00Z", "2023-01-01T00:00:00z", "2023-01-01 00:00:00Z", "2023-01-01T00:00:00", "2023-01-01T00:00:00+0200", "2023-01-01T00:00:00+02", "2023-01-01T00:00:00Z ",
	"10000-01-01T00:00:00Z", "202-01-01T00:00:00Z", "2023-1-01T00:00:00Z", "", "Z", "2023-01-01", "2023-01-01T00:00:00+02:00Z", "2023-01-01T00:00:00*02:00", "２０２３-01-01T00:00:00Z",
	"2023-01-01T00:00:00.5+00:00", "2023-01-01T00:00:00.5-00:00", "1969-12-31T23:59:59.9999999Z", "0001-01-01T00:00:00Z", "2023-06-30T23:59:59.9999997+05:45",
	// the conversion to UTC at the borders of the printable years
	"0000-01-01T00:00:00Z", "0000-01-01T00:59:59+01:00", "0000-01-01T01:00:00+01:00", "0000-01-01T00:00:00+00:01", "0000-01-01T00:00:00-00:01",
	"0000-01-02T00:59:59.9999995+24:60", "0000-01-02T01:00:00+24:60", "0000-01-02T00:59:59.9999994+24:60", "0000-01-01T23:59:59+24:00", "0000-01-01T00:00:00-24:60",
	"9999-12-31T23:00:00-01:00", "9999-12-31T22:59:59.9999994-01:00", "9999-12-31T22:59:59.9999995-01:00", "9999-12-31T23:59:59-00:01", "9999-12-31T23:59:59+00:01",
	"9999-12-30T22:59:59.9999994-24:60", "9999-12-30T23:00:00-24:60", "9999-12-31T23:59:59.9999995+24:60", "9999-12-31T00:00:00+24:60",
	"0001-01-01T00:00:00+24:60", "0001-01-01T00:00:00-24:60", "0000-12-31T23:59:59.9999995-00:00", "0000-03-01T00:00:00+00:01", "0004-02-29T23:59:59.9999999-00:01",
	"2024-03-01T00:30:00+01:00", "2023-03-01T00:30:00+01:00", "2100-03-01T00:30:00+01:00", "2000-03-01T00:30:00+01:00", "2024-02-29T23:30:00-01:00", "2023-02-28T23:30:00-01:00",
	"2023-12-31T23:59:59.9999995-00:01", "2024-01-01T00:00:00+00:01", "2024-01-01T00:59:59.9999995+01:00", "1970-01-01T00:00:00+00:01", "1969-12-31T23:59:59.9999995-00:00",
	"2023-06-15T12:00:00+24:59", "2023-06-15T12:00:00-23:60", "2023-10-29T02:30:00+02:00",
}

func genLogrt(r *rng, n int, tier string, emit func(J)) {
	for _, s := range lrRaw {
		emit(J{"kind": "raw", "json": s})
	}
	for _, s := range lrTimes {
		emit(J{"kind": "time", "s": s})
	}
	emit(J{"kind": "v1", "rows": []any{
		J{"id": "0", "type": "NEW_TRANSACTION", "hash": "79fc36b46f2668ee1f682a109765af8e849d11715d078bd361e7b4eb61fadc70", "date": "2023-12-13T18:21:05Z",
			"data": `{"txid": 0, "metadata": {}, "postings": [{"asset": "USD/2", "amount": 10000, "source": "world", "destination": "bank"}], "reference": "", "timestamp": "2023-12-13T18:21:05Z"}`},
		J{"id": "3", "type": "SET_METADATA", "hash": "839800b3bf685903b37240e8a59e1872d29c2ed9715a79c56b86edb5b5b0976f", "date": "2023-12-14T09:30:31Z",
			"data": `{"metadata": {"foo": "bar"}, "targetId": "alice", "targetType": "ACCOUNT"}`},
	}})
	emit(J{"kind": "ikbytes", "hex": "6b6579ff"})
	emit(J{"kind": "ikbytes", "hex": "c328"})
	emit(J{"kind": "keybytes", "hex": "61ff62"})     // a\xffb : not UTF-8, sent raw
	emit(J{"kind": "keybytes", "hex": "61254646"})   // a%FF   : the same byte percent-encoded
	emit(J{"kind": "keybytes", "hex": "c3a9"})       // é sent raw (valid UTF-8)
	emit(J{"kind": "keybytes", "hex": "6b6579"})     // key
	emit(J{"kind": "keybytes", "hex": "61254646", "pos": "address"})
	for _, l := range []int{0, 1, 31, 32, 54, 55, 56, 57, 63, 64, 65, 118, 119, 120, 121, 127, 128, 129, 183, 184, 191, 192, 193, 1000} {
		b := make([]byte, l)
		for i := range b {
			b[i] = byte(r.n(256))
		}
		emit(J{"kind": "sha", "hex": hex.EncodeToString(b)})
	}
	for i := 0; i < n; i++ {
		switch x := r.n(100); {
		case x < 70:
			l := 1 + r.n(4)
			if r.p(25) {
				l = 1 + r.n(50)
			}
			logs := make([]any, 0, l)
			for k := 0; k < l; k++ {
				logs = append(logs, lrLog(r))
			}
			c := J{"kind": "chain", "logs": logs}
			if l > 1 && r.p(50) { // how the entries reach InsertLogs: several per call, as the batcher hands them over
				bs := []any{}
				for left := l; left > 0; {
					k := 1 + r.n(4)
					if r.p(15) {
						k = 1 + r.n(left)
					}
					bs = append(bs, k)
					left -= k
				}
				c["batches"] = bs
			}
			emit(c)
		case x < 85:
			s := lrTimestamp(r, r.p(10))
			if r.p(15) { // damage it
				b := []byte(s)
				switch r.n(4) {
				case 0:
					b[r.n(len(b))] = "0123456789-:TZ+. x"[r.n(18)]
				case 1:
					k := r.n(len(b))
					b = append(b[:k], b[k+1:]...)
				case 2:
					k := r.n(len(b))
					b = append(b[:k], append([]byte{"0123456789-:TZ+."[r.n(16)]}, b[k:]...)...)
				default:
					b = b[:r.n(len(b))]
				}
				s = string(b)
			}
			emit(J{"kind": "time", "s": s})
		default:
			b := make([]byte, r.n(300))
			for i := range b {
				b[i] = byte(r.n(256))
			}
			emit(J{"kind": "sha", "hex": hex.EncodeToString(b)})
		}
	}
}

// ---------------------------------------------------------------- canonical dumps

func lrTime(t ledger.Time) any {
	y, mo, d := t.Date()
	_, off := t.Zone()
	return []any{y, int(mo), d, t.Hour(), t.Minute(), t.Second(), t.Nanosecond(), off}
}

func lrBigStr(b *big.Int) any {
	if b == nil {
		return nil
	}
	return b.String()
}

func lrMetaDump(m metadata.Metadata) any {
	if m == nil {
		return nil
	}
	out := []any{}
	for _, k := range sortedKeys(m) {
		out = append(out, []any{k, m[k]})
	}
	return out
}

func lrTxDump(tx *ledger.Transaction) any {
	if tx == nil {
		return nil
	}
	var ps any
	if tx.Postings != nil {
		l := []any{}
		for _, p := range tx.Postings {
			l = append(l, []any{p.Source, p.Destination, lrBigStr(p.Amount), p.Asset})
		}
		ps = l
	}
	return J{"postings": ps, "md": lrMetaDump(tx.Metadata), "ts": lrTime(tx.Timestamp), "ref": tx.Reference, "id": lrBigStr(tx.ID), "reverted": tx.Reverted}
}

// the Go type of targetId is part of the dump as far as it matters for the content: every integer type is "int"
// (the value), a float64 is "float" (a transaction id that went through float64 is no longer an id), a string is "str"
func lrTargetDump(v any) any {
	switch x := v.(type) {
	case nil:
		return nil
	case string:
		return J{"str": x}
	case *big.Int:
		return J{"int": lrBigStr(x)}
	case uint64:
		return J{"int": strconv.FormatUint(x, 10)}
	case int64:
		return J{"int": strconv.FormatInt(x, 10)}
	case int:
		return J{"int": strconv.Itoa(x)}
	case float64:
		return J{"float": strconv.FormatFloat(x, 'g', -1, 64)}
	default:
		return J{"other": fmt.Sprintf("%T", v)}
	}
}

func lrPayloadDump(d any) any {
	switch p := d.(type) {
	case ledger.NewTransactionLogPayload:
		var am any
		if p.AccountMetadata != nil {
			l := []any{}
			for _, k := range sortedKeys(p.AccountMetadata) {
				l = append(l, []any{k, lrMetaDump(p.AccountMetadata[k])})
			}
			am = l
		}
		return J{"k": "newtx", "tx": lrTxDump(p.Transaction), "am": am}
	case ledger.RevertedTransactionLogPayload:
		return J{"k": "reverted", "rid": lrBigStr(p.RevertedTransactionID), "tx": lrTxDump(p.RevertTransaction)}
	case ledger.SetMetadataLogPayload:
		return J{"k": "setmeta", "tt": p.TargetType, "target": lrTargetDump(p.TargetID), "md": lrMetaDump(p.Metadata)}
	case ledger.DeleteMetadataLogPayload:
		return J{"k": "delmeta", "tt": p.TargetType, "target": lrTargetDump(p.TargetID), "key": p.Key}
	case *ledger.NewTransactionLogPayload:
		return lrPayloadDump(*p)
	case *ledger.RevertedTransactionLogPayload:
		return lrPayloadDump(*p)
	case *ledger.SetMetadataLogPayload:
		return lrPayloadDump(*p)
	case *ledger.DeleteMetadataLogPayload:
		return lrPayloadDump(*p)
	default:
		return J{"k": "other", "gotype": fmt.Sprintf("%T", d)}
	}
}

func lrDump(c *ledger.ChainedLog) J {
	var h any
	if c.Hash != nil {
		h = hex.EncodeToString(c.Hash)
	}
	return J{"type": c.Type.String(), "id": lrBigStr(c.ID), "hash": h, "date": lrTime(c.Date), "ik": c.IdempotencyKey, "data": lrPayloadDump(c.Data)}
}

// ---------------------------------------------------------------- building logs from the input

func lrBigOf(v any) *big.Int {
	s, _ := v.(string)
	b, ok := new(big.Int).SetString(s, 10)
	if !ok {
		panic("harness: bad integer " + s)
	}
	return b
}

func lrMetaOf(v any) metadata.Metadata {
	m, ok := v.(map[string]any)
	if !ok {
		return nil
	}
	out := metadata.Metadata{}
	for k, x := range m {
		out[k], _ = x.(string)
	}
	return out
}

type lrInputErr struct{ what string }

func lrParse(s any) ledger.Time {
	str, _ := s.(string)
	t, err := ledger.ParseTime(str)
	if err != nil {
		panic(lrInputErr{"timestamp"})
	}
	return t
}

func lrTxOf(v any) *ledger.Transaction {
	m := v.(map[string]any)
	tx := &ledger.Transaction{}
	if ps, ok := m["postings"].([]any); ok {
		tx.Postings = ledger.Postings{}
		for _, pa := range ps {
			p := pa.(map[string]any)
			tx.Postings = append(tx.Postings, ledger.NewPosting(p["s"].(string), p["d"].(string), p["asset"].(string), lrBigOf(p["amt"])))
		}
	}
	tx.Metadata = lrMetaOf(m["md"])
	tx.Timestamp = lrParse(m["ts"])
	tx.Reference, _ = m["ref"].(string)
	tx.ID = lrBigOf(m["id"])
	tx.Reverted, _ = m["reverted"].(bool)
	return tx
}

func lrLogOf(l map[string]any) *ledger.Log {
	date := lrParse(l["date"])
	var log *ledger.Log
	target := func() (string, any) {
		tt, _ := l["tt"].(string)
		if tt == ledger.MetaTargetTypeAccount {
			return tt, l["acc"].(string)
		}
		return tt, lrBigOf(l["txid"]) // the commander passes the *big.Int it got from the API
	}
	switch l["type"] {
	case "NEW_TRANSACTION":
		var am map[string]metadata.Metadata
		if m, ok := l["am"].(map[string]any); ok {
			am = map[string]metadata.Metadata{}
			for k, v := range m {
				am[k] = lrMetaOf(v)
			}
		}
		log = ledger.NewTransactionLogWithDate(lrTxOf(l["tx"]), am, date)
	case "REVERTED_TRANSACTION":
		log = ledger.NewRevertedTransactionLog(date, lrBigOf(l["rid"]), lrTxOf(l["tx"]))
	case "SET_METADATA":
		tt, id := target()
		log = ledger.NewSetMetadataLog(date, ledger.SetMetadataLogPayload{TargetType: tt, TargetID: id, Metadata: lrMetaOf(l["md"])})
	case "DELETE_METADATA":
		tt, id := target()
		key, _ := l["key"].(string)
		log = ledger.NewDeleteMetadataLog(date, ledger.DeleteMetadataLogPayload{TargetType: tt, TargetID: id, Key: key})
	default:
		panic("harness: unknown log type")
	}
	ik, _ := l["ik"].(string)
	return log.WithIdempotencyKey(ik)
}

// ---------------------------------------------------------------- what PostgreSQL hands back for a jsonb column

// lrJsonb re-writes a JSON text the way `jsonb` stores and prints it: object keys ordered by length, then bytewise
// (duplicates: last wins), `: ` and `, ` separators, numbers kept as written.  PostgreSQL itself cannot be run here.
func lrJsonb(text []byte) []byte {
	dec := json.NewDecoder(bytes.NewReader(text))
	dec.UseNumber()
	var v any
	if err := dec.Decode(&v); err != nil {
		panic("harness: " + err.Error())
	}
	var out bytes.Buffer
	var w func(v any)
	str := func(s string) {
		var b bytes.Buffer
		e := json.NewEncoder(&b)
		e.SetEscapeHTML(false)
		_ = e.Encode(s)
		out.Write(bytes.TrimRight(b.Bytes(), "\n"))
	}
	w = func(v any) {
		switch x := v.(type) {
		case map[string]any:
			ks := sortedKeys(x)
			sort.SliceStable(ks, func(i, j int) bool {
				if len(ks[i]) != len(ks[j]) {
					return len(ks[i]) < len(ks[j])
				}
				return ks[i] < ks[j]
			})
			out.WriteString("{")
			for i, k := range ks {
				if i > 0 {
					out.WriteString(", ")
				}
				str(k)
				out.WriteString(": ")
				w(x[k])
			}
			out.WriteString("}")
		case []any:
			out.WriteString("[")
			for i, e := range x {
				if i > 0 {
					out.WriteString(", ")
				}
				w(e)
			}
			out.WriteString("]")
		case string:
			str(x)
		case json.Number:
			out.WriteString(x.String())
		case bool:
			out.WriteString(strconv.FormatBool(x))
		case nil:
			out.WriteString("null")
		}
	}
	w(v)
	return out.Bytes()
}

// ---------------------------------------------------------------- exec

func lrGuard(f func() J) (out J) {
	defer func() {
		if e := recover(); e != nil {
			if ie, ok := e.(lrInputErr); ok {
				out = J{"input_error": ie.what}
				return
			}
			out = J{"panic": fmt.Sprint(e)}
		}
	}()
	return f()
}

func lrDecode(text []byte) (back *ledger.ChainedLog, res J) {
	res = lrGuard(func() J {
		var b ledger.ChainedLog
		if err := json.Unmarshal(text, &b); err != nil {
			return J{"error": err.Error()}
		}
		back = &b
		return J{"ok": lrDump(&b)}
	})
	if _, ok := res["ok"]; !ok {
		back = nil
	}
	return
}

func lrChain(in J) J {
	specs, _ := in["logs"].([]any)
	entries := []any{}
	type written struct {
		e  J
		cl *ledger.ChainedLog
	}
	var ws []written
	var prev, prevBack *ledger.ChainedLog
	for _, sa := range specs {
		var log *ledger.Log
		if r := lrGuard(func() J { log = lrLogOf(sa.(map[string]any)); return nil }); r != nil {
			entries = append(entries, r) // a timestamp the API refuses: no log is written; the chain goes on
			continue
		}
		cl := log.ChainLog(prev)
		e := J{"id": lrBigStr(cl.ID), "hash": hex.EncodeToString(cl.Hash), "dump": lrDump(cl)}
		entries = append(entries, e)
		ws = append(ws, written{e, cl})
		text, err := json.Marshal(cl)
		if err != nil {
			e["marshal_error"] = err.Error()
			prev, prevBack = cl, cl
			continue
		}
		e["bytes"] = string(text)
		back, dec := lrDecode(text)
		e["dec"] = dec
		if back != nil {
			// a reader of the stored chain re-verifies the entry against the decoded predecessor
			re := back.Log.ChainLog(prevBack)
			e["rehash"] = hex.EncodeToString(re.Hash)
			e["reid"] = lrBigStr(re.ID)
			if again, err := json.Marshal(back); err == nil {
				e["remarshal_same"] = string(again) == string(text)
			}
		}
		prev = cl
		if back != nil {
			prevBack = back
		} else {
			prevBack = cl
		}
	}
	lrStoreChain(in, func(k int) (J, *ledger.ChainedLog) { return ws[k].e, ws[k].cl }, len(ws))
	return J{"entries": entries}
}

// lrStoreChain: the entries through the REAL ledgerstore.Store.InsertLogs into the table of logstore.go (in the batches the input
// gives, default one call per entry), then every stored row read back: scanned into ledgerstore.Logs as a SELECT hands it over,
// Logs.ToCore, hash recomputed over the PREVIOUS ROW read back the same way.  Then the store's own reads: GetLastLog after every
// InsertLogs call, ReadLogWithIdempotencyKey for every key of the chain at the end.
func lrStoreChain(in J, at func(int) (J, *ledger.ChainedLog), n int) {
	s := lsOpen()
	defer s.close()
	var sizes []int
	if b, ok := in["batches"].([]any); ok {
		for _, x := range b {
			if k := toInt(x); k > 0 {
				sizes = append(sizes, k)
			}
		}
	}
	rowOf := make([]int, n) // entry -> index of its row, -1: not stored
	for k := range rowOf {
		rowOf[k] = -1
	}
	for k, b := 0, 0; k < n; b++ {
		size := 1
		if b < len(sizes) {
			size = sizes[b]
		}
		if k+size > n {
			size = n - k
		}
		batch := []*ledger.ChainedLog{}
		for x := k; x < k+size; x++ {
			_, cl := at(x)
			batch = append(batch, cl)
		}
		before := s.t.n()
		err := s.insert(batch...)
		switch got := s.t.n() - before; {
		case err != nil:
			for x := k; x < k+size; x++ {
				e, _ := at(x)
				e["row"] = J{"error": err.Error()}
			}
		case got != size:
			for x := k; x < k+size; x++ {
				e, _ := at(x)
				e["row"] = J{"error": fmt.Sprintf("InsertLogs of %d entries wrote %d rows", size, got)}
			}
		default:
			for x := k; x < k+size; x++ {
				rowOf[x] = before + x - k
			}
			e, _ := at(k + size - 1)
			if last, err := s.lastLog(); err != nil {
				e["last"] = J{"error": err.Error()}
			} else {
				e["last"] = J{"ok": lrDump(last)}
			}
		}
		k += size
	}
	for _, jsonb := range []bool{false, true} {
		s.t.jsonb = jsonb
		var prevCore *ledger.ChainedLog
		for k := 0; k < n; k++ {
			e, cl := at(k)
			if rowOf[k] < 0 {
				prevCore = cl
				continue
			}
			core, err := s.t.lsCore(rowOf[k])
			var r J
			if err != nil {
				r = J{"panic": err.Error()}
				prevCore = cl
			} else {
				re := lrGuard(func() J { return J{"h": hex.EncodeToString(core.Log.ChainLog(prevCore).Hash)} })
				r = J{"ok": lrDump(core), "rehash": re["h"]}
				prevCore = core
			}
			if jsonb {
				e["row_jsonb"] = r
			} else {
				r["data"] = s.t.rows[rowOf[k]].text("data")
				r["cols"] = s.t.lsColsJ(rowOf[k])
				e["row"] = r
			}
		}
	}
	s.t.jsonb = false
	lastWith := map[string]int{}
	for k := 0; k < n; k++ {
		if _, cl := at(k); rowOf[k] >= 0 && cl.IdempotencyKey != "" {
			lastWith[cl.IdempotencyKey] = k
		}
	}
	for key, k := range lastWith {
		e, _ := at(k)
		if strings.ContainsRune(key, 0) {
			e["bykey"] = J{"skipped": "a NUL character cannot be written in an SQL literal (nor stored by PostgreSQL)"}
			continue
		}
		if got, err := s.byKey(key); err != nil {
			e["bykey"] = J{"error": err.Error()}
		} else {
			e["bykey"] = J{"ok": lrDump(got)}
		}
	}
	// GetLogs: the whole table in one page, newest first
	nStored := 0
	for k := 0; k < n; k++ {
		if rowOf[k] >= 0 {
			nStored++
		}
	}
	excluded := false // a chain with an entry outside "logs the system writes" (a transaction id beyond uint64): Logs.ToCore panics on that row, and with it the page
	if specs, ok := in["logs"].([]any); ok {
		for _, sp := range specs {
			if m, ok := sp.(map[string]any); ok && m["excluded"] != nil {
				excluded = true
			}
		}
	}
	if nStored > 0 && excluded {
		for k := 0; k < n; k++ {
			if e, _ := at(k); rowOf[k] >= 0 {
				e["listed"] = J{"skipped": "the chain holds an excluded entry"}
			}
		}
	} else if nStored > 0 {
		page, err := s.list(uint64(nStored + 5))
		pos := 0
		for k := n - 1; k >= 0; k-- {
			if rowOf[k] < 0 {
				continue
			}
			e, _ := at(k)
			switch {
			case err != nil:
				e["listed"] = J{"error": err.Error()}
			case len(page) != nStored:
				e["listed"] = J{"error": fmt.Sprintf("GetLogs lists %d entries, %d are stored", len(page), nStored)}
			default:
				e["listed"] = J{"ok": lrDump(&page[pos])}
			}
			pos++
		}
	}
	if len(s.t.refused) > 0 && n > 0 {
		e, _ := at(n - 1)
		e["table_refused"] = s.t.refused
	}
}

// lrKeyBytes: what becomes of a metadata key sent as raw bytes in the request line
func lrKeyBytes(key []byte, pos string) J {
	out := J{"valid_utf8": utf8.Valid(key)}
	addr, sent := []byte("a"), key
	if pos == "address" { // the bytes are the account address, the key is plain
		addr, key = key, []byte("k")
	}
	fl := &fakeLedger{}
	router := v2.NewRouter(&fakeBackend{l: fl}, &health.HealthController{}, metrics.NewNoOpRegistry(), auth.NewNoAuth())
	raw := append(append([]byte("DELETE /l/accounts/"), addr...), []byte("/metadata/")...)
	raw = append(raw, key...)
	raw = append(raw, []byte(" HTTP/1.1\r\nHost: x\r\n\r\n")...)
	req, err := http.ReadRequest(bufio.NewReader(bytes.NewReader(raw)))
	if err != nil {
		out["request"] = "refused by net/http: " + err.Error()
		return out
	}
	rec := httptest.NewRecorder()
	router.ServeHTTP(rec, req)
	out["status"] = rec.Code
	var got *writeCall
	fl.mu.Lock()
	for i := range fl.writes {
		if fl.writes[i].Kind == "deletemeta" {
			got = &fl.writes[i]
		}
	}
	fl.mu.Unlock()
	if got == nil {
		out["reached_backend"] = false
		return out
	}
	out["reached_backend"] = true
	gotAddr, _ := got.TID.(string)
	at := got.Key
	if pos == "address" {
		at = gotAddr
	}
	out["at_backend_hex"] = hex.EncodeToString([]byte(at))
	out["at_backend_is_the_bytes_sent"] = at == string(sent)
	out["at_backend_valid_utf8"] = utf8.ValidString(at)
	// the commander writes the key into a DELETE_METADATA log; the store writes the log; a reader re-verifies it
	cl := ledger.NewDeleteMetadataLog(ledger.Now(), ledger.DeleteMetadataLogPayload{TargetType: ledger.MetaTargetTypeAccount, TargetID: gotAddr, Key: got.Key}).ChainLog(nil)
	st := lsOpen()
	defer st.close()
	if err := st.insert(cl); err != nil {
		out["insert"] = err.Error()
		return out
	}
	out["data_column"] = st.t.rows[0].text("data")
	core, err := st.t.lsCore(0)
	if err != nil {
		out["read_back"] = err.Error()
		return out
	}
	p, _ := core.Data.(ledger.DeleteMetadataLogPayload)
	back := p.Key
	if pos == "address" {
		back = fmt.Sprint(p.TargetID)
	}
	out["read_back_hex"] = hex.EncodeToString([]byte(back))
	out["read_back_same"] = back == at
	out["rehash_same"] = hex.EncodeToString(core.Log.ChainLog(nil).Hash) == hex.EncodeToString(cl.Hash)
	return out
}

func execLogrt(in J) J {
	switch in["kind"] {
	case "chain":
		return lrChain(in)
	case "raw":
		s, _ := in["json"].(string)
		_, res := lrDecode([]byte(s))
		if _, ok := res["error"]; ok {
			res = J{"error": true}
		}
		if _, ok := res["panic"]; ok {
			res = J{"panic": true}
		}
		return res
	case "time":
		s, _ := in["s"].(string)
		t, err := ledger.ParseTime(s)
		if err != nil {
			return J{"error": true}
		}
		out := J{"ok": lrTime(t), "fmt": t.Format(ledger.DateFormat), "utc": lrTime(t.UTC()), "unix": []any{strconv.FormatInt(t.Unix(), 10), t.Nanosecond()}}
		if b, err := json.Marshal(t); err == nil {
			out["json"] = string(b)
			var back ledger.Time
			if err := json.Unmarshal(b, &back); err != nil {
				out["reparse"] = J{"error": true}
			} else {
				out["reparse"] = J{"ok": lrTime(back)}
			}
		}
		return out
	case "v1":
		rows, _ := in["rows"].([]any)
		out := []any{}
		var prev *ledger.ChainedLog
		for _, ra := range rows {
			r := ra.(map[string]any)
			out = append(out, lrGuard(func() J {
				id, _ := strconv.ParseUint(fmt.Sprint(r["id"]), 10, 64)
				v1 := ledgerstore.LogV1{ID: id, Type: r["type"].(string), Hash: r["hash"].(string), Date: lrParse(r["date"]), Data: json.RawMessage(r["data"].(string))}
				v2, err := v1.ToLogsV2()
				if err != nil {
					return J{"error": err.Error()}
				}
				core := v2.ToCore()
				re := core.Log.ChainLog(prev)
				prev = core
				return J{"decoded": true, "stored_hash_is_hex_text": string(core.Hash) == v1.Hash,
					"rehash_same": string(re.Hash) == string(core.Hash) || hex.EncodeToString(re.Hash) == v1.Hash}
			}))
		}
		return J{"rows": out}
	case "ikbytes":
		s, _ := in["hex"].(string)
		b, err := hex.DecodeString(s)
		if err != nil {
			panic("harness: bad hex")
		}
		log := ledger.NewSetMetadataOnAccountLog(ledger.Now(), "a", metadata.Metadata{}).WithIdempotencyKey(string(b))
		cl := log.ChainLog(nil)
		text, _ := json.Marshal(cl)
		back, dec := lrDecode(text)
		out := J{"decoded": back != nil}
		if back != nil {
			out["ik_same"] = back.IdempotencyKey == cl.IdempotencyKey
			out["rehash_same"] = hex.EncodeToString(back.Log.ChainLog(nil).Hash) == hex.EncodeToString(cl.Hash)
		} else {
			out["dec"] = dec
		}
		return out
	case "keybytes":
		s, _ := in["hex"].(string)
		b, err := hex.DecodeString(s)
		if err != nil {
			panic("harness: bad hex")
		}
		pos, _ := in["pos"].(string)
		return lrKeyBytes(b, pos)
	case "sha":
		s, _ := in["hex"].(string)
		b, err := hex.DecodeString(s)
		if err != nil {
			panic("harness: bad hex")
		}
		h := sha256.Sum256(b)
		return J{"sha": hex.EncodeToString(h[:])}
	}
	panic("harness: unknown kind " + fmt.Sprint(in["kind"]))
}
