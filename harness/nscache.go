package main

// Area "nscache" (C08): the compilation cache of the engine, command.NewCompiler(size).Compile, against a FRESH
// compiler.Compile of the very same text.  One input = a sequence of 2..6 script texts pushed through ONE Compiler;
// the texts of a sequence come from a small family of near-identical scripts (same script with other blanks inside a
// string literal, inside / around the multi-word overdraft tokens, other comments, CRLF, trailing newline, letter case
// of a string, one digit of an amount, indentation).
//
// input : {"size":n, "texts":[hex…], "family":…, "muts":[[…]…]}
// output: {"steps":[{"cached":D,"fresh":D}…]}   D = {"err":true} | {"ins":hex,"res":[…],"src":[…],"need":[…]}

import (
	"encoding/hex"
	"fmt"
	"sort"
	"strings"

	"github.com/formancehq/ledger/internal/engine/command"
	"github.com/formancehq/ledger/internal/machine/script/compiler"
	"github.com/formancehq/ledger/internal/machine/vm/program"
)

func init() { register("nscache", &area{gen: genNsCache, exec: execNsCache}) }

var nscWords = []string{"invoice 12 34", "a b", "hello world", "x-1_Y z", "Memo", "ref 7", "two  blanks", ""}

func nscBase(r *rng) (string, string) {
	amt := fmt.Sprint(1 + r.n(999))
	str := r.pick(nscWords)
	switch r.n(6) {
	case 0:
		return "unbounded", "send [USD/2 " + amt + "] (\n  source = @alice allowing unbounded overdraft\n  destination = @bank\n)\n"
	case 1:
		return "upto", "send [USD/2 " + amt + "] (\n  source = @alice allowing overdraft up to [USD/2 " + fmt.Sprint(r.n(500)) + "]\n  destination = @bank\n)\n"
	case 2:
		return "string", "send [COIN " + amt + "] (\n  source = @world\n  destination = @bob\n)\nset_tx_meta(\"memo\", \"" + str + "\")\n"
	case 3:
		return "string+overdraft", "vars {\n  account $acc\n}\nset_account_meta($acc, \"note\", \"" + str + "\")\nsend [EUR " + amt + "] (\n  source = {\n    max [EUR 5] from $acc allowing overdraft up to [EUR 3]\n    @b allowing unbounded overdraft\n  }\n  destination = {\n    50% to @x\n    remaining kept\n  }\n)\nprint \"" + str + "\"\n"
	case 4:
		return "meta-key", "vars {\n  monetary $m = meta(@cfg, \"fee " + r.pick([]string{"a", "b c", "A"}) + "\")\n}\nsend $m (\n  source = @payer\n  destination = @fees\n)\n"
	}
	// a program of the numscript generator that has something to vary
	var text string
	for try := 0; try < 30; try++ {
		genNumscriptBase(r.fork(), 1, "quick", func(j J) { text = j["text"].(string) })
		if strings.Contains(text, "\"") || strings.Contains(text, "allowing") {
			break
		}
	}
	return "generated", text
}

// spans of the string literals of a text: [start, end) of the characters between the quotes
func nscStrings(t string) [][2]int {
	var out [][2]int
	for i := 0; i < len(t); i++ {
		if t[i] == '"' {
			j := strings.IndexByte(t[i+1:], '"')
			if j < 0 {
				break
			}
			out = append(out, [2]int{i + 1, i + 1 + j})
			i += j + 1
		}
	}
	return out
}

var nscKeywords = []string{"allowing unbounded overdraft", "allowing overdraft up to"}

func nscMutate(r *rng, t string) (string, string) {
	blanks := []string{"  ", "\t", " \t", "   "}
	switch r.n(11) {
	case 0: // more / other blank space inside a string literal
		ss := nscStrings(t)
		if len(ss) == 0 {
			break
		}
		s := ss[r.n(len(ss))]
		body := t[s[0]:s[1]]
		if k := strings.IndexByte(body, ' '); k >= 0 {
			return "string-blank", t[:s[0]+k] + r.pick(blanks) + t[s[0]+k+1:]
		}
		k := r.n(len(body) + 1)
		return "string-blank-added", t[:s[0]+k] + " " + t[s[0]+k:]
	case 1: // fewer blanks inside a string literal
		ss := nscStrings(t)
		if len(ss) == 0 {
			break
		}
		s := ss[r.n(len(ss))]
		if k := strings.Index(t[s[0]:s[1]], "  "); k >= 0 {
			return "string-blank-collapsed", t[:s[0]+k] + t[s[0]+k+1:]
		}
		if k := strings.IndexByte(t[s[0]:s[1]], ' '); k >= 0 {
			return "string-blank-removed", t[:s[0]+k] + t[s[0]+k+1:]
		}
	case 2: // letter case inside a string literal
		ss := nscStrings(t)
		if len(ss) == 0 {
			break
		}
		s := ss[r.n(len(ss))]
		for k := s[0]; k < s[1]; k++ {
			c := t[k]
			if c >= 'a' && c <= 'z' {
				return "string-case", t[:k] + string(c-32) + t[k+1:]
			}
			if c >= 'A' && c <= 'Z' {
				return "string-case", t[:k] + string(c+32) + t[k+1:]
			}
		}
	case 3: // blank space inside a multi-word token
		for _, kw := range nscKeywords {
			if i := strings.Index(t, kw); i >= 0 && r.p(70) {
				var gaps []int
				for k := 0; k < len(kw); k++ {
					if kw[k] == ' ' {
						gaps = append(gaps, i+k)
					}
				}
				k := gaps[r.n(len(gaps))]
				return "keyword-blank", t[:k] + r.pick(blanks) + t[k+1:]
			}
		}
	case 4: // blank space around a multi-word token
		for _, kw := range nscKeywords {
			if i := strings.Index(t, kw); i >= 0 {
				if r.p(50) {
					return "around-keyword", t[:i] + r.pick(blanks) + t[i:]
				}
				return "around-keyword", t[:i+len(kw)] + r.pick(blanks) + t[i+len(kw):]
			}
		}
	case 5: // a comment
		lines := strings.SplitAfter(t, "\n")
		k := r.n(len(lines))
		c := r.pick([]string{"// note\n", "/* c */\n", "// a  b\n", "/* x\ny */\n"})
		if r.p(40) && strings.HasSuffix(lines[k], "\n") {
			lines[k] = strings.TrimSuffix(lines[k], "\n") + " " + strings.TrimSuffix(r.pick([]string{"// t", "/* t */"}), "\n") + "\n"
			return "comment-eol", strings.Join(lines, "")
		}
		return "comment-line", strings.Join(lines[:k], "") + c + strings.Join(lines[k:], "")
	case 6:
		if !strings.Contains(t, "\r") {
			return "crlf", strings.ReplaceAll(t, "\n", "\r\n")
		}
	case 7:
		if strings.HasSuffix(t, "\n") && r.p(60) {
			return "no-trailing-newline", strings.TrimRight(t, "\r\n")
		}
		return "extra-newline", t + "\n"
	case 8: // one digit of an amount
		var ds []int
		for k := 0; k < len(t); k++ {
			if t[k] >= '0' && t[k] <= '9' && k > 0 && (t[k-1] == ' ' || (t[k-1] >= '0' && t[k-1] <= '9')) {
				ds = append(ds, k)
			}
		}
		if len(ds) > 0 {
			k := ds[r.n(len(ds))]
			return "digit", t[:k] + string(byte('0'+(int(t[k]-'0')+1+r.n(9))%10)) + t[k+1:]
		}
	case 9: // indentation
		lines := strings.SplitAfter(t, "\n")
		k := r.n(len(lines))
		lines[k] = r.pick([]string{" ", "\t", "    "}) + lines[k]
		return "indent", strings.Join(lines, "")
	case 10: // blank space between ordinary tokens
		var sp []int
		for k := 0; k < len(t); k++ {
			if t[k] == ' ' {
				sp = append(sp, k)
			}
		}
		if len(sp) > 0 {
			k := sp[r.n(len(sp))]
			return "blank", t[:k] + r.pick(blanks) + t[k+1:]
		}
	}
	return "none", t
}

func genNsCache(r *rng, n int, tier string, emit func(J)) {
	for c := 0; c < n; c++ {
		g := r.fork()
		fam, base := nscBase(g)
		pool := []string{base}
		muts := [][]string{{}}
		for k := 1 + g.n(4); k > 0; k-- {
			from := g.n(len(pool)) // variants of variants: the family stays close
			t, ms := pool[from], append([]string{}, muts[from]...)
			for m := 1 + g.n(2); m > 0; m-- {
				var name string
				name, t = nscMutate(g, t)
				ms = append(ms, name)
			}
			pool = append(pool, t)
			muts = append(muts, ms)
		}
		if g.p(12) { // a second family in the same cache
			_, other := nscBase(g)
			pool = append(pool, other)
			muts = append(muts, []string{"other-script"})
		}
		var texts []string
		var which [][]string
		for k := 2 + g.n(5); k > 0; k-- {
			i := g.n(len(pool))
			texts = append(texts, hex.EncodeToString([]byte(pool[i])))
			which = append(which, muts[i])
		}
		emit(J{"size": []int{1, 2, 1024}[g.n(3)], "texts": texts, "family": fam, "muts": which})
	}
}

func nscDescribe(p *program.Program, err error) J {
	if err != nil || p == nil {
		return J{"err": true}
	}
	res := []string{}
	for _, x := range p.Resources {
		res = append(res, fmt.Sprintf("%T %v", x, x))
	}
	src := []string{}
	for _, a := range p.Sources {
		src = append(src, fmt.Sprint(uint16(a)))
	}
	need := []string{}
	for a, m := range p.NeededBalances {
		for b := range m {
			need = append(need, fmt.Sprintf("%d:%d", uint16(a), uint16(b)))
		}
	}
	sort.Strings(need)
	return J{"ins": hex.EncodeToString(p.Instructions), "res": res, "src": src, "need": need}
}

func execNsCache(in J) J {
	size := 1024
	switch v := in["size"].(type) {
	case float64:
		size = int(v)
	case interface{ Int64() (int64, error) }:
		n, _ := v.Int64()
		size = int(n)
	}
	c := command.NewCompiler(size)
	steps := []any{}
	ts, _ := in["texts"].([]any)
	for _, x := range ts {
		raw, _ := hex.DecodeString(x.(string))
		text := string(raw)
		cp, cerr := c.Compile(text)
		cached := nscDescribe(cp, cerr)
		fp, ferr := compiler.Compile(text)
		steps = append(steps, J{"cached": cached, "fresh": nscDescribe(fp, ferr)})
	}
	return J{"steps": steps}
}
