package main

// Area "bulk" (C18): the real v2 router -> bulkHandler -> ProcessBulk over the scripted fake backend.
//
// input : {"cont":bool, "elems":[{"action":A, "data":<body shape, see bulkData>, "outcome":<answer of the backend call, see scriptedError>, "ik":s}]}
// output: {"status":int, "results":[responseType…], "codes":[errorCode…], "calls":[{"idx":i,"kind":k,"ik":s,"ok":bool,"force":bool}], "decoded":bool}
//
// Every element is sent as a REAL body of one of the shapes ProcessBulk and the engine branch on (a transaction by postings, by a
// script, by a script that does not compile, by both, by neither; metadata targets of every kind with well- and ill-formed ids;
// reverts with their flags).  The fake backend does to a transaction what engine.Ledger + Commander.exec do first: no script ->
// NewErrNoScript, the REAL compiler on the script text (+ SetVarsFromJSON) -> NewErrCompilationFailed, both wrapped by
// engine.NewCommandError; after that the scripted answer, built with the constructors of internal/engine/command/errors.go.

import (
	"bytes"
	"encoding/json"
	"errors"
	"fmt"
	"net/http"
	"net/http/httptest"
	neturl "net/url"
	"strconv"

	v2 "github.com/formancehq/ledger/internal/api/v2"
	"github.com/formancehq/ledger/internal/engine"
	"github.com/formancehq/ledger/internal/engine/command"
	"github.com/formancehq/ledger/internal/machine"
	"github.com/formancehq/ledger/internal/machine/script/compiler"
	"github.com/formancehq/ledger/internal/machine/vm"
	"github.com/formancehq/ledger/internal/opentelemetry/metrics"
	"github.com/formancehq/stack/libs/go-libs/auth"
)

var bulkActions = []string{"CREATE_TRANSACTION", "ADD_METADATA", "REVERT_TRANSACTION", "DELETE_METADATA"}

func init() {
	register("bulk", &area{gen: genBulk, exec: execBulk})
}

func genBulk(r *rng, n int, tier string, emit func(J)) {
	maxLen := 5
	if tier == "thorough" {
		maxLen = 8
	}
	// corpus-like fixed cases first
	emit(J{"cont": false, "elems": []any{}})
	for i := 0; i < n; i++ {
		l := 1 + r.n(maxLen)
		elems := make([]any, 0, l)
		for k := 0; k < l; k++ {
			e := J{"action": r.pick(bulkActions), "data": "good", "outcome": "ok", "ik": ""}
			switch r.n(12) {
			case 0:
				e["action"] = r.pick([]string{"UNKNOWN", "", "create_transaction", "REVERT"})
			case 1:
				e["data"] = r.pick([]string{"badfield", "wrongshape", "notarget"})
				if a := e["action"].(string); e["data"] == "notarget" && a != "ADD_METADATA" && a != "DELETE_METADATA" {
					e["data"] = "wrongshape" // a missing targetId only exists for the metadata actions
				}
			case 2, 3:
				e["outcome"] = r.pick([]string{"insufficient", "validation", "notfound", "internal"})
			}
			if r.p(30) {
				e["ik"] = fmt.Sprintf("k%d", r.n(3))
			}
			elems = append(elems, e)
		}
		hdr := ""
		if r.p(30) { // a request-level Idempotency-Key header must not leak into the elements
			hdr = fmt.Sprintf("hk%d", r.n(2))
		}
		q := J{"cont": r.p(50), "elems": elems, "broken": r.p(3), "hdr_ik": hdr}
		if r.p(35) { // the flag as the client spelled it; "cont" is then ignored (the model reads the spelling)
			q["cont_raw"] = r.pick(contSpellings)
		}
		emit(q)
	}
	genBulkShapes(&rng{s: r.s ^ 0x5bd1e9955bd1e995}, n, maxLen, emit)
}

// body shapes per action ("good" = the ordinary body) and backend answers; see bulkData / scriptedError
var bulkShapes = map[string][]string{
	"CREATE_TRANSACTION": {"script", "script_vars", "script_broken", "script_novars", "both", "both_broken", "neither", "empty_postings",
		"script_empty", "null", "nodata", "postings_badamount", "badfield", "wrongshape"},
	"ADD_METADATA": {"notarget", "tx_strid", "tx_fracid", "tx_negid", "tx_bigid", "tx_nullid", "acct_numid", "acct_emptyid", "acct_objid",
		"unknown_target", "lower_target", "no_targettype", "null", "nodata", "badfield", "wrongshape"},
	"DELETE_METADATA": {"notarget", "tx_strid", "tx_fracid", "tx_negid", "tx_bigid", "tx_nullid", "acct_numid", "acct_emptyid", "acct_objid",
		"unknown_target", "lower_target", "no_targettype", "null", "nodata", "badfield", "wrongshape"},
	"REVERT_TRANSACTION": {"force", "at_effective", "force_str", "strid", "fracid", "noid", "null", "nodata", "badfield", "wrongshape"},
}
var bulkOutcomes = []string{"insufficient", "insufficient_raw", "machine", "conflict", "nopostings", "noscript", "compilation", "save_notfound",
	"del_notfound", "revert_notfound", "already_reverted", "revert_occurring", "validation", "internal", "storage"}

// a revert without id reaches the backend with a nil id, a transaction given as `null` without metadata: the call cannot name
// its element, so a bulk carries at most one such element per kind of call (the result is that kind, "" for all other elements)
func bulkAnonymous(action, shape string) string {
	switch {
	case action == "REVERT_TRANSACTION" && (shape == "noid" || shape == "null"):
		return "revert"
	case action == "CREATE_TRANSACTION" && shape == "null":
		return "create"
	}
	return ""
}

// genBulkShapes: a stream of its own (the cases of the first stream stay what they were).  First every body shape and every backend
// answer once in the middle of a bulk, alone, and in last position, with and without continue-on-failure; then random mixes.
func genBulkShapes(r *rng, n int, maxLen int, emit func(J)) {
	good := func(a string) J { return J{"action": a, "data": "good", "outcome": "ok", "ik": ""} }
	for _, a := range bulkActions {
		for _, sh := range bulkShapes[a] {
			for _, cont := range []bool{false, true} {
				x := J{"action": a, "data": sh, "outcome": "ok", "ik": ""}
				emit(J{"cont": cont, "elems": []any{good("CREATE_TRANSACTION"), x, good("ADD_METADATA")}, "broken": false, "hdr_ik": "", "series": 2})
				if cont {
					emit(J{"cont": r.p(50), "elems": []any{x}, "broken": false, "hdr_ik": "", "series": 2})
				}
			}
		}
		for _, oc := range bulkOutcomes {
			for _, cont := range []bool{false, true} {
				x := J{"action": a, "data": "good", "outcome": oc, "ik": ""}
				emit(J{"cont": cont, "elems": []any{good("REVERT_TRANSACTION"), x, good("DELETE_METADATA")}, "broken": false, "hdr_ik": "", "series": 2})
			}
		}
	}
	for i := 0; i < n; i++ {
		l := 1 + r.n(maxLen)
		elems := make([]any, 0, l)
		anon := map[string]bool{}
		for k := 0; k < l; k++ {
			a := r.pick(bulkActions)
			e := J{"action": a, "data": "good", "outcome": "ok", "ik": ""}
			switch r.n(10) {
			case 0, 1, 2, 3:
				sh := r.pick(bulkShapes[a])
				if k := bulkAnonymous(a, sh); k != "" {
					if anon[k] {
						sh = "badfield"
					}
					anon[k] = true
				}
				e["data"] = sh
			case 4:
				e["action"] = r.pick([]string{"UNKNOWN", "", "create_transaction", "REVERT"})
			}
			if r.p(20) {
				e["outcome"] = r.pick(bulkOutcomes)
			}
			if r.p(30) {
				e["ik"] = fmt.Sprintf("k%d", r.n(3))
			}
			elems = append(elems, e)
		}
		emit(J{"cont": r.p(60), "elems": elems, "broken": false, "hdr_ik": "", "series": 2})
	}
}

const goodScript = "send [USD 1] (\n  source = @world\n  destination = @bank\n)"
const varsScript = "vars {\n  monetary $m\n  account $d\n}\nsend $m (\n  source = @world\n  destination = $d\n)"

// texts the real compiler refuses
var brokenScripts = []string{
	"send [USD 1] (\n  source = @world\n  destination = ",
	"this is not numscript",
	goodScript + "\ntrailing",
	"send [USD 1] (\n  source = @world allowing unbounded overdraft\n  destination = @bank\n)",
	"vars {\n  monetary $m\n}\nsend $x (\n  source = @world\n  destination = @bank\n)",
}

// bulkData: the text of the `data` member of element idx (nil = the member is absent).  The element's position travels in the body
// (metadata idx / key / id) wherever the shape allows, so that a backend call can be attributed to its element.
func bulkData(action, kind string, idx int, target string) *string {
	out := func(s string) *string { return &s }
	is := strconv.Itoa(idx)
	md := `"metadata":{"idx":"` + is + `"}`
	postings := `"postings":[{"source":"world","destination":"bank","amount":1,"asset":"USD"}]`
	js := func(s string) string { b, _ := json.Marshal(s); return string(b) }
	switch kind {
	case "badfield": // valid JSON, but a field of the wrong type for the request struct of every action
		return out(`{"postings":"x","id":"abc","targetType":5,"force":"no"}`)
	case "wrongshape":
		return out(`7`)
	case "null":
		return out(`null`)
	case "nodata":
		return nil
	}
	switch action {
	case "CREATE_TRANSACTION":
		switch kind {
		case "script":
			return out(`{"script":{"plain":` + js(goodScript) + `},` + md + `}`)
		case "script_vars":
			return out(`{"script":{"plain":` + js(varsScript) + `,"vars":{"m":{"asset":"USD","amount":3},"d":"bank"}},` + md + `}`)
		case "script_broken":
			return out(`{"script":{"plain":` + js(brokenScripts[idx%len(brokenScripts)]) + `},` + md + `}`)
		case "script_novars": // compiles; the variables it declares are not given: SetVarsFromJSON refuses
			return out(`{"script":{"plain":` + js(varsScript) + `},` + md + `}`)
		case "both":
			return out(`{` + postings + `,"script":{"plain":` + js(goodScript) + `},` + md + `}`)
		case "both_broken":
			return out(`{` + postings + `,"script":{"plain":` + js(brokenScripts[idx%len(brokenScripts)]) + `},` + md + `}`)
		case "neither":
			return out(`{` + md + `}`)
		case "empty_postings":
			return out(`{"postings":[],` + md + `}`)
		case "script_empty":
			return out(`{"script":{"plain":""},` + md + `}`)
		case "postings_badamount":
			return out(`{"postings":[{"source":"world","destination":"bank","amount":"x","asset":"USD"}],` + md + `}`)
		}
		return out(`{` + postings + `,` + md + `}`)
	case "ADD_METADATA", "DELETE_METADATA":
		rest := md
		if action == "DELETE_METADATA" {
			rest = `"key":"` + is + `"`
		}
		tt, id := `"targetType":"`+target+`",`, `"targetId":"bank",`
		if target == "TRANSACTION" {
			id = `"targetId":1,`
		}
		switch kind {
		case "notarget":
			id = ``
		case "tx_strid":
			tt, id = `"targetType":"TRANSACTION",`, `"targetId":"7",`
		case "tx_fracid":
			tt, id = `"targetType":"TRANSACTION",`, `"targetId":1.5,`
		case "tx_negid":
			tt, id = `"targetType":"TRANSACTION",`, `"targetId":-3,`
		case "tx_bigid":
			tt, id = `"targetType":"TRANSACTION",`, `"targetId":1180591620717411303424,`
		case "tx_nullid":
			tt, id = `"targetType":"TRANSACTION",`, `"targetId":null,`
		case "acct_numid":
			tt, id = `"targetType":"ACCOUNT",`, `"targetId":5,`
		case "acct_emptyid":
			tt, id = `"targetType":"ACCOUNT",`, `"targetId":"",`
		case "acct_objid":
			tt, id = `"targetType":"ACCOUNT",`, `"targetId":{"a":1},`
		case "unknown_target":
			tt, id = `"targetType":"FOO",`, `"targetId":"x",`
		case "lower_target":
			tt, id = `"targetType":"account",`, `"targetId":"bank",`
		case "no_targettype":
			tt = ``
		}
		return out(`{` + tt + id + rest + `}`)
	case "REVERT_TRANSACTION":
		switch kind {
		case "force":
			return out(`{"id":` + is + `,"force":true}`)
		case "at_effective":
			return out(`{"id":` + is + `,"force":false,"atEffectiveDate":true}`)
		case "force_str":
			return out(`{"id":` + is + `,"force":"yes"}`)
		case "strid":
			return out(`{"id":"` + is + `","force":false}`)
		case "fracid":
			return out(`{"id":` + is + `.5,"force":false}`)
		case "noid":
			return out(`{"force":true}`)
		}
		return out(`{"id":` + is + `,"force":false}`)
	}
	// unknown action: any payload
	return out(`{"idx":"` + is + `"}`)
}

// scriptedError: the error value the backend call returns for an outcome name, built as the engine builds it
// (engine.Ledger wraps whatever the commander returns with NewCommandError; the *_raw / internal / storage ones are not wrapped).
func scriptedError(outcome string) error {
	switch outcome {
	case "ok", "":
		return nil
	case "insufficient":
		return engine.NewCommandError(command.NewErrMachine(machine.NewErrInsufficientFund("scripted")))
	case "insufficient_raw":
		return machine.NewErrInsufficientFund("scripted")
	case "machine":
		return engine.NewCommandError(command.NewErrMachine(machine.NewErrNegativeAmount("scripted")))
	case "conflict":
		return engine.NewCommandError(command.NewErrConflict())
	case "nopostings":
		return engine.NewCommandError(command.NewErrNoPostings())
	case "noscript":
		return engine.NewCommandError(command.NewErrNoScript())
	case "compilation":
		return engine.NewCommandError(command.NewErrCompilationFailed(errors.New("scripted")))
	case "save_notfound":
		return engine.NewCommandError(command.VerifErrSaveMetaNotFound())
	case "del_notfound":
		return engine.NewCommandError(command.VerifErrDeleteMetaNotFound())
	case "revert_notfound":
		return engine.NewCommandError(command.NewErrRevertTransactionNotFound())
	case "already_reverted":
		return engine.NewCommandError(command.NewErrRevertTransactionAlreadyReverted())
	case "revert_occurring":
		return engine.NewCommandError(command.NewErrRevertTransactionOccurring())
	case "validation":
		return engine.NewCommandError(errors.New("scripted validation"))
	case "notfound":
		return engine.NewCommandError(errors.New("scripted not found"))
	}
	return errors.New("scripted " + outcome) // internal, storage
}

// engineFront: what engine.Ledger.CreateTransaction + Commander.exec do with a script before anything else
func engineFront(c writeCall) error {
	if c.Kind != "create" {
		return nil
	}
	if c.Script.Plain == "" {
		return engine.NewCommandError(command.NewErrNoScript())
	}
	prog, err := compiler.Compile(c.Script.Plain)
	if err != nil {
		return engine.NewCommandError(command.NewErrCompilationFailed(err))
	}
	if err := vm.NewMachine(*prog).SetVarsFromJSON(c.Script.Vars); err != nil {
		return engine.NewCommandError(command.NewErrCompilationFailed(err))
	}
	return nil
}

// spellings of ?continueOnFailure= a client may send (sharedapi.QueryParamBool: lower-cased "1" or "true" switch it on)
var contSpellings = []string{"true", "TRUE", "True", "1", "false", "FALSE", "False", "0", "no", "NO", "yes", "off", "on", "", "<bare>", "t", "f", "01", " true", "true ", "null", "continueOnFailure"}

func callIdx(c writeCall) int {
	num := func(s string, ok bool) int {
		if !ok {
			return -1
		}
		n, err := strconv.Atoi(s)
		if err != nil {
			return -1
		}
		return n
	}
	switch c.Kind {
	case "create":
		v, ok := c.Script.Metadata["idx"]
		return num(v, ok)
	case "savemeta":
		v, ok := c.Meta["idx"]
		return num(v, ok)
	case "revert":
		if c.ID == nil {
			return -1
		}
		return int(c.ID.Int64())
	case "deletemeta":
		return num(c.Key, true)
	}
	return -1
}

func execBulk(in J) J {
	elems, _ := in["elems"].([]any)
	cont, _ := in["cont"].(bool)
	outcomes := map[int]string{}
	anonymous := map[string]int{} // call kind -> position of the element whose call cannot name it (see bulkAnonymous)
	var body bytes.Buffer
	body.WriteString("[")
	for i, ea := range elems {
		e := ea.(map[string]any)
		action, _ := e["action"].(string)
		kind, _ := e["data"].(string)
		outcomes[i], _ = e["outcome"].(string)
		ik, _ := e["ik"].(string)
		target := "ACCOUNT"
		if i%2 == 1 {
			target = "TRANSACTION"
		}
		if i > 0 {
			body.WriteString(",")
		}
		if k := bulkAnonymous(action, kind); k != "" {
			anonymous[k] = i
		}
		ab, _ := json.Marshal(action)
		kb, _ := json.Marshal(ik)
		if d := bulkData(action, kind, i, target); d != nil {
			fmt.Fprintf(&body, `{"action":%s,"ik":%s,"data":%s}`, ab, kb, *d)
		} else {
			fmt.Fprintf(&body, `{"action":%s,"ik":%s}`, ab, kb)
		}
	}
	body.WriteString("]")
	if b, _ := in["broken"].(bool); b { // the body as a whole is not JSON: the request is rejected before ProcessBulk
		body.Truncate(body.Len() - 1)
	}

	elemOf := func(c writeCall) int {
		if i := callIdx(c); i >= 0 {
			return i
		}
		if i, ok := anonymous[c.Kind]; ok {
			return i
		}
		return -1
	}
	fl := &fakeLedger{}
	var callOK []bool
	fl.decide = func(c writeCall) error {
		err := engineFront(c)
		if err == nil {
			err = scriptedError(outcomes[elemOf(c)])
		}
		callOK = append(callOK, err == nil)
		return err
	}
	router := v2.NewRouter(&fakeBackend{l: fl}, nil, metrics.NewNoOpRegistry(), auth.NewNoAuth())
	url := "/ledger0/_bulk"
	if raw, ok := in["cont_raw"].(string); ok {
		if raw == "<bare>" {
			url += "?continueOnFailure"
		} else {
			url += "?continueOnFailure=" + neturl.QueryEscape(raw)
		}
	} else if cont {
		url += "?continueOnFailure=true"
	}
	req := httptest.NewRequest(http.MethodPost, url, bytes.NewReader(body.Bytes()))
	if h, _ := in["hdr_ik"].(string); h != "" {
		req.Header.Set("Idempotency-Key", h)
	}
	rec := httptest.NewRecorder()
	router.ServeHTTP(rec, req)

	out := J{"status": rec.Code}
	var resp struct {
		Data *[]struct {
			ErrorCode    string `json:"errorCode"`
			ResponseType string `json:"responseType"`
		} `json:"data"`
	}
	results, codes := []any{}, []any{}
	if err := json.Unmarshal(rec.Body.Bytes(), &resp); err != nil {
		out["decoded"] = false
	} else {
		out["decoded"] = true
		if resp.Data != nil {
			for _, r := range *resp.Data {
				results = append(results, r.ResponseType)
				codes = append(codes, r.ErrorCode)
			}
		}
	}
	out["results"], out["codes"] = results, codes
	calls := []any{}
	for k, c := range fl.writes {
		calls = append(calls, J{"idx": elemOf(c), "kind": c.Kind, "ik": c.Params.IdempotencyKey, "dry": c.Params.DryRun,
			"ok": k < len(callOK) && callOK[k], "force": c.Force})
	}
	out["calls"] = calls
	_ = command.Parameters{}
	return out
}
