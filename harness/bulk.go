package main

// Area "bulk" (C18): the real v2 router -> bulkHandler -> ProcessBulk over the scripted fake backend.
//
// input : {"cont":bool, "elems":[{"action":A, "data":"good|badfield|wrongshape|notarget", "outcome":"ok|insufficient|validation|notfound|internal", "ik":s}]}
// output: {"status":int, "results":[responseType…], "codes":[errorCode…], "calls":[{"idx":i,"kind":k,"ik":s}], "decoded":bool}

import (
	"bytes"
	"encoding/json"
	"errors"
	"fmt"
	"net/http"
	"net/http/httptest"
	neturl "net/url"
	"strconv"

	v2 "github.com/formancehq/ledger/internal/api/v2"
	"github.com/formancehq/ledger/internal/engine"
	"github.com/formancehq/ledger/internal/engine/command"
	"github.com/formancehq/ledger/internal/machine"
	"github.com/formancehq/ledger/internal/opentelemetry/metrics"
	"github.com/formancehq/stack/libs/go-libs/auth"
)

var bulkActions = []string{"CREATE_TRANSACTION", "ADD_METADATA", "REVERT_TRANSACTION", "DELETE_METADATA"}

func init() {
	register("bulk", &area{gen: genBulk, exec: execBulk})
}

func genBulk(r *rng, n int, tier string, emit func(J)) {
	maxLen := 5
	if tier == "thorough" {
		maxLen = 8
	}
	// corpus-like fixed cases first
	emit(J{"cont": false, "elems": []any{}})
	for i := 0; i < n; i++ {
		l := 1 + r.n(maxLen)
		elems := make([]any, 0, l)
		for k := 0; k < l; k++ {
			e := J{"action": r.pick(bulkActions), "data": "good", "outcome": "ok", "ik": ""}
			switch r.n(12) {
			case 0:
				e["action"] = r.pick([]string{"UNKNOWN", "", "create_transaction", "REVERT"})
			case 1:
				e["data"] = r.pick([]string{"badfield", "wrongshape", "notarget"})
				if a := e["action"].(string); e["data"] == "notarget" && a != "ADD_METADATA" && a != "DELETE_METADATA" {
					e["data"] = "wrongshape" // a missing targetId only exists for the metadata actions
				}
			case 2, 3:
				e["outcome"] = r.pick([]string{"insufficient", "validation", "notfound", "internal"})
			}
			if r.p(30) {
				e["ik"] = fmt.Sprintf("k%d", r.n(3))
			}
			elems = append(elems, e)
		}
		hdr := ""
		if r.p(30) { // a request-level Idempotency-Key header must not leak into the elements
			hdr = fmt.Sprintf("hk%d", r.n(2))
		}
		q := J{"cont": r.p(50), "elems": elems, "broken": r.p(3), "hdr_ik": hdr}
		if r.p(35) { // the flag as the client spelled it; "cont" is then ignored (the model reads the spelling)
			q["cont_raw"] = r.pick(contSpellings)
		}
		emit(q)
	}
}

func bulkData(action, kind string, idx int, target string) string {
	switch kind {
	case "badfield": // valid JSON, but a field of the wrong type for the request struct of every action
		return `{"postings":"x","id":"abc","targetType":5,"force":"no"}`
	case "wrongshape":
		return `7`
	}
	is := strconv.Itoa(idx)
	switch action {
	case "CREATE_TRANSACTION":
		return `{"postings":[{"source":"world","destination":"bank","amount":1,"asset":"USD"}],"metadata":{"idx":"` + is + `"}}`
	case "ADD_METADATA":
		if kind == "notarget" {
			return `{"targetType":"` + target + `","metadata":{"idx":"` + is + `"}}`
		}
		if target == "TRANSACTION" {
			return `{"targetType":"TRANSACTION","targetId":1,"metadata":{"idx":"` + is + `"}}`
		}
		return `{"targetType":"ACCOUNT","targetId":"bank","metadata":{"idx":"` + is + `"}}`
	case "REVERT_TRANSACTION":
		return `{"id":` + is + `,"force":false}`
	case "DELETE_METADATA":
		if kind == "notarget" {
			return `{"targetType":"` + target + `","key":"` + is + `"}`
		}
		if target == "TRANSACTION" {
			return `{"targetType":"TRANSACTION","targetId":1,"key":"` + is + `"}`
		}
		return `{"targetType":"ACCOUNT","targetId":"bank","key":"` + is + `"}`
	}
	// unknown action: any payload
	return `{"idx":"` + is + `"}`
}

// spellings of ?continueOnFailure= a client may send (sharedapi.QueryParamBool: lower-cased "1" or "true" switch it on)
var contSpellings = []string{"true", "TRUE", "True", "1", "false", "FALSE", "False", "0", "no", "NO", "yes", "off", "on", "", "<bare>", "t", "f", "01", " true", "true ", "null", "continueOnFailure"}

func callIdx(c writeCall) int {
	switch c.Kind {
	case "create":
		n, _ := strconv.Atoi(c.Script.Metadata["idx"])
		return n
	case "savemeta":
		n, _ := strconv.Atoi(c.Meta["idx"])
		return n
	case "revert":
		if c.ID == nil {
			return -1
		}
		return int(c.ID.Int64())
	case "deletemeta":
		n, _ := strconv.Atoi(c.Key)
		return n
	}
	return -1
}

func execBulk(in J) J {
	elems, _ := in["elems"].([]any)
	cont, _ := in["cont"].(bool)
	outcomes := map[int]string{}
	var body bytes.Buffer
	body.WriteString("[")
	for i, ea := range elems {
		e := ea.(map[string]any)
		action, _ := e["action"].(string)
		kind, _ := e["data"].(string)
		outcomes[i], _ = e["outcome"].(string)
		ik, _ := e["ik"].(string)
		target := "ACCOUNT"
		if i%2 == 1 {
			target = "TRANSACTION"
		}
		if i > 0 {
			body.WriteString(",")
		}
		ab, _ := json.Marshal(action)
		kb, _ := json.Marshal(ik)
		fmt.Fprintf(&body, `{"action":%s,"ik":%s,"data":%s}`, ab, kb, bulkData(action, kind, i, target))
	}
	body.WriteString("]")
	if b, _ := in["broken"].(bool); b { // the body as a whole is not JSON: the request is rejected before ProcessBulk
		body.Truncate(body.Len() - 1)
	}

	fl := &fakeLedger{}
	fl.decide = func(c writeCall) error {
		switch outcomes[callIdx(c)] {
		case "ok", "":
			return nil
		case "insufficient":
			return engine.NewCommandError(machine.NewErrInsufficientFund("scripted"))
		case "validation":
			return engine.NewCommandError(errors.New("scripted validation"))
		case "notfound":
			// the not-found classes of the metadata writes; a plain command error for the others
			return engine.NewCommandError(errors.New("scripted not found"))
		default:
			return errors.New("scripted internal")
		}
	}
	router := v2.NewRouter(&fakeBackend{l: fl}, nil, metrics.NewNoOpRegistry(), auth.NewNoAuth())
	url := "/ledger0/_bulk"
	if raw, ok := in["cont_raw"].(string); ok {
		if raw == "<bare>" {
			url += "?continueOnFailure"
		} else {
			url += "?continueOnFailure=" + neturl.QueryEscape(raw)
		}
	} else if cont {
		url += "?continueOnFailure=true"
	}
	req := httptest.NewRequest(http.MethodPost, url, bytes.NewReader(body.Bytes()))
	if h, _ := in["hdr_ik"].(string); h != "" {
		req.Header.Set("Idempotency-Key", h)
	}
	rec := httptest.NewRecorder()
	router.ServeHTTP(rec, req)

	out := J{"status": rec.Code}
	var resp struct {
		Data *[]struct {
			ErrorCode    string `json:"errorCode"`
			ResponseType string `json:"responseType"`
		} `json:"data"`
	}
	results, codes := []any{}, []any{}
	if err := json.Unmarshal(rec.Body.Bytes(), &resp); err != nil {
		out["decoded"] = false
	} else {
		out["decoded"] = true
		if resp.Data != nil {
			for _, r := range *resp.Data {
				results = append(results, r.ResponseType)
				codes = append(codes, r.ErrorCode)
			}
		}
	}
	out["results"], out["codes"] = results, codes
	calls := []any{}
	for _, c := range fl.writes {
		calls = append(calls, J{"idx": callIdx(c), "kind": c.Kind, "ik": c.Params.IdempotencyKey, "dry": c.Params.DryRun})
	}
	out["calls"] = calls
	_ = command.Parameters{}
	return out
}
