package main

// Area "nsbytecode" (C08, C12 — model A2): the same generated programs as area "numscript", but the output shows the
// COMPILED PROGRAM (instruction bytes, resource table with type tags, NeededBalances, Sources) next to the outcome of
// the real pipeline.  The Lean side prints `Compile.compile` + `encode` and `VM.run` of the compiled model program.
//
// input : as area "numscript"
// output: {"compile":"error"} |
//         {"compile":{"code":hex,"res":[…],"needed":[[acct,[addr…]]…],"sources":[…]}, "run":{…as numscript… | "panic":msg}}

import (
	"encoding/hex"
	"sort"

	"github.com/formancehq/ledger/internal/machine"
	"github.com/formancehq/ledger/internal/machine/script/compiler"
	"github.com/formancehq/ledger/internal/machine/vm/program"
)

func init() {
	register("nsbytecode", &area{gen: genNumscript, exec: execNsBytecode})
}

func renderResource(r program.Resource) []any {
	switch r := r.(type) {
	case program.Constant:
		s, err := machine.NewStringFromValue(r.Inner)
		if err != nil {
			s = "?" + err.Error()
		}
		return []any{"const", int(r.Inner.GetType()), s}
	case program.Variable:
		return []any{"var", int(r.Typ), r.Name}
	case program.VariableAccountMetadata:
		return []any{"meta", int(r.Typ), r.Name, int(r.Account), r.Key}
	case program.VariableAccountBalance:
		return []any{"balance", r.Name, int(r.Account), int(r.Asset)}
	case program.Monetary:
		return []any{"mon", int(r.Asset), r.Amount.String()}
	}
	return []any{"unknown"}
}

func renderProgram(p *program.Program) J {
	res := []any{}
	for _, r := range p.Resources {
		res = append(res, renderResource(r))
	}
	accts := []int{}
	for a := range p.NeededBalances {
		accts = append(accts, int(a))
	}
	sort.Ints(accts)
	needed := []any{}
	for _, a := range accts {
		as := []int{}
		for x := range p.NeededBalances[machine.Address(a)] {
			as = append(as, int(x))
		}
		sort.Ints(as)
		needed = append(needed, []any{a, as})
	}
	srcs := []int{}
	for _, a := range p.Sources {
		srcs = append(srcs, int(a)) // already sorted by CompileFull; printed as they are
	}
	return J{"code": hex.EncodeToString(p.Instructions), "res": res, "needed": needed, "sources": srcs}
}

func execNsBytecode(in J) J {
	text, _ := in["text"].(string)
	prog, err := compiler.Compile(text)
	if err != nil {
		return J{"compile": "error"}
	}
	out := J{"compile": renderProgram(prog)}
	out["run"] = safeExec(func(J) J { return runCompiled(prog, text, in) }, in)
	return out
}
