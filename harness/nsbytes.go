package main

// Area "nsbytes" (C12): byte strings offered as scripts to the real lexer/parser/compiler, under a watchdog.

import (
	"encoding/base64"
	"strings"
	"time"

	"github.com/formancehq/ledger/internal/machine/script/compiler"
)

func init() { register("nsbytes", &area{gen: genNsBytes, exec: execNsBytes}) }

var nsTokens = []string{"vars", "{", "}", "\n", "send", "[", "]", "(", ")", "source", "=", "destination", "@a", "@world", "USD", "USD/2", "10", "*",
	"max", "from", "to", "kept", "remaining", "allowing overdraft up to", "allowing unbounded overdraft", "1/2", "50%", "$x", "account", "monetary",
	"portion", "meta", "balance", ",", "\"k\"", "set_tx_meta", "set_account_meta", "save", "print", "fail", "+", "-", "//c\n", "/*", "*/", " ", "\t", "\r\n", "%", "allocate"}

func genNsBytes(r *rng, n int, tier string, emit func(J)) {
	valid := []string{
		"send [USD 10] (\n  source = @a\n  destination = @b\n)\n",
		"vars {\n  account $x\n  monetary $m = balance($x, USD)\n}\nsend $m (\n  source = {\n    max [USD 1] from $x\n    @world\n  }\n  destination = {\n    50% to @b\n    remaining kept\n  }\n)\n",
		"save [USD *] from @a\nset_tx_meta(\"k\", 1/2)\nprint 1 + 2\nfail\n",
	}
	for i := 0; i < n; i++ {
		var s string
		switch r.n(4) {
		case 0: // token soup
			k := 1 + r.n(40)
			var sb strings.Builder
			for j := 0; j < k; j++ {
				sb.WriteString(r.pick(nsTokens))
				if r.p(70) {
					sb.WriteString(" ")
				}
			}
			s = sb.String()
		case 1: // mutated valid program: drop / duplicate / swap a chunk
			b := []byte(r.pick(valid))
			for m := 0; m < 1+r.n(3); m++ {
				if len(b) < 4 {
					break
				}
				i0, l := r.n(len(b)-2), 1+r.n(3)
				if i0+l > len(b) {
					l = len(b) - i0
				}
				switch r.n(3) {
				case 0:
					b = append(b[:i0], b[i0+l:]...)
				case 1:
					b = append(b[:i0+l], b[i0:]...)
				default:
					b[i0] = byte(r.n(256))
				}
			}
			s = string(b)
		case 2: // truncated
			v := r.pick(valid)
			s = v[:r.n(len(v)+1)]
		default: // random bytes
			k := r.n(64)
			b := make([]byte, k)
			for j := range b {
				b[j] = byte(r.n(256))
			}
			s = string(b)
		}
		if r.p(15) {
			s = strings.ReplaceAll(s, "\n", "\r\n")
		}
		emit(J{"b64": base64.StdEncoding.EncodeToString([]byte(s))})
	}
}

func execNsBytes(in J) J {
	raw, _ := base64.StdEncoding.DecodeString(in["b64"].(string))
	done := make(chan J, 1)
	go func() {
		done <- safeExec(func(J) J {
			_, err := compiler.Compile(string(raw))
			if err != nil {
				_ = err.Error() // reporting the error is part of answering: rendering it must not crash either
			}
			return J{"ok": err == nil}
		}, in)
	}()
	select {
	case o := <-done:
		return o
	case <-time.After(10 * time.Second):
		return J{"hang": true}
	}
}
