package main

// Area "engine": the REAL command.Commander (real Referencer, compiler cache, VM, Batcher and job.Runner) driven by a
// deterministic scheduler.  Every request runs in its own goroutine and parks at every verifhook.Yield; exactly one
// goroutine runs between two scheduling decisions.  The store keeps the durable log and derives every view from it by
// a fold; InsertLogs is a gate owned by the scheduler (persistence latency is a scheduling choice) and can be made to
// fail.  The account locker is scheduler-native: it implements the lock contract proved for the real DefaultLocker
// under C15 (exclusion, FIFO recheck on release), so that blocking is a scheduler state and not a timing matter.
//
// input : {"requests":[…], "funding":[[acct,asset,amount]…], "metadata":[[acct,key,val]…], "plans":[{"seed":n,"crash":k|-1,"fail":k|-1,"plan":[…]}…]}
// output: {"runs":[{"trace":[…],"durable":[…],"responses":[…],"events":[…],…}…]}

import (
	"context"
	"crypto/sha256"
	"encoding/hex"
	"encoding/json"
	"fmt"
	"math/big"
	"os"
	"runtime"
	"sort"
	"strings"
	"sync"
	"time"

	"bytes"
	"github.com/ThreeDotsLabs/watermill/message"
	ledger "github.com/formancehq/ledger/internal"
	"github.com/formancehq/ledger/internal/bus"
	"github.com/formancehq/ledger/internal/engine/command"
	"github.com/formancehq/ledger/internal/machine"
	"github.com/formancehq/ledger/internal/storage/sqlutils"
	"github.com/formancehq/ledger/internal/verifhook"
	"github.com/formancehq/stack/libs/go-libs/logging"
	"github.com/formancehq/stack/libs/go-libs/metadata"
)

func init() {
	register("engine", &area{gen: genEngine, exec: execEngine})
}

const actorP = -1 // the persister (the InsertLogs gate)

// engWatchdogs counts the runs in which the scheduler's prediction of who arrives next was wrong (an arrival it waited
// for never came: a "stall").  Each costs a time limit; after a few of them the limit of this process is shortened.  A
// stalled run is carried on and judged like every other run (and flagged).
var engWatchdogs int

func engStallLimit() time.Duration {
	switch {
	case engWatchdogs >= 12: // … and it is not the machine: a dozen runs stalled (a whole check costs hours otherwise)
		return 40 * time.Millisecond
	case engWatchdogs >= 3: // this process has met a protocol the scheduler does not predict: do not burn the full limit every time
		return 300 * time.Millisecond
	}
	return 4 * time.Second
}

// ------------------------------------------------------------------ store: durable log + folds

type engStore struct {
	mu       sync.Mutex
	logs     []*ledger.ChainedLog // durable, in insertion order, across commander generations
	real     *lsStore             // a REAL ledgerstore.Store over the logs table of logstore.go: every entry that becomes durable is written by its InsertLogs
	rowOf    []int                // logs[i] is row rowOf[i] of that table (-1: the real InsertLogs did not write it)
	written  []J                  // logs[i] as it was when it was handed to InsertLogs (canonical dump)
	realErr  []string             // what the real InsertLogs answered when it did not write
	ameta    map[string]metadata.Metadata
	gate     func(logs []*ledger.ChainedLog) error // scheduler gate; nil = pass
	reads    int
	note     func(ctx context.Context, e J) // records a store read in the trace of the current schedule
	failRead int                            // > 0: the failRead-th keyed lookup (idempotency key / reference) answers a transient error
	failAny  int                            // > 0: the failAny-th lookup of ANY kind (idempotency key / reference / transaction by id) answers a transient error
}

var errTransient = fmt.Errorf("injected transient store error")

func (st *engStore) readFault(ctx context.Context, what string) bool {
	if what != "tx" && st.failRead > 0 { // (the older injection counts the keyed lookups only: its plans mean what they meant)
		st.failRead--
		if st.failRead == 0 {
			st.rec(ctx, J{"store": "fault", "what": what})
			return true
		}
	}
	if st.failAny > 0 { // wherever the code reads: a lookup placed between the persistence wait and the publication is hit like any other
		st.failAny--
		if st.failAny == 0 {
			st.rec(ctx, J{"store": "fault", "what": what})
			return true
		}
	}
	return false
}

func (st *engStore) rec(ctx context.Context, e J) {
	if st.note != nil {
		st.note(ctx, e)
	}
}

func (st *engStore) txs() []*ledger.ExpandedTransaction {
	var r []*ledger.ExpandedTransaction
	byID := map[string]*ledger.ExpandedTransaction{}
	for _, l := range st.logs {
		switch p := l.Data.(type) {
		case ledger.NewTransactionLogPayload:
			t := &ledger.ExpandedTransaction{Transaction: *p.Transaction}
			t.Metadata = p.Transaction.Metadata.Copy()
			r = append(r, t)
			byID[t.ID.String()] = t
		case ledger.RevertedTransactionLogPayload:
			if o, ok := byID[p.RevertedTransactionID.String()]; ok {
				o.Reverted = true
			}
			t := &ledger.ExpandedTransaction{Transaction: *p.RevertTransaction}
			t.Metadata = p.RevertTransaction.Metadata.Copy()
			r = append(r, t)
			byID[t.ID.String()] = t
		case ledger.SetMetadataLogPayload:
			if p.TargetType == ledger.MetaTargetTypeTransaction {
				if o, ok := byID[fmt.Sprint(p.TargetID)]; ok {
					for k, v := range p.Metadata {
						o.Metadata[k] = v
					}
				}
			}
		case ledger.DeleteMetadataLogPayload:
			if p.TargetType == ledger.MetaTargetTypeTransaction {
				if o, ok := byID[fmt.Sprint(p.TargetID)]; ok {
					delete(o.Metadata, p.Key)
				}
			}
		}
	}
	return r
}

func (st *engStore) GetBalance(ctx context.Context, address, asset string) (*big.Int, error) {
	st.mu.Lock()
	defer st.mu.Unlock()
	st.reads++
	b := new(big.Int)
	for _, t := range st.txs() {
		for _, p := range t.Postings {
			if p.Asset != asset {
				continue
			}
			if p.Source == address {
				b.Sub(b, p.Amount)
			}
			if p.Destination == address {
				b.Add(b, p.Amount)
			}
		}
	}
	st.rec(ctx, J{"store": "balance", "acct": address, "asset": asset, "value": b.String()})
	return b, nil
}

func (st *engStore) GetAccount(ctx context.Context, address string) (*ledger.Account, error) {
	st.mu.Lock()
	defer st.mu.Unlock()
	md := metadata.Metadata{}
	for k, v := range st.ameta[address] {
		md[k] = v
	}
	for _, l := range st.logs {
		switch p := l.Data.(type) {
		case ledger.NewTransactionLogPayload:
			for k, v := range p.AccountMetadata[address] {
				md[k] = v
			}
		case ledger.SetMetadataLogPayload:
			if p.TargetType == ledger.MetaTargetTypeAccount && fmt.Sprint(p.TargetID) == address {
				for k, v := range p.Metadata {
					md[k] = v
				}
			}
		case ledger.DeleteMetadataLogPayload:
			if p.TargetType == ledger.MetaTargetTypeAccount && fmt.Sprint(p.TargetID) == address {
				delete(md, p.Key)
			}
		}
	}
	return &ledger.Account{Address: address, Metadata: md}, nil
}

func (st *engStore) InsertLogs(ctx context.Context, logs ...*ledger.ChainedLog) error {
	if st.gate != nil {
		if err := st.gate(logs); err != nil {
			return err
		}
	}
	st.mu.Lock()
	st.persist(logs...)
	st.mu.Unlock()
	return nil
}

// persist makes the entries durable: they are appended to the in-memory log the commander reads from, and the SAME call is made on the
// real ledgerstore.Store (one InsertLogs call for the batch, as the batcher's worker makes it), whose COPY arguments are the stored rows.
// What is serialised is the state of each entry at the moment it reaches the store.
func (st *engStore) persist(logs ...*ledger.ChainedLog) {
	if st.real == nil {
		st.real = lsOpen()
	}
	before := st.real.t.n()
	err := st.real.insert(logs...)
	got := st.real.t.n() - before
	if err != nil {
		st.realErr = append(st.realErr, err.Error())
	} else if got != len(logs) {
		st.realErr = append(st.realErr, fmt.Sprintf("InsertLogs of %d entries wrote %d rows", len(logs), got))
	}
	for k, l := range logs {
		st.logs = append(st.logs, l)
		st.written = append(st.written, lrDump(l))
		if err == nil && got == len(logs) {
			st.rowOf = append(st.rowOf, before+k)
		} else {
			st.rowOf = append(st.rowOf, -1)
		}
	}
}

func (st *engStore) closeReal() {
	if st.real != nil {
		st.real.close()
	}
}

// stored reads the row of entry i back the way the store does (the row a SELECT hands over scanned into ledgerstore.Logs, Logs.ToCore) and
// recomputes its hash over the previous row read back the same way.  "ok": the row is the entry that was handed to InsertLogs (id, type,
// date, idempotency key, payload, hash) and still verifies (C13 on entries written under concurrency); when it is not, both dumps are given.
func (st *engStore) stored(i int) J {
	if st.rowOf[i] < 0 {
		return J{"ok": false, "error": strings.Join(st.realErr, "; ")}
	}
	cur, err := st.real.t.lsCore(st.rowOf[i])
	if err != nil {
		return J{"ok": false, "panic": err.Error()}
	}
	var prev *ledger.ChainedLog
	if i > 0 && st.rowOf[i-1] >= 0 {
		if prev, err = st.real.t.lsCore(st.rowOf[i-1]); err != nil {
			prev = st.logs[i-1]
		}
	} else if i > 0 {
		prev = st.logs[i-1]
	}
	out := J{"ok": true}
	back := lrDump(cur)
	a, _ := json.Marshal(st.written[i])
	b, _ := json.Marshal(back)
	if !bytes.Equal(a, b) {
		out["ok"], out["written"], out["row"] = false, st.written[i], back
	}
	re := lrGuard(func() J { return J{"h": hex.EncodeToString(cur.Log.ChainLog(prev).Hash)} })
	if h, _ := re["h"].(string); h != st.written[i]["hash"] {
		out["ok"], out["rehash"], out["hash"] = false, re["h"], st.written[i]["hash"]
	}
	return out
}

func (st *engStore) GetLastLog(ctx context.Context) (*ledger.ChainedLog, error) {
	st.mu.Lock()
	defer st.mu.Unlock()
	if len(st.logs) == 0 {
		return nil, sqlutils.ErrNotFound
	}
	return st.logs[len(st.logs)-1], nil
}

func (st *engStore) GetLastTransaction(ctx context.Context) (*ledger.ExpandedTransaction, error) {
	st.mu.Lock()
	defer st.mu.Unlock()
	var last *ledger.ExpandedTransaction
	for _, t := range st.txs() {
		if last == nil || t.ID.Cmp(last.ID) > 0 {
			last = t
		}
	}
	if last == nil {
		return nil, sqlutils.ErrNotFound
	}
	return last, nil
}

func (st *engStore) ReadLogWithIdempotencyKey(ctx context.Context, key string) (*ledger.ChainedLog, error) {
	st.mu.Lock()
	defer st.mu.Unlock()
	if st.readFault(ctx, "ik") {
		return nil, errTransient
	}
	for _, l := range st.logs {
		if l.IdempotencyKey == key {
			st.rec(ctx, J{"store": "ik", "key": key, "found": l.ID.String()})
			return l, nil
		}
	}
	st.rec(ctx, J{"store": "ik", "key": key, "found": nil})
	return nil, sqlutils.ErrNotFound
}

func (st *engStore) GetTransactionByReference(ctx context.Context, ref string) (*ledger.ExpandedTransaction, error) {
	st.mu.Lock()
	defer st.mu.Unlock()
	if st.readFault(ctx, "ref") {
		return nil, errTransient
	}
	for _, t := range st.txs() {
		if t.Reference == ref {
			st.rec(ctx, J{"store": "ref", "ref": ref, "found": true})
			return t, nil
		}
	}
	st.rec(ctx, J{"store": "ref", "ref": ref, "found": false})
	return nil, sqlutils.ErrNotFound
}

func (st *engStore) GetTransaction(ctx context.Context, id *big.Int) (*ledger.Transaction, error) {
	st.mu.Lock()
	defer st.mu.Unlock()
	if st.readFault(ctx, "tx") {
		return nil, errTransient
	}
	for _, t := range st.txs() {
		if t.ID.Cmp(id) == 0 {
			tx := t.Transaction
			st.rec(ctx, J{"store": "tx", "txid": id.String(), "found": true, "reverted": t.Reverted})
			return &tx, nil
		}
	}
	st.rec(ctx, J{"store": "tx", "txid": id.String(), "found": false, "reverted": false})
	return nil, sqlutils.ErrNotFound
}

// ------------------------------------------------------------------ scheduler

type engArrival struct {
	actor int
	point string
	kind  int // 0 parked at a yield, 1 finished, 2 gate arrival
	gen   int // gate arrival: the commander generation whose runner makes the call
	logs  []*ledger.ChainedLog
	resp  J
}

type engLockReq struct {
	actor int
	acc   command.Accounts
}

type engSched struct {
	mu          sync.Mutex
	rmu         sync.RWMutex // guards the resume map (read by request goroutines, written by the scheduler)
	arrive      chan engArrival
	resume      map[int]chan error
	parked      map[int]string
	expect      int // arrivals of requests still to come before the system is quiet
	expectGate  int // batches still to reach the InsertLogs gate (may be negative for a moment: the batch can arrive before its producer parks)
	trace       []any
	events      []J // what reached the publisher behind the real ledgerMonitor, decoded
	ifaceEvents []J // what the commander asked the monitor to announce
	publishing  int // the request inside a call of the monitor (-1 = none)
	gen         int // commander generation (restarts)
	deadGen     map[int]bool

	// scheduler-native account locks
	holders []engLockReq
	queue   []engLockReq

	// mirror of the batcher / runner
	persBusy    bool
	appendOrder []int // actor of the k-th Append of this generation
	persisted   int   // how many of them are durable
	gateBatch   int   // size of the batch at the gate
	waiting     map[int]bool
	lastPoint   map[int]string
	dry         map[int]bool
	actorGen    map[int]int
	lastCommit  *ledger.ChainedLog // the log the next commit must chain onto (harness's own bookkeeping)
}

func (s *engSched) resumeCh(actor int) chan error {
	s.rmu.RLock()
	defer s.rmu.RUnlock()
	return s.resume[actor]
}

func (s *engSched) setResumeCh(actor int) {
	s.rmu.Lock()
	s.resume[actor] = make(chan error)
	s.rmu.Unlock()
}

func (s *engSched) Yield(actor int, point string) {
	ch := s.resumeCh(actor)
	s.arrive <- engArrival{actor: actor, point: point}
	<-ch
}

func accConflict(a, b command.Accounts) bool {
	in := func(x string, l []string) bool {
		for _, y := range l {
			if x == y {
				return true
			}
		}
		return false
	}
	for _, w := range a.Write {
		if in(w, b.Read) || in(w, b.Write) {
			return true
		}
	}
	for _, w := range b.Write {
		if in(w, a.Read) || in(w, a.Write) {
			return true
		}
	}
	return false
}

func (s *engSched) compatible(acc command.Accounts) bool {
	for _, h := range s.holders {
		if accConflict(acc, h.acc) {
			return false
		}
	}
	return true
}

type engActorKey struct{}

// engLocker: Lock is called during the actor's own turn.  If the request is compatible it is granted at once; otherwise
// the actor is queued and reports itself blocked; the releasing actor's unlock re-checks the queue in FIFO order and
// moves every grantable actor to the parked set (it resumes when the scheduler picks it).
type engLocker struct{ s *engSched }

func (l *engLocker) Lock(ctx context.Context, acc command.Accounts) (command.Unlock, error) {
	a := ctx.Value(engActorKey{}).(int)
	s := l.s
	s.mu.Lock()
	s.trace = append(s.trace, J{"a": a, "lock": J{"r": sortedCopy(acc.Read), "w": sortedCopy(acc.Write)}})
	if s.compatible(acc) {
		s.holders = append(s.holders, engLockReq{a, acc})
		s.mu.Unlock()
	} else {
		s.queue = append(s.queue, engLockReq{a, acc})
		s.mu.Unlock()
		ch := s.resumeCh(a)
		s.arrive <- engArrival{actor: a, point: "lock-blocked", kind: 3}
		<-ch
	}
	return func(ctx context.Context) {
		s.mu.Lock()
		defer s.mu.Unlock()
		for i, h := range s.holders {
			if h.actor == a {
				s.holders = append(s.holders[:i:i], s.holders[i+1:]...)
				break
			}
		}
		s.trace = append(s.trace, J{"a": a, "unlock": true})
		q := s.queue
		s.queue = nil
		for _, w := range q {
			if s.compatible(w.acc) {
				s.holders = append(s.holders, w)
				s.parked[w.actor] = "lock-granted"
			} else {
				s.queue = append(s.queue, w)
			}
		}
	}, nil
}

func sortedCopy(xs []string) []string {
	out := append([]string{}, xs...)
	sort.Strings(out)
	return out
}

// Events.  The commander talks to the REAL bus.NewLedgerMonitor; what is judged (run["events"], the "event" entries of
// the trace) is what reaches its message.Publisher, decoded back from the published message.  In front of it sits an
// interface-level recorder (run["events_iface"]: what the commander asked the monitor to announce), so that a monitor
// that drops, alters or invents an announcement is told apart from a commander that never made it.
type engMonitor struct {
	s     *engSched
	st    *engStore
	inner bus.Monitor
}

func (m *engMonitor) rec(ctx context.Context, e J) {
	a := -1
	if x, ok := ctx.Value(engActorKey{}).(int); ok {
		e["a"] = x
		a = x
	}
	m.st.mu.Lock()
	e["durable"] = len(m.st.logs)
	m.st.mu.Unlock()
	m.s.mu.Lock()
	m.s.ifaceEvents = append(m.s.ifaceEvents, e)
	m.s.publishing = a
	m.s.mu.Unlock()
}
func (m *engMonitor) done() {
	m.s.mu.Lock()
	m.s.publishing = -1
	m.s.mu.Unlock()
}
func (m *engMonitor) CommittedTransactions(ctx context.Context, tx ledger.Transaction, am map[string]metadata.Metadata) {
	m.rec(ctx, J{"type": "committed", "tx": txJ(&tx), "ameta": am})
	defer m.done()
	m.inner.CommittedTransactions(ctx, tx, am)
}
func (m *engMonitor) SavedMetadata(ctx context.Context, targetType, id string, md metadata.Metadata) {
	m.rec(ctx, J{"type": "saved_meta", "target_type": targetType, "target": id, "metadata": md})
	defer m.done()
	m.inner.SavedMetadata(ctx, targetType, id, md)
}
func (m *engMonitor) RevertedTransaction(ctx context.Context, reverted, revert *ledger.Transaction) {
	m.rec(ctx, J{"type": "reverted", "reverted": txJ(reverted), "revert": txJ(revert)})
	defer m.done()
	m.inner.RevertedTransaction(ctx, reverted, revert)
}
func (m *engMonitor) DeletedMetadata(ctx context.Context, targetType string, targetID any, key string) {
	m.rec(ctx, J{"type": "deleted_meta", "target_type": targetType, "target": fmt.Sprint(targetID), "key": key})
	defer m.done()
	m.inner.DeletedMetadata(ctx, targetType, targetID, key)
}

// engPublisher is the message.Publisher behind the real ledgerMonitor: every message is decoded (generic JSON, none of the
// repository's types) into the event record the oracles and the Lean `Events` machine consume.
type engPublisher struct {
	s  *engSched
	st *engStore
}

func (p *engPublisher) Close() error { return nil }

func (p *engPublisher) Publish(topic string, msgs ...*message.Message) error {
	for _, m := range msgs {
		e := engDecodeMessage(topic, m.Payload)
		p.st.mu.Lock()
		e["durable"] = len(p.st.logs)
		p.st.mu.Unlock()
		p.s.mu.Lock()
		if a, ok := m.Context().Value(engActorKey{}).(int); ok {
			e["a"] = a
		} else if p.s.publishing >= 0 { // exactly one request runs at a time: the one inside a call of the monitor
			e["a"] = p.s.publishing
		}
		p.s.events = append(p.s.events, e)
		p.s.trace = append(p.s.trace, J{"event": e})
		p.s.mu.Unlock()
	}
	return nil
}

func engTxFromJSON(x any) J {
	m, ok := x.(map[string]any)
	if !ok {
		return nil
	}
	ps := []any{}
	if l, ok := m["postings"].([]any); ok {
		for _, q := range l {
			if pm, ok := q.(map[string]any); ok {
				ps = append(ps, []any{fmt.Sprint(pm["source"]), fmt.Sprint(pm["destination"]), fmt.Sprint(pm["amount"]), fmt.Sprint(pm["asset"])})
			}
		}
	}
	id := "nil"
	if v, ok := m["id"]; ok && v != nil {
		id = fmt.Sprint(v)
	}
	ref := ""
	if v, ok := m["reference"].(string); ok {
		ref = v
	}
	ts := int64(-2)
	if v, ok := m["timestamp"].(string); ok {
		if t, err := time.Parse(time.RFC3339Nano, v); err == nil {
			ts = t.UnixMicro()
			if ts > 1_700_000_000_000_000 {
				ts = -1
			}
		}
	}
	return J{"id": id, "postings": ps, "reference": ref, "metadata": m["metadata"], "ts": ts}
}

func engDecodeMessage(topic string, payload []byte) J {
	var em map[string]any
	dec := json.NewDecoder(bytes.NewReader(payload))
	dec.UseNumber()
	if err := dec.Decode(&em); err != nil {
		return J{"type": "undecodable", "topic": topic, "envelope_ok": false}
	}
	pl, _ := em["payload"].(map[string]any)
	typ, _ := em["type"].(string)
	e := J{"envelope_ok": typ == topic && em["app"] == "ledger" && em["version"] == "v2" && pl != nil && pl["ledger"] == "l"}
	switch typ {
	case "COMMITTED_TRANSACTIONS":
		e["type"] = "committed"
		txs, _ := pl["transactions"].([]any)
		if len(txs) != 1 {
			e["envelope_ok"] = false
		}
		if len(txs) > 0 {
			e["tx"] = engTxFromJSON(txs[0])
		}
		e["ameta"] = pl["accountMetadata"]
	case "REVERTED_TRANSACTION":
		e["type"] = "reverted"
		e["reverted"], e["revert"] = engTxFromJSON(pl["revertedTransaction"]), engTxFromJSON(pl["revertTransaction"])
	case "SAVED_METADATA":
		e["type"] = "saved_meta"
		e["target_type"], e["target"], e["metadata"] = pl["targetType"], fmt.Sprint(pl["targetId"]), pl["metadata"]
	case "DELETED_METADATA":
		e["type"] = "deleted_meta"
		e["target_type"], e["target"], e["key"] = pl["targetType"], fmt.Sprint(pl["targetId"]), pl["key"]
	default:
		e["type"] = "unknown:" + typ
		e["envelope_ok"] = false
	}
	return e
}

func txJ(t *ledger.Transaction) J {
	if t == nil {
		return nil
	}
	ps := []any{}
	for _, p := range t.Postings {
		ps = append(ps, []any{p.Source, p.Destination, p.Amount.String(), p.Asset})
	}
	id := "nil"
	if t.ID != nil {
		id = t.ID.String()
	}
	ts := t.Timestamp.UnixMicro()
	if ts > 1_700_000_000_000_000 { // a timestamp taken from the clock (requests and funding use earlier, fixed ones): not comparable
		ts = -1
	}
	return J{"id": id, "postings": ps, "reference": t.Reference, "metadata": t.Metadata, "ts": ts}
}

// independent recomputation of what ChainLog digests: json(previous hash) ++ json(log with id 0 and hash null)
func engHashOK(prev *ledger.ChainedLog, l *ledger.ChainedLog) bool {
	d := sha256.New()
	enc := json.NewEncoder(d)
	if prev != nil {
		_ = enc.Encode(prev.Hash)
	}
	cp := *l
	cp.ID = big.NewInt(0)
	cp.Hash = nil
	_ = enc.Encode(&cp)
	return hex.EncodeToString(d.Sum(nil)) == hex.EncodeToString(l.Hash)
}

func logJ(prev, l *ledger.ChainedLog) J {
	o := J{"id": l.ID.String(), "type": l.Type.String(), "ik": l.IdempotencyKey, "hash_ok": engHashOK(prev, l), "hash": hex.EncodeToString(l.Hash)}
	switch p := l.Data.(type) {
	case ledger.NewTransactionLogPayload:
		o["tx"] = txJ(p.Transaction)
		o["ameta"] = p.AccountMetadata
	case ledger.RevertedTransactionLogPayload:
		o["tx"] = txJ(p.RevertTransaction)
		o["reverted"] = p.RevertedTransactionID.String()
	case ledger.SetMetadataLogPayload:
		o["target_type"], o["target"], o["metadata"] = p.TargetType, fmt.Sprint(p.TargetID), p.Metadata
	case ledger.DeleteMetadataLogPayload:
		o["target_type"], o["target"], o["key"] = p.TargetType, fmt.Sprint(p.TargetID), p.Key
	}
	return o
}

func engClassify(err error) string {
	switch {
	case err == nil:
		return ""
	case machine.IsInsufficientFundError(err):
		return "insufficient_funds"
	case command.IsErrMachine(err):
		return "machine:" + nsClassify(err)
	case command.IsInvalidTransactionError(err, command.ErrInvalidTransactionCodeConflict):
		return "conflict"
	case command.IsInvalidTransactionError(err, command.ErrInvalidTransactionCodeNoPostings):
		return "no_postings"
	case command.IsInvalidTransactionError(err, command.ErrInvalidTransactionCodeCompilationFailed):
		return "compilation_failed"
	case command.IsInvalidTransactionError(err, command.ErrInvalidTransactionCodeNoScript):
		return "no_script"
	case command.IsRevertError(err, command.ErrRevertTransactionCodeAlreadyReverted):
		return "already_reverted"
	case command.IsRevertError(err, command.ErrRevertTransactionCodeOccurring):
		return "revert_occurring"
	case command.IsRevertError(err, command.ErrRevertTransactionCodeNotFound):
		return "not_found"
	case command.IsSaveMetaError(err, command.ErrSaveMetaCodeTransactionNotFound), command.IsDeleteMetaError(err, command.ErrSaveMetaCodeTransactionNotFound):
		return "not_found"
	case strings.Contains(err.Error(), "already taken"):
		return "ik_taken"
	}
	return "other:" + err.Error()
}

// ------------------------------------------------------------------ one run of one schedule

type engReq struct {
	Kind   string `json:"kind"` // create | revert | setmeta | delmeta
	Phase  int    `json:"phase"`
	Dry    bool   `json:"dry"`
	IK     string `json:"ik"`
	Ref    string `json:"ref"`
	Src    string `json:"src"`
	Via    string `json:"via"` // lit | var | meta | alias | aliasmeta (the last two: source named by the literal AND, again, by a variable that is no source)
	Over   *int64 `json:"over"`
	Amount int64  `json:"amount"`
	Dst    string `json:"dst"`
	Target int64  `json:"target"` // revert / tx metadata: transaction id
	Force  bool   `json:"force"`
	Acct   string `json:"acct"` // account metadata target ("" = transaction target)
	Key    string `json:"key"`
	Val    string `json:"val"`
	TS     int64  `json:"ts"`
	Sends  int    `json:"sends"` // > 1: the script has this many sends (source -> m0, m1, …), one transaction with many postings
	Pass   int64  `json:"pass"`  // > 0: a chained transaction, two postings: world -> src `amount`, then src -> dst `pass`
	Empty  bool   `json:"empty"` // setmeta: the metadata map of the request is EMPTY (key / val are not sent)
}

func (r engReq) script() ledger.RunScript {
	vars := map[string]string{}
	var sb strings.Builder
	src := "@" + r.Src
	switch r.Via {
	case "var":
		sb.WriteString("vars {\n  account $s\n}\n")
		vars["s"] = r.Src
		src = "$s"
	case "meta":
		sb.WriteString("vars {\n  account $s = meta(@registry, \"" + r.Src + "\")\n}\n")
		src = "$s"
	}
	od := ""
	if r.Over != nil {
		od = fmt.Sprintf(" allowing overdraft up to [USD %d]", *r.Over)
	}
	if r.Via == "alias" || r.Via == "aliasmeta" {
		// the debited account is named twice: by the literal in source position, and by a variable (declared first, so
		// its resource index is the lower one) which is only ever a destination.  Two postings: src -> dst, world -> src.
		if r.Via == "alias" {
			sb.WriteString("vars {\n  account $back\n}\n")
			vars["back"] = r.Src
		} else {
			sb.WriteString("vars {\n  account $back = meta(@registry, \"" + r.Src + "\")\n}\n")
		}
		fmt.Fprintf(&sb, "send [USD %d] (\n  source = @%s%s\n  destination = @%s\n)\n", r.Amount, r.Src, od, r.Dst)
		sb.WriteString("send [USD 1] (\n  source = @world\n  destination = $back\n)\n")
	} else if r.Pass > 0 {
		// the middle account receives `amount` and passes `pass` on (the revert of this transaction credits it `pass` first and
		// then debits it `amount`)
		fmt.Fprintf(&sb, "send [USD %d] (\n  source = @world\n  destination = %s\n)\n", r.Amount, src)
		fmt.Fprintf(&sb, "send [USD %d] (\n  source = %s%s\n  destination = @%s\n)\n", r.Pass, src, od, r.Dst)
	} else if r.Sends > 1 {
		for i := 0; i < r.Sends; i++ {
			fmt.Fprintf(&sb, "send [USD %d] (\n  source = %s%s\n  destination = @m%d\n)\n", r.Amount+int64(i), src, od, i)
		}
	} else {
		fmt.Fprintf(&sb, "send [USD %d] (\n  source = %s%s\n  destination = @%s\n)\n", r.Amount, src, od, r.Dst)
	}
	rs := ledger.RunScript{Script: ledger.Script{Plain: sb.String(), Vars: vars}, Reference: r.Ref, Metadata: metadata.Metadata{}}
	if r.TS != 0 {
		rs.Timestamp = ledger.Time{Time: time.UnixMicro(r.TS).UTC()}
	}
	return rs
}

type engPlan struct {
	Seed            uint64 `json:"seed"`
	Crash           int    `json:"crash"`             // crash before scheduling step k (-1 = never)
	Fail            int    `json:"fail"`              // the k-th gate release fails (-1 = never)
	Plan            []int  `json:"plan"`              // explicit choices (then seeded random, or always the first when First is set)
	Coarse          bool   `json:"coarse"`            // only switch at visible steps
	CrashAfterPhase int    `json:"crash_after_phase"` // stop and re-initialise once this phase is over (-1 / absent+flag = never)
	HasCrashAfter   bool   `json:"has_crash_after"`
	FailRead        int    `json:"fail_read"`  // > 0: the k-th keyed store lookup answers a transient error
	SlowStore       bool   `json:"slow_store"` // the store answers InsertLogs only when nothing else can run (longest persistence latency)
	Cancel          int    `json:"cancel"`     // > 0: from scheduling step k on, the context of one request waiting for persistence is cancelled
	CancelReq       int    `json:"cancel_req"` // > 0: … of THIS request (index + 1), once it waits; 0: of the first one that waits
	First           bool   `json:"first"`      // beyond the explicit prefix take the first enabled actor (used by the exhaustive search)
	DFS             int    `json:"dfs"`        // > 0: enumerate every schedule (depth-first over the choices), at most this many
	// Goals: a directed prefix of the schedule.  Each goal names a request and where it is to be brought: parked at that yield
	// point, "waiting" (resumed from "wait": blocked on the persistence of its own log) or "finish" (answered).  While the first
	// goal is not reached its request is the one that runs; when it cannot run and a batch is inside InsertLogs, the store answers
	// (whatever SlowStore says); when it cannot be helped (queued for its locks, crashed) the goal is dropped.  Once the goals are
	// used up the schedule goes on as the rest of the plan says.  Goal-driven steps are not recorded in choices / counts.
	Goals []engGoal `json:"goals"`
	// CloseAt > 0: from scheduling step k on, the first time a batch is INSIDE InsertLogs (the gate is closed), the commander is
	// stopped gracefully (Commander.Close, in a goroutine of its own) and a new one is initialised on the same store ("restart
	// without death").  On the unchanged code Close returns only after that InsertLogs has returned: the harness sees that Close is
	// still out, lets the store answer, waits for Close, and re-initialises (trace: close, gate, close_returned "after-insert", crash).
	// A Close that comes back while the insert is still held is recorded (close_returned "while-insert-in-flight"); the new commander
	// is initialised at once, the next phase runs, and only then the held insert of the stopped commander is let through (late_insert).
	CloseAt int `json:"close"`
	// CloseAfterGoals: the graceful stop waits until the directed prefix is used up (so that the goals can bring a SECOND request's
	// log into the batcher's pending list behind the batch that is inside InsertLogs)
	CloseAfterGoals bool `json:"close_after_goals"`
	// FailAnyRead > 0: the k-th lookup of any kind (idempotency key, reference, transaction by id — wherever the code makes it)
	// answers a transient error
	FailAnyRead int `json:"fail_any_read"`
	// Twin: this plan is also run on the history WITHOUT its previews (C14; for plans whose schedule is entirely directed: the goals
	// are carried over, request indices renumbered).  TwinReal (also a field of the scenario): … and on the history in which ONE
	// preview is submitted as the real write, same plan (C14: a preview answers what the real write would answer in its position)
	Twin     bool `json:"twin"`
	TwinReal bool `json:"twin_real"`
}

type engGoal struct {
	Req   int    `json:"req"`
	Until string `json:"until"`
}

var engVisible = map[string]bool{"start": true, "ik-lookup": true, "ref-lookup": true, "lock": true, "read-balances": true, "alloc-txid": true,
	"chain": true, "handoff": true, "commit": true, "wait": true, "done": true, "revert-lookup": true, "lock-granted": true, "resolve": true}

func runEngineSchedule(reqs []engReq, funding [][]string, ameta [][]string, plan engPlan) (out J) {
	st := &engStore{ameta: map[string]metadata.Metadata{}, failRead: plan.FailRead, failAny: plan.FailAnyRead}
	defer st.closeReal()
	for _, m := range ameta {
		if st.ameta[m[0]] == nil {
			st.ameta[m[0]] = metadata.Metadata{}
		}
		st.ameta[m[0]][m[1]] = m[2]
	}
	// initial funding: a chain of world -> account transactions, built by hand (not through the commander)
	var prev *ledger.ChainedLog
	for i, f := range funding {
		amt, _ := new(big.Int).SetString(f[2], 10)
		tx := ledger.NewTransaction().WithPostings(ledger.NewPosting("world", f[0], f[1], amt)).WithID(big.NewInt(int64(i))).
			WithDate(ledger.Time{Time: time.UnixMicro(1_600_000_000_000_000 + int64(i)).UTC()})
		l := ledger.NewTransactionLogWithDate(tx, map[string]metadata.Metadata{}, tx.Timestamp).ChainLog(prev)
		st.persist(l)
		prev = l
	}
	nFunding := len(st.logs)
	initialLast := prev

	s := &engSched{arrive: make(chan engArrival, 256), resume: map[int]chan error{}, parked: map[int]string{}, waiting: map[int]bool{},
		lastPoint: map[int]string{}, dry: map[int]bool{}, actorGen: map[int]int{}, deadGen: map[int]bool{}}
	s.setResumeCh(actorP)
	r := &rng{s: plan.Seed*0x9e3779b97f4a7c15 + 7}
	ctx0 := logging.TestingContext()
	s.publishing = -1
	mon := &engMonitor{s: s, st: st, inner: bus.NewLedgerMonitor(&engPublisher{s: s, st: st}, "l")}
	var cmd *command.Commander
	gateFails := 0
	st.note = func(ctx context.Context, e J) {
		if a, ok := ctx.Value(engActorKey{}).(int); ok {
			e["a"] = a
			s.mu.Lock()
			s.trace = append(s.trace, e)
			s.mu.Unlock()
		}
	}
	newCommander := func() {
		gen := s.gen
		st.gate = func(logs []*ledger.ChainedLog) error {
			ch := s.resumeCh(actorP)
			s.arrive <- engArrival{actor: actorP, kind: 2, logs: logs, gen: gen}
			// a gate call of a dead generation is never resumed
			err := <-ch
			return err
		}
		mon.inner = bus.NewLedgerMonitor(&engPublisher{s: s, st: st}, "l") // a new process has a new monitor
		cmd = command.New(st, &engLocker{s: s}, command.NewCompiler(8), command.NewReferencer(), mon)
		if err := cmd.Init(ctx0); err != nil {
			panic(fmt.Sprint("init: ", err))
		}
		c := cmd
		go func() {
			defer func() { _ = recover() }() // a failing InsertLogs kills the runner: process death
			c.Run(ctx0)
		}()
	}
	newCommander()
	s.lastCommit = initialLast

	type resp struct {
		Req     int
		OK      bool
		Err     string
		Tx      J
		Durable int
		Step    int
	}
	var respMu sync.Mutex
	var responses []resp
	finished := map[int]bool{}
	step := 0
	crashed := []int{}
	lastActor := -2
	goals, goalSteps := append([]engGoal{}, plan.Goals...), 0
	choices, counts := []int{}, []int{}
	cancels := map[int]context.CancelFunc{}

	start := func(i int) {
		rq := reqs[i]
		s.setResumeCh(i)
		s.dry[i] = rq.Dry
		s.actorGen[i] = s.gen
		cctx, cancel := context.WithCancel(context.WithValue(ctx0, engActorKey{}, i))
		cancels[i] = cancel
		ctx := verifhook.With(cctx, s, i)
		c := cmd
		s.expect++
		go func() {
			defer func() {
				if e := recover(); e != nil {
					respMu.Lock()
					responses = append(responses, resp{Req: i, Err: "panic:" + fmt.Sprint(e)})
					respMu.Unlock()
					s.arrive <- engArrival{actor: i, kind: 1}
				}
			}()
			s.Yield(i, "start")
			params := command.Parameters{DryRun: rq.Dry, IdempotencyKey: rq.IK}
			var tx *ledger.Transaction
			var err error
			switch rq.Kind {
			case "create":
				tx, err = c.CreateTransaction(ctx, params, rq.script())
			case "revert":
				tx, err = c.RevertTransaction(ctx, params, big.NewInt(rq.Target), rq.Force)
			case "setmeta":
				md := metadata.Metadata{rq.Key: rq.Val}
				if rq.Empty {
					md = metadata.Metadata{}
				}
				if rq.Acct != "" {
					err = c.SaveMeta(ctx, params, ledger.MetaTargetTypeAccount, rq.Acct, md)
				} else {
					err = c.SaveMeta(ctx, params, ledger.MetaTargetTypeTransaction, big.NewInt(rq.Target), md)
				}
			case "delmeta":
				if rq.Acct != "" {
					err = c.DeleteMetadata(ctx, params, ledger.MetaTargetTypeAccount, rq.Acct, rq.Key)
				} else {
					err = c.DeleteMetadata(ctx, params, ledger.MetaTargetTypeTransaction, big.NewInt(rq.Target), rq.Key)
				}
			}
			st.mu.Lock()
			d := len(st.logs)
			st.mu.Unlock()
			respMu.Lock()
			responses = append(responses, resp{Req: i, OK: err == nil, Err: engClassify(err), Tx: txJ(tx), Durable: d})
			respMu.Unlock()
			rj := J{"ok": err == nil, "err": engClassify(err), "txid": nil}
			if tx != nil && tx.ID != nil {
				rj["txid"] = tx.ID.String()
			}
			s.arrive <- engArrival{actor: i, kind: 1, resp: rj}
		}()
	}

	// The scheduler FOLLOWS what the code does.  Whether a request handed a log to the batcher during its turn is read off
	// the commander (its last log is no longer the one the harness saw last), at every arrival of every request, whatever the
	// request is (a preview too) and wherever it parks next; the batcher's mirror is counted in entries (handed over /
	// persisted), the size of a batch is what arrives at the gate.  What remains a prediction is the NUMBER of arrivals to wait
	// for before the system is quiet; when one does not come within the time limit ("stall": the request blocks on something
	// the scheduler does not see) the run goes on with whoever is parked and is judged like any other — it is also flagged,
	// because the scheduler's picture of the protocol was wrong.  An arrival nobody predicted is simply taken.
	stalls := 0
	gateReleases := 0
	noteAppend := func(a int) { // with s.mu held
		if a < 0 || s.actorGen[a] != s.gen {
			return
		}
		ll := cmd.VerifLastLog()
		if ll == nil || ll == s.lastCommit {
			return
		}
		n := 1
		if ll.ID != nil { // several logs in one turn: the ids tell how many
			base := int64(-1)
			if s.lastCommit != nil && s.lastCommit.ID != nil {
				base = s.lastCommit.ID.Int64()
			}
			if d := ll.ID.Int64() - base; d > 1 && d < 64 {
				n = int(d)
			}
		}
		for k := 0; k < n; k++ {
			s.appendOrder = append(s.appendOrder, a)
		}
		if !s.persBusy {
			s.persBusy = true
			s.expectGate++
		}
		lj := logJ(s.lastCommit, ll)
		lj["prev_id"] = nil
		if s.lastCommit != nil {
			lj["prev_id"] = s.lastCommit.ID.String()
		}
		s.lastCommit = ll
		ce := J{"a": a, "committed": lj, "last_txid": cmd.VerifLastTXID().String()}
		if n != 1 {
			ce["appends"] = n
		}
		s.trace = append(s.trace, ce)
	}
	take := func(e engArrival) {
		s.mu.Lock()
		if e.kind != 2 && s.waiting[e.actor] { // believed to wait for the store, and here it is: it did not wait
			delete(s.waiting, e.actor)
			s.expect++
		}
		switch e.kind {
		case 0:
			s.parked[e.actor] = e.point
			s.expect--
			noteAppend(e.actor)
			s.trace = append(s.trace, J{"a": e.actor, "arrive": e.point})
		case 1:
			finished[e.actor] = true
			s.expect--
			noteAppend(e.actor)
			fin := J{"a": e.actor, "finish": true}
			for k, v := range e.resp {
				fin[k] = v
			}
			s.trace = append(s.trace, fin)
		case 2:
			if e.gen != s.gen {
				// the runner of a commander that is gone reaches the store late (nobody predicted the call: it was not waited for
				// before the restart): it is never answered, and it must not be taken for a call of the present commander
				s.trace = append(s.trace, J{"late_gate": J{"generation": e.gen, "batch": len(e.logs)}})
				break
			}
			s.parked[actorP] = "gate"
			s.gateBatch = len(e.logs)
			s.expectGate--
		case 3: // blocked on the lock queue: not runnable until granted
			s.expect--
			noteAppend(e.actor)
		}
		s.mu.Unlock()
	}
	waitQuiet := func() {
		for {
			for more := true; more; { // whatever has arrived, predicted or not
				select {
				case e := <-s.arrive:
					take(e)
				default:
					more = false
				}
			}
			if s.expect <= 0 && s.expectGate <= 0 {
				s.expect, s.expectGate = 0, 0
				return
			}
			limit := engStallLimit()
			select {
			case e := <-s.arrive:
				take(e)
			case <-time.After(limit):
				s.mu.Lock()
				s.trace = append(s.trace, J{"stall": J{"requests": s.expect, "batches": s.expectGate, "step": step}})
				if os.Getenv("VERIF_ENGINE_DEBUG") != "" { // where the prediction failed: the last entries of the trace
					from := len(s.trace) - 14
					if from < 0 {
						from = 0
					}
					for _, t := range s.trace[from:] {
						b, _ := json.Marshal(t)
						if len(b) > 260 {
							b = b[:260]
						}
						fmt.Fprintln(os.Stderr, "stall:", string(b))
					}
					fmt.Fprintln(os.Stderr, "stall: parked", s.parked, "waiting", s.waiting, "appendOrder", s.appendOrder, "persisted", s.persisted, "busy", s.persBusy)
				}
				s.expect, s.expectGate = 0, 0
				s.mu.Unlock()
				stalls++
				return
			}
		}
	}

	doCrash := func() {
		s.mu.Lock()
		for a := range s.parked {
			delete(s.parked, a)
		}
		s.trace = append(s.trace, J{"crash": step})
		for i := range reqs {
			if s.actorGen[i] == s.gen && !finished[i] && s.resumeCh(i) != nil {
				crashed = append(crashed, i)
			}
		}
		s.gen++
		s.holders, s.queue = nil, nil
		s.persBusy, s.appendOrder, s.persisted, s.expectGate = false, nil, 0, 0
		s.waiting = map[int]bool{}
		s.setResumeCh(actorP)
		st.mu.Lock()
		s.lastCommit = nil
		if len(st.logs) > 0 {
			s.lastCommit = st.logs[len(st.logs)-1]
		}
		st.mu.Unlock()
		s.mu.Unlock()
		newCommander()
	}
	// Graceful stop + reopen (plan.CloseAt).  Called while a batch is inside InsertLogs (the gate call is parked).
	var held chan error // the gate call of a commander whose Close came back while its insert was still in flight
	heldN, heldSince := 0, -1
	var closeInfo J
	curPhase := 0
	doClose := func() {
		s.mu.Lock()
		n := s.gateBatch
		delete(s.parked, actorP)
		s.trace = append(s.trace, J{"close": step, "batch_in_store": n})
		s.mu.Unlock()
		c := cmd
		ret := make(chan struct{})
		go func() {
			c.Close()
			close(ret)
		}()
		// has Close come back?  On the unchanged code it cannot (the runner's stop waits for the worker, the worker is inside
		// InsertLogs, the gate is ours): nothing arrives however long one waits; a Close that does not wait comes back within
		// microseconds.  The limit below only bounds how long the passing path looks at something that must not happen.
		early := false
		for k := 0; k < 100 && !early; k++ {
			runtime.Gosched()
			select {
			case <-ret:
				early = true
			default:
				if k >= 20 {
					time.Sleep(40 * time.Microsecond)
				}
			}
		}
		closeInfo = J{"step": step, "batch_in_store": n, "phase": curPhase}
		if early {
			closeInfo["returned"] = "while-insert-in-flight"
			s.mu.Lock()
			s.trace = append(s.trace, J{"close_returned": "while-insert-in-flight"})
			s.mu.Unlock()
			held, heldN, heldSince = s.resumeCh(actorP), n, curPhase
			doCrash() // (not a death: the same bookkeeping — a new commander initialised from the store, the old requests never answer)
			return
		}
		// the store answers; in the stop branch nobody is woken (the runner returns without Terminated)
		s.mu.Lock()
		gateReleases++
		s.trace = append(s.trace, J{"a": actorP, "at": "gate", "n": 1, "batch": n, "ok": true, "stopping": true})
		s.persisted += n
		s.mu.Unlock()
		st.mu.Lock()
		before := len(st.logs)
		st.mu.Unlock()
		s.resumeCh(actorP) <- nil
		for t0 := time.Now(); ; {
			st.mu.Lock()
			k := len(st.logs)
			st.mu.Unlock()
			if k >= before+n || time.Since(t0) > 4*time.Second {
				break
			}
			time.Sleep(20 * time.Microsecond)
		}
		select {
		case <-ret:
			closeInfo["returned"] = "after-insert"
		case <-time.After(4 * time.Second):
			closeInfo["returned"] = "never"
			stalls++
			s.mu.Lock()
			s.trace = append(s.trace, J{"stall": J{"close": "did not return after the insert returned", "step": step}})
			s.mu.Unlock()
		}
		s.mu.Lock()
		s.trace = append(s.trace, J{"close_returned": closeInfo["returned"]})
		s.mu.Unlock()
		// drain arrivals nobody expects (a runner that wakes its requests while stopping)
		woken := map[int]bool{}
		for more := true; more; {
			select {
			case e := <-s.arrive:
				take(e)
				if e.kind != 2 {
					woken[e.actor] = true
				}
			case <-time.After(time.Millisecond):
				more = false
			}
		}
		// A graceful stop is no death: a request of the stopped commander that the stop WOKE goes on — it publishes and answers, and
		// is judged like every other answer (unchanged code: nobody is woken, the requests in flight never answer).
		for guard := 0; guard < 64; guard++ {
			a := -1
			for i := range reqs {
				if _, ok := s.parked[i]; ok && woken[i] && !finished[i] {
					a = i
					break
				}
			}
			if a < 0 {
				break
			}
			s.mu.Lock()
			pt := s.parked[a]
			delete(s.parked, a)
			s.trace = append(s.trace, J{"a": a, "at": pt, "n": 1, "after_close": true})
			s.lastPoint[a] = pt
			s.expect++
			s.mu.Unlock()
			s.resumeCh(a) <- nil
			waitQuiet()
			step++
		}
		doCrash()
	}
	releaseHeld := func() {
		st.mu.Lock()
		before := len(st.logs)
		st.mu.Unlock()
		held <- nil
		for t0 := time.Now(); ; {
			st.mu.Lock()
			k := len(st.logs)
			st.mu.Unlock()
			if k >= before+heldN || time.Since(t0) > 4*time.Second {
				break
			}
			time.Sleep(20 * time.Microsecond)
		}
		s.mu.Lock()
		s.trace = append(s.trace, J{"late_insert": heldN})
		s.mu.Unlock()
		held = nil
	}
	phases := 0
	for _, rq := range reqs {
		if rq.Phase+1 > phases {
			phases = rq.Phase + 1
		}
	}
	for ph := 0; ph < phases; ph++ {
		curPhase = ph
		for i, rq := range reqs {
			if rq.Phase == ph {
				start(i)
			}
		}
		for {
			waitQuiet()
			for len(goals) > 0 { // goals already reached are used up before anything is decided on "the goals are used up"
				g := goals[0]
				if g.Req < 0 || g.Req >= len(reqs) || reqs[g.Req].Phase > ph {
					break
				}
				at, isParked := s.parked[g.Req]
				if finished[g.Req] || (g.Until == "waiting" && s.waiting[g.Req]) || (g.Until != "finish" && g.Until != "waiting" && isParked && at == g.Until) {
					goals, goalSteps = goals[1:], 0
					continue
				}
				break
			}
			if plan.Crash == step { // process death at this point; restart from the store
				plan.Crash = -2
				doCrash()
				break // the phase is over: its requests never answer
			}
			if _, inStore := s.parked[actorP]; plan.CloseAt > 0 && step >= plan.CloseAt && inStore && !(plan.CloseAfterGoals && len(goals) > 0) {
				plan.CloseAt = 0
				doClose()
				break // the phase is over: the requests of the stopped commander never answer
			}
			if plan.Cancel > 0 && step >= plan.Cancel { // the caller of one request that waits for persistence goes away
				var ws []int
				for w := range s.waiting {
					if plan.CancelReq == 0 || w == plan.CancelReq-1 {
						ws = append(ws, w)
					}
				}
				sort.Ints(ws)
				if len(ws) > 0 {
					plan.Cancel = 0
					w := ws[0]
					s.mu.Lock()
					s.trace = append(s.trace, J{"cancel": w})
					s.mu.Unlock()
					cancels[w]()
					// on the unchanged code a waiting request ignores its context; a request that honours it finishes now:
					// give it a moment to show up, without making the passing path depend on it
					select {
					case e := <-s.arrive:
						s.arrive <- e
						s.mu.Lock()
						if s.waiting[w] {
							delete(s.waiting, w)
							s.expect++
						}
						s.mu.Unlock()
						waitQuiet()
					case <-time.After(30 * time.Millisecond):
					}
				}
			}
			var enabled []int
			for i := range reqs {
				if _, ok := s.parked[i]; ok {
					enabled = append(enabled, i)
				}
			}
			sort.Ints(enabled)
			// a slow store (plan.SlowStore): the persistence gate is released only when no request can run
			if _, ok := s.parked[actorP]; ok && !(plan.SlowStore && len(enabled) > 0) {
				enabled = append(enabled, actorP)
			}
			if len(enabled) == 0 {
				break
			}
			// choice
			ch := -1
			byGoal := false
			for len(goals) > 0 && ch < 0 { // the directed prefix of the plan
				g := goals[0]
				if g.Req < 0 || g.Req >= len(reqs) || goalSteps > 80 {
					goals, goalSteps = goals[1:], 0
					continue
				}
				if reqs[g.Req].Phase > ph {
					break // its request has not been submitted yet
				}
				at, isParked := s.parked[g.Req]
				reached := false
				switch g.Until {
				case "finish":
					reached = finished[g.Req]
				case "waiting":
					reached = s.waiting[g.Req]
				default:
					reached = isParked && at == g.Until
				}
				if reached || finished[g.Req] {
					goals, goalSteps = goals[1:], 0
					continue
				}
				if isParked {
					for k, x := range enabled {
						if x == g.Req {
							ch = k
						}
					}
				} else if _, inStore := s.parked[actorP]; inStore { // it waits for the store (or for somebody who does)
					if enabled[len(enabled)-1] != actorP {
						enabled = append(enabled, actorP)
					}
					ch = len(enabled) - 1
				} else {
					goals, goalSteps = goals[1:], 0 // queued for its locks, or gone with a stopped commander: nothing to drive
					continue
				}
				goalSteps++
				byGoal = true
			}
			if ch < 0 && plan.Coarse && lastActor != actorP { // keep running the same request through its invisible steps
				for k, x := range enabled {
					if x == lastActor && !engVisible[s.parked[x]] {
						ch = k
					}
				}
			}
			if ch < 0 && !byGoal {
				switch {
				case len(choices) < len(plan.Plan):
					ch = plan.Plan[len(choices)] % len(enabled)
				case plan.First:
					ch = 0
				default:
					ch = r.n(len(enabled))
				}
				choices = append(choices, ch)
				counts = append(counts, len(enabled))
			}
			a := enabled[ch]
			lastActor = a
			pt := s.parked[a]
			s.mu.Lock()
			delete(s.parked, a)
			if a != actorP {
				s.trace = append(s.trace, J{"a": a, "at": pt, "n": len(enabled)})
			}
			if a == actorP {
				gateReleases++
				fail := plan.Fail >= 0 && gateReleases-1 == plan.Fail
				s.trace = append(s.trace, J{"a": a, "at": pt, "n": len(enabled), "batch": s.gateBatch, "ok": !fail})
				if fail {
					gateFails++
					// the runner dies: nothing more happens in this generation; treat as crash at the next step
					plan.Crash = step + 1
					s.mu.Unlock()
					select {
					case s.resumeCh(actorP) <- fmt.Errorf("injected store failure"):
					case <-time.After(engStallLimit()):
					}
				} else {
					n := s.gateBatch
					s.persisted += n
					// the waiters whose entries are all persisted now wake up
					var ws []int
					for w := range s.waiting {
						last := -1
						for k, x := range s.appendOrder {
							if x == w {
								last = k
							}
						}
						if last < s.persisted {
							ws = append(ws, w)
						}
					}
					for _, w := range ws {
						delete(s.waiting, w)
						s.expect++
					}
					if len(s.appendOrder) > s.persisted {
						s.expectGate++ // entries were handed over meanwhile: the next batch reaches the gate
					} else {
						s.persBusy = false
					}
					s.mu.Unlock()
					before := len(st.logs)
					answered := true
					select {
					case s.resumeCh(actorP) <- nil:
					case <-time.After(engStallLimit()): // nobody is inside InsertLogs after all
						answered = false
					}
					for t0 := time.Now(); answered; { // InsertLogs appends right after the gate; wait for it so that reads are well defined
						st.mu.Lock()
						k := len(st.logs)
						st.mu.Unlock()
						if k >= before+n {
							break
						}
						if time.Since(t0) > engStallLimit() {
							answered = false
							break
						}
						time.Sleep(20 * time.Microsecond)
					}
					if !answered { // the scheduler's picture of the store call was wrong: flagged like every other wrong prediction
						s.mu.Lock()
						s.trace = append(s.trace, J{"stall": J{"store": "the call answered is not the batch the scheduler saw arrive", "step": step}})
						s.mu.Unlock()
						stalls++
					}
				}
			} else {
				switch {
				case pt == "wait":
					idx := -1
					for k, w := range s.appendOrder {
						if w == a {
							idx = k
						}
					}
					if idx < 0 || idx < s.persisted { // it handed no log over (a preview, on the unchanged code), or its log is persisted already
						s.expect++
					} else {
						s.waiting[a] = true
					}
				default:
					s.expect++
				}
				s.lastPoint[a] = pt
				s.mu.Unlock()
				s.resumeCh(a) <- nil
			}
			step++
		}
		if held != nil && heldSince < ph {
			releaseHeld() // the insert of the stopped commander lands after the new one has worked for a phase
		}
		if plan.HasCrashAfter && plan.CrashAfterPhase == ph {
			waitQuiet()
			doCrash()
		}
	}
	waitQuiet()
	if held != nil {
		releaseHeld()
	}

	// ---- summary
	durable := []any{}
	var pv *ledger.ChainedLog
	for i, l := range st.logs {
		o := logJ(pv, l)
		o["funding"] = i < nFunding
		sr := st.stored(i)
		o["stored_ok"] = sr["ok"]
		if sr["ok"] != true {
			o["stored"] = sr
		}
		durable = append(durable, o)
		pv = l
	}
	respMu.Lock()
	rs := []any{}
	sort.Slice(responses, func(i, j int) bool { return responses[i].Req < responses[j].Req })
	for _, x := range responses {
		rs = append(rs, J{"req": x.Req, "ok": x.OK, "err": x.Err, "tx": x.Tx, "durable": x.Durable})
	}
	respMu.Unlock()
	sort.Ints(crashed)
	out = J{"trace": s.trace, "durable": durable, "responses": rs, "events": append([]J{}, s.events...), "events_iface": append([]J{}, s.ifaceEvents...), "crashed": append([]int{}, crashed...), "watchdog": stalls > 0, "stalls": stalls, "steps": step,
		"n_funding": nFunding, "choices": choices, "counts": counts}
	if closeInfo != nil {
		out["close"] = closeInfo
	}
	return out
}

func execEngine(in J) J {
	b, _ := json.Marshal(in)
	var sc struct {
		Requests []engReq   `json:"requests"`
		Funding  [][]string `json:"funding"`
		Metadata [][]string `json:"metadata"`
		Plans    []engPlan  `json:"plans"`
		Twin     bool       `json:"twin"`
		TwinReal bool       `json:"twin_real"`
	}
	if err := json.Unmarshal(b, &sc); err != nil {
		return J{"error": err.Error()}
	}
	var real []engReq
	newIdx := map[int]int{} // index of a real request in the history without the previews
	for i, q := range sc.Requests {
		if !q.Dry {
			newIdx[i] = len(real)
			real = append(real, q)
		}
	}
	withoutPreviews := func(p engPlan) engPlan { // the plan for the twin history: goals / cancellation follow the renumbering
		q := p
		q.Goals = nil
		for _, g := range p.Goals {
			if k, ok := newIdx[g.Req]; ok {
				q.Goals = append(q.Goals, engGoal{Req: k, Until: g.Until})
			}
		}
		if p.CancelReq > 0 {
			if k, ok := newIdx[p.CancelReq-1]; ok {
				q.CancelReq = k + 1
			} else {
				q.Cancel, q.CancelReq = 0, 0
			}
		}
		return q
	}
	runs := []any{}
	plansOut := []any{}
	one := func(p engPlan) J {
		run := runEngineSchedule(sc.Requests, sc.Funding, sc.Metadata, p)
		if run["watchdog"] == true {
			// a stall of the machine (loaded host) does not repeat, a protocol the scheduler does not predict does: the same plan is
			// run once more before the run is reported (as long as this process has not met several of them already)
			engWatchdogs++
			if engWatchdogs <= 3 {
				if again := runEngineSchedule(sc.Requests, sc.Funding, sc.Metadata, p); again["watchdog"] != true {
					engWatchdogs--
					again["retried"] = true
					run = again
				}
			}
		}
		if sc.Twin || p.Twin { // the same history without its previews (C14)
			run["twin"] = runEngineSchedule(real, sc.Funding, sc.Metadata, withoutPreviews(p))
		}
		if sc.TwinReal || p.TwinReal { // the same history, same plan, with ONE preview submitted as the real write (at most three of them)
			tr := []any{}
			for j, q := range sc.Requests {
				if !q.Dry || len(tr) >= 3 {
					continue
				}
				rs := append([]engReq{}, sc.Requests...)
				rs[j].Dry = false
				t := runEngineSchedule(rs, sc.Funding, sc.Metadata, p)
				tr = append(tr, J{"req": j, "responses": t["responses"], "durable": t["durable"], "crashed": t["crashed"], "watchdog": t["watchdog"]})
			}
			run["twin_real"] = tr
		}
		return run
	}
	for _, p := range sc.Plans {
		if p.DFS <= 0 {
			runs = append(runs, one(p))
			plansOut = append(plansOut, p)
			continue
		}
		// exhaustive: depth-first over the scheduling choices
		prefix := []int{}
		for n := 0; n < p.DFS; n++ {
			q := p
			q.Plan, q.First, q.DFS = prefix, true, 0
			run := one(q)
			runs = append(runs, run)
			plansOut = append(plansOut, q)
			ch, cn := run["choices"].([]int), run["counts"].([]int)
			i := len(ch) - 1
			for i >= 0 && ch[i]+1 >= cn[i] {
				i--
			}
			if i < 0 {
				break
			}
			prefix = append(append([]int{}, ch[:i]...), ch[i]+1)
		}
	}
	return J{"runs": runs, "plans": plansOut}
}

// ------------------------------------------------------------------ scenario generator

// engLongKeys: in one scenario out of five every idempotency key is made long — the same key stays the same key —: 255, 256 or 300
// characters (ASCII or multi-byte), around the width of the idempotency_key column.  The choice is a function of the scenario itself
// (no draw is taken from the generator's stream).
func engLongKeys(scn J) {
	reqs, _ := scn["requests"].([]J)
	text, _ := json.Marshal(reqs)
	h := sha256.Sum256(text)
	var seed uint64
	for _, b := range h[:8] {
		seed = seed<<8 | uint64(b)
	}
	kr := &rng{s: seed}
	if !kr.p(20) {
		return
	}
	long := map[string]string{}
	for _, q := range reqs {
		k, _ := q["ik"].(string)
		if k == "" {
			continue
		}
		if _, ok := long[k]; !ok {
			n := []int{255, 256, 300}[kr.n(3)]
			pad := kr.pick([]string{"0", "é", "日"})
			b := []rune(k + "-")
			for len(b) < n {
				b = append(b, []rune(pad)...)
			}
			long[k] = string(b)
		}
		q["ik"] = long[k]
	}
}

func genEngine(r *rng, n int, tier string, emit0 func(J)) {
	emit := func(scn J) { engLongKeys(scn); emit0(scn) }
	accts := []string{"alice", "bob", "carol"}
	nPlans := 6
	if tier == "thorough" {
		nPlans = 30
	}
	mkPlans := func(g *rng, nReq int, crashes bool) []J {
		var plans []J
		for p := 0; p < nPlans; p++ {
			pl := J{"seed": g.next() % 1000000, "crash": -1, "fail": -1, "plan": []int{}, "coarse": g.p(30)}
			if crashes && p >= nPlans/2 && g.p(50) {
				pl["crash"] = g.n(12 * nReq)
			} else if crashes && p >= nPlans/2 && g.p(30) {
				pl["fail"] = g.n(2)
			} else if crashes && g.p(20) {
				pl["fail_read"] = 1 + g.n(4)
			} else if crashes && g.p(25) {
				pl["cancel"] = 1 + g.n(10*nReq)
				if g.p(50) {
					pl["slow_store"] = true
				}
			} else if g.p(10) {
				pl["slow_store"] = true
			}
			plans = append(plans, pl)
		}
		return plans
	}
	create := func(g *rng, phase int, src, dst string, amt int) J {
		return J{"kind": "create", "phase": phase, "dry": false, "ik": "", "ref": "", "src": src, "via": g.pick([]string{"lit", "var", "meta"}), "dst": dst, "amount": amt}
	}
	for c := 0; c < n; c++ {
		g := r.fork()
		funding := [][]string{}
		for _, a := range accts {
			funding = append(funding, []string{a, "USD", fmt.Sprint(50 + 50*g.n(3))})
		}
		meta := [][]string{}
		for _, a := range accts {
			meta = append(meta, []string{"registry", a, a})
		}
		var reqs []J
		twin := false
		dfs := 0
		restartAfter := -1
		switch c % 8 {
		case 0: // racing debits of one account, named in different ways
			funding[0][2] = "100"
			k := 2 + g.n(2)
			for i := 0; i < k; i++ {
				q := create(g, 0, "alice", g.pick([]string{"bob", "carol", "dave"}), []int{60, 80, 100}[g.n(3)])
				if g.p(20) {
					q["over"] = 20
				}
				reqs = append(reqs, q)
			}
			// every other scenario of this family: the debited account is ALSO designated by a variable that is no source
			// (decided from a copy of the generator state: the rest of the scenario, its plans included, is what it was before);
			// c/8 = 0, 4, 8 … are scenarios explored exhaustively (dfs below), c/8 = 1, 5, 9 … by seeded random schedules
			if ga := (&rng{s: g.s ^ 0xa11a5a11a5}); (c/8)%4 <= 1 {
				for _, q := range reqs {
					if ga.p(70) {
						q["via"] = ga.pick([]string{"alias", "aliasmeta"})
					}
				}
			}
			if c%16 == 0 {
				dfs = 400 // every interleaving of the visible steps
			}
		case 1: // one reference, several writers, one more later
			k := 2 + g.n(2)
			for i := 0; i < k; i++ {
				q := create(g, 0, g.pick(accts), "dave", 10+10*g.n(3))
				q["ref"] = "ref-x"
				reqs = append(reqs, q)
			}
			q := create(g, 1, g.pick(accts), "dave", 10)
			q["ref"] = "ref-x"
			reqs = append(reqs, q)
		case 2: // racing reverts of one transaction (a funding one or one created first, possibly a long one)
			first := create(g, 0, "alice", "bob", 30)
			if g.p(50) {
				first = create(g, 0, "world", "bob", 1)
				first["via"] = "lit"
				first["sends"] = 2 + g.n(19)
			}
			reqs = append(reqs, first)
			t := g.n(4)
			if first["sends"] != nil {
				t = 3
			}
			k := 2 + g.n(2)
			for i := 0; i < k; i++ {
				reqs = append(reqs, J{"kind": "revert", "phase": 1, "dry": false, "ik": "", "ref": "", "target": t, "force": g.p(30)})
			}
			reqs = append(reqs, J{"kind": "revert", "phase": 2, "dry": false, "ik": "", "ref": "", "target": t, "force": true})
		case 3: // duplicates of one idempotency key, same kind of write
			kind := g.pick([]string{"create", "setmeta", "delmeta", "revert"})
			k := 2 + g.n(3)
			for i := 0; i < k; i++ {
				ph := 0
				if g.p(40) {
					ph = 1
				}
				var q J
				switch kind {
				case "create":
					q = create(g, ph, "alice", "bob", 20)
				case "revert":
					// the same key for reverts of the same and of other transactions (a replay answers the recorded one)
					t := 1
					if g.p(50) {
						t = g.n(len(funding))
					}
					q = J{"kind": "revert", "target": t, "force": g.p(30)}
				case "setmeta":
					q = J{"kind": "setmeta", "acct": "alice", "key": "k1", "val": fmt.Sprintf("v%d", i)}
				default:
					q = J{"kind": "delmeta", "acct": "alice", "key": "k1"}
				}
				q["phase"], q["dry"], q["ik"], q["ref"] = ph, false, "same-key", ""
				reqs = append(reqs, q)
			}
			// every other scenario of this family: the key has the length of a uuid, of the key column, one more, or well beyond
			// (decided from a copy of the generator state: the requests and the plans are what they were before)
			if gk := (&rng{s: g.s ^ 0x1d3e9c0ffee}); gk.p(60) {
				key := engLongKey([]int{36, 255, 256, 300}[gk.n(4)], gk.n(1000))
				for _, q := range reqs {
					q["ik"] = key
				}
			}
		case 4: // a sequential history with previews in it (compared with the same history without them)
			twin = true
			k := 3 + g.n(3)
			for i := 0; i < k; i++ {
				var q J
				switch g.n(4) {
				case 0:
					q = J{"kind": "revert", "target": g.n(3 + i), "force": g.p(50), "ik": "", "ref": ""}
				case 1:
					q = J{"kind": "setmeta", "acct": g.pick(accts), "key": "k1", "val": fmt.Sprintf("v%d", i), "ik": "", "ref": ""}
				default:
					q = create(g, i, g.pick(accts), g.pick([]string{"bob", "dave"}), 10+10*g.n(4))
				}
				q["phase"], q["dry"] = i, g.p(45)
				reqs = append(reqs, q)
			}
		case 5: // a ledger that starts empty: metadata writes first, a restart, then more writes
			funding = [][]string{}
			k := 1 + g.n(3)
			for i := 0; i < k; i++ {
				reqs = append(reqs, J{"kind": "setmeta", "phase": i, "dry": false, "ik": "", "ref": "", "acct": g.pick(accts), "key": "k1", "val": fmt.Sprintf("v%d", i)})
			}
			if g.p(50) {
				reqs = append(reqs, J{"kind": "delmeta", "phase": k, "dry": false, "ik": "", "ref": "", "acct": "alice", "key": "k1"})
				k++
			}
			reqs = append(reqs, create(g, k, "world", "alice", 50))
			reqs = append(reqs, J{"kind": "setmeta", "phase": k + 1, "dry": false, "ik": "", "ref": "", "acct": "bob", "key": "k2", "val": "w"})
			restartAfter = g.n(k + 1)
		case 6: // independent writers: transactions with pairwise different sources (no lock conflict), all at once — their commits
			// overlap in the batcher (an entry is still waiting for the store when the next one is committed)
			k := 2 + g.n(2)
			perm := []string{"alice", "bob", "carol"}
			for i := len(perm) - 1; i > 0; i-- {
				j := g.n(i + 1)
				perm[i], perm[j] = perm[j], perm[i]
			}
			for i := 0; i < k; i++ {
				if g.p(25) { // the revert of a funding transaction: its source is the funded account
					t := 0
					for ti, a := range accts {
						if a == perm[i] {
							t = ti
						}
					}
					reqs = append(reqs, J{"kind": "revert", "phase": 0, "dry": false, "ik": "", "ref": "", "target": t, "force": true})
				} else {
					reqs = append(reqs, create(g, 0, perm[i], "dave", 10+10*g.n(4)))
				}
			}
			if g.p(50) {
				reqs = append(reqs, create(g, 1, perm[0], "dave", 10))
			}
			if c%16 == 6 {
				dfs = 300
			}
		default: // a random mix
			nReq := 2 + g.n(3)
			if tier == "thorough" {
				nReq = 2 + g.n(5)
			}
			phase := 0
			sharedIK := fmt.Sprintf("ik%d", g.n(2))
			sharedRef := fmt.Sprintf("ref%d", g.n(2))
			hot := g.pick(accts)
			for i := 0; i < nReq; i++ {
				if i > 0 && g.p(35) {
					phase++
				}
				q := J{"phase": phase, "dry": g.p(15), "ik": "", "ref": "", "kind": "create"}
				if g.p(35) {
					q["ik"] = sharedIK
				}
				switch x := g.n(100); {
				case x < 62:
					src := hot
					if g.p(30) {
						src = g.pick(accts)
					}
					q["src"], q["via"], q["dst"] = src, g.pick([]string{"lit", "lit", "var", "meta"}), g.pick([]string{"bob", "carol", "dave", "alice"})
					q["amount"] = []int{30, 60, 80, 100, 120}[g.n(5)]
					if g.p(15) {
						q["over"] = 20 * g.n(3)
					}
					if g.p(35) {
						q["ref"] = sharedRef
					}
				case x < 80:
					q["kind"] = "revert"
					q["target"] = g.n(3 + i)
					q["force"] = g.p(30)
				case x < 92:
					q["kind"] = "setmeta"
					if g.p(50) {
						q["acct"] = g.pick(accts)
					} else {
						q["target"] = g.n(3 + i)
					}
					q["key"], q["val"] = g.pick([]string{"k1", "k2"}), fmt.Sprintf("v%d", i)
				default:
					q["kind"] = "delmeta"
					if g.p(50) {
						q["acct"] = g.pick(accts)
					} else {
						q["target"] = g.n(3 + i)
					}
					q["key"] = g.pick([]string{"k1", "k2"})
				}
				reqs = append(reqs, q)
			}
		}
		plans := mkPlans(g, len(reqs), !twin)
		if restartAfter >= 0 {
			for _, pl := range plans {
				pl["crash"], pl["fail"] = -1, -1
				pl["has_crash_after"], pl["crash_after_phase"] = true, restartAfter
			}
		} else if c%8 >= 6 && g.p(50) { // a restart between two phases of a random mix
			for k, pl := range plans {
				if k%2 == 1 && pl["crash"] == -1 && pl["fail"] == -1 {
					pl["has_crash_after"], pl["crash_after_phase"] = true, 0
				}
			}
		}
		if dfs > 0 {
			plans = append(plans, J{"seed": 0, "crash": -1, "fail": -1, "plan": []int{}, "coarse": true, "dfs": dfs})
		}
		emit(J{"requests": reqs, "funding": funding, "metadata": meta, "plans": plans, "twin": twin})
	}
	// ---- second series (n/2 more scenarios, from a generator of its own: the series above is what it was): multi-step
	// histories around ONE entry of the log — a reference whose holder is reverted, a transaction reverted again under a fresh
	// idempotency key, a key used by a real write and by a preview, previews of metadata writes, chained transactions whose
	// middle account spends what it kept before the revert
	rx := &rng{s: r.s ^ 0x5ec0dd5e71e5}
	const nShapes = 6
	for e := 0; e < n/2; e++ {
		g := rx.fork()
		funding := [][]string{}
		for _, a := range accts {
			funding = append(funding, []string{a, "USD", fmt.Sprint(50 + 50*g.n(3))})
		}
		meta := [][]string{}
		for _, a := range accts {
			meta = append(meta, []string{"registry", a, a})
		}
		var reqs []J
		twin, crashes := false, true
		restartAfter := -1
		nf := len(funding) // the first transaction committed by a request gets this id
		switch e % nShapes {
		case 0: // a reference: committed, its holder reverted, submitted again
			ref := "ref-r"
			first := create(g, 0, g.pick(accts), "dave", 10+10*g.n(2))
			first["ref"] = ref
			reqs = append(reqs, first)
			rv := J{"kind": "revert", "phase": 1, "dry": false, "ik": "", "ref": "", "target": nf, "force": g.p(40)}
			if g.p(30) {
				rv["ik"] = "rev-key"
			}
			reqs = append(reqs, rv)
			again := func(ph int) J {
				q := create(g, ph, g.pick(accts), "dave", 10+10*g.n(2))
				q["ref"] = ref
				return q
			}
			switch g.n(4) {
			case 0: // strictly one after the other
				reqs = append(reqs, again(2))
				if g.p(50) {
					reqs = append(reqs, again(3))
				}
			case 1: // the revert is in flight while the reference comes back
				reqs = append(reqs, again(1), again(2))
			case 2: // two of them at once, after the revert
				reqs = append(reqs, again(2), again(2))
			default: // a restart between the revert and the resubmission
				reqs = append(reqs, again(2))
				restartAfter = 1
			}
		case 1: // a transaction reverted, then reverted again under a fresh idempotency key
			t := g.n(nf) // a funding transaction: world -> account
			if g.p(50) { // funds remain after the first revert
				q := create(g, 0, "world", accts[t], 200)
				q["via"] = "lit"
				reqs = append(reqs, q)
			} else if g.p(40) { // one created here
				reqs = append(reqs, create(g, 0, g.pick(accts), "dave", 10+10*g.n(2)))
				t = nf
			}
			k1 := g.pick([]string{"", "rk-1", "rk-1"})
			reqs = append(reqs, J{"kind": "revert", "phase": 1, "dry": false, "ik": k1, "ref": "", "target": t, "force": g.p(30)})
			reqs = append(reqs, J{"kind": "revert", "phase": 2, "dry": false, "ik": "rk-2", "ref": "", "target": t, "force": g.p(50)})
			switch g.n(4) {
			case 0: // once more, the other way round
				reqs = append(reqs, J{"kind": "revert", "phase": 3, "dry": false, "ik": "rk-3", "ref": "", "target": t, "force": !reqs[len(reqs)-1]["force"].(bool)})
			case 1: // ANOTHER transaction under a fresh key: must go through
				reqs = append(reqs, J{"kind": "revert", "phase": 3, "dry": false, "ik": "rk-4", "ref": "", "target": (t + 1) % nf, "force": true})
			case 2: // the retry of the first one
				reqs = append(reqs, J{"kind": "revert", "phase": 3, "dry": false, "ik": k1, "ref": "", "target": t, "force": false})
			}
		case 2: // one idempotency key, a real write and a preview of the same request (both orders), every kind of write
			twin, crashes = true, false
			var q J
			switch g.n(6) {
			case 0, 1:
				q = create(g, 0, g.pick(accts), "dave", 10+10*g.n(2))
			case 2:
				q = J{"kind": "revert", "target": g.n(nf), "force": g.p(50)}
			case 3:
				q = J{"kind": "setmeta", "acct": g.pick(accts), "key": "k1", "val": "v"}
			case 4:
				q = J{"kind": "delmeta", "acct": g.pick(accts), "key": g.pick(accts)}
			default:
				if g.p(50) {
					q = J{"kind": "setmeta", "target": g.n(nf), "key": "k1", "val": "v"}
				} else {
					q = J{"kind": "delmeta", "target": g.n(nf), "key": "k1"}
				}
			}
			q["ik"], q["ref"] = "pk-1", ""
			cp := func(ph int, dry bool) J {
				c := J{}
				for k, v := range q {
					c[k] = v
				}
				c["phase"], c["dry"] = ph, dry
				return c
			}
			realFirst := g.p(60)
			reqs = append(reqs, cp(0, !realFirst), cp(1, realFirst))
			switch g.n(3) {
			case 0:
				reqs = append(reqs, cp(2, false))
			case 1:
				reqs = append(reqs, cp(2, true))
			}
		case 3: // previews of metadata writes (accounts and transactions) among real writes
			twin, crashes = true, false
			k := 3 + g.n(4)
			for i := 0; i < k; i++ {
				var q J
				switch g.n(5) {
				case 0:
					q = J{"kind": "setmeta", "acct": g.pick(accts), "key": g.pick([]string{"k1", "k2"}), "val": fmt.Sprintf("v%d", i)}
				case 1:
					q = J{"kind": "setmeta", "target": g.n(nf), "key": g.pick([]string{"k1", "k2"}), "val": fmt.Sprintf("v%d", i)}
				case 2:
					q = J{"kind": "delmeta", "acct": g.pick(accts), "key": g.pick([]string{"k1", "k2", "alice"})}
				case 3:
					q = J{"kind": "delmeta", "target": g.n(nf), "key": g.pick([]string{"k1", "k2"})}
				default:
					q = create(g, i, g.pick(accts), "dave", 10)
				}
				q["ik"], q["ref"] = "", ""
				if g.p(20) {
					q["ik"] = fmt.Sprintf("mk-%d", g.n(2))
				}
				q["phase"], q["dry"] = i, q["kind"] != "create" && g.p(55)
				reqs = append(reqs, q)
			}
		case 5: // one key of a given length: the write, its retry, a restart, the retry again (every kind of write)
			var q J
			switch g.n(5) {
			case 0, 1:
				q = create(g, 0, g.pick(accts), "dave", 10+10*g.n(2))
			case 2:
				q = J{"kind": "revert", "target": g.n(nf), "force": g.p(50)}
			case 3:
				q = J{"kind": "setmeta", "acct": g.pick(accts), "key": "k1", "val": "v"}
			default:
				q = J{"kind": "delmeta", "acct": g.pick(accts), "key": "k1"}
			}
			q["ik"], q["ref"], q["dry"] = engLongKey([]int{36, 255, 256, 300}[(e/nShapes)%4], g.n(1000)), "", false
			k := 3 + g.n(2)
			for i := 0; i < k; i++ {
				c := J{}
				for kk, v := range q {
					c[kk] = v
				}
				c["phase"] = i
				if i == 1 && g.p(30) { // the retry overlaps the write
					c["phase"] = 0
				}
				reqs = append(reqs, c)
			}
			if g.p(60) {
				restartAfter = 1
			}
		default: // a chained transaction (world -> erin n ; erin -> dst m, m < n), erin spends what it kept, then the reverts
			nAmt := []int{100, 80, 60}[g.n(3)]
			mAmt := []int{30, 50, 10}[g.n(3)]
			chain := J{"kind": "create", "phase": 0, "dry": false, "ik": "", "ref": "", "src": "erin", "via": "lit", "dst": g.pick([]string{"bob", "carol"}), "amount": nAmt, "pass": mAmt}
			reqs = append(reqs, chain)
			ph := 1
			switch g.n(4) {
			case 0: // nothing spent: the unforced revert goes through
			case 1: // part of it
				reqs = append(reqs, create(g, ph, "erin", "dave", (nAmt-mAmt)/2))
				reqs[len(reqs)-1]["via"] = "lit"
				ph++
			default: // all of it
				reqs = append(reqs, create(g, ph, "erin", "dave", nAmt-mAmt))
				reqs[len(reqs)-1]["via"] = "lit"
				ph++
			}
			rvq := func(ph int, force bool) J {
				return J{"kind": "revert", "phase": ph, "dry": false, "ik": "", "ref": "", "target": nf, "force": force}
			}
			switch g.n(3) {
			case 0: // unforced, then forced
				reqs = append(reqs, rvq(ph, false), rvq(ph+1, true))
			case 1: // both at once
				reqs = append(reqs, rvq(ph, false), rvq(ph, true))
			default: // unforced twice (a restart in between in part of the plans), then forced
				reqs = append(reqs, rvq(ph, false), rvq(ph+1, false), rvq(ph+2, true))
			}
		}
		plans := mkPlans(g, len(reqs), crashes)
		if restartAfter >= 0 {
			for _, pl := range plans {
				pl["crash"], pl["fail"] = -1, -1
				pl["has_crash_after"], pl["crash_after_phase"] = true, restartAfter
			}
		} else if crashes && g.p(40) { // a restart between two phases in part of the plans
			for k, pl := range plans {
				if k%2 == 1 && pl["crash"] == -1 && pl["fail"] == -1 {
					pl["has_crash_after"], pl["crash_after_phase"] = true, g.n(2)
				}
			}
		}
		emit(J{"requests": reqs, "funding": funding, "metadata": meta, "plans": plans, "twin": twin, "series": 2, "shape": e % nShapes})
	}

	// ---- third series (n/3 more scenarios, from a generator of its own: the two series above are what they were): situations
	// that need a particular overlap of particular requests.  Each scenario carries seeded random plans AND directed ones (goals:
	// the overlap is brought about, the rest of the schedule is random); how often each situation actually HAPPENED is counted by
	// checks/enginelib.py: history_shapes.
	ry := &rng{s: r.s ^ 0x3a7e5e1175c0de}
	const nShapes3 = 5
	goal := func(req int, until string) J { return J{"req": req, "until": until} }
	directed := func(g *rng, extra J, goals ...J) J {
		pl := J{"seed": g.next() % 1000000, "crash": -1, "fail": -1, "plan": []int{}, "coarse": false, "goals": goals}
		for k, v := range extra {
			pl[k] = v
		}
		return pl
	}
	for e := 0; e < n/3; e++ {
		g := ry.fork()
		funding := [][]string{}
		for _, a := range accts {
			funding = append(funding, []string{a, "USD", fmt.Sprint(50 + 50*g.n(3))})
		}
		meta := [][]string{}
		for _, a := range accts {
			meta = append(meta, []string{"registry", a, a})
		}
		nf := len(funding)
		var reqs, plans []J
		name := ""
		switch e % nShapes3 {
		case 0: // payer switched: the source of a create is looked up from metadata, a metadata write names another funded
			// account while that request is on its way, a third request spends from that other account
			name = "payer switched"
			perm := []int{0, 1, 2}
			for i := 2; i > 0; i-- {
				j := g.n(i + 1)
				perm[i], perm[j] = perm[j], perm[i]
			}
			p0, p1 := accts[perm[0]], accts[perm[1]]
			f := 50 + 50*g.n(2)
			funding[perm[0]][2], funding[perm[1]][2] = fmt.Sprint(f+50*g.n(2)), fmt.Sprint(f)
			x, y := f, f
			if g.p(40) {
				x, y = f/2+10, f/2+10 // each alone is covered, both together are not
			}
			b := J{"kind": "create", "phase": 0, "dry": false, "ik": "", "ref": "", "src": p0, "via": "meta", "dst": "dave", "amount": x}
			m := J{"kind": "setmeta", "phase": 0, "dry": false, "ik": "", "ref": "", "acct": "registry", "key": p0, "val": p1}
			a := J{"kind": "create", "phase": 0, "dry": false, "ik": "", "ref": "", "src": p1, "via": g.pick([]string{"lit", "var", "meta"}), "dst": "erin", "amount": y}
			reqs = []J{b, m, a}
			if g.p(30) { // a second request paying through the registry entry
				reqs = append(reqs, J{"kind": "create", "phase": 0, "dry": false, "ik": "", "ref": "", "src": p0, "via": "meta", "dst": "frank", "amount": 10})
			}
			if g.p(30) { // … and one more after everything has settled
				reqs = append(reqs, J{"kind": "create", "phase": 1, "dry": false, "ik": "", "ref": "", "src": p0, "via": "meta", "dst": "dave", "amount": 10})
			}
			plans = mkPlans(g, len(reqs), true)[:4]
			plans = append(plans,
				directed(g, nil, goal(0, "lock"), goal(1, "finish"), goal(2, "waiting"), goal(0, "finish")),
				directed(g, nil, goal(0, "lock"), goal(1, "finish"), goal(0, "commit"), goal(2, "finish")),
				directed(g, nil, goal(0, "read-balances"), goal(1, "finish"), goal(2, "waiting"), goal(0, "finish")),
				directed(g, J{"slow_store": true}, goal(1, "finish")))
		case 1: // a forced revert of a funding transaction (it debits the funded account) races a plain payment from that account
			name = "forced revert races a payment"
			t := g.n(nf)
			p := accts[t]
			f := 50 + 50*g.n(3)
			funding[t][2] = fmt.Sprint(f)
			amt := f
			if g.p(40) {
				amt = f / 2
			}
			rv := J{"kind": "revert", "phase": 0, "dry": false, "ik": "", "ref": "", "target": t, "force": !g.p(20)}
			pay := J{"kind": "create", "phase": 0, "dry": false, "ik": "", "ref": "", "src": p, "via": g.pick([]string{"lit", "var", "meta"}), "dst": "dave", "amount": amt}
			reqs = []J{rv, pay}
			if g.p(35) { // somebody else writes at the same time
				reqs = append(reqs, J{"kind": "create", "phase": 0, "dry": false, "ik": "", "ref": "", "src": accts[(t+1)%nf], "via": "lit", "dst": "dave", "amount": 10})
			}
			if g.p(40) { // and the account is used again afterwards
				reqs = append(reqs, J{"kind": "create", "phase": 1, "dry": false, "ik": "", "ref": "", "src": p, "via": "lit", "dst": "dave", "amount": 10})
			}
			plans = mkPlans(g, len(reqs), true)[:4]
			for k, pl := range plans {
				if k%2 == 0 && pl["crash"] == -1 && pl["fail"] == -1 {
					pl["slow_store"] = true
				}
			}
			plans = append(plans,
				directed(g, nil, goal(0, "waiting"), goal(1, "finish")),
				directed(g, nil, goal(1, "commit"), goal(0, "waiting"), goal(1, "finish")),
				directed(g, J{"slow_store": true}, goal(0, "read-balances"), goal(1, "lock"), goal(0, "waiting"), goal(1, "finish")))
		case 2: // set-metadata with an EMPTY map: on an account, on an existing and on a missing transaction, with and without
			// idempotency key, then the retry of a key
			name = "empty metadata write"
			k := 3 + g.n(3)
			ph := 0
			var keyed []J
			for i := 0; i < k; i++ {
				var q J
				switch g.n(5) {
				case 0, 1:
					q = J{"kind": "setmeta", "acct": g.pick([]string{"alice", "bob", "zoe"}), "key": "k1", "val": "v", "empty": true}
				case 2:
					q = J{"kind": "setmeta", "target": g.n(nf), "key": "k1", "val": "v", "empty": true}
				case 3:
					q = J{"kind": "setmeta", "target": 90 + g.n(5), "key": "k1", "val": "v", "empty": true} // no such transaction
				default:
					if g.p(50) {
						q = J{"kind": "setmeta", "acct": g.pick(accts), "key": "k1", "val": fmt.Sprintf("v%d", i)}
					} else {
						q = create(g, 0, g.pick(accts), "dave", 10)
					}
				}
				q["dry"], q["ik"], q["ref"], q["phase"] = false, "", "", ph
				if q["empty"] == true && g.p(50) {
					q["ik"] = fmt.Sprintf("ek-%d", i)
					keyed = append(keyed, q)
				}
				reqs = append(reqs, q)
				if !g.p(20) { // (otherwise the next one overlaps this one)
					ph++
				}
			}
			ph++
			for _, q := range keyed { // the retry of every key
				c := J{}
				for kk, v := range q {
					c[kk] = v
				}
				c["phase"] = ph
				reqs = append(reqs, c)
				if g.p(60) {
					ph++
				}
			}
			if len(keyed) == 0 {
				reqs = append(reqs, J{"kind": "setmeta", "phase": ph, "dry": false, "ik": "ek-x", "ref": "", "acct": "alice", "key": "k1", "val": "v", "empty": true},
					J{"kind": "setmeta", "phase": ph + 1, "dry": false, "ik": "ek-x", "ref": "", "acct": "alice", "key": "k1", "val": "v", "empty": true})
			}
			plans = mkPlans(g, len(reqs), true)
		case 3: // a revert whose caller goes away while it waits for the store, then — before its log is persisted — an unforced
			// revert of ANOTHER transaction debiting the same account, and a second revert of the SAME transaction
			name = "cancelled revert then another revert"
			t := g.n(nf)
			p := accts[t]
			f := 50 + 50*g.n(2)
			funding[t][2] = fmt.Sprint(f)
			funding = append(funding, []string{p, "USD", fmt.Sprint(f)}) // transaction 3: the account is funded twice
			ph := 0
			if g.p(75) { // … and has spent one of the two: it holds what ONE revert takes
				reqs = append(reqs, J{"kind": "create", "phase": 0, "dry": false, "ik": "", "ref": "", "src": p, "via": "lit", "dst": "dave", "amount": f})
				ph = 1
			}
			ia := len(reqs)
			reqs = append(reqs, J{"kind": "revert", "phase": ph, "dry": false, "ik": "", "ref": "", "target": t, "force": false})
			ib, ic := -1, -1
			if g.p(80) {
				ib = len(reqs)
				reqs = append(reqs, J{"kind": "revert", "phase": ph, "dry": false, "ik": "", "ref": "", "target": 3, "force": false})
			}
			if ib < 0 || g.p(70) {
				ic = len(reqs)
				reqs = append(reqs, J{"kind": "revert", "phase": ph, "dry": false, "ik": "", "ref": "", "target": t, "force": false})
			}
			if g.p(30) {
				reqs = append(reqs, J{"kind": "revert", "phase": ph + 1, "dry": false, "ik": "", "ref": "", "target": t, "force": g.p(50)})
			}
			plans = mkPlans(g, len(reqs), true)[:4]
			for k, pl := range plans {
				if k%2 == 0 {
					pl["crash"], pl["fail"] = -1, -1
					delete(pl, "fail_read")
					pl["cancel"], pl["cancel_req"], pl["slow_store"] = 1, ia+1, true
				}
			}
			var g1, g2 []J
			g1, g2 = append(g1, goal(ia, "waiting")), append(g2, goal(ia, "waiting"))
			if ib >= 0 {
				g1 = append(g1, goal(ib, "finish"))
			}
			if ic >= 0 {
				g1, g2 = append(g1, goal(ic, "finish")), append(g2, goal(ic, "finish"))
			}
			if ib >= 0 {
				g2 = append(g2, goal(ib, "finish"))
			}
			plans = append(plans,
				directed(g, J{"cancel": 1, "cancel_req": ia + 1, "slow_store": true}, g1...),
				directed(g, J{"cancel": 1, "cancel_req": ia + 1, "slow_store": true}, g2...),
				directed(g, J{"slow_store": true}, g1...)) // the same overlap without the cancellation
		default: // restart WITHOUT death: the commander is stopped gracefully while a batch is inside InsertLogs, a new one is
			// initialised on the same store, further requests run
			name = "graceful stop while a batch is being written"
			k := 1 + g.n(3)
			perm := []string{"alice", "bob", "carol"}
			for i := 2; i > 0; i-- {
				j := g.n(i + 1)
				perm[i], perm[j] = perm[j], perm[i]
			}
			for i := 0; i < k; i++ {
				if g.p(25) {
					reqs = append(reqs, J{"kind": "setmeta", "phase": 0, "dry": false, "ik": "", "ref": "", "acct": perm[i], "key": "k1", "val": fmt.Sprintf("v%d", i)})
				} else {
					reqs = append(reqs, create(g, 0, perm[i], "dave", 10+10*g.n(3)))
				}
			}
			reqs = append(reqs, create(g, 1, g.pick(accts), "dave", 10))
			if g.p(60) {
				reqs = append(reqs, J{"kind": "setmeta", "phase": 1, "dry": false, "ik": "", "ref": "", "acct": "bob", "key": "k2", "val": "w"})
			}
			if g.p(50) {
				reqs = append(reqs, create(g, 2, g.pick(accts), "erin", 10))
			}
			for pI := 0; pI < 5; pI++ {
				plans = append(plans, J{"seed": g.next() % 1000000, "crash": -1, "fail": -1, "plan": []int{}, "coarse": g.p(30), "close": 1 + g.n(9*k), "slow_store": g.p(70)})
			}
			plans = append(plans, directed(g, J{"close": 1, "slow_store": true}, goal(0, "waiting")),
				directed(g, J{"close": 1, "slow_store": true}, goal(k-1, "waiting"), goal(0, "commit")))
		}
		emit(J{"requests": reqs, "funding": funding, "metadata": meta, "plans": plans, "twin": false, "series": 3, "shape": e % nShapes3, "name": name})
	}

	// ---- fourth series (n/4 more scenarios, from a generator of its own: the three series above are what they were): one
	// reference under several spellings; previews placed INSIDE an overlap (while a real write of the same transaction / the same
	// account is reserved or committed and not yet persisted), with a twin run; a store read that fails wherever the code reads;
	// a graceful stop with a second request's log pending behind the batch that is being written.
	rz := &rng{s: r.s ^ 0x7e1f0c4a5eed0b5}
	const nShapes4 = 5
	for e := 0; e < n/4; e++ {
		g := rz.fork()
		funding := [][]string{}
		for _, a := range accts {
			funding = append(funding, []string{a, "USD", fmt.Sprint(50 + 50*g.n(3))})
		}
		meta := [][]string{}
		for _, a := range accts {
			meta = append(meta, []string{"registry", a, a})
		}
		nf := len(funding)
		var reqs, plans []J
		name := ""
		twinReal := false
		switch e % nShapes4 {
		case 0: // ONE reference, spelled differently: blanks in front / behind / inside, tab, newline, no-break space, letter case, NUL.
			// Each spelling is a reference of its own (the reference committed is the reference submitted, byte for byte); the same
			// spelling twice is a conflict — one after the other and at once, and after the holder was reverted
			name = "one reference, several spellings"
			base := fmt.Sprintf("order-%d", 10+g.n(90))
			vs := []string{base + " ", " " + base, base + "\t", "\t" + base, base + "\n", " " + base + " ", base + "\u00a0", "\u00a0" + base,
				strings.ToUpper(base), base + "\x00", strings.Replace(base, "-", " -", 1), base + "  ", "\r\n" + base, base + "\u2003"}
			v, w := vs[g.n(len(vs))], vs[g.n(len(vs))]
			cr := func(ph int, ref string) J {
				q := create(g, ph, g.pick(accts), "dave", 10)
				q["ref"] = ref
				return q
			}
			switch g.n(5) {
			case 0: // one after the other: the plain one, a padded one, the same padded one again, another spelling, the plain one again
				reqs = []J{cr(0, base), cr(1, v), cr(2, v), cr(3, w), cr(4, base)}
			case 1: // the padded one first, twice; then the plain one
				reqs = []J{cr(0, v), cr(1, v), cr(2, base), cr(3, v)}
			case 2: // the plain and the padded one at once, then both again
				reqs = []J{cr(0, base), cr(0, v), cr(1, v), cr(1, base)}
			case 3: // the same padded one twice at once (and a third spelling), then once more
				reqs = []J{cr(0, v), cr(0, v), cr(0, w), cr(1, v), cr(2, base)}
			default: // committed, its holder reverted, submitted again — under the same and under another spelling
				reqs = []J{cr(0, v), {"kind": "revert", "phase": 1, "dry": false, "ik": "", "ref": "", "target": nf, "force": true}, cr(2, v), cr(2, base), cr(3, base)}
			}
			plans = mkPlans(g, len(reqs), true)
		case 1: // a PREVIEW of a revert while a real revert of the same transaction is in flight (reserved, its entry not yet
			// persisted), then a second real revert of that transaction before the first one is persisted
			name = "preview of a revert while a real revert is in flight"
			t := g.n(nf)
			p := accts[t]
			f := 50 + 50*g.n(2)
			funding[t][2] = fmt.Sprint(f)
			twice := g.p(60)
			if twice { // the account is funded twice: it holds what a second revert would take
				funding = append(funding, []string{p, "USD", fmt.Sprint(f)})
			}
			force := g.p(30)
			rv := func(ph int, dry, force bool) J {
				return J{"kind": "revert", "phase": ph, "dry": dry, "ik": "", "ref": "", "target": t, "force": force}
			}
			reqs = []J{rv(0, false, force), rv(0, true, force), rv(0, false, !twice || g.p(40))}
			if g.p(40) {
				reqs = append(reqs, rv(1, false, true))
			}
			plans = mkPlans(g, len(reqs), true)[:3]
			for _, pl := range plans {
				if pl["crash"] == -1 && pl["fail"] == -1 {
					pl["slow_store"] = true
				}
			}
			// the directed plans are directed to the end (the twin history — the same requests without the preview — follows the same goals)
			plans = append(plans,
				// (the first real revert has looked its transaction up and does not hold its account locks yet: the preview is not held up)
				directed(g, J{"slow_store": true, "twin": true}, goal(0, "lock"), goal(1, "finish"), goal(2, "finish"), goal(0, "finish"), goal(3, "finish")),
				directed(g, J{"twin": true}, goal(0, "resolve"), goal(1, "finish"), goal(2, "finish"), goal(0, "finish"), goal(3, "finish")),
				directed(g, J{"twin": true}, goal(0, []string{"revert-lookup", "read-balances", "commit"}[g.n(3)]), goal(1, "finish"), goal(2, "finish"), goal(0, "finish"), goal(3, "finish")),
				// (… is committed and waits for the store: the preview queues for the account locks)
				directed(g, J{"slow_store": true, "twin": true}, goal(0, "waiting"), goal(1, "finish"), goal(2, "finish"), goal(0, "finish"), goal(3, "finish")))
		case 2: // a PREVIEW submitted while a real write touching its source account is committed and not yet persisted: it answers what
			// the real write would answer in the same position (twin: the same scenario, same plan, the preview submitted as the real write)
			name = "preview while a write on its account waits for the store"
			twinReal = true
			t := g.n(nf)
			p := accts[t]
			f := 50 + 50*g.n(3)
			funding[t][2] = fmt.Sprint(f)
			var w, x J
			switch g.n(3) {
			case 0: // W takes everything the account holds; the preview spends from it
				w = J{"kind": "create", "phase": 0, "dry": false, "ik": "", "ref": "", "src": p, "via": g.pick([]string{"lit", "var", "meta"}), "dst": "dave", "amount": f}
				x = J{"kind": "create", "phase": 0, "dry": true, "ik": "", "ref": "", "src": p, "via": g.pick([]string{"lit", "var", "meta"}), "dst": "erin", "amount": []int{f, f / 2, 10}[g.n(3)]}
			case 1: // W credits the account; the preview spends more than the account held before
				c := 50 + 50*g.n(2)
				w = J{"kind": "create", "phase": 0, "dry": false, "ik": "", "ref": "", "src": "world", "via": "lit", "dst": p, "amount": c}
				x = J{"kind": "create", "phase": 0, "dry": true, "ik": "", "ref": "", "src": p, "via": g.pick([]string{"lit", "var", "meta"}), "dst": "erin", "amount": f + c/2}
			default: // W takes everything; the preview is the unforced revert of the transaction that funded the account
				w = J{"kind": "create", "phase": 0, "dry": false, "ik": "", "ref": "", "src": p, "via": "lit", "dst": "dave", "amount": f}
				x = J{"kind": "revert", "phase": 0, "dry": true, "ik": "", "ref": "", "target": t, "force": false}
			}
			reqs = []J{w, x}
			if g.p(40) { // and the account is used afterwards
				reqs = append(reqs, J{"kind": "create", "phase": 1, "dry": false, "ik": "", "ref": "", "src": p, "via": "lit", "dst": "dave", "amount": 10})
			}
			plans = mkPlans(g, len(reqs), true)[:3]
			for _, pl := range plans {
				if pl["crash"] == -1 && pl["fail"] == -1 {
					pl["slow_store"] = true
				}
			}
			plans = append(plans,
				directed(g, J{"slow_store": true}, goal(0, "waiting"), goal(1, "finish"), goal(0, "finish")),
				directed(g, J{"slow_store": true}, goal(0, "commit"), goal(1, "lock"), goal(0, "waiting"), goal(1, "finish")),
				directed(g, J{"slow_store": true}, goal(1, "resolve"), goal(0, "waiting"), goal(1, "finish")))
		case 3: // a lookup that fails WHEREVER the code makes it (key, reference, transaction by id): the k-th one of the run
			name = "store read fails somewhere"
			t := g.n(nf)
			ik := g.pick([]string{"", "", "fk-1"})
			first := J{"kind": "revert", "phase": 0, "dry": false, "ik": ik, "ref": "", "target": t, "force": g.p(50)}
			if g.p(25) {
				first = create(g, 0, g.pick(accts), "dave", 10)
				first["ik"], first["ref"] = ik, "fr-1"
			}
			reqs = []J{first}
			ph := 1
			if g.p(50) { // the same request again (a client that saw an error asks again)
				c := J{}
				for k, v := range first {
					c[k] = v
				}
				c["phase"] = ph
				reqs = append(reqs, c)
				ph++
			}
			switch g.n(3) {
			case 0:
				reqs = append(reqs, J{"kind": "setmeta", "phase": ph, "dry": false, "ik": "", "ref": "", "target": t, "key": "k1", "val": "v"})
			case 1:
				reqs = append(reqs, J{"kind": "delmeta", "phase": ph, "dry": false, "ik": "", "ref": "", "target": t, "key": "k1"})
			default:
				reqs = append(reqs, J{"kind": "revert", "phase": ph, "dry": false, "ik": "", "ref": "", "target": (t + 1) % nf, "force": true})
			}
			for k := 1; k <= 5; k++ {
				plans = append(plans, J{"seed": g.next() % 1000000, "crash": -1, "fail": -1, "plan": []int{}, "coarse": g.p(30), "fail_any_read": k})
			}
		default: // a graceful stop while one batch is inside InsertLogs AND another request has handed its log to the batcher
			name = "graceful stop with a log pending behind the batch being written"
			k := 2 + g.n(2)
			perm := []int{0, 1, 2}
			for i := 2; i > 0; i-- {
				j := g.n(i + 1)
				perm[i], perm[j] = perm[j], perm[i]
			}
			for i := 0; i < k; i++ {
				switch x := g.n(100); {
				case x < 20:
					reqs = append(reqs, J{"kind": "setmeta", "phase": 0, "dry": false, "ik": "", "ref": "", "acct": accts[perm[i]], "key": "k1", "val": fmt.Sprintf("v%d", i)})
				case x < 35:
					reqs = append(reqs, J{"kind": "revert", "phase": 0, "dry": false, "ik": "", "ref": "", "target": perm[i], "force": true})
				default:
					reqs = append(reqs, create(g, 0, accts[perm[i]], "dave", 10+10*g.n(3)))
				}
			}
			reqs = append(reqs, create(g, 1, g.pick(accts), "dave", 10))
			if g.p(50) {
				reqs = append(reqs, J{"kind": "setmeta", "phase": 1, "dry": false, "ik": "", "ref": "", "acct": "bob", "key": "k2", "val": "w"})
			}
			for pI := 0; pI < 3; pI++ {
				plans = append(plans, J{"seed": g.next() % 1000000, "crash": -1, "fail": -1, "plan": []int{}, "coarse": g.p(30), "close": 4 + g.n(10*k), "slow_store": true})
			}
			var g1, g2 []J
			for i := 0; i < k; i++ {
				g1, g2 = append(g1, goal(i, "waiting")), append(g2, goal(k-1-i, "waiting"))
			}
			plans = append(plans, directed(g, J{"close": 1, "close_after_goals": true, "slow_store": true}, g1...),
				directed(g, J{"close": 1, "close_after_goals": true, "slow_store": true}, g2...))
		}
		scn := J{"requests": reqs, "funding": funding, "metadata": meta, "plans": plans, "twin": false, "series": 4, "shape": e % nShapes4, "name": name}
		if twinReal {
			scn["twin_real"] = true
		}
		emit(scn)
	}
}

// engLongKey: an idempotency key of exactly n bytes (ASCII), distinct per tag within its first 16 bytes
func engLongKey(n int, tag int) string {
	k := fmt.Sprintf("idem-%04d-", tag)
	for len(k) < n {
		k += "0123456789abcdefghijklmnopqrstuvwxyz"[len(k)%36 : len(k)%36+1]
	}
	return k[:n]
}
