//go:build verif

package batching

// Added to package batching by the verification overlay only (never committed to the repository):
// read-only inspection of the queue length, so that the harness of area "batcher" knows when an Append call that
// cannot return (Run is not receiving) has put its object into the queue.

// VerifPendingLen is len(s.pending), read under the batcher's mutex.
func (s *Batcher[T]) VerifPendingLen() int {
	s.mu.Lock()
	defer s.mu.Unlock()
	return len(s.pending)
}
