//go:build verif

package job

// Added to package job by the verification overlay only (never committed to the repository).

// VerifUnpark serves, and discards, the Next and Close calls that are parked on a runner whose Run has ended (nobody
// will ever receive them).  The harness of area "batcher" calls it AFTER a case is over, only so that the goroutines of
// finished cases do not pile up in the process; nothing observed of a case depends on it.
func (r *Runner[JOB]) VerifUnpark() int {
	n := 0
	for {
		select {
		case <-r.newJobsAvailable:
			n++
		case done := <-r.stopChan:
			close(done)
			n++
		default:
			return n
		}
	}
}
