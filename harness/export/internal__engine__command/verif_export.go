//go:build verif

package command

import (
	"sort"
	"sync"
)

// Added to package command by the verification overlay only (never committed to the repository):
// read-only inspection of DefaultLocker's unexported state for the C15 differential, and the locker's mutex itself
// (the harness holds it to decide in which order a release and a cancellation path get it, see harness/lock.go "handover").

// VerifLockView is a consistent snapshot of the lock tables and of the intents queue (front first).
type VerifLockView struct {
	Read  map[string]int64 // readLocks: every key present, with its counter
	Write []string         // writeLocks: keys, sorted
	Queue []Accounts       // accounts of the waiting intents, in queue order
}

func (defaultLocker *DefaultLocker) VerifView() VerifLockView {
	defaultLocker.mu.Lock()
	defer defaultLocker.mu.Unlock()
	v := VerifLockView{Read: map[string]int64{}, Write: []string{}, Queue: []Accounts{}}
	for k, c := range defaultLocker.readLocks {
		v.Read[k] = c.Load()
	}
	for k := range defaultLocker.writeLocks {
		v.Write = append(v.Write, k)
	}
	sort.Strings(v.Write)
	defaultLocker.intents.ForEach(func(i *lockIntent) {
		v.Queue = append(v.Queue, i.accounts)
	})
	return v
}

// VerifQueueLen is the number of waiting intents.
func (defaultLocker *DefaultLocker) VerifQueueLen() int {
	defaultLocker.mu.Lock()
	defer defaultLocker.mu.Unlock()
	return defaultLocker.intents.Length()
}

// VerifMu is the locker's own mutex.  The harness only ever locks it, waits until the goroutines it wants to order are
// parked on it, and unlocks it; it never touches the state the mutex protects.
func (defaultLocker *DefaultLocker) VerifMu() *sync.Mutex {
	return &defaultLocker.mu
}

// The error values SaveMeta / DeleteMetadata return for a transaction that does not exist (their constructors are unexported);
// the bulk harness (C18) hands them to the real handlers' error mapping.
func VerifErrSaveMetaNotFound() error   { return newErrSaveMetadataTransactionNotFound() }
func VerifErrDeleteMetaNotFound() error { return newErrDeleteMetadataTransactionNotFound() }
