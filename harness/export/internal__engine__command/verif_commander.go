//go:build verif

package command

import (
	"math/big"

	ledger "github.com/formancehq/ledger/internal"
)

// Added to package command by the verification overlay only (never committed to the repository):
// read-only inspection of the commander's in-memory position in the log, for trace validation.

// VerifLastLog returns commander.lastLog (the log chained last), or nil.
// The mutex is only tried: the scheduler calls this while every request is parked, and a request parked INSIDE the
// commit section (a change of the code that yields there) must not block the scheduler — the read is then ordered
// by the channel hand-over of the parking.
func (commander *Commander) VerifLastLog() *ledger.ChainedLog {
	if commander.mu.TryLock() {
		defer commander.mu.Unlock()
	}
	return commander.lastLog
}

// VerifLastTXID returns a copy of commander.lastTXID.
func (commander *Commander) VerifLastTXID() *big.Int {
	if commander.mu.TryLock() {
		defer commander.mu.Unlock()
	}
	return new(big.Int).Set(commander.lastTXID)
}
