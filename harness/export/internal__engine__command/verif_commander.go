//go:build verif

package command

import (
	"math/big"

	ledger "github.com/formancehq/ledger/internal"
)

// Added to package command by the verification overlay only (never committed to the repository):
// read-only inspection of the commander's in-memory position in the log, for trace validation.

// VerifLastLog returns commander.lastLog (the log chained last), or nil.
func (commander *Commander) VerifLastLog() *ledger.ChainedLog {
	commander.mu.Lock()
	defer commander.mu.Unlock()
	return commander.lastLog
}

// VerifLastTXID returns a copy of commander.lastTXID.
func (commander *Commander) VerifLastTXID() *big.Int {
	commander.mu.Lock()
	defer commander.mu.Unlock()
	return new(big.Int).Set(commander.lastTXID)
}
