//go:build verif

package command

// Added to package command by the verification overlay only (never committed to the repository):
// the REAL Referencer.take / release, callable from the stress stream of harness/engstress.go (N goroutines released by a
// spinning barrier call take with the same key: exactly one may get the reservation).

const (
	VerifRefReverts = int(referenceReverts)
	VerifRefIks     = int(referenceIks)
	VerifRefTx      = int(referenceTxReference)
)

// VerifTake calls take and says whether the reservation was granted.
func (r *Referencer) VerifTake(kind int, key any) bool {
	return r.take(Reference(kind), key) == nil
}

// VerifRelease calls release.
func (r *Referencer) VerifRelease(kind int, key any) {
	r.release(Reference(kind), key)
}
