//go:build verif

package ledgerstore

// Added to package ledgerstore by the verification harness through `go build -overlay` (never committed to the
// repository).  The fields of Bucket and Store are unexported; the SQL-text checks (C20, C17, C04 reads) need a
// Store over a caller-supplied *bun.DB (bun + pgdialect over a recording fake database/sql driver).

import "github.com/uptrace/bun"

// NewForVerif builds a Store named `name` in bucket `bucket` over `db`; no connection is opened, no migration runs.
func NewForVerif(db *bun.DB, bucket, name string) *Store {
	return &Store{bucket: &Bucket{name: bucket, db: db}, name: name}
}
