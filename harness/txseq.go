package main

// Area "txseq" (C09): SEQUENCES of posting-mode requests on ONE commander — one command.Compiler, hence one compilation
// cache, one referencer, one store — submitted one after the other; every committed transaction is held against ITS OWN
// request.  TxToScriptData's text depends only on the shape of a posting list, so whatever the engine keeps between two
// requests under a key derived from that text (the compilation cache) must not hand the later request the program of the
// earlier one.  The corpus (corpus/nscache/weak-keys.jsonl, "lists") holds pairs of shapes whose texts collide under
// common weak 32-bit digests; the generator adds random sequences of different shapes over one set of variables.
//
// input : {"bal":[[acct,asset,"<decimal>"]], "requests":[{"postings":[P…],"meta":{k:v},"ref":s,"ts":"<unix µs>"|null,"tz":minutes,"kind":"valid"}…]}
// output: {"scripts":[text…], "direct":[R…], "v2":[R…]}    R as in area txscript; one engine per path for the whole sequence

import (
	"fmt"
	"strconv"
	"time"

	ledger "github.com/formancehq/ledger/internal"
)

func init() { register("txseq", &area{gen: genTxSeq, exec: execTxSeq}) }

var txsAccounts = []string{"users:alice", "pool:eu", "users:bob", "fees", "merchants:7", "a", "x-y:z_1-2"}
var txsMons = [][2]string{{"USD/2", "7"}, {"USD/2", "300"}, {"EUR", "15"}, {"COIN", "18446744073709551616"}, {"USD/2", "0"}}

func genTxSeq(r *rng, n int, tier string, emit func(J)) {
	for c := 0; c < n; c++ {
		g := r.fork()
		nA, nM := 1+g.n(3), 1+g.n(2)
		perm := append([]string{}, txsAccounts...)
		for k := len(perm) - 1; k > 0; k-- {
			j := g.n(k + 1)
			perm[k], perm[j] = perm[j], perm[k]
		}
		accts := perm[:nA]
		mons := [][2]string{}
		for k := 0; k < nM; k++ {
			mons = append(mons, txsMons[g.n(len(txsMons))])
		}
		need := map[[2]string]int{} // whole outflow of the sequence per (account, asset): more than enough
		order := [][2]string{}
		reqs := []any{}
		var prev []any
		for k := 2 + g.n(3); k > 0; k-- {
			var ps []any
			switch {
			case prev != nil && g.p(25): // the same shape again, other values: a legitimate cache hit
				for _, pa := range prev {
					p := pa.(J)
					ps = append(ps, J{"source": p["source"], "destination": p["destination"], "asset": p["asset"], "amount": strconv.Itoa(1 + g.n(50))})
				}
			case prev != nil && g.p(35): // the earlier list with its postings in another order, one end swapped
				ps = append(ps, prev...)
				i, j := g.n(len(ps)), g.n(len(ps))
				ps[i], ps[j] = ps[j], ps[i]
				p := ps[g.n(len(ps))].(J)
				ps[g.n(len(ps))] = J{"source": p["destination"], "destination": p["source"], "asset": p["asset"], "amount": p["amount"]}
			default:
				for m := 1 + g.n(5); m > 0; m-- {
					pick := func() string {
						if g.p(30) {
							return "world"
						}
						return g.pick(accts)
					}
					mon := mons[g.n(len(mons))]
					ps = append(ps, J{"source": pick(), "destination": pick(), "asset": mon[0], "amount": mon[1]})
				}
			}
			prev = ps
			for _, pa := range ps {
				p := pa.(J)
				if src := p["source"].(string); src != "world" {
					key := [2]string{src, p["asset"].(string)}
					if _, ok := need[key]; !ok {
						order = append(order, key)
					}
					if v, err := strconv.Atoi(p["amount"].(string)); err == nil {
						need[key] += v
					} else {
						need[key] = -1 // beyond int: give 2^70
					}
				}
			}
			rq := J{"postings": ps, "kind": "valid", "meta": J{}, "ref": "", "ts": nil, "tz": 0}
			if g.p(40) {
				rq["meta"] = J{"order": strconv.Itoa(g.n(9))}
			}
			if g.p(40) {
				rq["ref"] = fmt.Sprintf("seq-%d-%d", c, len(reqs))
			}
			reqs = append(reqs, rq)
		}
		bal := []any{}
		for _, k := range order {
			v := strconv.Itoa(need[k])
			if need[k] < 0 {
				v = "1180591620717411303424000"
			}
			if v != "0" {
				bal = append(bal, []any{k[0], k[1], v})
			}
		}
		emit(J{"bal": bal, "requests": reqs})
	}
}

func execTxSeq(in J) J {
	ctx := txQuietCtx()
	var bal [][3]string
	bs, _ := in["bal"].([]any)
	for _, ba := range bs {
		b := ba.([]any)
		bal = append(bal, [3]string{b[0].(string), b[1].(string), b[2].(string)})
	}
	rs, _ := in["requests"].([]any)
	reqs := make([]txIn, 0, len(rs))
	scripts := []any{}
	for _, ra := range rs {
		t := parseTxIn(ra.(map[string]any))
		reqs = append(reqs, t)
		ok := true
		for _, p := range t.posts {
			ok = ok && p.Amount != nil
		}
		if ok {
			scripts = append(scripts, ledger.TxToScriptData(ledger.TransactionData{Postings: t.posts, Metadata: t.meta, Reference: t.ref, Timestamp: t.ts}, false).Script.Plain)
		} else {
			scripts = append(scripts, nil)
		}
	}
	out := J{"scripts": scripts}
	path := func(name string, submit func(e *txEngine, t txIn) J) {
		res := []any{}
		defer func() {
			if r := recover(); r != nil {
				res = append(res, J{"panic": fmt.Sprint(r)})
			}
			out[name] = res
		}()
		e := newTxEngine(ctx, bal)
		defer e.close()
		for _, t := range reqs {
			before := time.Now()
			r := submit(e, t)
			e2 := *e // persisted() counts from e.base: the logs the store held before THIS request
			n, lg := e2.persisted(ctx, t.hasTs, before, time.Now())
			r["newlogs"] = n
			if lg != nil && n > 0 {
				r["log"] = lg
			}
			if tx, ok := r["rawtx"].(*ledger.Transaction); ok {
				r["tx"] = txCanon(tx, t.hasTs, before, time.Now())
			}
			delete(r, "rawtx")
			e.base += n
			res = append(res, r)
		}
	}
	path("direct", func(e *txEngine, t txIn) J {
		return txDirectSubmit(ctx, e, ledger.TransactionData{Postings: t.posts, Metadata: t.meta, Reference: t.ref, Timestamp: t.ts})
	})
	path("v2", func(e *txEngine, t txIn) J { return txV2Submit(ctx, e, txBody(t)) })
	return out
}
