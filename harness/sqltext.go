package main

// Area "sqltext" (C20): every list / count read of the REAL ledgerstore, reached through the REAL v1 / v2 routers and
// controllers, over bun + pgdialect + a recording fake database/sql driver.  The driver receives the final SQL text
// (bun inlines and quotes every argument) and records it; nothing is executed.
//
// One input case places one client string at one position of one request and runs the request twice: once with the
// hostile string, once with its harmless twin of the same shape.
//
// input : {"api":"v1|v2", "ep":E, "key":K, "op":O, "pos":"value|metakey|asset|key|op|pit|path", "vtype":"string|array|object",
//          "wrap":"none|and-before|and-after|or", "pit":""|"1"|"2", "expand":[..], "dom":""|"addr"|"num", "hostile":S, "harmless":S}
// output: {"h":{"status":int,"sql":[text…],"request":…}, "t":{…}}      (h = hostile, t = harmless twin)
//
// E: accounts.list accounts.count transactions.list transactions.count balances.agg logs.list  (+ v1: balances.list,
//    + accounts.get : the address as a path parameter)

import (
	"context"
	"database/sql"
	"database/sql/driver"
	"encoding/json"
	"io"
	"net/http"
	"net/http/httptest"
	"net/url"
	"regexp"
	"strings"
	"sync"
	"time"

	ledger "github.com/formancehq/ledger/internal"
	"github.com/formancehq/ledger/internal/api/backend"
	v1 "github.com/formancehq/ledger/internal/api/v1"
	v2 "github.com/formancehq/ledger/internal/api/v2"
	"github.com/formancehq/ledger/internal/opentelemetry/metrics"
	"github.com/formancehq/ledger/internal/storage/ledgerstore"
	sharedapi "github.com/formancehq/stack/libs/go-libs/api"
	"github.com/formancehq/stack/libs/go-libs/auth"
	"github.com/go-chi/chi/v5"
	"github.com/uptrace/bun"
	"github.com/uptrace/bun/dialect/pgdialect"
)

func init() {
	register("sqltext", &area{gen: genSQLText, exec: execSQLText})
}

// ---------------------------------------------------------------- recording database/sql driver

type sqtDrv struct{}
type sqtConn struct{}
type sqtRows struct {
	cols []string
	vals [][]driver.Value
	i    int
}

var (
	sqtMu       sync.Mutex
	sqtCaptured []string
)

func sqtRecord(q string) {
	sqtMu.Lock()
	sqtCaptured = append(sqtCaptured, q)
	sqtMu.Unlock()
}
func sqtTake() []string {
	sqtMu.Lock()
	defer sqtMu.Unlock()
	r := sqtCaptured
	sqtCaptured = nil
	return r
}

func (sqtDrv) Open(string) (driver.Conn, error)        { return sqtConn{}, nil }
func (sqtConn) Prepare(q string) (driver.Stmt, error)  { sqtRecord("PREPARE " + q); return nil, io.ErrUnexpectedEOF }
func (sqtConn) Close() error                           { return nil }
func (sqtConn) Begin() (driver.Tx, error)              { return nil, io.ErrUnexpectedEOF }
func (sqtConn) QueryContext(ctx context.Context, q string, args []driver.NamedValue) (driver.Rows, error) {
	sqtRecord(q)
	if len(args) != 0 { // bun inlines every argument; a bound parameter reaching the driver would be news
		sqtRecord("ARGS-REACHED-DRIVER")
	}
	if strings.HasPrefix(strings.ToLower(q), "select count(") {
		return &sqtRows{cols: []string{"count"}, vals: [][]driver.Value{{int64(0)}}}, nil
	}
	return &sqtRows{}, nil
}
func (sqtConn) ExecContext(ctx context.Context, q string, args []driver.NamedValue) (driver.Result, error) {
	sqtRecord("EXEC " + q)
	return driver.RowsAffected(0), nil
}
func (r *sqtRows) Columns() []string { return r.cols }
func (r *sqtRows) Close() error      { return nil }
func (r *sqtRows) Next(dest []driver.Value) error {
	if r.i >= len(r.vals) {
		return io.EOF
	}
	copy(dest, r.vals[r.i])
	r.i++
	return nil
}

var (
	sqtOnce  sync.Once
	sqtStore *ledgerstore.Store
)

func sqtGetStore() *ledgerstore.Store {
	sqtOnce.Do(func() {
		sql.Register("verif-sqltext", sqtDrv{})
		sqldb, err := sql.Open("verif-sqltext", "")
		if err != nil {
			panic(err)
		}
		sqtStore = ledgerstore.NewForVerif(bun.NewDB(sqldb, pgdialect.New()), "b0", "l0")
	})
	return sqtStore
}

// the read side of engine.Ledger: it hands the query straight to the store (internal/engine/ledger.go)
type sqtLedger struct {
	*fakeLedger
	st *ledgerstore.Store
}

func (l *sqtLedger) GetAccountsWithVolumes(ctx context.Context, q ledgerstore.GetAccountsQuery) (*sharedapi.Cursor[ledger.ExpandedAccount], error) {
	return l.st.GetAccountsWithVolumes(ctx, q)
}
func (l *sqtLedger) CountAccounts(ctx context.Context, q ledgerstore.GetAccountsQuery) (int, error) {
	return l.st.CountAccounts(ctx, q)
}
func (l *sqtLedger) GetAccountWithVolumes(ctx context.Context, q ledgerstore.GetAccountQuery) (*ledger.ExpandedAccount, error) {
	return l.st.GetAccountWithVolumes(ctx, q)
}
func (l *sqtLedger) GetAggregatedBalances(ctx context.Context, q ledgerstore.GetAggregatedBalanceQuery) (ledger.BalancesByAssets, error) {
	return l.st.GetAggregatedBalances(ctx, q)
}
func (l *sqtLedger) GetLogs(ctx context.Context, q ledgerstore.GetLogsQuery) (*sharedapi.Cursor[ledger.ChainedLog], error) {
	return l.st.GetLogs(ctx, q)
}
func (l *sqtLedger) CountTransactions(ctx context.Context, q ledgerstore.GetTransactionsQuery) (int, error) {
	return l.st.CountTransactions(ctx, q)
}
func (l *sqtLedger) GetTransactions(ctx context.Context, q ledgerstore.GetTransactionsQuery) (*sharedapi.Cursor[ledger.ExpandedTransaction], error) {
	return l.st.GetTransactions(ctx, q)
}

var (
	sqtRouterOnce sync.Once
	sqtV1, sqtV2  chi.Router
)

func sqtRouters() (chi.Router, chi.Router) {
	sqtRouterOnce.Do(func() {
		b := &fakeBackend{l: nil}
		bb := &sqtBackend{fakeBackend: b, l: &sqtLedger{fakeLedger: &fakeLedger{}, st: sqtGetStore()}}
		sqtV1 = v1.NewRouter(bb, nil, metrics.NewNoOpRegistry(), auth.NewNoAuth())
		sqtV2 = v2.NewRouter(bb, nil, metrics.NewNoOpRegistry(), auth.NewNoAuth())
	})
	return sqtV1, sqtV2
}

// ---------------------------------------------------------------- request construction

const (
	sqtPIT1 = "2023-05-06T07:08:09Z"
	sqtPIT2 = "2021-01-02T03:04:05.000006+02:00"
)

var sqtPaths = map[string][2]string{ // ep -> method, path
	"accounts.list":      {"GET", "/accounts"},
	"accounts.count":     {"HEAD", "/accounts"},
	"accounts.get":       {"GET", "/accounts/"},
	"transactions.list":  {"GET", "/transactions"},
	"transactions.count": {"HEAD", "/transactions"},
	"balances.agg":       {"GET", "/aggregate/balances"},
	"balances.list":      {"GET", "/balances"}, // v1 only
	"logs.list":          {"GET", "/logs"},
}

func sqtKeyWith(key, pos, s string) string {
	switch pos {
	case "metakey":
		return "metadata[" + s + "]"
	case "asset":
		return "balance[" + s + "]"
	case "key":
		return s
	}
	return key
}

func sqtValue(pos, vtype, s string) any {
	if pos != "value" {
		return "v"
	}
	switch vtype {
	case "number": // a harmless probe value only (which keys does the code accept?)
		return json.Number(s)
	case "array":
		return []any{s, "v"}
	case "object":
		return map[string]any{s: s}
	}
	return s
}

// the v2 body (also the v1 `query` parameter): {op:{key:value}}, possibly inside $and / $or next to a bound sibling
func sqtBody(in J, s string) string {
	key, _ := in["key"].(string)
	op, _ := in["op"].(string)
	pos, _ := in["pos"].(string)
	vtype, _ := in["vtype"].(string)
	wrap, _ := in["wrap"].(string)
	if pos == "op" {
		op = s
	}
	leaf := map[string]any{op: map[string]any{sqtKeyWith(key, pos, s): sqtValue(pos, vtype, s)}}
	ep, _ := in["ep"].(string)
	sibKey := "metadata[sib]"
	var sibVal any = "sibling"
	if ep == "logs.list" {
		sibKey = "date"
	} else if b, _ := in["sib"].(string); b == "bound" {
		// a sibling whose value travels as a bound argument: a placeholder smuggled into the leaf would steal it
		if strings.HasPrefix(ep, "transactions") {
			sibKey = "reference"
		} else if strings.HasPrefix(ep, "accounts") {
			sibKey, sibVal = "balance[USD]", 10
		}
	}
	sib := map[string]any{"$match": map[string]any{sibKey: sibVal}}
	var top any = leaf
	switch wrap {
	case "and-before":
		top = map[string]any{"$and": []any{sib, leaf}}
	case "and-after":
		top = map[string]any{"$and": []any{leaf, sib}}
	case "or":
		top = map[string]any{"$or": []any{leaf, sib}}
	}
	b, err := json.Marshal(top)
	if err != nil {
		panic(err)
	}
	return string(b)
}

type sqtReq struct {
	Method, URL, Body string
}

func sqtBuild(in J, s string) sqtReq {
	api, _ := in["api"].(string)
	ep, _ := in["ep"].(string)
	key, _ := in["key"].(string)
	op, _ := in["op"].(string)
	pos, _ := in["pos"].(string)
	mp := sqtPaths[ep]
	q := url.Values{}
	path := "/l0" + mp[1]
	if ep == "accounts.get" {
		path += url.PathEscape(s)
	}
	switch p, _ := in["pit"].(string); p {
	case "1":
		q.Set("pit", sqtPIT1)
	case "2":
		q.Set("pit", sqtPIT2)
	}
	if pos == "pit" {
		q.Set("pit", s)
	}
	if ex, ok := in["expand"].([]any); ok {
		for _, e := range ex {
			q.Add("expand", e.(string))
		}
	}
	body := ""
	if ep != "accounts.get" {
		if api == "v2" {
			if pos != "pit" || key != "" {
				body = sqtBody(in, s)
			}
		} else if key == "query" { // v1: the JSON expression travels in ?query=
			in2 := J{}
			for k, v := range in {
				in2[k] = v
			}
			in2["key"], _ = in["qkey"].(string)
			q.Set("query", sqtBody(in2, s))
		} else if pos != "pit" {
			// v1 query parameters: the parameter name is the key ("address", "metadata[k]", "start_time", "balance" …)
			name := key
			val := s
			switch pos {
			case "metakey":
				name, val = "metadata["+s+"]", "v"
			case "key": // only parameter names starting with "metadata" are picked up as filters
				name, val = "metadata"+s, "v"
			case "op": // balanceOperator
				q.Set("balanceOperator", s)
				name, val = "balance", "10"
			}
			q.Set(name, val)
			if key == "balance" && pos == "value" && op != "" {
				q.Set("balanceOperator", op)
			}
		}
	}
	u := path
	if len(q) > 0 {
		u += "?" + q.Encode()
	}
	return sqtReq{Method: mp[0], URL: u, Body: body}
}

var (
	sqtTS1 = regexp.MustCompile(`'\d{4}-\d\d-\d\d \d\d:\d\d:\d\d(\.\d+)?[+-]\d\d:\d\d'`)
	sqtTS2 = regexp.MustCompile(`'\d{4}-\d\d-\d\dT\d\d:\d\d:\d\d(\.\d+)?Z'`)
)

func sqtRunRaw(raw map[string]any) J {
	in := J{"api": raw["api"], "pit": "x"}
	m, _ := raw["method"].(string)
	u, _ := raw["url"].(string)
	b, _ := raw["body"].(string)
	return sqtServe(in, sqtReq{Method: m, URL: u, Body: b})
}

func sqtRun(in J, s string) J {
	return sqtServe(in, sqtBuild(in, s))
}

func sqtServe(in J, rq sqtReq) J {
	r1, r2 := sqtRouters()
	router := r2
	if api, _ := in["api"].(string); api == "v1" {
		router = r1
	}
	sqtTake()
	var body io.Reader
	if rq.Body != "" {
		body = strings.NewReader(rq.Body)
	}
	req, err := http.NewRequest(rq.Method, rq.URL, body)
	if err != nil {
		return J{"status": 0, "sql": []any{}, "request": J{"method": rq.Method, "url": rq.URL, "body": rq.Body}, "unbuildable": err.Error()}
	}
	req.RequestURI = rq.URL
	rec := httptest.NewRecorder()
	router.ServeHTTP(rec, req)
	got := sqtTake()
	// v2 uses the wall clock as point in time when the request names none: that literal is not client text
	explicit := false
	if p, _ := in["pit"].(string); p != "" {
		explicit = true
	}
	if pos, _ := in["pos"].(string); pos == "pit" {
		explicit = true
	}
	out := make([]any, 0, len(got))
	now := time.Now()
	recent := func(layout string) func(string) string {
		return func(m string) string {
			if t, err := time.Parse(layout, m[1:len(m)-1]); err == nil && now.Sub(t) < 30*time.Second && t.Sub(now) < 30*time.Second {
				return "'NOW'"
			}
			return m
		}
	}
	for _, g := range got {
		if !explicit {
			g = sqtTS1.ReplaceAllStringFunc(g, recent("2006-01-02 15:04:05.999999-07:00"))
			g = sqtTS2.ReplaceAllStringFunc(g, recent(time.RFC3339Nano))
		}
		out = append(out, g)
	}
	return J{"status": rec.Code, "sql": out, "request": J{"method": rq.Method, "url": rq.URL, "body": rq.Body}}
}

func execSQLText(in J) J {
	if raw, ok := in["raw"].(map[string]any); ok { // a literal request (probes outside the catalogue)
		return J{"h": safeExec(func(J) J { return sqtRunRaw(raw) }, in), "t": J{"status": 0, "sql": []any{}}}
	}
	h, _ := in["hostile"].(string)
	t, _ := in["harmless"].(string)
	return J{"h": safeExec(func(J) J { return sqtRun(in, h) }, in), "t": safeExec(func(J) J { return sqtRun(in, t) }, in)}
}

type sqtBackend struct {
	*fakeBackend
	l *sqtLedger
}

func (b *sqtBackend) GetLedgerEngine(ctx context.Context, name string) (backend.Ledger, error) {
	return b.l, nil
}
