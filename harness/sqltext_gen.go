package main

// Generator of the "sqltext" area: the catalogue (every endpoint x filter key x operator x position the v1 parameters and
// the v2 bodies offer) crossed with a fixed list of hostile strings and n seeded random compositions of SQL / bun / JSON
// metacharacters; every case carries the harmless twin of its string.

import (
	"os"
	"sort"
	"strings"
)

var sqtOps = []string{"$match", "$lt", "$lte", "$gt", "$gte"}

type sqtRow struct {
	api, ep, key, op, pos, vtype, qkey string
	addr                              bool // the string is an address pattern: the twin keeps the ':' separators
	num                               bool // the string is a number (v1 balance): the twin keeps sign and digit positions
}

func sqtCatalogue() []sqtRow {
	var rows []sqtRow
	add := func(r sqtRow) { rows = append(rows, r) }
	leaves := func(api, ep, wrapKey string, keys []string) {
		for _, k := range keys {
			for _, op := range sqtOps {
				r := sqtRow{api: api, ep: ep, key: k, op: op, pos: "value", vtype: "string"}
				if wrapKey != "" {
					r.key, r.qkey = wrapKey, k
				}
				r.addr = k == "address" || k == "account" || k == "source" || k == "destination"
				add(r)
				if op == "$match" || k == "balance[USD]" || k == "reference" {
					r2 := r
					r2.vtype = "array"
					add(r2)
					r2.vtype = "object"
					add(r2)
				}
				if k == "metadata[k]" {
					r2 := r
					r2.pos, r2.addr = "metakey", false
					add(r2)
				}
				if k == "balance[USD]" {
					r2 := r
					r2.pos, r2.addr = "asset", false
					add(r2)
				}
			}
		}
		// the key itself and the operator itself are client text too
		r := sqtRow{api: api, ep: ep, key: "?", op: "$match", pos: "key", vtype: "string"}
		if wrapKey != "" {
			r.key, r.qkey = wrapKey, "?"
		}
		add(r)
		r.pos, r.op = "op", "?"
		if wrapKey == "" {
			r.key = keys[0]
		} else {
			r.qkey = keys[0]
		}
		add(r)
	}
	accountKeys := []string{"address", "metadata[k]", "balance[USD]", "balance"}
	txKeys := []string{"reference", "timestamp", "account", "source", "destination", "metadata[k]", "id"}
	leaves("v2", "accounts.list", "", accountKeys)
	leaves("v2", "accounts.count", "", accountKeys)
	leaves("v2", "transactions.list", "", txKeys)
	leaves("v2", "transactions.count", "", txKeys)
	leaves("v2", "balances.agg", "", []string{"address", "metadata[k]"})
	leaves("v2", "logs.list", "", []string{"date", "id"})
	for _, ep := range []string{"accounts.list", "accounts.count", "transactions.list", "transactions.count", "balances.agg"} {
		add(sqtRow{api: "v2", ep: ep, key: "", op: "", pos: "pit"})
	}
	add(sqtRow{api: "v2", ep: "accounts.get", pos: "path", addr: true})

	// v1: the JSON expression of HEAD /accounts travels in ?query= ; everything else is a query parameter
	leaves("v1", "accounts.count", "query", accountKeys)
	param := func(ep, name string, addr bool) {
		add(sqtRow{api: "v1", ep: ep, key: name, op: "", pos: "value", vtype: "string", addr: addr})
	}
	for _, ep := range []string{"accounts.list", "balances.list"} {
		param(ep, "address", true)
		param(ep, "metadata[k]", false)
		add(sqtRow{api: "v1", ep: ep, key: "metadata[k]", pos: "metakey"})
		add(sqtRow{api: "v1", ep: ep, key: "metadata", pos: "key"})
		for _, op := range []string{"", "e", "ne", "lt", "lte", "gt", "gte"} {
			add(sqtRow{api: "v1", ep: ep, key: "balance", op: op, pos: "value", vtype: "string", num: true})
		}
		add(sqtRow{api: "v1", ep: ep, key: "balance", op: "?", pos: "op"})
	}
	for _, ep := range []string{"transactions.list", "transactions.count"} {
		param(ep, "reference", false)
		param(ep, "source", true)
		param(ep, "destination", true)
		param(ep, "account", true)
		param(ep, "metadata[k]", false)
		add(sqtRow{api: "v1", ep: ep, key: "metadata[k]", pos: "metakey"})
		add(sqtRow{api: "v1", ep: ep, key: "metadata", pos: "key"})
		param(ep, "start_time", false)
		param(ep, "end_time", false)
		param(ep, "after", false)
	}
	param("balances.agg", "address", true)
	param("logs.list", "start_time", false)
	param("logs.list", "end_time", false)
	param("logs.list", "after", false)
	for _, ep := range []string{"accounts.list", "accounts.count", "transactions.list", "transactions.count", "balances.agg", "balances.list"} {
		add(sqtRow{api: "v1", ep: ep, pos: "pit"})
	}
	add(sqtRow{api: "v1", ep: "accounts.get", pos: "path", addr: true})
	return rows
}

// every string carries the marker zq7 somewhere unless it is one of the very short ones
var sqtFixed = []string{
	// plain values (accepted everywhere; the twin differs only in letters)
	"users", "users:001", "users:", ":001", "a:b:c", "::", "orders:zq7-1:x_y", "2023-01-01T00:00:00Z", "100", "-5",
	// quotes
	"'", "''", "zq7'", "x' or '1'='1", "zq7' or '1'='1", "a'; drop table x; --", "zq7'; drop table accounts; --", "users:zq7' or 1=1 --:",
	":zq7'", "zq7\" or \"\"=\"", "zq7\\", "\\", "zq7\\' or 1=1 --", "\\'; select 1; --", "zq7''''", "E'zq7\\'",
	// comments, dollar quoting, casts, statement separators
	"zq7 --", "--", "zq7 /* x", "/*", "*/ zq7", "zq7 $$", "$$", "$zq7$ x $zq7$", "zq7::text", "zq7; select 1", "zq7) or (1=1", "((zq7",
	// bun placeholders (the count methods format the rendered query a second time)
	"zq7?", "?", "zq7 ?0 ?1", "?TableName zq7", "zq7 ?ledger", "??",
	// NUL, control characters, non-ASCII, JSON-sensitive text
	"zq7\x00'", "\x00", "zq7\n' or 1=1", "zq7\r\n--", "zq7\t", "zq7’ or ’1’=’1", "zq7éè 中文", "ʼzq7", "zq7\\u0027", "zq7\\u0000'",
	"zq7<script>&", "{\"zq7\":\"'\"}", "[\"zq7'\"]", "zq7 '", "\xff'zq7", "zq7%' or 'a' like '%", "_zq7_",
	// address-shaped with hostile segments
	"users:zq7'", "zq7':", ":zq7\"", "a:zq7\\:b", "zq7'::", "a-b:zq7--c", "-zq7", "zq7-", "a:?:b",
	"a:b:c:d:e:f:g:h:i:j:k:", "a:b:c:d:e:f:g:h:i:j:zq7':", ":::::::::::x",
}

var sqtFrags = []string{
	"'", "''", "\\", "\\'", "\"", "$$", "$a$", "--", "/*", "*/", ";", "?", "?0", "(", ")", "::", ":", " or ", "1=1", "\x00", "\n",
	"é", "’", "\\u0000", "%", "_", "E'", "zq7", "zq7", "ab", "7", "-", " ", "{", "}", "[", "]", ",", "=", "<", ">", "&", "|", "`", "#", "\r", "\t", "中",
}

func sqtRandom(r *rng) string {
	var b strings.Builder
	k := 1 + r.n(6)
	for i := 0; i < k; i++ {
		b.WriteString(r.pick(sqtFrags))
	}
	return b.String()
}

// the harmless twin: same length, every character 'a'; an address pattern keeps its ':' separators, a number its sign
// and digit positions (so that the twin is accepted or refused by the same validation as the original)
func sqtHarmless(s string, dom string) string {
	var b strings.Builder
	for _, c := range s {
		switch {
		case dom == "addr" && c == ':':
			b.WriteByte(':')
		case dom == "num" && (c == '-' || c == '+'):
			b.WriteRune(c)
		case dom == "num" && c >= '0' && c <= '9':
			b.WriteByte('1')
		default:
			b.WriteByte('a')
		}
	}
	return b.String()
}

func genSQLText(r *rng, n int, tier string, emit func(J)) {
	rows := sqtCatalogue()
	wraps := []string{"none", "none", "and-before", "and-after", "or"}
	for _, row := range rows {
		strs := append([]string{}, sqtFixed...)
		for i := 0; i < n; i++ {
			strs = append(strs, sqtRandom(r))
		}
		for _, s := range strs {
			dom := ""
			if row.addr {
				dom = "addr"
			} else if row.num {
				dom = "num"
			}
			c := J{"api": row.api, "ep": row.ep, "key": row.key, "op": row.op, "pos": row.pos, "vtype": row.vtype,
				"dom": dom, "hostile": s, "harmless": sqtHarmless(s, dom), "wrap": "none", "pit": "", "expand": []any{}}
			if row.qkey != "" {
				c["qkey"] = row.qkey
			}
			if row.pos != "pit" {
				c["pit"] = r.pick([]string{"", "", "1", "2"})
			}
			if row.ep != "logs.list" && row.ep != "accounts.get" && (row.api == "v2" || row.key == "query") {
				c["wrap"] = r.pick(wraps)
				c["sib"] = r.pick([]string{"meta", "bound"})
			}
			ex := []any{}
			if r.p(30) {
				ex = append(ex, "volumes")
			}
			if r.p(30) {
				ex = append(ex, "effectiveVolumes")
			}
			c["expand"] = ex
			emit(c)
		}
	}
	// streams of their own (the cases above stay what they were): hostile KEYS, and hostile values through every key the code of
	// this run accepts although the catalogue does not list it
	r2 := &rng{s: r.s ^ 0x2545f4914f6cdd1d}
	genSQLKeys(r2, tier, rows, emit)
	genSQLDiscovered(r2, n, tier, rows, emit)
}

// ---------------------------------------------------------------- hostile keys

// names of the columns of the tables of 0-init-schema.sql: checks/c20.py reads them off the schema of this run and hands them
// over in VERIF_SQL_COLUMNS ("table.column,…"); the list below is only the fallback when the harness is run by hand
func sqtSchemaColumns() (tables []string, columns []string) {
	spec := os.Getenv("VERIF_SQL_COLUMNS")
	if spec == "" {
		spec = "transactions.seq,transactions.ledger,transactions.id,transactions.timestamp,transactions.reference,transactions.postings," +
			"transactions.metadata,accounts.address,accounts.insertion_date,moves.asset,moves.amount,logs.date,logs.idempotency_key"
	}
	st, sc := map[string]bool{}, map[string]bool{}
	for _, tc := range strings.Split(spec, ",") {
		k := strings.IndexByte(tc, '.')
		if k <= 0 {
			continue
		}
		if !st[tc[:k]] {
			st[tc[:k]] = true
			tables = append(tables, tc[:k])
		}
		if !sc[tc[k+1:]] {
			sc[tc[k+1:]] = true
			columns = append(columns, tc[k+1:])
		}
	}
	sort.Strings(tables)
	sort.Strings(columns)
	return
}

// words a filter key could plausibly be, beyond the columns
var sqtKeyWords = []string{"asset", "amount", "id", "seq", "ledger", "postings", "insertion_date", "account", "source", "destination", "address",
	"reference", "timestamp", "date", "balance", "metadata", "type", "hash", "volumes", "input", "output", "reverted", "txid"}

// the keys the catalogue lists for an endpoint (what the unchanged code accepts)
func sqtKnownKeys(rows []sqtRow, api, ep string) []string {
	seen := map[string]bool{}
	var out []string
	for _, row := range rows {
		if row.api != api || row.ep != ep || row.pos != "value" {
			continue
		}
		k := row.key
		if row.qkey != "" {
			k = row.qkey
		}
		if !seen[k] {
			seen[k] = true
			out = append(out, k)
		}
	}
	return out
}

// text in front of / behind something an accepting code path could key on.  Every fragment carries the marker.
var sqtKeyPrefixes = []string{"zq7 or true or ", "zq7' or '1'='1' or ", "1=1) or (zq7=zq7 or ", "exists (select zq7 from pg_sleep(1)) or ",
	"zq7; drop table accounts; -- ", "zq7 is null or ", "zq7/**/or/**/true/**/or/**/", "zq7\" = \"\" or ", "é zq7 ?0 or "}
var sqtKeySuffixes = []string{" or zq7 is not null", "' or zq7 --", " = zq7 or true --", "; select zq7", ") or (zq7 = zq7", " ?0 zq7"}

type sqtHostileKey struct{ hostile, harmless string }

func sqtAs(s string) string { return strings.Repeat("a", len([]rune(s))) }

// sqtHostileKeys: for one base (a known key, a column, a qualified column, a word): the fragment in front of it, glued to it with a
// dot, behind it, inside its brackets, around it with blanks.  The harmless twin replaces every character of the FRAGMENT by 'a' and
// keeps the base: an accepting code path accepts both, and only the hostile one brings SQL.
func sqtHostileKeys(r *rng, base string, all bool) []sqtHostileKey {
	var out []sqtHostileKey
	add := func(h, t string) { out = append(out, sqtHostileKey{h, t}) }
	pick := func(xs []string) []string {
		if all {
			return xs
		}
		return []string{xs[r.n(len(xs))]}
	}
	for _, f := range pick(sqtKeyPrefixes) {
		add(f+base, sqtAs(f)+base)
	}
	for _, f := range pick(sqtKeyPrefixes) {
		g := strings.TrimRight(f, " ")
		add(g+"."+base, sqtAs(g)+"."+base)
	}
	for _, f := range pick(sqtKeySuffixes) {
		add(base+f, base+sqtAs(f))
	}
	for _, f := range pick(sqtKeyPrefixes) {
		add(" "+base+" "+f, " "+base+" "+sqtAs(f))
	}
	if k := strings.IndexByte(base, '['); k >= 0 && strings.HasSuffix(base, "]") { // metadata[k], balance[USD]: text behind the bracket
		for _, f := range pick(sqtKeySuffixes) {
			add(base+f, base+sqtAs(f))
		}
	} else {
		for _, f := range pick(sqtKeySuffixes) {
			add(base+"["+f+"]", base+"["+sqtAs(f)+"]")
		}
	}
	return out
}

func genSQLKeys(r *rng, tier string, rows []sqtRow, emit func(J)) {
	tables, columns := sqtSchemaColumns()
	all := tier == "thorough"
	for _, row := range rows {
		if row.pos != "key" {
			continue
		}
		known := sqtKnownKeys(rows, row.api, row.ep)
		if len(known) == 0 { // v1 parameter rows: the names of the endpoint's parameters
			known = sqtKnownKeys(rows, "v2", row.ep)
		}
		seen := map[string]bool{}
		var bases []string
		addBase := func(b string) {
			if !seen[b] {
				seen[b] = true
				bases = append(bases, b)
			}
		}
		for _, k := range known {
			addBase(k)
			if !strings.ContainsAny(k, "[") {
				addBase("t." + k)
				for _, t := range tables {
					addBase(t + "." + k)
				}
			}
		}
		for _, c := range columns {
			addBase(c)
		}
		for _, w := range sqtKeyWords {
			addBase(w)
		}
		for _, b := range []string{"]", "[x]", "metadata[x]", "balance[x]", "metadata", "x.y"} {
			addBase(b)
		}
		for _, b := range bases {
			for _, hk := range sqtHostileKeys(r, b, all) {
				c := J{"api": row.api, "ep": row.ep, "key": row.key, "op": row.op, "pos": "key", "vtype": row.vtype, "dom": "key",
					"hostile": hk.hostile, "harmless": hk.harmless, "wrap": "none", "pit": r.pick([]string{"", "", "1", "2"}), "expand": []any{},
					"family": "hostile-key", "base": b}
				if row.qkey != "" {
					c["qkey"] = row.qkey
				}
				if row.api == "v2" || row.key == "query" {
					c["wrap"] = r.pick([]string{"none", "none", "and-before", "and-after", "or"})
					c["sib"] = r.pick([]string{"meta", "bound"})
				}
				emit(c)
			}
		}
	}
}

// ---------------------------------------------------------------- keys the code accepts today

// genSQLDiscovered asks the code of THIS run which keys it accepts: every candidate (columns, qualified columns, words) is sent
// with harmless values to every endpoint that takes a JSON expression; a key that is accepted and that the catalogue does not list
// gets the whole set of hostile values.  On the unchanged code no such key exists (the rows then cost nothing).
func genSQLDiscovered(r *rng, n int, tier string, rows []sqtRow, emit func(J)) {
	// the hostile-value set is run through at most this many discovered (key, operator) pairs per endpoint; every discovered key is
	// still REPORTED (one case with a plain value), so that the differential names it
	budget := 6
	if tier == "thorough" {
		budget = 60
	}
	tables, columns := sqtSchemaColumns()
	var cands []string
	seen := map[string]bool{}
	addC := func(k string) {
		if !seen[k] {
			seen[k] = true
			cands = append(cands, k)
		}
	}
	for _, c := range columns {
		addC(c)
	}
	for _, w := range sqtKeyWords {
		addC(w)
		addC(w + "[USD]")
		addC(w + "[k]")
	}
	type target struct{ api, ep, wrapKey string }
	var targets []target
	tseen := map[string]bool{}
	for _, row := range rows {
		if row.pos != "key" || !(row.api == "v2" || row.key == "query") {
			continue
		}
		t := target{row.api, row.ep, ""}
		if row.key == "query" {
			t.wrapKey = "query"
		}
		if id := t.api + t.ep + t.wrapKey; !tseen[id] {
			tseen[id] = true
			targets = append(targets, t)
		}
	}
	probes := []struct{ s, vtype string }{{"aaa", "string"}, {"a:a", "string"}, {"2023-01-01T00:00:00Z", "string"}, {"100", "string"}, {"100", "number"}}
	for _, t := range targets {
		// a known key with brackets (metadata[k], balance[USD]) stands for every content of the brackets: those are the rows
		// "metakey" / "asset" of the catalogue
		shape := func(k string) string {
			if i := strings.IndexByte(k, '['); i >= 0 && strings.HasSuffix(k, "]") {
				return k[:i] + "[]"
			}
			return k
		}
		known := map[string]bool{}
		ks := sqtKnownKeys(rows, t.api, t.ep)
		for _, k := range ks {
			known[shape(k)] = true
		}
		cs := append([]string{}, cands...)
		for _, k := range ks {
			if strings.ContainsAny(k, "[") {
				continue
			}
			cs = append(cs, "t."+k)
			for _, tb := range tables {
				cs = append(cs, tb+"."+k)
			}
		}
		found := 0
		for _, k := range cs {
			if known[shape(k)] {
				continue
			}
			for _, op := range []string{"$match", "$lt"} {
				accepted := false
				for _, pb := range probes {
					in := J{"api": t.api, "ep": t.ep, "key": k, "op": op, "pos": "value", "vtype": pb.vtype, "wrap": "none", "pit": ""}
					if t.wrapKey != "" {
						in["key"], in["qkey"] = t.wrapKey, k
					}
					o := safeExec(func(J) J { return sqtRun(in, pb.s) }, in)
					st, _ := o["status"].(int)
					sq, _ := o["sql"].([]any)
					if st > 0 && st < 400 && len(sq) > 0 {
						accepted = true
						break
					}
				}
				if !accepted {
					continue
				}
				found++
				for _, vtype := range []string{"string", "array", "object"} {
					strs := append([]string{}, sqtFixed...)
					for i := 0; i < n; i++ {
						strs = append(strs, sqtRandom(r))
					}
					if found > budget {
						if vtype != "string" {
							continue
						}
						strs = []string{"zq7' or '1'='1"}
					}
					for _, s := range strs {
						c := J{"api": t.api, "ep": t.ep, "key": k, "op": op, "pos": "value", "vtype": vtype, "dom": "", "hostile": s,
							"harmless": sqtHarmless(s, ""), "wrap": r.pick([]string{"none", "none", "and-before", "and-after", "or"}),
							"sib": r.pick([]string{"meta", "bound"}), "pit": r.pick([]string{"", "", "1", "2"}), "expand": []any{},
							"family": "discovered-key", "discovered": true}
						if t.wrapKey != "" {
							c["key"], c["qkey"] = t.wrapKey, k
						}
						emit(c)
					}
				}
			}
		}
	}
}
