package main

// Generator of the "sqltext" area: the catalogue (every endpoint x filter key x operator x position the v1 parameters and
// the v2 bodies offer) crossed with a fixed list of hostile strings and n seeded random compositions of SQL / bun / JSON
// metacharacters; every case carries the harmless twin of its string.

import "strings"

var sqtOps = []string{"$match", "$lt", "$lte", "$gt", "$gte"}

type sqtRow struct {
	api, ep, key, op, pos, vtype, qkey string
	addr                              bool // the string is an address pattern: the twin keeps the ':' separators
	num                               bool // the string is a number (v1 balance): the twin keeps sign and digit positions
}

func sqtCatalogue() []sqtRow {
	var rows []sqtRow
	add := func(r sqtRow) { rows = append(rows, r) }
	leaves := func(api, ep, wrapKey string, keys []string) {
		for _, k := range keys {
			for _, op := range sqtOps {
				r := sqtRow{api: api, ep: ep, key: k, op: op, pos: "value", vtype: "string"}
				if wrapKey != "" {
					r.key, r.qkey = wrapKey, k
				}
				r.addr = k == "address" || k == "account" || k == "source" || k == "destination"
				add(r)
				if op == "$match" || k == "balance[USD]" || k == "reference" {
					r2 := r
					r2.vtype = "array"
					add(r2)
					r2.vtype = "object"
					add(r2)
				}
				if k == "metadata[k]" {
					r2 := r
					r2.pos, r2.addr = "metakey", false
					add(r2)
				}
				if k == "balance[USD]" {
					r2 := r
					r2.pos, r2.addr = "asset", false
					add(r2)
				}
			}
		}
		// the key itself and the operator itself are client text too
		r := sqtRow{api: api, ep: ep, key: "?", op: "$match", pos: "key", vtype: "string"}
		if wrapKey != "" {
			r.key, r.qkey = wrapKey, "?"
		}
		add(r)
		r.pos, r.op = "op", "?"
		if wrapKey == "" {
			r.key = keys[0]
		} else {
			r.qkey = keys[0]
		}
		add(r)
	}
	accountKeys := []string{"address", "metadata[k]", "balance[USD]", "balance"}
	txKeys := []string{"reference", "timestamp", "account", "source", "destination", "metadata[k]", "id"}
	leaves("v2", "accounts.list", "", accountKeys)
	leaves("v2", "accounts.count", "", accountKeys)
	leaves("v2", "transactions.list", "", txKeys)
	leaves("v2", "transactions.count", "", txKeys)
	leaves("v2", "balances.agg", "", []string{"address", "metadata[k]"})
	leaves("v2", "logs.list", "", []string{"date", "id"})
	for _, ep := range []string{"accounts.list", "accounts.count", "transactions.list", "transactions.count", "balances.agg"} {
		add(sqtRow{api: "v2", ep: ep, key: "", op: "", pos: "pit"})
	}
	add(sqtRow{api: "v2", ep: "accounts.get", pos: "path", addr: true})

	// v1: the JSON expression of HEAD /accounts travels in ?query= ; everything else is a query parameter
	leaves("v1", "accounts.count", "query", accountKeys)
	param := func(ep, name string, addr bool) {
		add(sqtRow{api: "v1", ep: ep, key: name, op: "", pos: "value", vtype: "string", addr: addr})
	}
	for _, ep := range []string{"accounts.list", "balances.list"} {
		param(ep, "address", true)
		param(ep, "metadata[k]", false)
		add(sqtRow{api: "v1", ep: ep, key: "metadata[k]", pos: "metakey"})
		add(sqtRow{api: "v1", ep: ep, key: "metadata", pos: "key"})
		for _, op := range []string{"", "e", "ne", "lt", "lte", "gt", "gte"} {
			add(sqtRow{api: "v1", ep: ep, key: "balance", op: op, pos: "value", vtype: "string", num: true})
		}
		add(sqtRow{api: "v1", ep: ep, key: "balance", op: "?", pos: "op"})
	}
	for _, ep := range []string{"transactions.list", "transactions.count"} {
		param(ep, "reference", false)
		param(ep, "source", true)
		param(ep, "destination", true)
		param(ep, "account", true)
		param(ep, "metadata[k]", false)
		add(sqtRow{api: "v1", ep: ep, key: "metadata[k]", pos: "metakey"})
		add(sqtRow{api: "v1", ep: ep, key: "metadata", pos: "key"})
		param(ep, "start_time", false)
		param(ep, "end_time", false)
		param(ep, "after", false)
	}
	param("balances.agg", "address", true)
	param("logs.list", "start_time", false)
	param("logs.list", "end_time", false)
	param("logs.list", "after", false)
	for _, ep := range []string{"accounts.list", "accounts.count", "transactions.list", "transactions.count", "balances.agg", "balances.list"} {
		add(sqtRow{api: "v1", ep: ep, pos: "pit"})
	}
	add(sqtRow{api: "v1", ep: "accounts.get", pos: "path", addr: true})
	return rows
}

// every string carries the marker zq7 somewhere unless it is one of the very short ones
var sqtFixed = []string{
	// plain values (accepted everywhere; the twin differs only in letters)
	"users", "users:001", "users:", ":001", "a:b:c", "::", "orders:zq7-1:x_y", "2023-01-01T00:00:00Z", "100", "-5",
	// quotes
	"'", "''", "zq7'", "x' or '1'='1", "zq7' or '1'='1", "a'; drop table x; --", "zq7'; drop table accounts; --", "users:zq7' or 1=1 --:",
	":zq7'", "zq7\" or \"\"=\"", "zq7\\", "\\", "zq7\\' or 1=1 --", "\\'; select 1; --", "zq7''''", "E'zq7\\'",
	// comments, dollar quoting, casts, statement separators
	"zq7 --", "--", "zq7 /* x", "/*", "*/ zq7", "zq7 $$", "$$", "$zq7$ x $zq7$", "zq7::text", "zq7; select 1", "zq7) or (1=1", "((zq7",
	// bun placeholders (the count methods format the rendered query a second time)
	"zq7?", "?", "zq7 ?0 ?1", "?TableName zq7", "zq7 ?ledger", "??",
	// NUL, control characters, non-ASCII, JSON-sensitive text
	"zq7\x00'", "\x00", "zq7\n' or 1=1", "zq7\r\n--", "zq7\t", "zq7’ or ’1’=’1", "zq7éè 中文", "ʼzq7", "zq7\\u0027", "zq7\\u0000'",
	"zq7<script>&", "{\"zq7\":\"'\"}", "[\"zq7'\"]", "zq7 '", "\xff'zq7", "zq7%' or 'a' like '%", "_zq7_",
	// address-shaped with hostile segments
	"users:zq7'", "zq7':", ":zq7\"", "a:zq7\\:b", "zq7'::", "a-b:zq7--c", "-zq7", "zq7-", "a:?:b",
	"a:b:c:d:e:f:g:h:i:j:k:", "a:b:c:d:e:f:g:h:i:j:zq7':", ":::::::::::x",
}

var sqtFrags = []string{
	"'", "''", "\\", "\\'", "\"", "$$", "$a$", "--", "/*", "*/", ";", "?", "?0", "(", ")", "::", ":", " or ", "1=1", "\x00", "\n",
	"é", "’", "\\u0000", "%", "_", "E'", "zq7", "zq7", "ab", "7", "-", " ", "{", "}", "[", "]", ",", "=", "<", ">", "&", "|", "`", "#", "\r", "\t", "中",
}

func sqtRandom(r *rng) string {
	var b strings.Builder
	k := 1 + r.n(6)
	for i := 0; i < k; i++ {
		b.WriteString(r.pick(sqtFrags))
	}
	return b.String()
}

// the harmless twin: same length, every character 'a'; an address pattern keeps its ':' separators, a number its sign
// and digit positions (so that the twin is accepted or refused by the same validation as the original)
func sqtHarmless(s string, dom string) string {
	var b strings.Builder
	for _, c := range s {
		switch {
		case dom == "addr" && c == ':':
			b.WriteByte(':')
		case dom == "num" && (c == '-' || c == '+'):
			b.WriteRune(c)
		case dom == "num" && c >= '0' && c <= '9':
			b.WriteByte('1')
		default:
			b.WriteByte('a')
		}
	}
	return b.String()
}

func genSQLText(r *rng, n int, tier string, emit func(J)) {
	rows := sqtCatalogue()
	wraps := []string{"none", "none", "and-before", "and-after", "or"}
	for _, row := range rows {
		strs := append([]string{}, sqtFixed...)
		for i := 0; i < n; i++ {
			strs = append(strs, sqtRandom(r))
		}
		for _, s := range strs {
			dom := ""
			if row.addr {
				dom = "addr"
			} else if row.num {
				dom = "num"
			}
			c := J{"api": row.api, "ep": row.ep, "key": row.key, "op": row.op, "pos": row.pos, "vtype": row.vtype,
				"dom": dom, "hostile": s, "harmless": sqtHarmless(s, dom), "wrap": "none", "pit": "", "expand": []any{}}
			if row.qkey != "" {
				c["qkey"] = row.qkey
			}
			if row.pos != "pit" {
				c["pit"] = r.pick([]string{"", "", "1", "2"})
			}
			if row.ep != "logs.list" && row.ep != "accounts.get" && (row.api == "v2" || row.key == "query") {
				c["wrap"] = r.pick(wraps)
				c["sib"] = r.pick([]string{"meta", "bound"})
			}
			ex := []any{}
			if r.p(30) {
				ex = append(ex, "volumes")
			}
			if r.p(30) {
				ex = append(ex, "effectiveVolumes")
			}
			c["expand"] = ex
			emit(c)
		}
	}
}
