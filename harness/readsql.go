package main

// Area "readsql" (C04): every read method of the REAL ledgerstore.Store (and InsertLogs, for the ledger column it writes),
// over bun + pgdialect + a recording fake database/sql driver.  Nothing is executed: the driver records the final SQL
// text (bun inlines and quotes every argument) and answers with no rows.  The check (checks/c04.py) parses each text and
// demands that every base-table reference is restricted to the ledger name of the store.
//
// input : {"method":M, "ledger":NAME, "pit":µs|null, "vol":bool, "eff":bool, "filter":JSON-string|"" , "arg":S}
//         (+ "lattice":"structure" on the cases of the filter-structure lattice, see rsStructureFilters)
// output: {"sql":[text…], "err":S, "copy":[[args of one COPY row]…]}

import (
	"context"
	"database/sql"
	"database/sql/driver"
	"fmt"
	"io"
	"math/big"
	"strings"
	"sync"

	ledger "github.com/formancehq/ledger/internal"
	"github.com/formancehq/ledger/internal/storage/ledgerstore"
	"github.com/formancehq/stack/libs/go-libs/query"
	"github.com/uptrace/bun"
	"github.com/uptrace/bun/dialect/pgdialect"
)

func init() {
	register("readsql", &area{gen: genReadSQL, exec: execReadSQL})
}

// ---------------------------------------------------------------- recording driver with transactions and COPY statements

type rsDrv struct{}
type rsConn struct{}
type rsTx struct{}
type rsStmt struct{ q string }

var (
	rsMu   sync.Mutex
	rsSQL  []string
	rsCopy [][]string
)

func rsRecord(q string) { rsMu.Lock(); rsSQL = append(rsSQL, q); rsMu.Unlock() }

func (rsDrv) Open(string) (driver.Conn, error)          { return rsConn{}, nil }
func (rsConn) Prepare(q string) (driver.Stmt, error)   { rsRecord("PREPARE " + q); return &rsStmt{q: q}, nil }
func (rsConn) Close() error                            { return nil }
func (rsConn) Begin() (driver.Tx, error)               { return rsTx{}, nil }
func (rsTx) Commit() error                             { return nil }
func (rsTx) Rollback() error                           { return nil }
func (s *rsStmt) Close() error                         { return nil }
func (s *rsStmt) NumInput() int                        { return -1 }
func (s *rsStmt) Query([]driver.Value) (driver.Rows, error) { return &sqtRows{}, nil }
func (s *rsStmt) Exec(args []driver.Value) (driver.Result, error) {
	if len(args) > 0 {
		row := []string{}
		for _, a := range args {
			switch v := a.(type) {
			case []byte:
				row = append(row, string(v))
			default:
				row = append(row, fmt.Sprint(v))
			}
		}
		rsMu.Lock()
		rsCopy = append(rsCopy, row)
		rsMu.Unlock()
	}
	return driver.RowsAffected(0), nil
}
func (rsConn) QueryContext(ctx context.Context, q string, args []driver.NamedValue) (driver.Rows, error) {
	rsRecord(q)
	if len(args) != 0 {
		rsRecord("ARGS-REACHED-DRIVER")
	}
	if strings.HasPrefix(strings.ToLower(q), "select count(") {
		return &sqtRows{cols: []string{"count"}, vals: [][]driver.Value{{int64(0)}}}, nil
	}
	return &sqtRows{}, nil
}
func (rsConn) ExecContext(ctx context.Context, q string, args []driver.NamedValue) (driver.Result, error) {
	rsRecord("EXEC " + q)
	return driver.RowsAffected(0), nil
}

var (
	rsOnce sync.Once
	rsDB   *bun.DB
)

func rsGetDB() *bun.DB {
	rsOnce.Do(func() {
		sql.Register("verif-readsql", rsDrv{})
		sqldb, err := sql.Open("verif-readsql", "")
		if err != nil {
			panic(err)
		}
		rsDB = bun.NewDB(sqldb, pgdialect.New())
	})
	return rsDB
}

// ---------------------------------------------------------------- exec

func execReadSQL(in J) J {
	ctx := context.Background()
	name := in["ledger"].(string)
	st := ledgerstore.NewForVerif(rsGetDB(), "b0", name)
	rsMu.Lock()
	rsSQL, rsCopy = nil, nil
	rsMu.Unlock()

	var pit *ledger.Time
	if v, ok := in["pit"]; ok && v != nil {
		t := svTime(svInt(v))
		pit = &t
	}
	vol, _ := in["vol"].(bool)
	eff, _ := in["eff"].(bool)
	arg, _ := in["arg"].(string)
	var qb query.Builder
	if f, _ := in["filter"].(string); f != "" {
		var err error
		qb, err = query.ParseJSON(f)
		if err != nil {
			return J{"sql": []string{}, "err": "filter: " + err.Error()}
		}
	}
	pitVol := ledgerstore.PITFilterWithVolumes{PITFilter: ledgerstore.PITFilter{PIT: pit}, ExpandVolumes: vol, ExpandEffectiveVolumes: eff}
	var err error
	switch in["method"].(string) {
	case "GetAccountsWithVolumes":
		_, err = st.GetAccountsWithVolumes(ctx, ledgerstore.NewGetAccountsQuery(ledgerstore.NewPaginatedQueryOptions(pitVol).WithQueryBuilder(qb)))
	case "CountAccounts":
		_, err = st.CountAccounts(ctx, ledgerstore.NewGetAccountsQuery(ledgerstore.NewPaginatedQueryOptions(pitVol).WithQueryBuilder(qb)))
	case "GetAccountWithVolumes":
		q := ledgerstore.NewGetAccountQuery(arg)
		q.PITFilterWithVolumes = pitVol
		_, err = st.GetAccountWithVolumes(ctx, q)
	case "GetAccount":
		_, err = st.GetAccount(ctx, arg)
	case "GetAggregatedBalances":
		_, err = st.GetAggregatedBalances(ctx, ledgerstore.NewGetAggregatedBalancesQuery(
			ledgerstore.NewPaginatedQueryOptions(ledgerstore.PITFilter{PIT: pit}).WithQueryBuilder(qb)))
	case "GetBalance":
		parts := strings.SplitN(arg, "|", 2)
		_, err = st.GetBalance(ctx, parts[0], parts[len(parts)-1])
	case "GetTransactions":
		_, err = st.GetTransactions(ctx, ledgerstore.NewGetTransactionsQuery(ledgerstore.NewPaginatedQueryOptions(pitVol).WithQueryBuilder(qb)))
	case "CountTransactions":
		_, err = st.CountTransactions(ctx, ledgerstore.NewGetTransactionsQuery(ledgerstore.NewPaginatedQueryOptions(pitVol).WithQueryBuilder(qb)))
	case "GetTransactionWithVolumes":
		id, _ := new(big.Int).SetString(arg, 10)
		q := ledgerstore.NewGetTransactionQuery(id)
		q.PITFilterWithVolumes = pitVol
		_, err = st.GetTransactionWithVolumes(ctx, q)
	case "GetTransaction":
		id, _ := new(big.Int).SetString(arg, 10)
		_, err = st.GetTransaction(ctx, id)
	case "GetTransactionByReference":
		_, err = st.GetTransactionByReference(ctx, arg)
	case "GetLastTransaction":
		_, err = st.GetLastTransaction(ctx)
	case "GetLogs":
		_, err = st.GetLogs(ctx, ledgerstore.NewGetLogsQuery(ledgerstore.NewPaginatedQueryOptions[any](nil).WithQueryBuilder(qb)))
	case "GetLastLog":
		_, err = st.GetLastLog(ctx)
	case "ReadLogWithIdempotencyKey":
		_, err = st.ReadLogWithIdempotencyKey(ctx, arg)
	case "InsertLogs":
		l := ledger.NewSetMetadataOnAccountLog(svTime(1700000000000000), "alice", nil).ChainLog(nil)
		l2 := ledger.NewSetMetadataOnAccountLog(svTime(1700000001000000), "bob", nil).ChainLog(l)
		err = st.InsertLogs(ctx, l, l2)
	default:
		return J{"sql": []string{}, "err": "unknown method"}
	}
	rsMu.Lock()
	defer rsMu.Unlock()
	out := J{"sql": append([]string{}, rsSQL...), "err": ""}
	if err != nil && err != io.EOF {
		out["err"] = err.Error()
	}
	if len(rsCopy) > 0 {
		out["copy"] = rsCopy
	}
	return out
}

// ---------------------------------------------------------------- generator: the whole lattice, deterministic; the seed only picks literals

var rsFilters = map[string][]string{
	"accounts": {
		"",
		`{"$match":{"address":"users:1"}}`,
		`{"$match":{"address":"users::main"}}`,
		`{"$match":{"metadata[tier]":"gold"}}`,
		`{"$lt":{"balance[USD]":100}}`,
		`{"$lt":{"balance":100}}`,
		`{"$and":[{"$match":{"address":"users:"}},{"$or":[{"$match":{"metadata[kyc]":"x"}},{"$not":{"$lt":{"balance[EUR/2]":5}}}]}]}`,
	},
	"transactions": {
		"",
		`{"$match":{"reference":"ref1"}}`,
		`{"$lte":{"timestamp":"2023-05-06T07:08:09Z"}}`,
		`{"$match":{"account":"users:1"}}`,
		`{"$match":{"account":"users:"}}`,
		`{"$match":{"source":"world"}}`,
		`{"$match":{"destination":":1"}}`,
		`{"$match":{"metadata[note]":"x y"}}`,
		`{"$or":[{"$match":{"source":"a"}},{"$and":[{"$match":{"destination":"b"}},{"$not":{"$match":{"metadata[k]":"v"}}}]}]}`,
	},
	"aggregated": {
		"",
		`{"$match":{"address":"users:1"}}`,
		`{"$match":{"address":"users:"}}`,
		`{"$match":{"metadata[tier]":"gold"}}`,
		`{"$and":[{"$match":{"address":"users:"}},{"$match":{"metadata[tier]":"gold"}}]}`,
	},
	"logs": {
		"",
		`{"$gte":{"date":"2023-05-06T07:08:09Z"}}`,
		`{"$and":[{"$gte":{"date":"2023-05-06T07:08:09Z"}},{"$lt":{"date":"2024-05-06T07:08:09Z"}}]}`,
	},
}

func genReadSQL(r *rng, n int, tier string, emit func(J)) {
	names := []string{"ledgerQ7", "l'x", "default"}
	name := names[r.n(len(names))] + fmt.Sprint(r.n(1000))
	pits := []any{nil, int64(0), int64(1683356889000000) + int64(r.n(1000))*1000000} // absent, the zero value's neighbour, a date
	bools := []bool{false, true}
	lattice := func(method, family, arg string, withVol bool) {
		for _, pit := range pits {
			vols := [][2]bool{{false, false}}
			if withVol {
				vols = [][2]bool{}
				for _, v := range bools {
					for _, e := range bools {
						vols = append(vols, [2]bool{v, e})
					}
				}
			}
			fs := []string{""}
			if family != "" {
				fs = rsFilters[family]
			}
			for _, ve := range vols {
				for _, f := range fs {
					emit(J{"method": method, "ledger": name, "pit": pit, "vol": ve[0], "eff": ve[1], "filter": f, "arg": arg})
				}
			}
		}
	}
	lattice("GetAccountsWithVolumes", "accounts", "", true)
	lattice("CountAccounts", "accounts", "", true)
	lattice("GetAccountWithVolumes", "", "users:1", true)
	lattice("GetAggregatedBalances", "aggregated", "", false)
	lattice("GetTransactions", "transactions", "", true)
	lattice("CountTransactions", "transactions", "", true)
	lattice("GetTransactionWithVolumes", "", fmt.Sprint(r.n(100)), true)
	for _, m := range [][2]string{{"GetAccount", "alice"}, {"GetBalance", "alice|USD"}, {"GetTransaction", "3"},
		{"GetTransactionByReference", "ref1"}, {"GetLastTransaction", ""}, {"GetLastLog", ""},
		{"ReadLogWithIdempotencyKey", "ik1"}, {"InsertLogs", ""}} {
		emit(J{"method": m[0], "ledger": name, "pit": nil, "vol": false, "eff": false, "filter": "", "arg": m[1]})
	}
	for _, f := range rsFilters["logs"] {
		emit(J{"method": "GetLogs", "ledger": name, "pit": nil, "vol": false, "eff": false, "filter": f, "arg": ""})
	}

	// ---- the filter-structure lattice: every sub-expression of every composite is a case of its own, under the same
	// parameters, so that the check can compare skeleton($not F) with NOT skeleton(F) etc. on the captured SQL
	date := pits[2]
	structure := func(family string, methods []string, pitList []any, withVol bool) {
		fs := rsStructureFilters(family, r, tier)
		for _, m := range methods {
			for _, pit := range pitList {
				vols := [][2]bool{{false, false}}
				if withVol {
					vols = append(vols, [2]bool{true, true})
				}
				for _, ve := range vols {
					emit(J{"method": m, "ledger": name, "pit": pit, "vol": ve[0], "eff": ve[1], "filter": "", "arg": "", "lattice": "structure"})
					for _, f := range fs {
						emit(J{"method": m, "ledger": name, "pit": pit, "vol": ve[0], "eff": ve[1], "filter": f, "arg": "", "lattice": "structure"})
					}
				}
			}
		}
	}
	structure("accounts", []string{"GetAccountsWithVolumes", "CountAccounts"}, []any{nil, date}, true)
	structure("transactions", []string{"GetTransactions", "CountTransactions"}, []any{nil, date}, true)
	structure("aggregated", []string{"GetAggregatedBalances"}, []any{nil, date}, false)
	structure("logs", []string{"GetLogs"}, []any{nil}, false)
}

// ---------------------------------------------------------------- filter-structure lattice

// the leaves of each listing: every kind of matcher, among them the ones whose SQL is an unparenthesised `a or b`
// (account on transactions) or `a and b …` (address patterns with wildcard segments)
var rsLeaves = map[string][]string{
	"accounts": {
		`{"$match":{"address":"users:1"}}`,
		`{"$match":{"address":"users:"}}`,
		`{"$match":{"address":":x:"}}`,
		`{"$match":{"metadata[tier]":"gold"}}`,
		`{"$lt":{"balance[USD]":100}}`,
		`{"$gte":{"balance":-5}}`,
	},
	"transactions": {
		`{"$match":{"reference":"ref1"}}`,
		`{"$lte":{"timestamp":"2023-05-06T07:08:09Z"}}`,
		`{"$match":{"account":"bank"}}`,
		`{"$match":{"account":"users:"}}`,
		`{"$match":{"source":"world"}}`,
		`{"$match":{"source":"users::main"}}`,
		`{"$match":{"destination":"bank"}}`,
		`{"$match":{"destination":":1"}}`,
		`{"$match":{"metadata[note]":"x or y"}}`,
	},
	"aggregated": {
		`{"$match":{"address":"users:1"}}`,
		`{"$match":{"address":"users:"}}`,
		`{"$match":{"metadata[tier]":"gold"}}`,
	},
	"logs": {
		`{"$gte":{"date":"2023-05-06T07:08:09Z"}}`,
		`{"$lt":{"date":"2024-05-06T07:08:09Z"}}`,
	},
}

type rsFx struct {
	op   string // "", "$not", "$and", "$or"
	leaf string
	kids []rsFx
}

func (f rsFx) render() string {
	switch f.op {
	case "":
		return f.leaf
	case "$not":
		return `{"$not":` + f.kids[0].render() + `}`
	}
	parts := make([]string, len(f.kids))
	for i, k := range f.kids {
		parts[i] = k.render()
	}
	return `{"` + f.op + `":[` + strings.Join(parts, ",") + `]}`
}

// rsStructureFilters returns composites and ALL their sub-expressions (children before parents), without duplicates.
func rsStructureFilters(family string, r *rng, tier string) []string {
	leaves := rsLeaves[family]
	n := len(leaves)
	L := func(i int) rsFx { return rsFx{leaf: leaves[((i%n)+n)%n]} }
	not := func(x rsFx) rsFx { return rsFx{op: "$not", kids: []rsFx{x}} }
	and := func(xs ...rsFx) rsFx { return rsFx{op: "$and", kids: xs} }
	or := func(xs ...rsFx) rsFx { return rsFx{op: "$or", kids: xs} }
	var out []string
	seen := map[string]bool{}
	var add func(x rsFx)
	add = func(x rsFx) {
		for _, k := range x.kids {
			add(k)
		}
		s := x.render()
		if !seen[s] {
			seen[s] = true
			out = append(out, s)
		}
	}
	offs := [][2]int{{1, 2}}
	if tier != "quick" {
		offs = nil
		for a := 1; a < n; a++ {
			offs = append(offs, [2]int{a, a + 1})
		}
	} else if n > 2 {
		a := 1 + r.n(n-1) // the seed picks which other leaves a leaf is paired with
		offs = [][2]int{{a, a + 1 + r.n(n-1)}}
	}
	for i := 0; i < n; i++ {
		add(not(L(i)))
		add(not(not(L(i))))
		add(and(L(i)))
		add(or(L(i)))
		for _, o := range offs {
			j, k := i+o[0], i+o[1]
			add(not(and(L(i), L(j))))
			add(not(or(L(i), L(j))))
			add(and(L(i), L(j), L(k)))
			add(not(or(L(i), L(j), L(k))))
			// three deep
			add(not(or(L(i), and(L(j), not(L(k))))))
			add(and(not(or(L(i), L(j))), L(k)))
			add(or(and(L(i), not(L(j))), not(not(L(k)))))
			add(not(and(or(L(i), L(j)), or(not(L(k)), L(i)))))
		}
	}
	add(not(and()))
	add(not(or()))
	add(and(or(), L(0)))
	return out
}
