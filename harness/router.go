package main

// Area "router" (C19): the REAL api.NewRouter(backend, health, metrics, auth, readOnly) over the recording fake backend.
//
// Every input request is executed twice: once on a router built with readOnly=true (the property's subject) and once
// on a router built with readOnly=false (control stream: shows that the generator does reach the writers).
//
// input : {"op":"walk"}                                         -> {"routes":[{"method":M,"pattern":P}…]}   (chi.Walk on the real router)
//         {"op":"req","method":M,"target":T,"headers":[[k,v]…],"body":B,"missing":bool,
//          "parse":"wire|direct|unparsable","rpath":P,"preflight":bool, "base":{"method","pattern"}, "mut":[…]}
// output: {"parse":…, "rpath":…, "ro":OBS, "rw":OBS}
//   OBS = {"status":int, "code":errorCode, "rejected":bool, "outcome":"rejected|preflight|reached|notFound|methodNotAllowed|other",
//          "matched":full pattern of the endpoint chi selected ("" when none), "writes":[create|revert|savemeta|deletemeta…],
//          "ledger_creates":n, "reads":n}
//
// "parse": the request is first written in wire format and parsed with http.ReadRequest (what net/http's server does);
// method strings that are not HTTP tokens cannot arrive over the wire — for them the *http.Request is built directly
// ("direct"), which still exercises the handler chain with that method string.  Targets net/http refuses are "unparsable"
// (a real server answers 400 before any handler runs).  "rpath" is the path chi routes on (URL.RawPath if set, else URL.Path);
// the Lean model starts from it (net/http's URL parsing is not modelled).

import (
	"bufio"
	"context"
	"encoding/json"
	"fmt"
	"net/http"
	"net/http/httptest"
	"net/url"
	"sort"
	"strings"

	"github.com/formancehq/ledger/internal/api"
	"github.com/formancehq/ledger/internal/opentelemetry/metrics"
	"github.com/formancehq/stack/libs/go-libs/auth"
	"github.com/formancehq/stack/libs/go-libs/health"
	"github.com/go-chi/chi/v5"
)

func init() {
	register("router", &area{gen: genRouter, exec: execRouter})
}

func newRealRouter(b *fakeBackend, readOnly bool) chi.Router {
	return api.NewRouter(b, &health.HealthController{}, metrics.NewNoOpRegistry(), auth.NewNoAuth(), readOnly)
}

type routeKey struct{ Method, Pattern string }

func normPattern(p string) string {
	for strings.Contains(p, "/*/") {
		p = strings.Replace(p, "/*/", "/", -1)
	}
	return p
}

func walkRoutes() []routeKey {
	r := newRealRouter(&fakeBackend{l: &fakeLedger{}}, true)
	seen := map[routeKey]bool{}
	var out []routeKey
	err := chi.Walk(r, func(method, route string, _ http.Handler, _ ...func(http.Handler) http.Handler) error {
		k := routeKey{method, normPattern(route)}
		if !seen[k] {
			seen[k] = true
			out = append(out, k)
		}
		return nil
	})
	if err != nil {
		panic(err)
	}
	sort.Slice(out, func(i, j int) bool {
		if out[i].Pattern != out[j].Pattern {
			return out[i].Pattern < out[j].Pattern
		}
		return out[i].Method < out[j].Method
	})
	return out
}

var registeredSet map[routeKey]bool

func registered() map[routeKey]bool {
	if registeredSet == nil {
		registeredSet = map[routeKey]bool{}
		for _, k := range walkRoutes() {
			registeredSet[k] = true
		}
	}
	return registeredSet
}

// ---------------------------------------------------------------- request construction (shared by gen and exec)

type builtReq struct {
	req   *http.Request
	parse string
	rpath string
}

func headerPairs(in J) [][2]string {
	var hs [][2]string
	raw, _ := in["headers"].([]any)
	for _, h := range raw {
		p, _ := h.([]any)
		if len(p) == 2 {
			k, _ := p[0].(string)
			v, _ := p[1].(string)
			hs = append(hs, [2]string{k, v})
		}
	}
	return hs
}

func buildRequest(method, target string, hs [][2]string, body string) builtReq {
	var raw strings.Builder
	fmt.Fprintf(&raw, "%s %s HTTP/1.1\r\nHost: ledger.test\r\n", method, target)
	for _, h := range hs {
		fmt.Fprintf(&raw, "%s: %s\r\n", h[0], h[1])
	}
	fmt.Fprintf(&raw, "Content-Length: %d\r\n\r\n%s", len(body), body)
	req, err := http.ReadRequest(bufio.NewReader(strings.NewReader(raw.String())))
	parse := "wire"
	if err != nil {
		u, err2 := url.ParseRequestURI(target)
		if err2 != nil {
			return builtReq{parse: "unparsable"}
		}
		parse = "direct"
		req = httptest.NewRequest("GET", "/", strings.NewReader(body))
		req.Method = method
		req.URL = u
		req.RequestURI = target
		for _, h := range hs {
			req.Header.Add(h[0], h[1])
		}
	}
	rpath := req.URL.RawPath
	if rpath == "" {
		rpath = req.URL.Path
	}
	if rpath == "" {
		rpath = "/"
	}
	return builtReq{req: req, parse: parse, rpath: rpath}
}

// ---------------------------------------------------------------- exec

func execRouter(in J) J {
	if op, _ := in["op"].(string); op == "walk" {
		rs := []any{}
		for _, k := range walkRoutes() {
			rs = append(rs, J{"method": k.Method, "pattern": k.Pattern})
		}
		return J{"routes": rs}
	}
	switch op, _ := in["op"].(string); op {
	case "interleave":
		return execInterleave(in)
	case "stress":
		return execStress(in)
	}
	method, _ := in["method"].(string)
	target, _ := in["target"].(string)
	body, _ := in["body"].(string)
	missing, _ := in["missing"].(bool)
	hs := headerPairs(in)
	out := J{}
	// "ro"/"rw": the api router alone; "ro_m"/"rw_m": the same router mounted under an outer chi router, as cmd/serve.go
	// serves it (the outer mux fixes chi's RouteMethod and RoutePath before the api middlewares run)
	for _, mode := range []string{"ro", "rw", "ro_m", "rw_m"} {
		b := buildRequest(method, target, hs, body)
		out["parse"], out["rpath"] = b.parse, b.rpath
		if b.parse == "unparsable" {
			out[mode] = J{"outcome": "unparsable", "writes": []any{}, "rejected": false}
			continue
		}
		out[mode] = safeExec(func(J) J {
			return serveOnce(b.req, strings.HasPrefix(mode, "ro"), missing, strings.HasSuffix(mode, "_m"))
		}, nil)
	}
	return out
}

func serveOnce(req *http.Request, readOnly, missing, mounted bool) J {
	fl := &fakeLedger{}
	fb := &fakeBackend{l: fl, ledgerNotFound: missing}
	router := newRealRouter(fb, readOnly)
	rctx := chi.NewRouteContext()
	rec := httptest.NewRecorder()
	if mounted {
		// cmd/serve.go: wrappedRouter := chi.NewRouter(); wrappedRouter.Use(…logger…); wrappedRouter.Mount("/", h)
		outer := chi.NewRouter()
		outer.Use(func(next http.Handler) http.Handler {
			return http.HandlerFunc(func(w http.ResponseWriter, r *http.Request) {
				next.ServeHTTP(w, r)
				if c := chi.RouteContext(r.Context()); c != nil { // copied before chi returns the context to its pool
					rctx.RoutePatterns = append([]string{}, c.RoutePatterns...)
				}
			})
		})
		outer.Mount("/", router)
		outer.ServeHTTP(rec, req)
	} else {
		req = req.WithContext(context.WithValue(req.Context(), chi.RouteCtxKey, rctx))
		router.ServeHTTP(rec, req)
	}

	var resp struct {
		ErrorCode string `json:"errorCode"`
	}
	_ = json.Unmarshal(rec.Body.Bytes(), &resp)
	o := J{"status": rec.Code, "code": resp.ErrorCode}
	rejected := rec.Code == http.StatusBadRequest && resp.ErrorCode == "READ_ONLY"
	o["rejected"] = rejected

	// which endpoint did chi select?  RoutePatterns = the patterns matched mux by mux: mount entries ("/v2/*", "/{ledger}", …)
	// followed, when an endpoint was found in the innermost mux, by its pattern.  The concatenation is an endpoint iff
	// chi.Walk lists it for this method.
	matched := ""
	if n := len(rctx.RoutePatterns); n > 0 {
		cand := ""
		for _, p := range rctx.RoutePatterns[:n-1] {
			cand += strings.TrimSuffix(strings.TrimSuffix(p, "*"), "/")
		}
		cand += rctx.RoutePatterns[n-1]
		if registered()[routeKey{req.Method, cand}] {
			matched = cand
		}
	}
	o["matched"] = matched
	preflight := false
	for _, v := range rec.Header().Values("Vary") {
		if strings.Contains(v, "Access-Control-Request-Method") {
			preflight = true
		}
	}
	switch {
	case rejected:
		o["outcome"] = "rejected"
	case matched != "":
		o["outcome"] = "reached"
	case preflight:
		o["outcome"] = "preflight"
	case rec.Code == http.StatusNotFound:
		o["outcome"] = "notFound"
	case rec.Code == http.StatusMethodNotAllowed:
		o["outcome"] = "methodNotAllowed"
	default:
		o["outcome"] = "other"
	}
	ws := []any{}
	for _, c := range fl.writes {
		ws = append(ws, c.Kind)
	}
	o["writes"] = ws
	o["ledger_creates"] = len(fb.ledgerCreates)
	o["reads"] = len(fl.reads)
	return o
}

// ---------------------------------------------------------------- gen

var (
	chiMethods  = []string{"GET", "HEAD", "OPTIONS", "POST", "PUT", "PATCH", "DELETE", "CONNECT", "TRACE"}
	oddMethods  = []string{"get", "post", "delete", "Post", "", " ", "GET ", " POST", "GETT", "PROPFIND", "M-SEARCH", "*", "GET,POST", "ＧＥＴ", "POST\r\nX: y"}
	rareMethods = []string{"head", "options", "put", "patch", "Get", "pOST", "DeLeTe", "POST ", "GET\t", "G", "POSTGET", "GET/POST", "PURGE", "LINK", "QUERY", "GET!", "P0ST", "GET\x00", "CONNECT ", "trace"}
	goodLedgers = []string{"ledger0", "default", "a.b-c_d", "L", "0"}
	ledgerNames = []string{"ledger0", "default", "v2", "_info", "_healthcheck", "_bulk", "a.b-c_d", "L", "ünï", "%20", "a%2Fb", "%2e%2e", "..", ".", "a b", "transactions", "accounts", "0", "ledger0;x=1", "ledger0:1", "*", "{ledger}", strings.Repeat("x", 70)}
	queries     = []string{"", "", "", "dryRun=true", "continueOnFailure=true", "force=true", "disableChecks=true", "preview=true", "pageSize=1", "cursor=abc", "_method=POST", "method=DELETE", "X-HTTP-Method-Override=POST", "pit=2024-01-01T00:00:00Z", "a=1&a=2&%zz", "expand=volumes", "q=%7B%7D"}
	overrideHdr = [][2]string{
		{"X-HTTP-Method-Override", "POST"}, {"X-HTTP-Method-Override", "GET"}, {"X-Method-Override", "DELETE"}, {"X-HTTP-Method", "POST"},
		{"X-Original-Method", "POST"}, {"Content-Type", "application/json"}, {"Content-Type", "application/x-www-form-urlencoded"},
		{"Idempotency-Key", "k1"}, {"Origin", "https://example.test"}, {"Authorization", "Bearer x"}, {"X-Forwarded-Method", "POST"},
		{"Upgrade", "h2c"}, {"Accept", "*/*"},
	}
	bodies = map[string]string{
		"none":       ``,
		"create_v2":  `{"postings":[{"source":"world","destination":"bank","amount":100,"asset":"USD"}],"metadata":{"a":"b"}}`,
		"create_v1":  `{"postings":[{"source":"world","destination":"bank","amount":100,"asset":"USD"}],"reference":"r1"}`,
		"script":     `{"script":{"plain":"send [USD 1] (source=@world destination=@bank)","vars":{}}}`,
		"metadata":   `{"k":"v","k2":"v2"}`,
		"revert":     `{"id":0,"force":true}`,
		"bulk_all":   `[{"action":"CREATE_TRANSACTION","data":{"postings":[{"source":"world","destination":"bank","amount":1,"asset":"USD"}]}},{"action":"ADD_METADATA","data":{"targetType":"ACCOUNT","targetId":"bank","metadata":{"a":"b"}}},{"action":"REVERT_TRANSACTION","data":{"id":0}},{"action":"DELETE_METADATA","data":{"targetType":"TRANSACTION","targetId":0,"key":"a"}}]`,
		"bulk_one":   `[{"action":"CREATE_TRANSACTION","ik":"x","data":{"postings":[{"source":"world","destination":"bank","amount":1,"asset":"USD"}]}}]`,
		"bulk_meta":  `[{"action":"ADD_METADATA","data":{"targetType":"TRANSACTION","targetId":1,"metadata":{"a":"b"}}}]`,
		"ledgercfg":  `{"bucket":"b0"}`,
		"garbage":    `{"postings":`,
		"form":       `_method=POST&postings=x`,
		"jsonstring": `"x"`,
	}
	bodyNames = sortedKeys(bodies)
)

// spellings of a path parameter: "<" ">" = the two halves of its value, "^" = the value with its first byte percent-encoded
var paramEscapes = []string{"<%2F>", "<%2f>", "<>%2F", "%2F<>", "<%252F>", "^", "<%20>", "<%3A>", "<%2E%2E%2F>", "<%2F>%2F<>"}

func paramValue(name string, r *rng, ledger string) string {
	switch name {
	case "ledger":
		return ledger
	case "address":
		return r.pick([]string{"bank", "users:001", "world"})
	case "id":
		return r.pick([]string{"0", "1", "42"})
	case "key":
		return r.pick([]string{"k", "a"})
	}
	return "x"
}

func instantiate(pattern string, r *rng, ledger string) []string {
	segs := strings.Split(strings.TrimPrefix(pattern, "/"), "/")
	for i, s := range segs {
		if strings.HasPrefix(s, "{") && strings.HasSuffix(s, "}") {
			name := s[1 : len(s)-1]
			if k := strings.IndexByte(name, ':'); k >= 0 {
				name = name[:k]
			}
			segs[i] = paramValue(name, r, ledger)
		}
	}
	return segs
}

func pctEncodeAt(s string, i int) string {
	return s[:i] + fmt.Sprintf("%%%02X", s[i]) + s[i+1:]
}

func bodyFor(pattern string, r *rng, vary bool) string {
	if vary && r.p(25) {
		return r.pick(bodyNames)
	}
	switch {
	case strings.HasSuffix(pattern, "/_bulk"):
		return r.pick([]string{"bulk_all", "bulk_one", "bulk_meta"})
	case strings.HasSuffix(pattern, "/metadata"):
		return "metadata"
	case strings.HasSuffix(pattern, "/transactions"):
		if strings.Contains(pattern, "/v2/") {
			return r.pick([]string{"create_v2", "script"})
		}
		return r.pick([]string{"create_v1", "script"})
	case strings.HasSuffix(pattern, "/revert"):
		return r.pick([]string{"none", "revert"})
	case strings.HasSuffix(pattern, "/{ledger}/"):
		return r.pick([]string{"none", "ledgercfg"})
	}
	return r.pick([]string{"none", "none", "create_v2", "metadata", "bulk_all"})
}

func genRouter(r *rng, n int, tier string, emit func(J)) {
	// main.go seeds the stream with seed*K+c and splitmix64 advances by K: the streams of consecutive seeds are shifted
	// copies of each other and re-synchronise after a conditional draw.  Forking first gives unrelated streams.
	r = r.fork()
	emit(J{"op": "walk"})
	routes := walkRoutes()
	// distinct patterns (a route = pattern × registered method; every pattern is driven through every method anyway)
	seenP := map[string]bool{}
	var patterns []string
	for _, k := range routes {
		if !seenP[k.Pattern] {
			seenP[k.Pattern] = true
			patterns = append(patterns, k.Pattern)
		}
	}
	methods := append(append([]string{}, chiMethods...), oddMethods...)
	// (A) every registered route with its own method, intact path, a body its handler accepts: the writers are reached
	//     whenever the gate is absent (control stream) — 6 variants of ledger / query / headers each
	for _, k := range routes {
		for v := 0; v < 6; v++ {
			emitOne(r, emit, k.Pattern, k.Method, "exact")
		}
	}
	// (B) every pattern x every method (chi's nine + odd strings): one intact request, then n-1 mutated ones
	for _, pat := range patterns {
		for _, m := range methods {
			for k := 0; k < n; k++ {
				if k == 0 {
					emitOne(r, emit, pat, m, "intact")
				} else {
					emitOne(r, emit, pat, m, "mutate")
				}
			}
		}
		for k := 0; k < 3; k++ {
			emitOne(r, emit, pat, r.pick(rareMethods), "mutate")
		}
	}
	// (C) every registered route with its own method and a body its handler accepts, one path parameter at a time spelled
	//     with an escape inside it (an encoded slash keeps the segment together for chi, which routes on the raw path, and
	//     splits it for everything that looks at the decoded path)
	for _, k := range routes {
		segs0 := strings.Split(strings.TrimPrefix(k.Pattern, "/"), "/")
		for i, sg := range segs0 {
			if !(strings.HasPrefix(sg, "{") && strings.HasSuffix(sg, "}")) {
				continue
			}
			for _, variant := range paramEscapes {
				segs := instantiate(k.Pattern, r, "ledger0")
				v := segs[i]
				cut := len(v) / 2
				segs[i] = strings.NewReplacer("<", v[:cut], ">", v[cut:], "^", pctEncodeAt(v, 0)).Replace(variant)
				bk := bodyFor(k.Pattern, r, false)
				in := J{"op": "req", "method": k.Method, "target": "/" + strings.Join(segs, "/"), "headers": []any{}, "body": bodies[bk],
					"bodykind": bk, "missing": false, "base": J{"pattern": k.Pattern}, "mut": []any{"param-escape"}}
				finishReq(in)
				emit(in)
			}
		}
	}
	// (D) "param-static": a path parameter spelled like a static segment of the route table (and as x%2F<static>: the decoded path
	//     then ENDS in /<static> while chi still sees one segment).  A gate that lets requests through by what their path looks like
	//     (a suffix, a prefix, a segment) cannot tell the static segment of a read endpoint from the value of a parameter of a write
	//     endpoint.  The statics are read off the router of THIS run (chi.Walk), plus a few names such exemptions tend to carry.
	//     Write routes: every parameter x every static x both spellings with the route's own method, and the LAST parameter also with
	//     the other write-ish methods; read routes: every parameter x every static of the table, own method.  Thorough: all nine methods.
	statics := staticSegments(routes)
	for _, k := range routes {
		segs0 := strings.Split(strings.TrimPrefix(k.Pattern, "/"), "/")
		isWrite := !safeMethod(k.Method)
		last := -1
		for i, sg := range segs0 {
			if strings.HasPrefix(sg, "{") && strings.HasSuffix(sg, "}") {
				last = i
			}
		}
		for i, sg := range segs0 {
			if !(strings.HasPrefix(sg, "{") && strings.HasSuffix(sg, "}")) {
				continue
			}
			vals := statics.table
			if isWrite {
				vals = append(append([]string{}, statics.table...), statics.extra...)
			}
			for _, st := range vals {
				spellings := []string{st}
				if isWrite {
					spellings = append(spellings, "x%2F"+st)
				}
				for _, sp := range spellings {
					ms := []string{k.Method}
					if tier == "thorough" {
						ms = chiMethods
					} else if isWrite && i == last && i == len(segs0)-1 {
						ms = []string{k.Method, "POST", "PUT", "PATCH", "DELETE"}
					}
					seenM := map[string]bool{}
					for _, m := range ms {
						if seenM[m] {
							continue
						}
						seenM[m] = true
						segs := instantiate(k.Pattern, r, "ledger0")
						segs[i] = sp
						bk := bodyFor(k.Pattern, r, false)
						in := J{"op": "req", "method": m, "target": "/" + strings.Join(segs, "/"), "headers": []any{}, "body": bodies[bk],
							"bodykind": bk, "missing": false, "base": J{"pattern": k.Pattern}, "mut": []any{"param-static"}}
						finishReq(in)
						emit(in)
					}
				}
			}
		}
	}
	// (E) several requests at once on ONE read-only router (harness/router_conc.go)
	genRouterConcurrent(r, tier, routes, emit)
	// paths outside every registered pattern
	for _, t := range []string{"/", "", "*", "/api", "/api/ledger", "/api/ledger/", "/api/ledgerx/v2/ledger0/transactions", "/v2/ledger0/transactions",
		"/ledger0/transactions", "/api/ledger/v2", "/api/ledger/v2/", "/api/ledger/v2x/transactions", "/api/ledger/v2/ledger0/nope",
		"/api/ledger/ledger0/nope", "/api/ledger/_info/transactions", "/api/ledger/v2/_info/transactions", "/API/LEDGER/v2/ledger0/transactions",
		"http://other.test/api/ledger/v2/ledger0/transactions", "//api/ledger/v2/ledger0/transactions", "/api/ledger/v2/ledger0/transactions/batch",
		"/api/ledger/ledger0/transactions/batch", "/api/ledger/v2/accounts/abc", "/api/ledger/_info", "/api/ledger/v2/_info", "/api/ledger/_healthcheck/x"} {
		for _, m := range methods {
			q := J{"op": "req", "method": m, "target": t, "headers": []any{}, "body": bodies["create_v2"], "missing": false,
				"base": J{"pattern": "(none)"}, "mut": []any{"fixed-path"}, "bodykind": "create_v2"}
			finishReq(q)
			emit(q)
		}
	}
}

func safeMethod(m string) bool { return m == "GET" || m == "HEAD" || m == "OPTIONS" }

type staticSet struct{ table, extra []string }

// staticSegments: every static segment of the registered patterns, and a few names that are not (yet) in the table
func staticSegments(routes []routeKey) staticSet {
	seen := map[string]bool{}
	var out staticSet
	for _, k := range routes {
		for _, sg := range strings.Split(k.Pattern, "/") {
			if sg == "" || strings.HasPrefix(sg, "{") || seen[sg] {
				continue
			}
			seen[sg] = true
			out.table = append(out.table, sg)
		}
	}
	sort.Strings(out.table)
	for _, sg := range []string{"_search", "_query", "_count", "_validate", "_export", "search", "query", "health", "metrics", "docs"} {
		if !seen[sg] {
			out.extra = append(out.extra, sg)
		}
	}
	return out
}

func emitOne(r *rng, emit func(J), pattern, method string, mode string) {
	ledger := "ledger0"
	muts := []any{}
	mutate := mode == "mutate"
	soft := mutate && r.p(40) // keep the path on its route: only ledger name (valid), query, headers, body vary
	if mode == "exact" || soft {
		ledger = r.pick(goodLedgers)
	} else if mutate && r.p(35) {
		ledger = r.pick(ledgerNames)
		muts = append(muts, "ledger-name")
	}
	if soft {
		mutate = false
		muts = append(muts, "soft")
	}
	segs := instantiate(pattern, r, ledger)
	nmut := 0
	if mutate {
		nmut = 1 + r.n(2)
	}
	for i := 0; i < nmut; i++ {
		switch r.n(12) {
		case 0:
			segs = append(segs, "")
			muts = append(muts, "trailing-slash")
		case 1:
			k := r.n(len(segs) + 1)
			segs = append(segs[:k], append([]string{""}, segs[k:]...)...)
			muts = append(muts, "double-slash")
		case 2:
			k := r.n(len(segs))
			if len(segs[k]) > 0 && !strings.Contains(segs[k], "%") {
				segs[k] = pctEncodeAt(segs[k], r.n(len(segs[k])))
				muts = append(muts, "pct-encode")
			}
		case 3:
			k := r.n(len(segs))
			if r.p(50) {
				segs[k] = strings.ToUpper(segs[k])
			} else {
				segs[k] = strings.Title(segs[k])
			}
			muts = append(muts, "case")
		case 4:
			k := r.n(len(segs) + 1)
			segs = append(segs[:k], append([]string{r.pick([]string{"..", ".", "%2e%2e"})}, segs[k:]...)...)
			muts = append(muts, "dot-segment")
		case 5:
			if len(segs) > 1 {
				segs = segs[:len(segs)-1]
				muts = append(muts, "truncate")
			}
		case 6:
			segs = append(segs, r.pick([]string{"x", "metadata", "revert", "batch", "_bulk", "transactions"}))
			muts = append(muts, "extra-segment")
		case 7:
			// swap API version: insert or remove "v2" after /api/ledger
			if len(segs) > 2 && segs[2] == "v2" {
				segs = append(segs[:2], segs[3:]...)
			} else if len(segs) >= 2 {
				segs = append(segs[:2], append([]string{"v2"}, segs[2:]...)...)
			}
			muts = append(muts, "swap-version")
		case 8:
			k := r.n(len(segs))
			segs[k] = segs[k] + r.pick([]string{"%2F", "%3F", "%23", ";a=b", "%00", "+", "%"})
			muts = append(muts, "suffix-escape")
		case 9:
			if len(segs) > 2 {
				segs = segs[2:]
				muts = append(muts, "drop-prefix")
			}
		case 10:
			k := r.n(len(segs))
			segs[k] = r.pick(ledgerNames)
			muts = append(muts, "replace-segment")
		default:
			muts = append(muts, "none")
		}
	}
	target := "/" + strings.Join(segs, "/")
	if mutate && r.p(3) {
		target = "http://ledger.test" + target
		muts = append(muts, "absolute-form")
	}
	q := ""
	if mutate || soft || r.p(30) {
		q = r.pick(queries)
	}
	if q != "" {
		target += "?" + q
	}
	hs := []any{}
	if r.p(40) {
		for i, k := 0, 1+r.n(2); i < k; i++ {
			h := overrideHdr[r.n(len(overrideHdr))]
			hs = append(hs, []any{h[0], h[1]})
		}
	}
	if r.p(12) {
		hs = append(hs, []any{"Access-Control-Request-Method", r.pick([]string{"POST", "GET", "DELETE"})})
		hs = append(hs, []any{"Origin", "https://example.test"})
	}
	bk := bodyFor(pattern, r, mode != "exact")
	in := J{"op": "req", "method": method, "target": target, "headers": hs, "body": bodies[bk], "bodykind": bk,
		"missing": mode != "exact" && r.p(15), "base": J{"pattern": pattern}, "mut": muts}
	finishReq(in)
	emit(in)
}

// finishReq adds what the generator knows about how net/http will read the request: parse mode, routing path, preflight header
func finishReq(in J) {
	hsAny, _ := in["headers"].([]any)
	var hs [][2]string
	pre := false
	for _, h := range hsAny {
		p := h.([]any)
		hs = append(hs, [2]string{p[0].(string), p[1].(string)})
	}
	b := buildRequest(in["method"].(string), in["target"].(string), hs, in["body"].(string))
	if b.req != nil {
		pre = b.req.Header.Get("Access-Control-Request-Method") != ""
	}
	in["parse"], in["rpath"], in["preflight"] = b.parse, b.rpath, pre
}
