package main

// Area "paginate" (C17): the real bunpaginate.UsingColumn / UsingOffset / Iterate / Extract / EncodeCursor /
// UnmarshalCursor, query.ParseJSON and ledgerstore.PaginatedQueryOptions, run over bun + a small *evaluating*
// fake database/sql driver (pagsql below), and — for the "http" cases — behind the real v1/v2 routers.
//
// input kinds (field "kind"):
//   colwalk / offwalk : {"ids":[s…],"grps":[n…],"g":n|null,"ps":n,"order":"asc|desc","body":filter text,"pit":s|null}
//        first page, then `next` until hasMore=false (through the real Iterate), `previous` from every page,
//        `next` of that page again, and the whole way back along `previous` from the last page
//   colstep / offstep : one evaluation of an arbitrary query state {"q":{…}} on a table
//   cursor            : a list query of one of the real endpoint types, carrying a filter (v2 body through
//                       ParseJSON, or a v1 constructor tree), through EncodeCursor and back through Extract
//   token             : an arbitrary JSON value as the content of a token, through Extract (refusals)
//   http              : a list endpoint of the real router; every `next`/`previous` token of the response is sent back
//
// Cursor tokens are reported as the JSON value they contain (json.RawMessage), queries as canonical objects,
// filters by what Build hands to a recording query.Context (clause text + arguments).

import (
	"context"
	"database/sql"
	"database/sql/driver"
	"encoding/base64"
	"encoding/json"
	"fmt"
	"io"
	"math/big"
	"net/http"
	"net/http/httptest"
	"net/url"
	"regexp"
	"sort"
	"strconv"
	"strings"

	ledger "github.com/formancehq/ledger/internal"
	"github.com/formancehq/ledger/internal/api/backend"
	v1 "github.com/formancehq/ledger/internal/api/v1"
	v2 "github.com/formancehq/ledger/internal/api/v2"
	"github.com/formancehq/ledger/internal/opentelemetry/metrics"
	"github.com/formancehq/ledger/internal/storage/ledgerstore"
	sharedapi "github.com/formancehq/stack/libs/go-libs/api"
	"github.com/formancehq/stack/libs/go-libs/auth"
	"github.com/formancehq/stack/libs/go-libs/bun/bunpaginate"
	"github.com/formancehq/stack/libs/go-libs/query"
	"github.com/go-chi/chi/v5"
	"github.com/uptrace/bun"
	"github.com/uptrace/bun/dialect/pgdialect"
)

func init() {
	sql.Register("pagsql", pagDriver{})
	register("paginate", &area{gen: genPaginate, exec: execPaginate})
}

// ---------------------------------------------------------------------------------------------------------
// pagsql: evaluates  SELECT * FROM "items" [WHERE (c op n) [AND (c op n)]…] ORDER BY id ASC|DESC [LIMIT k] [OFFSET m]
// on the in-memory table pagTable (cases run one after the other).  Trusted, kept small.

type pagRow struct {
	id  *big.Int
	grp int64
}

var (
	pagTable []pagRow
	pagDBv   *bun.DB
	pagStmt  = regexp.MustCompile(`^SELECT \* FROM "items"(?: WHERE (.+?))? ORDER BY (\S+) (.+?)(?: LIMIT (\d+))?(?: OFFSET (\d+))?$`)
	pagAtom  = regexp.MustCompile(`^(id|grp) (<=|>=|<|>|=) '?(-?\d+)'?$`)
)

type pagDriver struct{}
type pagConn struct{}
type pagRows struct {
	data []pagRow
	i    int
}

func (pagDriver) Open(string) (driver.Conn, error)  { return pagConn{}, nil }
func (pagConn) Prepare(string) (driver.Stmt, error) { return nil, fmt.Errorf("pagsql: no prepare") }
func (pagConn) Close() error                        { return nil }
func (pagConn) Begin() (driver.Tx, error)           { return nil, fmt.Errorf("pagsql: no tx") }
func (r *pagRows) Columns() []string                { return []string{"id", "grp"} }
func (r *pagRows) Close() error                     { return nil }
func (r *pagRows) Next(dest []driver.Value) error {
	if r.i >= len(r.data) {
		return io.EOF
	}
	dest[0] = r.data[r.i].id.String()
	dest[1] = r.data[r.i].grp
	r.i++
	return nil
}

type pagSQLError struct{ msg string }

func (e pagSQLError) Error() string { return "pagsql: " + e.msg }

func (pagConn) QueryContext(ctx context.Context, q string, args []driver.NamedValue) (driver.Rows, error) {
	m := pagStmt.FindStringSubmatch(q)
	if m == nil {
		return nil, pagSQLError{"unsupported statement: " + q}
	}
	if m[2] != "id" {
		return nil, pagSQLError{"column does not exist: " + m[2]}
	}
	if m[3] != "ASC" && m[3] != "DESC" {
		return nil, pagSQLError{"syntax error at: " + m[3]}
	}
	type atom struct {
		col, op string
		n       *big.Int
	}
	var atoms []atom
	if m[1] != "" {
		w := strings.TrimSuffix(strings.TrimPrefix(m[1], "("), ")")
		for _, a := range strings.Split(w, ") AND (") {
			am := pagAtom.FindStringSubmatch(a)
			if am == nil {
				return nil, pagSQLError{"unsupported predicate: " + a}
			}
			n, _ := new(big.Int).SetString(am[3], 10)
			atoms = append(atoms, atom{am[1], am[2], n})
		}
	}
	out := []pagRow{}
	for _, r := range pagTable {
		ok := true
		for _, a := range atoms {
			v := r.id
			if a.col == "grp" {
				v = big.NewInt(r.grp)
			}
			c := v.Cmp(a.n)
			switch a.op {
			case "<=":
				ok = ok && c <= 0
			case ">=":
				ok = ok && c >= 0
			case "<":
				ok = ok && c < 0
			case ">":
				ok = ok && c > 0
			case "=":
				ok = ok && c == 0
			}
		}
		if ok {
			out = append(out, r)
		}
	}
	sort.SliceStable(out, func(i, j int) bool {
		if m[3] == "ASC" {
			return out[i].id.Cmp(out[j].id) < 0
		}
		return out[i].id.Cmp(out[j].id) > 0
	})
	if m[5] != "" {
		off, _ := strconv.Atoi(m[5])
		if off > len(out) {
			off = len(out)
		}
		out = out[off:]
	}
	if m[4] != "" {
		lim, _ := strconv.Atoi(m[4])
		if lim < len(out) {
			out = out[:lim]
		}
	}
	return &pagRows{data: out}, nil
}

func pagDB() *bun.DB {
	if pagDBv == nil {
		sqldb, err := sql.Open("pagsql", "")
		if err != nil {
			panic(err)
		}
		pagDBv = bun.NewDB(sqldb, pgdialect.New())
	}
	return pagDBv
}

type pagItem struct {
	bun.BaseModel `bun:"items,alias:items"`
	ID            *bunpaginate.BigInt `bun:"id,type:numeric"`
	Grp           int64               `bun:"grp"`
}

// ---------------------------------------------------------------------------------------------------------
// the list calls: what ledgerstore.GetTransactions / GetAccountsWithVolumes do, on the fake table

type pagOpts = ledgerstore.PaginatedQueryOptions[ledgerstore.PITFilterWithVolumes]
type pagColQ = bunpaginate.ColumnPaginatedQuery[pagOpts]
type pagOffQ = bunpaginate.OffsetPaginatedQuery[pagOpts]

func pagBase(g *int64) *bun.SelectQuery {
	sb := pagDB().NewSelect().Table("items")
	if g != nil {
		sb = sb.Where("grp = ?", *g)
	}
	return sb
}

func listCol[F any](g *int64, q bunpaginate.ColumnPaginatedQuery[F]) (*sharedapi.Cursor[pagItem], error) {
	return bunpaginate.UsingColumn[F, pagItem](context.Background(), pagBase(g), q)
}

func listOff[F any](g *int64, order bunpaginate.Order, q bunpaginate.OffsetPaginatedQuery[F]) (*sharedapi.Cursor[pagItem], error) {
	return bunpaginate.UsingOffset[F, pagItem](context.Background(), pagBase(g).OrderExpr("id "+order.String()), q)
}

func loadTable(in J) {
	pagTable = pagTable[:0]
	ids, _ := in["ids"].([]any)
	grps, _ := in["grps"].([]any)
	for i, v := range ids {
		n, ok := new(big.Int).SetString(fmt.Sprint(v), 10)
		if !ok {
			panic("bad id " + fmt.Sprint(v))
		}
		var g int64
		if i < len(grps) {
			g = jInt64(grps[i])
		}
		pagTable = append(pagTable, pagRow{n, g})
	}
}

func jInt64(v any) int64 {
	switch x := v.(type) {
	case json.Number:
		n, _ := x.Int64()
		return n
	case float64:
		return int64(x)
	case string:
		n, _ := strconv.ParseInt(x, 10, 64)
		return n
	}
	return 0
}

func optG(in J) *int64 {
	if in["g"] == nil {
		return nil
	}
	g := jInt64(in["g"])
	return &g
}

func optBig(v any) *big.Int {
	if v == nil {
		return nil
	}
	n, ok := new(big.Int).SetString(fmt.Sprint(v), 10)
	if !ok {
		panic("bad big " + fmt.Sprint(v))
	}
	return n
}

func pagOrder(v any) bunpaginate.Order {
	if s, _ := v.(string); s == "desc" {
		return bunpaginate.OrderDesc
	}
	return bunpaginate.OrderAsc
}

func optPIT(v any) *ledger.Time {
	s, _ := v.(string)
	if s == "" {
		return nil
	}
	t, err := ledger.ParseTime(s)
	if err != nil {
		panic(err)
	}
	return &t
}

// the JSON value inside a token ("" -> null; undecodable -> a marker object)
func tokenJSON(tok string) any {
	if tok == "" {
		return nil
	}
	b, err := base64.RawURLEncoding.DecodeString(tok)
	if err != nil || !json.Valid(b) {
		return J{"undecodable": tok}
	}
	return json.RawMessage(b)
}

func itemIDs(items []pagItem) []any {
	out := []any{}
	for _, it := range items {
		out = append(out, it.ID.ToMathBig().String())
	}
	return out
}

func pageJ(c *sharedapi.Cursor[pagItem]) J {
	return J{"data": itemIDs(c.Data), "hasMore": c.HasMore, "next": tokenJSON(c.Next), "previous": tokenJSON(c.Previous)}
}

func errClass(err error) string {
	switch {
	case err == nil:
		return ""
	case strings.Contains(err.Error(), "paginating next request"):
		return "cursor-refused"
	case strings.Contains(err.Error(), "pagsql:"):
		return "sql_error"
	case strings.Contains(err.Error(), "stop:"):
		return "no-end"
	}
	return "other:" + err.Error()
}

// walkOut runs the traversal of one list: forward with the real Iterate, then the `previous` links.
func walkOut[Q any](q0 Q, list func(Q) (*sharedapi.Cursor[pagItem], error), maxPages int) J {
	out := J{}
	pages := []any{}
	var cursors []*sharedapi.Cursor[pagItem]
	err := bunpaginate.Iterate(context.Background(), q0,
		func(ctx context.Context, q Q) (*sharedapi.Cursor[pagItem], error) { return list(q) },
		func(c *sharedapi.Cursor[pagItem]) error {
			pages = append(pages, pageJ(c))
			cursors = append(cursors, c)
			if len(pages) > maxPages {
				return fmt.Errorf("stop: more than %d pages", maxPages)
			}
			return nil
		})
	out["pages"] = pages
	if err != nil {
		out["error"] = J{"at": len(pages) - 1, "what": errClass(err)}
	} else {
		out["error"] = nil
	}
	// `previous` from every page, and `next` of the page so reached
	prevs := []any{}
	for k, c := range cursors {
		if c.Previous == "" {
			continue
		}
		e := J{"from": k}
		var pq Q
		if err := bunpaginate.UnmarshalCursor(c.Previous, &pq); err != nil {
			e["error"] = "cursor-refused"
			prevs = append(prevs, e)
			continue
		}
		pc, err := list(pq)
		if err != nil {
			e["error"] = errClass(err)
			prevs = append(prevs, e)
			continue
		}
		e["page"] = pageJ(pc)
		// a client that is ON the page reached through `previous` and follows `next` until hasMore is false (the real Iterate,
		// started from the query the `previous` token stands for): it must be shown the rest of the list from that page on
		e["resume"] = resumeOut(pq, list, maxPages)
		if pc.Next != "" {
			var nq Q
			if err := bunpaginate.UnmarshalCursor(pc.Next, &nq); err != nil {
				e["back"] = "cursor-refused"
			} else if nc, err := list(nq); err != nil {
				e["back"] = errClass(err)
			} else {
				e["back"] = itemIDs(nc.Data)
			}
		} else {
			e["back"] = nil
		}
		prevs = append(prevs, e)
	}
	out["prevs"] = prevs
	// all the way back from the last page
	back, backFlags := []any{}, []any{}
	if n := len(cursors); n > 0 && err == nil {
		tok := cursors[n-1].Previous
		for steps := 0; tok != "" && steps <= maxPages; steps++ {
			var pq Q
			if err := bunpaginate.UnmarshalCursor(tok, &pq); err != nil {
				back = append(back, "cursor-refused")
				break
			}
			pc, err := list(pq)
			if err != nil {
				back = append(back, errClass(err))
				break
			}
			back = append(back, itemIDs(pc.Data))
			backFlags = append(backFlags, J{"hasMore": pc.HasMore, "hasNext": pc.Next != ""})
			tok = pc.Previous
		}
	}
	out["backwalk"] = back
	out["backflags"] = backFlags
	return out
}

// resumeOut: the pages the real Iterate delivers when started from query q (first page included), reduced to what the walk
// oracle needs: the ids, hasMore, and whether a `next` token came with the page.
func resumeOut[Q any](q Q, list func(Q) (*sharedapi.Cursor[pagItem], error), maxPages int) J {
	pages := []any{}
	err := bunpaginate.Iterate(context.Background(), q,
		func(ctx context.Context, q Q) (*sharedapi.Cursor[pagItem], error) { return list(q) },
		func(c *sharedapi.Cursor[pagItem]) error {
			pages = append(pages, J{"data": itemIDs(c.Data), "hasMore": c.HasMore, "hasNext": c.Next != ""})
			if len(pages) > maxPages {
				return fmt.Errorf("stop: more than %d pages", maxPages)
			}
			return nil
		})
	out := J{"pages": pages, "error": nil}
	if err != nil {
		out["error"] = errClass(err)
	}
	return out
}

func pagOptions(in J) (pagOpts, error) {
	body, _ := in["body"].(string)
	qb, err := query.ParseJSON(body) // what v2 getQueryBuilder does with the request body
	if err != nil {
		return pagOpts{}, err
	}
	ps := uint64(jInt64(in["ps"]))
	vol, _ := in["vol"].(bool)
	eff, _ := in["eff"].(bool)
	return ledgerstore.NewPaginatedQueryOptions(ledgerstore.PITFilterWithVolumes{
		PITFilter:              ledgerstore.PITFilter{PIT: optPIT(in["pit"])},
		ExpandVolumes:          vol,
		ExpandEffectiveVolumes: eff,
	}).WithQueryBuilder(qb).WithPageSize(ps), nil
}

// ---------------------------------------------------------------------------------------------------------
// canonical form of a query (independent of how the code under test marshals it)

func filterPrint(qb query.Builder) any {
	if qb == nil {
		return nil
	}
	clause, args, err := qb.Build(query.ContextFn(func(key, op string, value any) (string, []any, error) {
		return key + " " + op + " ?", []any{value}, nil
	}))
	if err != nil {
		return J{"error": err.Error()}
	}
	if args == nil {
		args = []any{}
	}
	return J{"clause": clause, "args": args}
}

func bigS(b *big.Int) any {
	if b == nil {
		return nil
	}
	return b.String()
}

func pitS(t *ledger.Time) any {
	if t == nil {
		return nil
	}
	return t.UTC().Format(ledger.DateFormat)
}

func canonOpts[T any](o ledgerstore.PaginatedQueryOptions[T]) J {
	j := J{"filter": filterPrint(o.QueryBuilder), "optPageSize": strconv.FormatUint(o.PageSize, 10)}
	switch x := any(o.Options).(type) {
	case ledgerstore.PITFilterWithVolumes:
		j["pit"], j["vol"], j["eff"] = pitS(x.PIT), x.ExpandVolumes, x.ExpandEffectiveVolumes
	default:
		j["any"] = x
	}
	return j
}

func canonCol[T any](q bunpaginate.ColumnPaginatedQuery[ledgerstore.PaginatedQueryOptions[T]]) J {
	return J{"pageSize": strconv.FormatUint(q.PageSize, 10), "bottom": bigS(q.Bottom), "column": q.Column,
		"paginationID": bigS(q.PaginationID), "order": strconv.Itoa(int(q.Order)), "reverse": q.Reverse, "opts": canonOpts(q.Options)}
}

func canonOff[T any](q bunpaginate.OffsetPaginatedQuery[ledgerstore.PaginatedQueryOptions[T]]) J {
	return J{"pageSize": strconv.FormatUint(q.PageSize, 10), "offset": strconv.FormatUint(q.Offset, 10),
		"order": strconv.Itoa(int(q.Order)), "opts": canonOpts(q.Options)}
}

// v1 constructor tree: {"and":[…]} | {"or":[…]} | {"not":t} | {"op":"$match|$lt|…","key":k,"value":v}
func buildV1(t any) query.Builder {
	m, _ := t.(map[string]any)
	if xs, ok := m["and"].([]any); ok {
		items := []query.Builder{}
		for _, x := range xs {
			items = append(items, buildV1(x))
		}
		return query.And(items...)
	}
	if xs, ok := m["or"].([]any); ok {
		items := []query.Builder{}
		for _, x := range xs {
			items = append(items, buildV1(x))
		}
		return query.Or(items...)
	}
	if x, ok := m["not"]; ok {
		return query.Not(buildV1(x))
	}
	key, _ := m["key"].(string)
	val := m["value"]
	if n, ok := val.(json.Number); ok { // the harness reads its input with UseNumber; the endpoints hand strings or float64
		f, _ := n.Float64()
		val = f
	}
	switch m["op"] {
	case "$lt":
		return query.Lt(key, val)
	case "$lte":
		return query.Lte(key, val)
	case "$gt":
		return query.Gt(key, val)
	case "$gte":
		return query.Gte(key, val)
	}
	return query.Match(key, val)
}

func cursorRequest(tok string) *http.Request {
	return httptest.NewRequest(http.MethodGet, "/x?"+url.Values{"cursor": []string{tok}}.Encode(), nil)
}

func noDefault[Q any]() (*Q, error) { return nil, fmt.Errorf("defaulter must not run") }

// ---------------------------------------------------------------------------------------------------------

func execPaginate(in J) J {
	kind, _ := in["kind"].(string)
	switch kind {
	case "colwalk", "colstep", "offwalk", "offstep":
		loadTable(in)
		g := optG(in)
		opts, err := pagOptions(in)
		if err != nil {
			return J{"parse": "error"}
		}
		order := pagOrder(in["order"])
		switch kind {
		case "colwalk":
			q0 := pagColQ{PageSize: opts.PageSize, Column: "id", Order: order, Options: opts}
			return walkOut(q0, func(q pagColQ) (*sharedapi.Cursor[pagItem], error) { return listCol(g, q) }, len(pagTable)+3)
		case "offwalk":
			q0 := pagOffQ{PageSize: opts.PageSize, Order: order, Options: opts}
			return walkOut(q0, func(q pagOffQ) (*sharedapi.Cursor[pagItem], error) { return listOff(g, order, q) }, len(pagTable)+3)
		case "colstep":
			qj, _ := in["q"].(map[string]any)
			rev, _ := qj["reverse"].(bool)
			col, _ := qj["column"].(string)
			q := pagColQ{PageSize: opts.PageSize, Bottom: optBig(qj["bottom"]), Column: col, PaginationID: optBig(qj["pid"]),
				Order: order, Options: opts, Reverse: rev}
			c, err := listCol(g, q)
			if err != nil {
				return J{"res": errClass(err)}
			}
			return J{"res": "ok", "page": pageJ(c)}
		default:
			qj, _ := in["q"].(map[string]any)
			q := pagOffQ{PageSize: opts.PageSize, Offset: uint64(jInt64(qj["offset"])), Order: pagOrder(qj["order"]), Options: opts}
			c, err := listOff(g, order, q)
			if err != nil {
				return J{"res": errClass(err)}
			}
			return J{"res": "ok", "page": pageJ(c)}
		}
	case "cursor":
		return execCursor(in)
	case "token":
		return execToken(in)
	case "http":
		return execHTTP(in)
	}
	return J{"error": "unknown kind " + kind}
}

func cursorFilter(in J) (query.Builder, error) {
	f, _ := in["filter"].(map[string]any)
	if f == nil {
		return nil, nil
	}
	if t, ok := f["v1"]; ok {
		return buildV1(t), nil
	}
	body, _ := f["body"].(string)
	return query.ParseJSON(body)
}

func execCursor(in J) J {
	qb, err := cursorFilter(in)
	if err != nil {
		return J{"parse": "error"}
	}
	qj, _ := in["q"].(map[string]any)
	ps := uint64(jInt64(in["ps"]))
	vol, _ := in["vol"].(bool)
	eff, _ := in["eff"].(bool)
	pitvol := ledgerstore.NewPaginatedQueryOptions(ledgerstore.PITFilterWithVolumes{
		PITFilter: ledgerstore.PITFilter{PIT: optPIT(in["pit"])}, ExpandVolumes: vol, ExpandEffectiveVolumes: eff,
	}).WithQueryBuilder(qb).WithPageSize(ps)
	rev, _ := qj["reverse"].(bool)
	out := J{"parse": "ok"}
	switch in["qtype"] {
	case "tx":
		q := ledgerstore.NewGetTransactionsQuery(pitvol)
		q.Bottom, q.PaginationID, q.Reverse = optBig(qj["bottom"]), optBig(qj["pid"]), rev
		tok := bunpaginate.EncodeCursor(q)
		out["token"], out["before"] = tokenJSON(tok), canonCol(bunpaginate.ColumnPaginatedQuery[pagOpts](q))
		q2, err := bunpaginate.Extract[ledgerstore.GetTransactionsQuery](cursorRequest(tok), noDefault[ledgerstore.GetTransactionsQuery])
		out["accepted"] = err == nil
		if err == nil {
			out["after"] = canonCol(bunpaginate.ColumnPaginatedQuery[pagOpts](*q2))
		}
	case "acc":
		q := ledgerstore.NewGetAccountsQuery(pitvol)
		q.Offset = uint64(jInt64(qj["offset"]))
		tok := bunpaginate.EncodeCursor(q)
		out["token"], out["before"] = tokenJSON(tok), canonOff(bunpaginate.OffsetPaginatedQuery[pagOpts](q))
		q2, err := bunpaginate.Extract[ledgerstore.GetAccountsQuery](cursorRequest(tok), noDefault[ledgerstore.GetAccountsQuery])
		out["accepted"] = err == nil
		if err == nil {
			out["after"] = canonOff(bunpaginate.OffsetPaginatedQuery[pagOpts](*q2))
		}
	default: // logs: PaginatedQueryOptions[any], decoded with UnmarshalCursor as getLogs does
		q := ledgerstore.NewGetLogsQuery(ledgerstore.PaginatedQueryOptions[any]{QueryBuilder: qb, PageSize: ps})
		q.Bottom, q.PaginationID, q.Reverse = optBig(qj["bottom"]), optBig(qj["pid"]), rev
		tok := bunpaginate.EncodeCursor(q)
		out["token"], out["before"] = tokenJSON(tok), canonCol(bunpaginate.ColumnPaginatedQuery[ledgerstore.PaginatedQueryOptions[any]](q))
		q2 := ledgerstore.GetLogsQuery{}
		err := bunpaginate.UnmarshalCursor(tok, &q2)
		out["accepted"] = err == nil
		if err == nil {
			out["after"] = canonCol(bunpaginate.ColumnPaginatedQuery[ledgerstore.PaginatedQueryOptions[any]](q2))
		}
	}
	return out
}

func execToken(in J) J {
	raw, err := json.Marshal(in["json"])
	if err != nil {
		panic(err)
	}
	tok := base64.RawURLEncoding.EncodeToString(raw)
	out := J{}
	switch in["qtype"] {
	case "tx":
		q2, err := bunpaginate.Extract[ledgerstore.GetTransactionsQuery](cursorRequest(tok), noDefault[ledgerstore.GetTransactionsQuery])
		out["accepted"] = err == nil
		if err == nil {
			out["after"] = canonCol(bunpaginate.ColumnPaginatedQuery[pagOpts](*q2))
		}
	case "acc":
		q2, err := bunpaginate.Extract[ledgerstore.GetAccountsQuery](cursorRequest(tok), noDefault[ledgerstore.GetAccountsQuery])
		out["accepted"] = err == nil
		if err == nil {
			out["after"] = canonOff(bunpaginate.OffsetPaginatedQuery[pagOpts](*q2))
		}
	default:
		q2 := ledgerstore.GetLogsQuery{}
		err := bunpaginate.UnmarshalCursor(tok, &q2)
		out["accepted"] = err == nil
		if err == nil {
			out["after"] = canonCol(bunpaginate.ColumnPaginatedQuery[ledgerstore.PaginatedQueryOptions[any]](q2))
		}
	}
	return out
}

// ---------------------------------------------------------------------------------------------------------
// "http": the real routers; the backend answers list calls by running the real pagination over the fake table
// and records the query it was handed.

type pagLedger struct {
	*fakeLedger
	seen []J // canonical form of every list query the backend received
	g    *int64
}

func (l *pagLedger) GetTransactions(ctx context.Context, q ledgerstore.GetTransactionsQuery) (*sharedapi.Cursor[ledger.ExpandedTransaction], error) {
	cq := bunpaginate.ColumnPaginatedQuery[pagOpts](q)
	l.seen = append(l.seen, canonCol(cq))
	c, err := listCol(l.g, cq)
	if err != nil {
		return nil, err
	}
	return sharedapi.MapCursor(c, func(it pagItem) ledger.ExpandedTransaction {
		tx := ledger.ExpandedTransaction{}
		tx.ID = it.ID.ToMathBig()
		return tx
	}), nil
}

func (l *pagLedger) GetAccountsWithVolumes(ctx context.Context, q ledgerstore.GetAccountsQuery) (*sharedapi.Cursor[ledger.ExpandedAccount], error) {
	oq := bunpaginate.OffsetPaginatedQuery[pagOpts](q)
	l.seen = append(l.seen, canonOff(oq))
	c, err := listOff(l.g, q.Order, oq)
	if err != nil {
		return nil, err
	}
	return sharedapi.MapCursor(c, func(it pagItem) ledger.ExpandedAccount {
		a := ledger.ExpandedAccount{}
		a.Address = "acc:" + it.ID.ToMathBig().String()
		return a
	}), nil
}

func (l *pagLedger) GetLogs(ctx context.Context, q ledgerstore.GetLogsQuery) (*sharedapi.Cursor[ledger.ChainedLog], error) {
	cq := bunpaginate.ColumnPaginatedQuery[ledgerstore.PaginatedQueryOptions[any]](q)
	l.seen = append(l.seen, canonCol(cq))
	c, err := listCol(l.g, cq)
	if err != nil {
		return nil, err
	}
	return sharedapi.MapCursor(c, func(it pagItem) ledger.ChainedLog {
		lg := ledger.ChainedLog{}
		lg.ID = it.ID.ToMathBig()
		lg.Type = ledger.SetMetadataLogType
		lg.Data = ledger.SetMetadataLogPayload{TargetType: ledger.MetaTargetTypeAccount, TargetID: "a"}
		return lg
	}), nil
}

type pagBackend struct {
	fakeBackend
	pl *pagLedger
}

func (b *pagBackend) GetLedgerEngine(ctx context.Context, name string) (backend.Ledger, error) {
	return b.pl, nil
}

var httpPaths = map[string]string{
	"v2tx": "/l0/transactions", "v2acc": "/l0/accounts", "v2logs": "/l0/logs",
	"v1tx": "/l0/transactions", "v1acc": "/l0/accounts", "v1logs": "/l0/logs", "v1bal": "/l0/balances",
}

// ids shown by one response page of an endpoint
func httpPageIDs(ep string, data []map[string]any) []any {
	out := []any{}
	for _, d := range data {
		switch ep {
		case "v2tx", "v2logs", "v1logs":
			out = append(out, fmt.Sprint(d["id"]))
		case "v1tx":
			out = append(out, fmt.Sprint(d["txid"]))
		case "v2acc", "v1acc":
			out = append(out, strings.TrimPrefix(fmt.Sprint(d["address"]), "acc:"))
		case "v1bal":
			for k := range d {
				out = append(out, strings.TrimPrefix(k, "acc:"))
			}
		}
	}
	return out
}

func execHTTP(in J) J {
	loadTable(in)
	ep, _ := in["endpoint"].(string)
	pl := &pagLedger{fakeLedger: &fakeLedger{}, g: optG(in)}
	be := &pagBackend{pl: pl}
	var router chi.Router
	if strings.HasPrefix(ep, "v1") {
		router = v1.NewRouter(be, nil, metrics.NewNoOpRegistry(), auth.NewNoAuth())
	} else {
		router = v2.NewRouter(be, nil, metrics.NewNoOpRegistry(), auth.NewNoAuth())
	}
	params := url.Values{}
	if ps, ok := in["ps"]; ok && ps != nil {
		params.Set("pageSize", fmt.Sprint(ps))
	}
	if pm, ok := in["params"].(map[string]any); ok {
		for _, k := range sortedKeys(pm) {
			params.Set(k, fmt.Sprint(pm[k]))
		}
	}
	body, _ := in["body"].(string)
	get := func(rawQuery, body string) (int, *sharedapi.Cursor[map[string]any]) {
		req := httptest.NewRequest(http.MethodGet, httpPaths[ep]+"?"+rawQuery, strings.NewReader(body))
		rec := httptest.NewRecorder()
		router.ServeHTTP(rec, req)
		var resp sharedapi.BaseResponse[map[string]any]
		dec := json.NewDecoder(rec.Body)
		dec.UseNumber()
		if err := dec.Decode(&resp); err != nil || resp.Cursor == nil {
			return rec.Code, nil
		}
		return rec.Code, resp.Cursor
	}
	steps := []any{}
	maxPages := len(pagTable) + 3
	rawQuery, reqBody := params.Encode(), body
	var pagesSeen []*sharedapi.Cursor[map[string]any]
	for k := 0; k <= maxPages; k++ {
		nSeen := len(pl.seen)
		code, c := get(rawQuery, reqBody)
		st := J{"status": code}
		if len(pl.seen) > nSeen {
			st["query"] = pl.seen[len(pl.seen)-1]
		}
		if c != nil {
			st["data"], st["hasMore"] = httpPageIDs(ep, c.Data), c.HasMore
			st["next"], st["previous"] = tokenJSON(c.Next), tokenJSON(c.Previous)
			pagesSeen = append(pagesSeen, c)
		}
		steps = append(steps, st)
		if c == nil || !c.HasMore {
			break
		}
		rawQuery, reqBody = url.Values{"cursor": []string{c.Next}}.Encode(), "" // what api.FetchAllPaginated sends
	}
	out := J{"steps": steps}
	prevs := []any{}
	for k, c := range pagesSeen {
		if c.Previous == "" {
			continue
		}
		nSeen := len(pl.seen)
		code, pc := get(url.Values{"cursor": []string{c.Previous}}.Encode(), "")
		e := J{"from": k, "status": code}
		if len(pl.seen) > nSeen {
			e["query"] = pl.seen[len(pl.seen)-1]
		}
		if pc != nil {
			e["data"] = httpPageIDs(ep, pc.Data)
			e["hasMore"], e["hasNext"] = pc.HasMore, pc.Next != ""
			// the client is on this page now and follows `next` until hasMore is false (api.FetchAllPaginated's rule)
			resume := []any{}
			for c, n := pc, 0; c.HasMore && n <= maxPages; n++ {
				code, nc := get(url.Values{"cursor": []string{c.Next}}.Encode(), "")
				st := J{"status": code}
				if nc == nil {
					resume = append(resume, st)
					break
				}
				st["data"], st["hasMore"], st["hasNext"] = httpPageIDs(ep, nc.Data), nc.HasMore, nc.Next != ""
				resume = append(resume, st)
				c = nc
			}
			e["resume"] = resume
		}
		prevs = append(prevs, e)
	}
	out["prevs"] = prevs
	return out
}

// ---------------------------------------------------------------------------------------------------------
// generators

var pagStrings = []string{"", "users:001", "a:b:", "orders::paid", "it's", `say "hi"`, "<b>&amp;", "é—✓", "metadata", "world", "0"}
var pagKeys = []string{"reference", "timestamp", "account", "source", "destination", "metadata[foo]", "metadata[a.b]", "address",
	"balance[USD]", "id", "date", "balance"}
var pagKvOps = []string{"$match", "$gte", "$lte", "$gt", "$lt"}
var pagTimes = []string{"2023-01-02T03:04:05Z", "2024-02-29T23:59:59.999999Z", "1999-12-31T00:00:00.000001Z", "2023-06-15T12:00:00.5Z"}

func genValue(r *rng) any {
	switch r.n(10) {
	case 0, 1, 2, 3:
		return r.pick(pagStrings)
	case 4, 5:
		return []any{0, 1, -5, 42, 100000, 9007199254740991}[r.n(6)]
	case 6:
		return []any{1.5, -0.25, 0.125}[r.n(3)]
	case 7:
		return r.p(50)
	case 8:
		return nil
	}
	if r.p(50) {
		return []any{1, "a", nil}
	}
	return J{"k": "v", "n": 2}
}

// a filter expression the (repaired) ParseJSON accepts; not=false leaves `$not` out
func genFilter(r *rng, depth int, not bool) any {
	c := r.n(10)
	switch {
	case depth > 0 && c < 3:
		items := []any{}
		for i, l := 0, r.n(4); i < l; i++ {
			items = append(items, genFilter(r, depth-1, not))
		}
		return J{r.pick([]string{"$and", "$or"}): items}
	case depth > 0 && c == 3 && not:
		return J{"$not": genFilter(r, depth-1, not)}
	}
	return J{r.pick(pagKvOps): J{r.pick(pagKeys): genValue(r)}}
}

// a filter whose JSON text is long (a cursor carries the filter: the token grows with it): many alternatives, or a long value
func genBigFilter(r *rng) any {
	if r.p(50) {
		items := []any{}
		for i, l := 0, 12+r.n(40); i < l; i++ {
			items = append(items, J{"$match": J{r.pick([]string{"reference", "account", "metadata[foo]", "address"}): fmt.Sprintf("users:%03d:%s", i, r.pick(pagStrings))}})
		}
		return J{r.pick([]string{"$or", "$and"}): items}
	}
	return J{"$match": J{r.pick([]string{"metadata[foo]", "reference"}): strings.Repeat(r.pick([]string{"x", "é", "ab:"}), 300+r.n(2000))}}
}

// something ParseJSON must refuse (or, for the last few, text that is not a JSON object at all)
func genBadFilterText(r *rng) string {
	good, _ := json.Marshal(genFilter(r, 1, false))
	bad := []string{
		`{}`, `{"$foo":{"a":1}}`, `{"$match":{"a":1},"$lt":{"b":2}}`, `{"$and":5}`, `{"$and":{"$match":{"a":1}}}`, `{"$or":[5]}`,
		`{"$and":[` + string(good) + `,"x"]}`, `{"$match":5}`, `{"$match":{}}`, `{"$match":{"a":1,"b":2}}`, `{"$lt":[1]}`, `{"$not":5}`,
		`{"$not":[` + string(good) + `]}`, `{"$not":{}}`, `{"$and":[{"$and":[{"$bad":1}]}]}`, `{"match":{"a":1}}`, `{"$AND":[]}`,
		`{"$and":null}`, `{"$gt":null}`, `{"$not":null}`, `{"":{"a":1}}`, `{"$or":[[]]}`,
		`null`, `5`, `[1]`, `"x"`, `{`, `{"$match":{"a":1}`, `nope`,
	}
	return r.pick(bad)
}

func filterText(f any) string {
	b, err := json.Marshal(f)
	if err != nil {
		panic(err)
	}
	return string(b)
}

func genIDs(r *rng, size int, exotic bool) ([]any, []any) {
	ids, grps := []any{}, []any{}
	cur := big.NewInt(int64(r.n(4)))
	if exotic {
		switch r.n(4) {
		case 0:
			cur = big.NewInt(int64(-3 * size)) // negative ids
		case 1:
			cur, _ = new(big.Int).SetString("18446744073709551610", 10) // around 2^64
		case 2:
			cur, _ = new(big.Int).SetString("9007199254740990", 10) // around 2^53
		}
	}
	for i := 0; i < size; i++ {
		ids = append(ids, cur.String())
		grps = append(grps, r.n(3))
		cur = new(big.Int).Add(cur, big.NewInt(int64(1+r.n(4))))
	}
	// the table is stored in no particular order
	for i := len(ids) - 1; i > 0; i-- {
		j := r.n(i + 1)
		ids[i], ids[j] = ids[j], ids[i]
		grps[i], grps[j] = grps[j], grps[i]
	}
	return ids, grps
}

func pageSizesFor(n int) []int {
	seen, out := map[int]bool{}, []int{}
	for _, p := range []int{1, 2, n - 1, n, n + 1, 100} {
		if p >= 1 && !seen[p] {
			seen[p] = true
			out = append(out, p)
		}
	}
	return out
}

func genV1Clause(r *rng, ep string) (string, string, any) { // param name, value, expected tree node
	s := r.pick(pagStrings[1:])
	switch ep {
	case "v1tx":
		switch r.n(8) {
		case 0:
			return "after", "12", J{"op": "$lt", "key": "id", "value": "12"}
		case 1:
			return "start_time", pagTimes[0], J{"op": "$gte", "key": "date", "value": pagTimes[0]}
		case 2:
			return "end_time", pagTimes[1], J{"op": "$lt", "key": "date", "value": pagTimes[1]}
		case 3:
			return "reference", s, J{"op": "$match", "key": "reference", "value": s}
		case 4:
			return "source", s, J{"op": "$match", "key": "source", "value": s}
		case 5:
			return "destination", s, J{"op": "$match", "key": "destination", "value": s}
		case 6:
			return "account", s, J{"op": "$match", "key": "account", "value": s}
		}
		return "metadata[k]", s, J{"op": "$match", "key": "metadata[k]", "value": s}
	case "v1logs":
		switch r.n(3) {
		case 0:
			return "after", "12", J{"op": "$lt", "key": "id", "value": "12"}
		case 1:
			return "start_time", pagTimes[0], J{"op": "$gte", "key": "date", "value": pagTimes[0]}
		}
		return "end_time", pagTimes[1], J{"op": "$lt", "key": "date", "value": pagTimes[1]}
	}
	switch r.n(3) { // v1acc, v1bal
	case 0:
		return "address", s, J{"op": "$match", "key": "address", "value": s}
	case 1:
		return "metadata[k]", s, J{"op": "$match", "key": "metadata[k]", "value": s}
	}
	return "balance", "7", nil // completed by the caller with the operator
}

var v1ParamOrder = map[string][]string{
	"v1tx":   {"after", "start_time", "end_time", "reference", "source", "destination", "account", "metadata[k]"},
	"v1logs": {"after", "start_time", "end_time"},
	"v1acc":  {"balance", "address", "metadata[k]"},
	"v1bal":  {"balance", "address", "metadata[k]"},
}

func genHTTP(r *rng, size int) J {
	ep := r.pick([]string{"v2tx", "v2acc", "v2logs", "v1tx", "v1acc", "v1logs", "v1bal"})
	ids, grps := genIDs(r, size, r.p(15))
	ps := pageSizesFor(size)[r.n(len(pageSizesFor(size)))]
	c := J{"kind": "http", "endpoint": ep, "ids": ids, "grps": grps, "g": nil, "ps": ps, "vol": false, "eff": false, "pit": nil, "filter": nil}
	params := J{}
	if strings.HasPrefix(ep, "v2") {
		if ep != "v2logs" {
			pit := r.pick(pagTimes)
			params["pit"], c["pit"] = pit, pit
			if r.p(30) {
				params["expand"], c["vol"] = "volumes", true
			}
		}
		if r.p(75) {
			body := filterText(genFilter(r, 2, true))
			if r.p(12) {
				body = filterText(genBigFilter(r))
			}
			c["body"], c["filter"] = body, J{"body": body}
		}
	} else {
		if ep == "v1bal" {
			c["vol"] = true // getBalances asks for volumes whatever the request says
		}
		if ep != "v1logs" && r.p(40) {
			pit := r.pick(pagTimes)
			params["pit"], c["pit"] = pit, pit
		}
		clauses := map[string]any{}
		for i, l := 0, r.n(4); i < l; i++ {
			name, val, node := genV1Clause(r, ep)
			if name == "balance" {
				op := r.pick([]string{"e", "ne", "lt", "lte", "gt", "gte"})
				params["balanceOperator"] = op
				kv := J{"op": map[string]string{"e": "$match", "ne": "$match", "lt": "$lt", "lte": "$lte", "gt": "$gt", "gte": "$gte"}[op], "key": "balance", "value": val}
				node = kv
				if op == "ne" {
					node = J{"not": kv}
				}
			}
			params[name], clauses[name] = val, node
		}
		items := []any{}
		for _, name := range v1ParamOrder[ep] {
			if n, ok := clauses[name]; ok {
				items = append(items, n)
			}
		}
		switch {
		case len(items) == 0:
		case len(items) == 1 && (ep == "v1tx" || ep == "v1logs"):
			c["filter"] = J{"v1": items[0]}
		default:
			c["filter"] = J{"v1": J{"and": items}}
		}
	}
	c["params"] = params
	return c
}

func genTokenJSON(r *rng, qtype string) any {
	filters := J{"qb": nil, "pageSize": 3, "options": J{"pit": nil, "volumes": false, "effectiveVolumes": false}}
	if qtype == "logs" {
		filters["options"] = []any{nil, 5, "x", J{"a": []any{1}}}[r.n(4)]
	}
	if r.p(60) {
		filters["qb"] = genFilter(r, 2, true)
	}
	var q J
	if qtype == "acc" {
		q = J{"offset": r.n(50), "order": 0, "pageSize": 3, "filters": filters}
	} else {
		q = J{"pageSize": 3, "bottom": 1, "column": "id", "paginationID": 7, "order": 1, "filters": filters, "reverse": r.p(30)}
	}
	big64, _ := new(big.Int).SetString("18446744073709551616", 10)
	set := func(m J, k string, vs ...any) { m[k] = vs[r.n(len(vs))] }
	switch r.n(16) {
	case 0: // untouched: a token the server could have handed out
	case 1:
		keys := sortedKeys(q)
		delete(q, keys[r.n(len(keys))])
	case 2:
		set(q, "pageSize", "5", -1, 1.5, json.Number(big64.String()), json.Number("18446744073709551615"), nil, true)
	case 3:
		if qtype == "acc" {
			set(q, "offset", "5", -1, 1.5, json.Number(big64.String()), nil)
		} else {
			set(q, "bottom", "4", 1.5, true, nil, json.Number("-36893488147419103232"), []any{})
		}
	case 4:
		if qtype != "acc" {
			set(q, "column", 5, nil, "nope", true)
		}
	case 5:
		if qtype != "acc" {
			set(q, "reverse", "yes", 1, nil)
		}
	case 6:
		set(q, "order", 5, -1, "asc", 1.5, nil, 0, 1, true)
	case 7:
		set(q, "filters", 7, []any{}, nil, "x", J{})
	case 8, 9, 10:
		var bad any
		if err := json.Unmarshal([]byte(genBadFilterText(r)), &bad); err != nil {
			bad = J{"$and": "x"}
		}
		filters["qb"] = bad
	case 11:
		if qtype != "logs" {
			set(filters, "options", nil, 5, J{}, J{"pit": 5}, J{"volumes": "x"}, J{"pit": pagTimes[1], "effectiveVolumes": true}, []any{})
		}
	case 12:
		set(filters, "pageSize", "5", -1, 1.5, nil, 1000)
	case 13:
		return []any{nil, 5, []any{}, "str", true, J{}}[r.n(6)]
	case 14:
		q["extra"] = "ignored"
		filters["more"] = 1
	case 15:
		filters["qb"] = J{"$not": genFilter(r, 1, true)}
	}
	return q
}

func genPaginate(r *rng, n int, tier string, emit func(J)) {
	maxSize := 40
	// 1. the grid: every collection size, page sizes {1,2,n-1,n,n+1,100}, both orders, both pagination styles
	for size := 0; size <= maxSize; size++ {
		ids, grps := genIDs(r, size, false)
		for _, order := range []string{"asc", "desc"} {
			for _, ps := range pageSizesFor(size) {
				for _, kind := range []string{"colwalk", "offwalk"} {
					emit(J{"kind": kind, "ids": ids, "grps": grps, "g": nil, "ps": ps, "order": order, "body": "", "pit": nil})
				}
			}
		}
	}
	// 1b. collections and page sizes beyond 100 (the v2 maximum; v1 accepts page sizes up to 1000, the library any)
	for _, size := range []int{101, 102, 137, 205} {
		ids, grps := genIDs(r, size, false)
		for _, ps := range []int{50, 100, 101, 102, size - 1, size, size + 1, 200, 1000} {
			emit(J{"kind": "colwalk", "ids": ids, "grps": grps, "g": nil, "ps": ps, "order": r.pick([]string{"asc", "desc"}), "body": "", "pit": nil})
			emit(J{"kind": "offwalk", "ids": ids, "grps": grps, "g": nil, "ps": ps, "order": r.pick([]string{"asc", "desc"}), "body": "", "pit": nil})
		}
		for _, ep := range []string{"v1tx", "v1acc", "v1logs", "v2tx", "v2acc", "v2logs"} {
			for _, ps := range []int{100, 101, 150, 1000, 1001} {
				c := J{"kind": "http", "endpoint": ep, "ids": ids, "grps": grps, "g": nil, "ps": ps, "vol": false, "eff": false, "pit": nil, "filter": nil, "params": J{}}
				if strings.HasPrefix(ep, "v2") && ep != "v2logs" {
					c["pit"] = pagTimes[0]
					c["params"] = J{"pit": pagTimes[0]}
				}
				emit(c)
			}
		}
	}
	// 2. random walks: exotic ids, a WHERE of the caller, a filter and a point in time carried in the cursor
	randMax := maxSize
	if tier == "thorough" {
		randMax = 120
	}
	for i := 0; i < n; i++ {
		size := r.n(randMax + 1)
		if r.p(30) {
			size = r.n(8)
		}
		ids, grps := genIDs(r, size, r.p(30))
		c := J{"kind": r.pick([]string{"colwalk", "offwalk"}), "ids": ids, "grps": grps, "g": nil, "ps": 1 + r.n(size+2),
			"order": r.pick([]string{"asc", "desc"}), "body": "", "pit": nil, "vol": r.p(20), "eff": r.p(20)}
		if r.p(40) {
			c["g"] = r.n(3)
		}
		if r.p(50) {
			c["body"] = filterText(genFilter(r, 2, true))
		}
		if r.p(50) {
			c["pit"] = r.pick(pagTimes)
		}
		emit(c)
	}
	// 3. single evaluations of arbitrary query states (also states no walk reaches, page size 0, unknown column)
	for i := 0; i < n; i++ {
		size := r.n(12)
		ids, grps := genIDs(r, size, r.p(20))
		c := J{"ids": ids, "grps": grps, "g": nil, "ps": r.n(size + 3), "order": r.pick([]string{"asc", "desc"}), "body": "", "pit": nil}
		if r.p(30) {
			c["g"] = r.n(3)
		}
		anyID := func() any {
			if size > 0 && r.p(70) {
				return ids[r.n(size)]
			}
			return strconv.Itoa(r.n(60) - 10)
		}
		if r.p(50) {
			c["kind"] = "colstep"
			q := J{"column": "id", "reverse": r.p(45), "bottom": nil, "pid": nil}
			if r.p(75) {
				q["pid"] = anyID()
			}
			if r.p(70) {
				q["bottom"] = anyID()
			}
			if r.p(4) {
				q["column"] = "nope"
			}
			c["q"] = q
		} else {
			c["kind"] = "offstep"
			c["q"] = J{"offset": r.n(size + 4), "order": r.pick([]string{"asc", "desc"})}
		}
		emit(c)
	}
	// 4. cursor round trips of the real endpoint query types
	for i := 0; i < 3*n; i++ {
		c := J{"kind": "cursor", "qtype": r.pick([]string{"tx", "acc", "logs"}), "ps": 1 + r.n(100), "pit": nil,
			"vol": r.p(30), "eff": r.p(30), "filter": nil,
			"q": J{"bottom": nil, "pid": nil, "reverse": false, "offset": r.n(200)}}
		if r.p(50) {
			c["pit"] = r.pick(pagTimes)
		}
		if r.p(70) {
			q := c["q"].(J)
			q["bottom"], q["pid"], q["reverse"] = strconv.Itoa(r.n(100)), strconv.Itoa(r.n(100)), r.p(30)
			if r.p(10) {
				q["pid"] = "36893488147419103232"
			}
		}
		switch x := r.n(20); {
		case x < 2:
		case x < 10:
			c["filter"] = J{"body": filterText(genFilter(r, 3, true))}
		case x < 11:
			c["filter"] = J{"body": filterText(genBigFilter(r))}
		case x < 13:
			c["filter"] = J{"body": genBadFilterText(r)}
		case x < 14:
			c["filter"] = J{"body": ""}
		default:
			items := []any{}
			for k, l := 0, 1+r.n(4); k < l; k++ {
				kv := J{"op": r.pick(pagKvOps), "key": r.pick(pagKeys), "value": r.pick(pagStrings)}
				if r.p(20) {
					items = append(items, J{"not": kv})
				} else {
					items = append(items, kv)
				}
			}
			if len(items) == 1 && r.p(50) {
				c["filter"] = J{"v1": items[0]}
			} else {
				c["filter"] = J{"v1": J{r.pick([]string{"and", "and", "or"}): items}}
			}
		}
		emit(c)
	}
	// 5. token contents the server never produced (refusals must agree with the model of the decoder)
	for i := 0; i < n; i++ {
		qt := r.pick([]string{"tx", "acc", "logs"})
		emit(J{"kind": "token", "qtype": qt, "json": genTokenJSON(r, qt)})
	}
	// 6. the list endpoints end to end
	for i := 0; i < n; i++ {
		emit(genHTTP(r, r.n(9)))
	}
}
