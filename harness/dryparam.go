package main

// Area "dryparam" (C14, API layer): how the preview flag of a request reaches command.Parameters.
// input : {"api":"v1"|"v2","kind":"create|revert|meta|delmeta","flag":S}   output: {"status":n,"writes":[{"kind":k,"dry":b}]}

import (
	"net/http"
	"net/http/httptest"
	"net/url"
	"strings"

	"github.com/formancehq/ledger/internal/api"
	"github.com/formancehq/ledger/internal/opentelemetry/metrics"
	"github.com/formancehq/stack/libs/go-libs/auth"
	"github.com/formancehq/stack/libs/go-libs/health"
)

func init() { register("dryparam", &area{gen: genDryParam, exec: execDryParam}) }

var dryFlags = []string{"", "yes", "YES", "Yes", "yEs", "true", "TRUE", "True", "1", "0", "no", "false", "y", "t", "on", "01", " yes", "yes ", "2"}

func genDryParam(r *rng, n int, tier string, emit func(J)) {
	for _, a := range []string{"v1", "v2"} {
		for _, k := range []string{"create", "revert", "meta", "delmeta"} {
			for _, f := range dryFlags {
				emit(J{"api": a, "kind": k, "flag": f})
			}
		}
	}
}

func execDryParam(in J) J {
	apiV, _ := in["api"].(string)
	kind, _ := in["kind"].(string)
	flag, _ := in["flag"].(string)
	fl := &fakeLedger{}
	router := api.NewRouter(&fakeBackend{l: fl}, health.NewHealthController(nil), metrics.NewNoOpRegistry(), auth.NewNoAuth(), false)
	prefix, param := "/api/ledger/l0", "preview"
	if apiV == "v2" {
		prefix, param = "/api/ledger/v2/l0", "dryRun"
	}
	method, path, body := http.MethodPost, "", ""
	switch kind {
	case "create":
		path, body = "/transactions", `{"postings":[{"source":"world","destination":"bank","amount":1,"asset":"USD"}]}`
	case "revert":
		path = "/transactions/0/revert"
	case "meta":
		path, body = "/accounts/bank/metadata", `{"k":"v"}`
	default:
		method, path = http.MethodDelete, "/accounts/bank/metadata/k"
		if apiV == "v1" {
			return J{"skip": true}
		}
	}
	q := url.Values{}
	q.Set(param, flag)
	req := httptest.NewRequest(method, prefix+path+"?"+q.Encode(), strings.NewReader(body))
	rec := httptest.NewRecorder()
	router.ServeHTTP(rec, req)
	ws := []any{}
	for _, c := range fl.writes {
		ws = append(ws, J{"kind": c.Kind, "dry": c.Params.DryRun})
	}
	return J{"status": rec.Code, "writes": ws}
}
