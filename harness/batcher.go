package main

// Area "batcher" (C05, C06): operation sequences against the REAL batching.NewBatcher[int](runner, 1, maxBatchSize)
// and the job.Runner inside it — the two generic components between the commander's commit and store.InsertLogs,
// built exactly as command.New builds them (one worker), with a small maxBatchSize so that batch boundaries,
// a stop with work queued and a failing store call are reached with a handful of appends.
//
// The runner function (the InsertLogs stand-in) parks on a gate owned by the harness: it copies the slice it was
// given when it is entered, waits for the verdict, copies the slice AGAIN when it is told to return (a batch that
// shares memory with something written meanwhile shows as a difference) and returns nil or an error.  Every Append
// carries a callback that records "acked x".  Run is started in a goroutine whose deferred recover records a panic
// of the loop as "died".
//
// Operations (one at a time; after each one the harness waits until the components are quiescent again):
//   append x  — go Append(x, cb)       start — go Run(ctx)            close — go Close()
//   release   — the parked runner call returns nil                      fail  — … returns an error
// Nothing in the repository is instrumented and no sleep decides anything.  Quiescence is decided from what the
// operation must cause, given what the harness has OBSERVED so far (is a runner call parked, has Run ended, was Close
// called, how many objects were appended / handed over): an Append that Run can receive returns, and enters the runner
// when no call is parked; a nil return runs one callback per object of the batch and enters the runner again when
// something is queued; an error ends Run; Close returns when no call is parked.  Two kinds of call must NOT come back:
// an Append while Run is not receiving (before Run, while it stops, after it ended) parks in Runner.Next after having
// queued its object — the harness waits for the queue length (overlay export VerifPendingLen, read under the batcher's
// mutex) to grow; a Close while a runner call is parked waits for that call — the harness waits until the Go runtime
// reports the Close goroutine in "chan receive" (runtime.Stack), i.e. past its stop request, AND the goroutine of Run
// parked outside its loop's select (inside the wait for the worker), in one consistent snapshot, twice in a row: the
// loop has taken the request and nothing moves before the parked call is told to return.  A Close that comes back
// although the call is still parked shows as the step's "close":"returned" next to a batch that has not returned.  Whatever else happens (a callback nobody expected, a second
// call after an error) is an event like any other: it is recorded in the step in which it arrives, where the
// comparison with the model and the oracle see it.  After a case the calls still parked on an ended Run are served by
// the overlay export VerifUnpark (only so that goroutines do not pile up in the process).
// A wait that does not end within batWatchdog is reported as "stuck" (the case is run a second time first).
//
// input : {"max":n, "ops":[{"op":"append","x":n} | {"op":"release"} | {"op":"fail"} | {"op":"close"} | {"op":"start"}]}
// output: {"steps":[{"op":…, "skip":bool, "ev":[{"e":"ret","b":[…at entry],"exit":[…at return],"ok":bool} | {"e":"ack","x":n} | {"e":"batch","b":[…]}],
//                    "appret":n (Append calls that have returned so far), "close":"none"|"blocked"|"returned", "run":"fresh"|"running"|"stopped"|"died"}],
//          "batches":[[…]], "acks":[…], "stuck":why?, "retried":bool?}

import (
	"bytes"
	"context"
	"errors"
	"fmt"
	"io"
	"os"
	"runtime"
	"strconv"
	"sync/atomic"
	"time"

	"github.com/formancehq/ledger/internal/engine/utils/batching"
	"github.com/formancehq/stack/libs/go-libs/logging"
	"github.com/sirupsen/logrus"
)

const batWatchdog = 3 * time.Second

func init() {
	register("batcher", &area{gen: genBatcher, exec: execBatcher})
}

type batEvent struct {
	kind string // enter | ret | ack | appret | closeret | runret | died
	x    int
	b    []int
	exit []int
	ok   bool
	why  string
}

type batHarness struct {
	b    *batching.Batcher[int]
	ctx  context.Context
	ev   chan batEvent
	gate chan bool
	over atomic.Bool

	// observed so far
	run       string // fresh | running | stopped | died
	closeCall bool
	closeRet  bool
	inCall    bool
	cur       []int
	lastErr   bool // the last runner call that returned, returned an error
	nAppended int
	nHanded   int
	appRet    int
	nAcks     int
	nRets     int
	runGID    int64 // goroutine of Run

	stepEv  []any
	batches []any
	acks    []any
	stuck   string
}

func (h *batHarness) send(e batEvent) {
	if h.over.Load() {
		return
	}
	h.ev <- e
}

func newBatHarness(max int) *batHarness {
	l := logrus.New()
	l.SetOutput(io.Discard)
	l.SetLevel(logrus.PanicLevel)
	h := &batHarness{
		ctx:     logging.ContextWithLogger(context.Background(), logging.NewLogrus(l)),
		ev:      make(chan batEvent, 1<<14),
		gate:    make(chan bool),
		run:     "fresh",
		batches: []any{}, acks: []any{},
	}
	h.b = batching.NewBatcher[int](func(ctx context.Context, items ...int) error {
		if h.over.Load() {
			return nil
		}
		entry := append([]int{}, items...)
		h.send(batEvent{kind: "enter", b: entry})
		ok := <-h.gate
		exit := append([]int{}, items...)
		h.send(batEvent{kind: "ret", b: entry, exit: exit, ok: ok})
		if !ok {
			return errors.New("store failure (injected)")
		}
		return nil
	}, 1, max)
	return h
}

func ints(xs []int) []any {
	out := make([]any, len(xs))
	for i, x := range xs {
		out[i] = x
	}
	return out
}

func sameInts(a, b []int) bool {
	if len(a) != len(b) {
		return false
	}
	for i := range a {
		if a[i] != b[i] {
			return false
		}
	}
	return true
}

func (h *batHarness) handle(e batEvent) {
	switch e.kind {
	case "enter":
		retry := h.lastErr && h.run == "running" && !h.closeCall && sameInts(h.cur, e.b)
		h.inCall, h.cur = true, e.b
		if !retry {
			h.nHanded += len(e.b)
		}
		h.batches = append(h.batches, ints(e.b))
		h.stepEv = append(h.stepEv, J{"e": "batch", "b": ints(e.b)})
	case "ret":
		h.inCall, h.lastErr = false, !e.ok
		h.nRets++
		h.stepEv = append(h.stepEv, J{"e": "ret", "b": ints(e.b), "exit": ints(e.exit), "ok": e.ok})
	case "ack":
		h.nAcks++
		h.acks = append(h.acks, e.x)
		h.stepEv = append(h.stepEv, J{"e": "ack", "x": e.x})
	case "appret":
		h.appRet++
	case "closeret":
		h.closeRet = true
	case "runret":
		h.run = "stopped"
	case "died":
		h.run = "died"
	}
}

func (h *batHarness) drain() {
	for {
		select {
		case e := <-h.ev:
			h.handle(e)
		default:
			return
		}
	}
}

// waitFor processes events until cond holds; false (and h.stuck set) when the watchdog fires first.
func (h *batHarness) waitFor(what string, cond func() bool) bool {
	if h.stuck != "" {
		return false
	}
	deadline := time.NewTimer(batWatchdog)
	defer deadline.Stop()
	for {
		h.drain()
		if cond() {
			return true
		}
		select {
		case e := <-h.ev:
			h.handle(e)
		case <-deadline.C:
			h.stuck = "watchdog: " + what
			return false
		}
	}
}

func curGID() int64 {
	var buf [64]byte
	n := runtime.Stack(buf[:], false)
	f := bytes.Fields(buf[:n])
	if len(f) < 2 {
		return -1
	}
	g, _ := strconv.ParseInt(string(f[1]), 10, 64)
	return g
}

var batStackBuf = make([]byte, 1<<20)

// goroutineState is what the runtime reports for goroutine gid ("chan send", "chan receive", "select", "runnable", …), "" when it is gone.
func goroutineState(gid int64) string {
	for {
		n := runtime.Stack(batStackBuf, true)
		if n < len(batStackBuf) {
			dump := batStackBuf[:n]
			key := []byte("goroutine " + strconv.FormatInt(gid, 10) + " [")
			var rest []byte
			if bytes.HasPrefix(dump, key) {
				rest = dump[len(key):]
			} else if i := bytes.Index(dump, append([]byte("\n"), key...)); i >= 0 {
				rest = dump[i+1+len(key):]
			} else {
				return ""
			}
			k := bytes.IndexAny(rest, "],")
			if k < 0 {
				return ""
			}
			return string(rest[:k])
		}
		batStackBuf = make([]byte, 2*len(batStackBuf))
	}
}

// goroutineStates: the states of several goroutines taken from ONE dump (a consistent snapshot).
func goroutineStates(gids ...int64) []string {
	for {
		n := runtime.Stack(batStackBuf, true)
		if n < len(batStackBuf) {
			dump := batStackBuf[:n]
			out := make([]string, len(gids))
			for i, gid := range gids {
				key := []byte("goroutine " + strconv.FormatInt(gid, 10) + " [")
				var rest []byte
				if bytes.HasPrefix(dump, key) {
					rest = dump[len(key):]
				} else if j := bytes.Index(dump, append([]byte("\n"), key...)); j >= 0 {
					rest = dump[j+1+len(key):]
				} else {
					continue
				}
				if k := bytes.IndexAny(rest, "],"); k >= 0 {
					out[i] = string(rest[:k])
				}
			}
			return out
		}
		batStackBuf = make([]byte, 2*len(batStackBuf))
	}
}

// waitCloseDecided: Close was called while a runner call is parked.  Either it waits for that call — its goroutine is past the stop
// request ("chan receive") and the goroutine of Run is parked somewhere else than in its loop's select (inside the wait for the worker),
// seen twice in a row in consistent snapshots: nothing can move before the harness lets the call return — or it comes back although the
// call is still parked (the event "closeret" arrives: recorded like every other event, judged by the model comparison and the oracle).
func (h *batHarness) waitCloseDecided(closeGID int64) bool {
	if h.stuck != "" {
		return false
	}
	t0 := time.Now()
	stable := 0
	for k := 0; ; k++ {
		h.drain()
		if h.closeRet {
			return true
		}
		runtime.Gosched()
		st := goroutineStates(closeGID, h.runGID)
		if st[0] == "chan receive" && st[1] != "" && st[1] != "runnable" && st[1] != "running" && st[1] != "select" {
			if stable++; stable >= 2 {
				return true
			}
		} else {
			stable = 0
		}
		if time.Since(t0) > batWatchdog {
			h.stuck = "watchdog: Close neither returns nor waits for the parked runner call (Close: " + st[0] + ", Run: " + st[1] + ")"
			return false
		}
		if k > 20 {
			time.Sleep(20 * time.Microsecond)
		}
	}
}

// waitParked waits until goroutine gid is parked in the given runtime state (it will stay there: nobody serves it).
func (h *batHarness) waitParked(what string, gid int64, state string) bool {
	if h.stuck != "" {
		return false
	}
	t0 := time.Now()
	for k := 0; ; k++ {
		runtime.Gosched()
		if goroutineState(gid) == state {
			return true
		}
		if time.Since(t0) > batWatchdog {
			h.stuck = "watchdog: " + what
			return false
		}
		if k > 20 {
			time.Sleep(20 * time.Microsecond)
		}
	}
}

// waitQueued waits until the batcher's queue holds n objects (read through the overlay export, under its mutex).
func (h *batHarness) waitQueued(what string, n int) bool {
	if h.stuck != "" {
		return false
	}
	t0 := time.Now()
	for k := 0; ; k++ {
		if h.b.VerifPendingLen() >= n {
			return true
		}
		runtime.Gosched()
		if time.Since(t0) > batWatchdog {
			h.stuck = "watchdog: " + what
			return false
		}
		if k > 50 {
			time.Sleep(20 * time.Microsecond)
		}
	}
}

func (h *batHarness) backlog() int { return h.nAppended - h.nHanded }

func (h *batHarness) do(op J) J {
	h.stepEv = []any{}
	skip := false
	switch op["op"] {
	case "append":
		x := toInt(op["x"])
		receiving := h.run == "running" && !h.closeCall
		idle := !h.inCall
		before, queued := h.appRet, h.b.VerifPendingLen()
		h.nAppended++
		go func() {
			h.b.Append(x, func() { h.send(batEvent{kind: "ack", x: x}) })
			h.send(batEvent{kind: "appret"})
		}()
		if receiving {
			if h.waitFor("Append does not return although Run is in its select", func() bool { return h.appRet > before }) && idle {
				h.waitFor("an object was appended while no runner call was parked, the runner is not entered", func() bool { return h.inCall })
			}
		} else {
			// Run is not receiving: the call parks in Runner.Next for good, after it has put the object into the queue
			h.waitQueued("Append while Run is not receiving: the object does not reach the queue", queued+1)
		}
	case "start":
		if h.run != "fresh" {
			skip = true
			break
		}
		h.run = "running"
		rg := make(chan int64, 1)
		go func() {
			rg <- curGID()
			defer func() {
				if e := recover(); e != nil {
					h.send(batEvent{kind: "died", why: fmt.Sprint(e)})
					return
				}
				h.send(batEvent{kind: "runret"})
			}()
			h.b.Run(h.ctx)
		}()
		h.runGID = <-rg
		if h.waitFor("the Append calls parked before Run do not return", func() bool { return h.appRet >= h.nAppended }) && h.backlog() > 0 {
			h.waitFor("objects were queued before Run, the runner is not entered", func() bool { return h.inCall })
		}
	case "release", "fail":
		if !h.inCall {
			skip = true
			break
		}
		ok := op["op"] == "release"
		size, acks, rets := len(h.cur), h.nAcks, h.nRets
		stopping := h.closeCall && h.run == "running"
		h.gate <- ok
		if !h.waitFor("the runner call does not return", func() bool { return h.nRets > rets }) {
			break
		}
		switch {
		case stopping:
			// (a runner that calls the function again instead of stopping is parked again: that ends the wait as well)
			h.waitFor("Close was waiting for the runner call: Run and Close do not return", func() bool { return (h.run != "running" && h.closeRet) || h.inCall })
		case ok:
			if h.waitFor("the callbacks of a persisted batch do not run", func() bool { return h.nAcks >= acks+size || h.run != "running" }) &&
				h.run == "running" && h.backlog() > 0 {
				h.waitFor("objects are queued and no runner call is parked, the runner is not entered", func() bool { return h.inCall || h.run != "running" })
			}
		default:
			// the loop must die; anything else that happens instead (a second call, callbacks) ends the wait as well and is recorded
			if h.waitFor("a runner call returned an error: Run neither dies nor does anything else", func() bool {
				return h.run != "running" || h.inCall || h.nAcks > acks
			}) && h.run == "running" && !h.inCall {
				if h.waitFor("callbacks of a failed batch started to run and stopped half way", func() bool { return h.nAcks >= acks+size || h.run != "running" }) &&
					h.run == "running" && h.backlog() > 0 {
					h.waitFor("objects are queued and no runner call is parked, the runner is not entered", func() bool { return h.inCall || h.run != "running" })
				}
			}
		}
	case "close":
		if h.closeCall || h.run == "fresh" {
			skip = true
			break
		}
		h.closeCall = true
		wasRunning, parked := h.run == "running", h.inCall
		gid := make(chan int64, 1)
		go func() {
			gid <- curGID()
			h.b.Close()
			h.send(batEvent{kind: "closeret"})
		}()
		switch {
		case wasRunning && !parked:
			h.waitFor("Close with no runner call parked: Run and Close do not return", func() bool { return h.run != "running" && h.closeRet })
		case wasRunning:
			h.waitCloseDecided(<-gid)
		default:
			// the loop has died: nobody will serve the stop request, and nothing else depends on how far the call got
			<-gid
		}
	default:
		skip = true
	}
	for i := 0; i < 4; i++ {
		runtime.Gosched()
	}
	h.drain()
	cl := "none"
	if h.closeRet {
		cl = "returned"
	} else if h.closeCall {
		cl = "blocked"
	}
	return J{"op": op["op"], "skip": skip, "ev": h.stepEv, "appret": h.appRet, "close": cl, "run": h.run}
}

// finish lets whatever can still end, end (nothing of it is recorded).
func (h *batHarness) finish() {
	h.over.Store(true)
	if h.inCall {
		select {
		case h.gate <- true:
		case <-time.After(100 * time.Millisecond):
		}
	}
	if h.run == "running" && !h.closeCall {
		go h.b.Close()
		return
	}
	// Run has ended (or is ending): the Append / Close calls parked on it would stay for ever
	parked := h.nAppended - h.appRet
	if h.closeCall && !h.closeRet {
		parked++
	}
	for k := 0; parked > 0 && k < 200; k++ {
		parked -= h.b.VerifUnpark()
		if parked > 0 {
			runtime.Gosched()
			if k > 20 {
				time.Sleep(50 * time.Microsecond)
			}
		}
	}
}

func runBatcherCase(in J) J {
	max := toInt(in["max"])
	if max < 1 {
		max = 1
	}
	h := newBatHarness(max)
	steps := []any{}
	ops, _ := in["ops"].([]any)
	for _, o := range ops {
		op, _ := o.(map[string]any)
		if op == nil {
			continue
		}
		steps = append(steps, h.do(op))
		if h.stuck != "" {
			break
		}
	}
	h.finish()
	out := J{"steps": steps, "batches": h.batches, "acks": h.acks}
	if h.stuck != "" {
		out["stuck"] = h.stuck
	}
	return out
}

var batDevNull *os.File

func execBatcher(in J) J {
	// Runner.Run prints the stack of the panic it re-raises (debug.PrintStack) on every failing runner call
	if batDevNull == nil {
		batDevNull, _ = os.OpenFile(os.DevNull, os.O_WRONLY, 0)
	}
	if batDevNull != nil {
		saved := os.Stderr
		os.Stderr = batDevNull
		defer func() { os.Stderr = saved }()
	}
	out := runBatcherCase(in)
	if out["stuck"] != nil {
		again := runBatcherCase(in)
		again["retried"] = true
		if again["stuck"] == nil {
			again["first_attempt_stuck"] = out["stuck"]
		}
		return again
	}
	return out
}

// ---------------------------------------------------------------- generator

// genBatcher steers by a shadow of what the operations should cause (is a call parked, how much is queued) so that most
// operations do something; a share of them is issued blindly (release with nothing parked, Close twice, Run twice, …).
func genBatcher(r *rng, n int, tier string, emit func(J)) {
	maxes := []int{1, 2, 3, 5}
	maxOps, maxApp := 40, 30
	if tier != "quick" {
		maxOps, maxApp = 90, 70
	}
	for c := 0; c < n; c++ {
		max := maxes[r.n(len(maxes))]
		profile := r.n(8) // 0-3 plain load, 4-5 a failure somewhere, 6-7 a stop somewhere
		L := 4 + r.n(maxOps-3)
		ops := []any{}
		next := 1
		started, alive, parked, queued, closed := false, true, false, 0, false
		app := func() {
			if next > maxApp {
				return
			}
			ops = append(ops, J{"op": "append", "x": next})
			next++
			if started && alive && !closed && !parked {
				parked = true
			} else {
				queued++
			}
		}
		cutNext := func() {
			if queued > 0 {
				k := queued
				if k > max {
					k = max
				}
				queued -= k
				parked = true
			}
		}
		start := func() {
			ops = append(ops, J{"op": "start"})
			if !started {
				started = true
				cutNext()
			}
		}
		release := func() {
			ops = append(ops, J{"op": "release"})
			if parked {
				parked = false
				if closed {
					alive = false
				} else {
					cutNext()
				}
			}
		}
		fail := func() {
			k := 1
			if r.p(50) {
				k = 3 // an implementation that retries shows itself only when every attempt fails
			}
			for i := 0; i < k; i++ {
				ops = append(ops, J{"op": "fail"})
			}
			if parked {
				parked, alive = false, false
			}
		}
		closeOp := func() {
			ops = append(ops, J{"op": "close"})
			if started && !closed {
				closed = true
				if !parked {
					alive = false
				}
			}
		}
		pre := 0
		if r.p(12) {
			pre = 1 + r.n(2*max+2) // objects appended before Run
		}
		for i := 0; i < pre; i++ {
			app()
		}
		start()
		special := -1
		if profile >= 4 {
			special = 2 + r.n(L)
		}
		after := 0
		for len(ops) < L {
			if started && !alive {
				if after++; after > 4 {
					break
				}
			}
			if len(ops) >= special && special >= 0 {
				special = -1
				// make sure there is a call parked, and usually work queued behind it
				if started && alive && !closed {
					if !parked {
						app()
					}
					for k := r.n(2*max + 2); k > 0; k-- {
						app()
					}
					if profile <= 5 {
						fail()
					} else {
						closeOp()
						if r.p(30) {
							app()
						}
						if r.p(75) {
							release()
						} else {
							fail()
						}
					}
					continue
				}
			}
			x := r.n(100)
			switch {
			case x < 3:
				start()
			case x < 5 && profile >= 2:
				closeOp()
			case x < 7 && profile >= 2:
				fail()
			case x < 12: // blind
				release()
			case parked && queued > max && r.p(55):
				release()
			case parked && x < 40:
				release()
			case x < 97:
				// a burst: the backlog crosses maxBatchSize while a call is parked
				k := 1
				if r.p(45) {
					k = 1 + r.n(2*max+1)
				}
				for ; k > 0; k-- {
					app()
				}
			default:
				release()
			}
		}
		// tail: often drain what is left
		if r.p(60) {
			for k := 0; k < 3+queued && (parked || queued > 0) && len(ops) < L+12; k++ {
				release()
			}
		}
		emit(J{"max": max, "ops": ops})
	}
}
