package main

// Area "engstress": primitives of the commander WITHOUT a scheduling point, under truly simultaneous goroutines.
//
// The deterministic scheduler of engine.go interleaves requests at verifhook.Yield points (and at store / locker / monitor calls).
// Referencer.take has none inside: a take that is a read followed by a write (instead of one test-and-set) gives the reservation
// to every request whose read falls before the others' write, and no schedule of yield points can show it.  This stream does
// what remains: k goroutines are parked on a spinning barrier, released together, and call
//
//	op "take"      — the REAL Referencer.take (overlay export VerifTake) with the same fresh key: exactly ONE must get it;
//	op "commander" — the REAL Commander (real Referencer, DefaultLocker, compiler, Batcher / job.Runner) over an indexed in-memory
//	                 store: k simultaneous CreateTransaction with one reference (kind "ref"), with one idempotency key (kind "ik"),
//	                 k simultaneous RevertTransaction of one transaction (kind "revert"); the three kinds share the primitive.
//
// Bounded (rounds × k), no sleeps; every round uses a key of its own.  It is a search, not a proof: what it can see depends on
// the processors the run gets (GOMAXPROCS / NumCPU are reported; with one processor only preemption can separate the read from
// the write).
//
// input : {"op":"take"|"commander","kind":"ref"|"ik"|"revert","rounds":N,"k":4}
// output: {"rounds":n,"k":k,"gomaxprocs":…,"numcpu":…,"violations":v,"first":[{"round","winners",…}…≤3],"winners":{"1":…,"2":…},"ms":…}

import (
	"context"
	"fmt"
	"math/big"
	"runtime"
	"sync"
	"sync/atomic"
	"time"

	ledger "github.com/formancehq/ledger/internal"
	"github.com/formancehq/ledger/internal/bus"
	"github.com/formancehq/ledger/internal/engine/command"
	"github.com/formancehq/ledger/internal/storage/sqlutils"
	"github.com/formancehq/stack/libs/go-libs/logging"
	"github.com/formancehq/stack/libs/go-libs/metadata"
)

func init() {
	register("engstress", &area{gen: genEngStress, exec: execEngStress})
}

func genEngStress(r *rng, n int, tier string, emit func(J)) {
	takes, cmds := 50000, 6000
	if tier == "thorough" {
		takes, cmds = 1000000, 100000
	}
	if n > 0 { // -n scales the bounded search (n = 100: the figures above)
		takes, cmds = takes*n/100, cmds*n/100
	}
	for _, kind := range []string{"ref", "ik", "revert"} {
		if genArg != "" && genArg != kind { // -arg <kind>: the streams of one kind of reservation only
			continue
		}
		emit(J{"op": "take", "kind": kind, "rounds": takes, "k": 4})
		emit(J{"op": "commander", "kind": kind, "rounds": cmds, "k": 4})
	}
}

// simultaneously runs f(0) … f(k-1) on k goroutines that are parked on a spinning barrier and released together.
func simultaneously(k int, f func(i int)) {
	var ready atomic.Int32
	var goNow atomic.Bool
	var wg sync.WaitGroup
	wg.Add(k)
	for i := 0; i < k; i++ {
		i := i
		go func() {
			defer wg.Done()
			ready.Add(1)
			for n := 0; !goNow.Load(); n++ {
				if n&63 == 63 {
					runtime.Gosched() // fewer processors than goroutines: the others must get to the barrier too
				}
			}
			f(i)
		}()
	}
	for int(ready.Load()) < k {
		runtime.Gosched()
	}
	goNow.Store(true)
	wg.Wait()
}

// ------------------------------------------------------------------ an indexed in-memory store (real goroutines: a mutex, no gate)

type stressStore struct {
	mu       sync.Mutex
	logs     []*ledger.ChainedLog
	byIK     map[string]*ledger.ChainedLog
	byRef    map[string][]*ledger.ExpandedTransaction
	txs      map[string]*ledger.ExpandedTransaction
	lastTx   *ledger.ExpandedTransaction
	reverts  map[string]int // transaction id -> number of REVERTED_TRANSACTION entries naming it
	keyed    map[string]int // idempotency key -> number of entries recorded under it
	balances map[string]*big.Int
}

func newStressStore() *stressStore {
	return &stressStore{byIK: map[string]*ledger.ChainedLog{}, byRef: map[string][]*ledger.ExpandedTransaction{}, txs: map[string]*ledger.ExpandedTransaction{},
		reverts: map[string]int{}, keyed: map[string]int{}, balances: map[string]*big.Int{}}
}

func (st *stressStore) addTx(t *ledger.Transaction) {
	e := &ledger.ExpandedTransaction{Transaction: *t}
	st.txs[t.ID.String()] = e
	st.lastTx = e
	if t.Reference != "" {
		st.byRef[t.Reference] = append(st.byRef[t.Reference], e)
	}
	for _, p := range t.Postings {
		for _, x := range []struct {
			a string
			s int64
		}{{p.Source, -1}, {p.Destination, 1}} {
			k := x.a + "/" + p.Asset
			if st.balances[k] == nil {
				st.balances[k] = new(big.Int)
			}
			st.balances[k].Add(st.balances[k], new(big.Int).Mul(p.Amount, big.NewInt(x.s)))
		}
	}
}

func (st *stressStore) InsertLogs(ctx context.Context, logs ...*ledger.ChainedLog) error {
	st.mu.Lock()
	defer st.mu.Unlock()
	for _, l := range logs {
		st.logs = append(st.logs, l)
		if l.IdempotencyKey != "" {
			if _, ok := st.byIK[l.IdempotencyKey]; !ok {
				st.byIK[l.IdempotencyKey] = l
			}
			st.keyed[l.IdempotencyKey]++
		}
		switch p := l.Data.(type) {
		case ledger.NewTransactionLogPayload:
			st.addTx(p.Transaction)
		case ledger.RevertedTransactionLogPayload:
			id := p.RevertedTransactionID.String()
			st.reverts[id]++
			if o, ok := st.txs[id]; ok {
				o.Reverted = true
			}
			st.addTx(p.RevertTransaction)
		}
	}
	return nil
}

func (st *stressStore) GetBalance(ctx context.Context, address, asset string) (*big.Int, error) {
	st.mu.Lock()
	defer st.mu.Unlock()
	if b := st.balances[address+"/"+asset]; b != nil {
		return new(big.Int).Set(b), nil
	}
	return new(big.Int), nil
}

func (st *stressStore) GetAccount(ctx context.Context, address string) (*ledger.Account, error) {
	return &ledger.Account{Address: address, Metadata: metadata.Metadata{}}, nil
}

func (st *stressStore) GetLastLog(ctx context.Context) (*ledger.ChainedLog, error) {
	st.mu.Lock()
	defer st.mu.Unlock()
	if len(st.logs) == 0 {
		return nil, sqlutils.ErrNotFound
	}
	return st.logs[len(st.logs)-1], nil
}

func (st *stressStore) GetLastTransaction(ctx context.Context) (*ledger.ExpandedTransaction, error) {
	st.mu.Lock()
	defer st.mu.Unlock()
	if st.lastTx == nil {
		return nil, sqlutils.ErrNotFound
	}
	return st.lastTx, nil
}

func (st *stressStore) ReadLogWithIdempotencyKey(ctx context.Context, key string) (*ledger.ChainedLog, error) {
	st.mu.Lock()
	defer st.mu.Unlock()
	if l, ok := st.byIK[key]; ok {
		return l, nil
	}
	return nil, sqlutils.ErrNotFound
}

func (st *stressStore) GetTransactionByReference(ctx context.Context, ref string) (*ledger.ExpandedTransaction, error) {
	st.mu.Lock()
	defer st.mu.Unlock()
	if l := st.byRef[ref]; len(l) > 0 {
		return l[0], nil
	}
	return nil, sqlutils.ErrNotFound
}

func (st *stressStore) GetTransaction(ctx context.Context, id *big.Int) (*ledger.Transaction, error) {
	st.mu.Lock()
	defer st.mu.Unlock()
	if t, ok := st.txs[id.String()]; ok {
		tx := t.Transaction
		return &tx, nil
	}
	return nil, sqlutils.ErrNotFound
}

// ------------------------------------------------------------------ the two ops

func stressKind(kind string) int {
	switch kind {
	case "ik":
		return command.VerifRefIks
	case "revert":
		return command.VerifRefReverts
	}
	return command.VerifRefTx
}

func execEngStress(in J) J {
	op, _ := in["op"].(string)
	kind, _ := in["kind"].(string)
	rounds, k := jInt(in["rounds"]), jInt(in["k"])
	if k < 2 {
		k = 4
	}
	if rounds <= 0 {
		rounds = 1000
	}
	t0 := time.Now()
	out := J{"k": k, "gomaxprocs": runtime.GOMAXPROCS(0), "numcpu": runtime.NumCPU()}
	first := []any{}
	hist := map[string]int{}
	violations := 0
	note := func(round, winners int, detail J) {
		violations++
		if len(first) < 3 {
			d := J{"round": round, "winners": winners}
			for kk, v := range detail {
				d[kk] = v
			}
			first = append(first, d)
		}
	}
	switch op {
	case "take":
		ref := command.NewReferencer()
		kd := stressKind(kind)
		for n := 0; n < rounds; n++ {
			var key any = fmt.Sprintf("key-%d", n)
			if kind == "revert" {
				key = big.NewInt(int64(n)) // the revert reservation is keyed by the transaction id
			}
			var won atomic.Int32
			simultaneously(k, func(i int) {
				if ref.VerifTake(kd, key) {
					won.Add(1)
				}
			})
			w := int(won.Load())
			hist[fmt.Sprint(w)]++
			if w != 1 {
				note(n, w, nil)
			}
			ref.VerifRelease(kd, key)
		}
	case "commander":
		ctx := logging.TestingContext()
		st := newStressStore()
		cmd := command.New(st, command.NewDefaultLocker(), command.NewCompiler(8), command.NewReferencer(), bus.NewNoOpMonitor())
		if err := cmd.Init(ctx); err != nil {
			return J{"error": "init: " + err.Error()}
		}
		go func() {
			defer func() { _ = recover() }()
			cmd.Run(ctx)
		}()
		script := func(ref string) ledger.RunScript {
			return ledger.RunScript{Script: ledger.Script{Plain: "send [USD 1] (\n  source = @world\n  destination = @bank\n)\n", Vars: map[string]string{}},
				Reference: ref, Metadata: metadata.Metadata{}}
		}
		for n := 0; n < rounds; n++ {
			errs := make([]string, k)
			ids := make([]string, k)
			var target *big.Int
			ref, ik := "", ""
			switch kind {
			case "ref":
				ref = fmt.Sprintf("ref-%d", n)
			case "ik":
				ik = fmt.Sprintf("ik-%d", n)
			case "revert":
				tx, err := cmd.CreateTransaction(ctx, command.Parameters{}, script(""))
				if err != nil {
					return J{"error": "setup of round " + fmt.Sprint(n) + ": " + err.Error()}
				}
				target = tx.ID
			}
			simultaneously(k, func(i int) {
				var tx *ledger.Transaction
				var err error
				if kind == "revert" {
					tx, err = cmd.RevertTransaction(ctx, command.Parameters{}, target, true)
				} else {
					tx, err = cmd.CreateTransaction(ctx, command.Parameters{IdempotencyKey: ik}, script(ref))
				}
				errs[i] = engClassify(err)
				if tx != nil && tx.ID != nil {
					ids[i] = tx.ID.String()
				}
			})
			accepted, distinct := 0, map[string]bool{}
			for i := range errs {
				if errs[i] == "" {
					accepted++
					distinct[ids[i]] = true
				}
			}
			st.mu.Lock()
			effects := 0
			switch kind {
			case "ref":
				effects = len(st.byRef[ref])
			case "ik":
				effects = st.keyed[ik]
			case "revert":
				effects = st.reverts[target.String()]
			}
			st.mu.Unlock()
			hist[fmt.Sprint(effects)]++
			// one effect; with a reference / a revert target exactly one request is accepted; with a key every accepted request
			// is answered the one recorded transaction
			bad := effects != 1 || len(distinct) != 1 || (kind != "ik" && accepted != 1)
			if bad {
				note(n, effects, J{"answers": append([]string{}, errs...), "txids": append([]string{}, ids...), "ref": ref, "ik": ik})
			}
		}
		cmd.Close()
	default:
		return J{"error": "unknown op " + op}
	}
	out["rounds"], out["violations"], out["first"], out["winners"], out["ms"] = rounds, violations, first, hist, time.Since(t0).Milliseconds()
	return out
}

func jInt(x any) int {
	switch v := x.(type) {
	case float64:
		return int(v)
	case int:
		return v
	case interface{ Int64() (int64, error) }:
		n, _ := v.Int64()
		return int(n)
	}
	return 0
}
