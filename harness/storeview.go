package main

// Area "storeview" (C04): log histories of a bucket (1–3 ledgers) run through the REAL in-memory store
// (storage.NewInMemoryStore(): one store per ledger, InsertLogs one entry at a time, in bucket order) and read back
// through every read method it offers.  The same input line is replayed by the Lean model (Store.replay) and by an
// independent Python fold (checks/c04.py).
//
// input : {"ledgers":[names], "logs":[LOG…], "probe":{"accounts":[…],"assets":[…],"txids":[…],"refs":[…],"iks":[…]}}
//   LOG = {"ledger":L,"id":n,"date":µs,"ik":S,"type":"NEW_TRANSACTION","tx":TX,"accountMetadata":{addr:{k:v}}}
//       | {…,"type":"REVERTED_TRANSACTION","revertedId":n,"tx":TX}
//       | {…,"type":"SET_METADATA","targetType":"ACCOUNT|TRANSACTION","targetId":addr|n,"metadata":{k:v}}
//       | {…,"type":"DELETE_METADATA","targetType":…,"targetId":…,"key":k}
//   TX  = {"id":n,"postings":[{"source","destination","asset","amount":"dec"}],"metadata":{k:v},"timestamp":µs,"reference":S,"tz":minutes?}
//         "tz": the client wrote the timestamp as RFC 3339 text with that UTC offset; the text goes through ledger.ParseTime
// output: {"ledgers":[{"name":L,"balances":[{"account","asset","balance":"dec"}],"accounts":[{"address","metadata"}],
//          "txs":[{"id","found",…}],"byRef":[{"ref","id"}],"byIk":[{"ik","id"}],"lastLog":{"id","type"}|null,"lastTx":id|null}],
//          "storedTimestamps":[{"ledger","id","tz","text"}]}   for every transaction with "tz": the timestamp text inside the payload
//          that ledgerstore.InsertLogs would COPY into logs.data (json.Marshal of the log's Data)

import (
	"context"
	"encoding/json"
	"errors"
	"math/big"
	"sort"
	"time"

	ledger "github.com/formancehq/ledger/internal"
	"github.com/formancehq/ledger/internal/storage"
	"github.com/formancehq/ledger/internal/storage/sqlutils"
	"github.com/formancehq/stack/libs/go-libs/metadata"
)

func init() {
	register("storeview", &area{gen: genStoreView, exec: execStoreView})
}

// ---------------------------------------------------------------- decoding an input line into core log entries

func svInt(v any) int64 {
	switch x := v.(type) {
	case json.Number:
		n, err := x.Int64()
		if err != nil {
			panic(err)
		}
		return n
	case float64:
		return int64(x)
	case int:
		return int64(x)
	case int64:
		return x
	}
	panic("not an integer")
}

func svTime(us int64) ledger.Time { return ledger.Time{Time: time.UnixMicro(us).UTC()} }

func svMeta(v any) metadata.Metadata {
	m := metadata.Metadata{}
	if v == nil {
		return m
	}
	for k, x := range v.(map[string]any) {
		m[k] = x.(string)
	}
	return m
}

func svTx(v any) *ledger.Transaction {
	j := v.(map[string]any)
	tx := &ledger.Transaction{ID: big.NewInt(svInt(j["id"]))}
	for _, p := range j["postings"].([]any) {
		pj := p.(map[string]any)
		amt, ok := new(big.Int).SetString(pj["amount"].(string), 10)
		if !ok {
			panic("bad amount")
		}
		tx.Postings = append(tx.Postings, ledger.NewPosting(pj["source"].(string), pj["destination"].(string), pj["asset"].(string), amt))
	}
	tx.Metadata = svMeta(j["metadata"])
	tx.Timestamp = svTime(svInt(j["timestamp"]))
	if tz, ok := j["tz"]; ok && svInt(tz) != 0 { // the client wrote the instant with a UTC offset: the text goes through the real ParseTime
		text := tx.Timestamp.Time.In(time.FixedZone("", int(svInt(tz))*60)).Format(time.RFC3339Nano)
		parsed, err := ledger.ParseTime(text)
		if err != nil {
			panic("harness: ParseTime(" + text + "): " + err.Error())
		}
		tx.Timestamp = parsed
	}
	tx.Reference, _ = j["reference"].(string)
	return tx
}

// svLog builds the core log entry.  viaJSON=true sends the payload through the stored form (json.Marshal +
// HydrateLog), which is what a store backed by PostgreSQL hands back; false keeps the values the commander creates.
func svLog(j map[string]any, viaJSON bool) *ledger.ChainedLog {
	var l *ledger.Log
	date := svTime(svInt(j["date"]))
	switch j["type"].(string) {
	case "NEW_TRANSACTION":
		am := map[string]metadata.Metadata{}
		if x, ok := j["accountMetadata"].(map[string]any); ok {
			for a, m := range x {
				am[a] = svMeta(m)
			}
		}
		l = ledger.NewTransactionLogWithDate(svTx(j["tx"]), am, date)
	case "REVERTED_TRANSACTION":
		l = ledger.NewRevertedTransactionLog(date, big.NewInt(svInt(j["revertedId"])), svTx(j["tx"]))
	case "SET_METADATA":
		if j["targetType"].(string) == ledger.MetaTargetTypeAccount {
			l = ledger.NewSetMetadataOnAccountLog(date, j["targetId"].(string), svMeta(j["metadata"]))
		} else {
			l = ledger.NewSetMetadataOnTransactionLog(date, big.NewInt(svInt(j["targetId"])), svMeta(j["metadata"]))
		}
	case "DELETE_METADATA":
		var id any
		if j["targetType"].(string) == ledger.MetaTargetTypeAccount {
			id = j["targetId"].(string)
		} else {
			id = big.NewInt(svInt(j["targetId"]))
		}
		l = ledger.NewDeleteMetadataLog(date, ledger.DeleteMetadataLogPayload{TargetType: j["targetType"].(string), TargetID: id, Key: j["key"].(string)})
	default:
		panic("unknown log type")
	}
	if ik, _ := j["ik"].(string); ik != "" {
		l = l.WithIdempotencyKey(ik)
	}
	if viaJSON {
		raw, err := json.Marshal(l.Data)
		if err != nil {
			panic(err)
		}
		data, err := ledger.HydrateLog(l.Type, raw)
		if err != nil {
			panic(err)
		}
		l.Data = data
	}
	return &ledger.ChainedLog{Log: *l, ID: big.NewInt(svInt(j["id"])), Hash: []byte{}}
}

// ---------------------------------------------------------------- exec

func svMetaOut(m metadata.Metadata) J {
	o := J{}
	for k, v := range m {
		o[k] = v
	}
	return o
}

func svTxOut(tx *ledger.Transaction) J {
	ps := []J{}
	for _, p := range tx.Postings {
		ps = append(ps, J{"source": p.Source, "destination": p.Destination, "asset": p.Asset, "amount": p.Amount.String()})
	}
	return J{"found": true, "id": tx.ID.String(), "postings": ps, "metadata": svMetaOut(tx.Metadata),
		"timestamp": tx.Timestamp.UnixMicro(), "reference": tx.Reference, "reverted": tx.Reverted}
}

func svStrings(v any) []string {
	out := []string{}
	if v == nil {
		return out
	}
	for _, x := range v.([]any) {
		out = append(out, x.(string))
	}
	return out
}

func execStoreView(in J) J {
	ctx := context.Background()
	names := svStrings(in["ledgers"])
	stores := map[string]*storage.InMemoryStore{}
	for _, n := range names {
		stores[n] = storage.NewInMemoryStore()
	}
	viaJSON, _ := in["viaJSON"].(bool)
	stored := []J{}
	for _, l := range in["logs"].([]any) {
		lj := l.(map[string]any)
		st := stores[lj["ledger"].(string)]
		cl := svLog(lj, viaJSON)
		if err := st.InsertLogs(ctx, cl); err != nil {
			return J{"error": "insert: " + err.Error()}
		}
		if txj, ok := lj["tx"].(map[string]any); ok {
			if tz, ok := txj["tz"]; ok && svInt(tz) != 0 {
				// what ledgerstore.InsertLogs would COPY into logs.data (json.Marshal of the payload): the timestamp text
				raw, err := json.Marshal(cl.Data)
				if err != nil {
					panic(err)
				}
				var probe struct {
					Transaction struct {
						Timestamp string `json:"timestamp"`
					} `json:"transaction"`
				}
				if err := json.Unmarshal(raw, &probe); err != nil {
					panic(err)
				}
				stored = append(stored, J{"ledger": lj["ledger"], "id": lj["id"], "tz": tz, "text": probe.Transaction.Timestamp})
			}
		}
	}
	probe, _ := in["probe"].(map[string]any)
	accounts, assets := svStrings(probe["accounts"]), svStrings(probe["assets"])
	refs, iks := svStrings(probe["refs"]), svStrings(probe["iks"])
	var txids []int64
	if x, ok := probe["txids"].([]any); ok {
		for _, v := range x {
			txids = append(txids, svInt(v))
		}
	}
	out := []J{}
	for _, n := range names {
		st := stores[n]
		lo := J{"name": n}
		bals := []J{}
		for _, a := range accounts {
			for _, as := range assets {
				b, err := st.GetBalance(ctx, a, as)
				if err != nil {
					return J{"error": "balance: " + err.Error()}
				}
				bals = append(bals, J{"account": a, "asset": as, "balance": b.String()})
			}
		}
		lo["balances"] = bals
		accs := []J{}
		for _, a := range accounts {
			acc, err := st.GetAccount(ctx, a)
			if err != nil {
				return J{"error": "account: " + err.Error()}
			}
			accs = append(accs, J{"address": acc.Address, "metadata": svMetaOut(acc.Metadata)})
		}
		lo["accounts"] = accs
		txs := []J{}
		for _, id := range txids {
			tx, err := st.GetTransaction(ctx, big.NewInt(id))
			switch {
			case errors.Is(err, sqlutils.ErrNotFound):
				txs = append(txs, J{"found": false, "id": big.NewInt(id).String()})
			case err != nil:
				return J{"error": "tx: " + err.Error()}
			default:
				txs = append(txs, svTxOut(tx))
			}
		}
		lo["txs"] = txs
		byRef := []J{}
		for _, r := range refs {
			tx, err := st.GetTransactionByReference(ctx, r)
			switch {
			case errors.Is(err, sqlutils.ErrNotFound):
				byRef = append(byRef, J{"ref": r, "id": nil})
			case err != nil:
				return J{"error": "ref: " + err.Error()}
			default:
				byRef = append(byRef, J{"ref": r, "id": tx.ID.String()})
			}
		}
		lo["byRef"] = byRef
		byIk := []J{}
		for _, k := range iks {
			l, err := st.ReadLogWithIdempotencyKey(ctx, k)
			switch {
			case errors.Is(err, sqlutils.ErrNotFound):
				byIk = append(byIk, J{"ik": k, "id": nil})
			case err != nil:
				return J{"error": "ik: " + err.Error()}
			default:
				byIk = append(byIk, J{"ik": k, "id": l.ID.String()})
			}
		}
		lo["byIk"] = byIk
		if l, err := st.GetLastLog(ctx); err != nil {
			return J{"error": "lastlog: " + err.Error()}
		} else if l == nil {
			lo["lastLog"] = nil
		} else {
			lo["lastLog"] = J{"id": l.ID.String(), "type": l.Type.String()}
		}
		if tx, err := st.GetLastTransaction(ctx); errors.Is(err, sqlutils.ErrNotFound) {
			lo["lastTx"] = nil
		} else if err != nil {
			return J{"error": "lasttx: " + err.Error()}
		} else {
			lo["lastTx"] = tx.ID.String()
		}
		out = append(out, lo)
	}
	res := J{"ledgers": out}
	if len(stored) > 0 {
		res["storedTimestamps"] = stored
	}
	return res
}

// ---------------------------------------------------------------- generator

var (
	svAccounts = []string{"world", "alice", "bob", "users:1", "users:2:main", "fees"}
	svAssets   = []string{"USD", "EUR/2", "COIN"}
	svKeys     = []string{"tier", "kyc", "note"}
	svVals     = []string{"gold", "silver", "", "x y", "é\"q"}
)

func svAmount(r *rng) string {
	switch r.n(10) {
	case 0:
		return "0"
	case 1:
		return "1"
	case 2:
		return new(big.Int).Lsh(big.NewInt(1), 70).String()
	case 3:
		return new(big.Int).Add(new(big.Int).Lsh(big.NewInt(1), 64), big.NewInt(1)).String()
	case 4:
		return new(big.Int).Sub(new(big.Int).Lsh(big.NewInt(1), 64), big.NewInt(1)).String()
	}
	return big.NewInt(int64(1 + r.n(500))).String()
}

func svGenMeta(r *rng, maxKeys int) J {
	m := J{}
	for i, n := 0, r.n(maxKeys+1); i < n; i++ {
		m[r.pick(svKeys)] = r.pick(svVals)
	}
	return m
}

type svLedgerGen struct {
	name    string
	nextLog int64
	nextTx  int64
	txs     []J     // transactions inserted so far (as TX objects)
	rev     []int64 // ids already reverted
	refs    int
}

func genStoreView(r *rng, n int, tier string, emit func(J)) {
	maxLogs := 12
	if tier == "thorough" {
		maxLogs = 40
	}
	for c := 0; c < n; c++ {
		rr := r.fork()
		nl := 1 + rr.n(3)
		gens := []*svLedgerGen{}
		names := []string{}
		for i := 0; i < nl; i++ {
			name := []string{"l1", "l2", "l3"}[i]
			gens = append(gens, &svLedgerGen{name: name})
			names = append(names, name)
		}
		nlogs := 1 + rr.n(maxLogs)
		// a history uses few accounts and assets so that entries collide
		accs := []string{}
		for _, a := range svAccounts {
			if rr.p(60) {
				accs = append(accs, a)
			}
		}
		if len(accs) < 2 {
			accs = svAccounts[:3]
		}
		assets := svAssets[:1+rr.n(len(svAssets))]
		date := int64(1700000000000000) + int64(rr.n(1000))*1000000
		unsorted := rr.p(10)
		zoned := rr.p(5) // a few histories have transactions whose timestamp is written with a UTC offset
		logs := []J{}
		iks := []string{""}
		for i := 0; i < nlogs; i++ {
			g := gens[rr.n(len(gens))]
			switch {
			case unsorted && rr.p(30):
				date -= int64(rr.n(5)) * 1000000
			case rr.p(25):
				// same date as the previous entry
			default:
				date += int64(1+rr.n(5)) * 1000000
			}
			l := J{"ledger": g.name, "id": g.nextLog, "date": date, "ik": ""}
			g.nextLog++
			if rr.p(25) {
				ik := "ik" + string(rune('a'+rr.n(6)))
				l["ik"] = ik
				iks = append(iks, ik)
			}
			newTx := func(postings []J) J {
				ts := date
				switch rr.n(6) {
				case 0: // back-dated
					ts = date - int64(1+rr.n(20))*1000000
				case 1: // far back-dated (before every other entry)
					ts = date - int64(100+rr.n(100))*1000000
				case 2: // future-dated
					ts = date + int64(1+rr.n(20))*1000000
				case 3:
					if len(g.txs) > 0 { // exactly the effective date of an earlier transaction
						ts = svInt(g.txs[rr.n(len(g.txs))]["timestamp"])
					}
				}
				tx := J{"id": g.nextTx, "postings": postings, "metadata": svGenMeta(rr, 2), "timestamp": ts, "reference": ""}
				if zoned && rr.p(50) {
					tx["tz"] = []int{120, -330, 60, 765}[rr.n(4)]
				}
				if rr.p(30) {
					g.refs++
					tx["reference"] = "ref" + string(rune('0'+g.refs%10))
				}
				g.nextTx++
				g.txs = append(g.txs, tx)
				return tx
			}
			k := rr.n(100)
			switch {
			case k < 45 || len(g.txs) == 0 && k < 70:
				np := 1 + rr.n(3)
				ps := []J{}
				for p := 0; p < np; p++ {
					src, dst := rr.pick(accs), rr.pick(accs)
					if rr.p(85) && src == dst { // self-postings stay possible but rare
						dst = rr.pick(accs)
					}
					ps = append(ps, J{"source": src, "destination": dst, "asset": rr.pick(assets), "amount": svAmount(rr)})
				}
				l["type"] = "NEW_TRANSACTION"
				l["tx"] = newTx(ps)
				am := J{}
				if rr.p(35) { // account metadata written by the script (set_account_meta): accounts of the postings or others
					for x, nx := 0, 1+rr.n(2); x < nx; x++ {
						m := svGenMeta(rr, 2)
						if len(m) > 0 {
							am[rr.pick(svAccounts)] = m
						}
					}
				}
				l["accountMetadata"] = am
			case k < 60 && len(g.txs) > 0:
				// revert: a transaction that exists; mostly one that is not reverted yet
				var target J
				for try := 0; try < 4; try++ {
					target = g.txs[rr.n(len(g.txs))]
					already := false
					for _, id := range g.rev {
						already = already || id == target["id"].(int64)
					}
					if !already || rr.p(5) {
						break
					}
				}
				orig := target["postings"].([]J)
				ps := []J{}
				for p := len(orig) - 1; p >= 0; p-- {
					ps = append(ps, J{"source": orig[p]["destination"], "destination": orig[p]["source"], "asset": orig[p]["asset"], "amount": orig[p]["amount"]})
				}
				g.rev = append(g.rev, target["id"].(int64))
				l["type"] = "REVERTED_TRANSACTION"
				l["revertedId"] = target["id"]
				l["tx"] = newTx(ps)
			case k < 80:
				l["type"] = "SET_METADATA"
				if rr.p(50) || len(g.txs) == 0 {
					l["targetType"] = "ACCOUNT"
					l["targetId"] = rr.pick(svAccounts)
				} else {
					l["targetType"] = "TRANSACTION"
					l["targetId"] = g.txs[rr.n(len(g.txs))]["id"]
				}
				l["metadata"] = svGenMeta(rr, 3)
			default:
				l["type"] = "DELETE_METADATA"
				if rr.p(50) || len(g.txs) == 0 {
					l["targetType"] = "ACCOUNT"
					l["targetId"] = rr.pick(svAccounts)
				} else {
					l["targetType"] = "TRANSACTION"
					l["targetId"] = g.txs[rr.n(len(g.txs))]["id"]
				}
				l["key"] = rr.pick(svKeys)
			}
			logs = append(logs, l)
		}
		maxTx := int64(0)
		for _, g := range gens {
			if g.nextTx > maxTx {
				maxTx = g.nextTx
			}
		}
		txids := []int64{}
		for i := int64(0); i <= maxTx; i++ { // one id past the last: "not found"
			txids = append(txids, i)
		}
		sort.Strings(iks)
		uniq := []string{}
		for i, k := range iks {
			if i == 0 || k != iks[i-1] {
				uniq = append(uniq, k)
			}
		}
		emit(J{"ledgers": names, "logs": logs, "viaJSON": rr.p(50),
			"probe": J{"accounts": svAccounts, "assets": svAssets, "txids": txids,
				"refs": []string{"", "ref0", "ref1", "ref2", "ref3", "nope"}, "iks": append(uniq, "ikz")}})
	}
}
