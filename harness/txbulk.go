package main

// Area "txbulk" (C09): posting-mode transactions submitted as elements of ONE v2 bulk, next to other elements.
//
// A bulk of 1–4 elements goes through the REAL v2 router (POST /{ledger}/_bulk[?continueOnFailure=true]) into a
// backend.Ledger that forwards every write to a REAL command.Commander over storage.NewInMemoryStore() (exactly
// as engine.Ledger does).  Every log the commander inserts into the store is canonicalised at the moment it is
// inserted, so that the oracle can hold EVERY committed transaction against ITS OWN element.
//
// input : {"bal":[[acct,asset,"<decimal>"]], "continue":bool, "elements":[E…]}
//   E = {"action":"CREATE_TRANSACTION","mode":"postings","postings":[P…],"meta":{k:v}|null,"ref":s,"ts":"<unix µs>"|null,"tz":minutes,"kind":"valid|<malformation>"}
//     | {"action":"CREATE_TRANSACTION","mode":"script",   "postings":[P…], …same request fields…}   (one literal `send` per posting)
//     | {"action":"CREATE_TRANSACTION","mode":"garbled"}                                            (data that does not decode)
//     | {"action":"ADD_METADATA","target":"ACCOUNT|TRANSACTION","tid":addr|n,"meta":{k:v}}
//     | {"action":"DELETE_METADATA","target":…,"tid":…,"key":k}
//     | {"action":"REVERT_TRANSACTION","tid":n,"force":bool}
//     | {"action":"<anything else>"}
// output: {"status":n,"results":[R…],"logs":[L…]}      (results[i] answers elements[i]; logs in insertion order)
//   R = {"type":responseType[,"tx":T]} | {"err":"insufficient_funds|rejected","detail":code}
//   L = {"type":"NEW_TRANSACTION|REVERTED_TRANSACTION|SET_METADATA|DELETE_METADATA"[,"tx":T]}
//   T = {"id":"n","postings":[[s,d,"amt",a]…],"meta":{…},"ref":s,"ts":"<unix µs>"|"now"|"bad:<…>"}

import (
	"bytes"
	"context"
	"encoding/json"
	"fmt"
	"math/big"
	"net/http"
	"net/http/httptest"
	"strconv"
	"strings"
	"time"

	ledger "github.com/formancehq/ledger/internal"
	"github.com/formancehq/ledger/internal/api/backend"
	v2 "github.com/formancehq/ledger/internal/api/v2"
	"github.com/formancehq/ledger/internal/engine"
	"github.com/formancehq/ledger/internal/engine/command"
	"github.com/formancehq/ledger/internal/opentelemetry/metrics"
	"github.com/formancehq/ledger/internal/storage"
	"github.com/formancehq/stack/libs/go-libs/auth"
	"github.com/formancehq/stack/libs/go-libs/health"
	"github.com/formancehq/stack/libs/go-libs/metadata"
)

func init() {
	register("txbulk", &area{gen: genTxBulk, exec: execTxBulk})
}

// ---------------------------------------------------------------- generator

var txbMetaKeys = []string{"order", "channel", "k", "note"}
var txbMetaVals = []string{"1", "2", "web", ""}

func genTxBulk(r *rng, n int, tier string, emit func(J)) {
	for i := 0; i < n; i++ {
		emit(genTxBulkCase(r.fork()))
	}
}

// the request fields of a create element, each present or absent on its own
func genTxbRequestFields(r *rng, el J, seenTs *[]string) {
	el["meta"] = nil
	if r.p(65) {
		m := J{}
		for k := r.n(3); k > 0; k-- {
			m[r.pick(txbMetaKeys)] = r.pick(txbMetaVals)
		}
		el["meta"] = m
	}
	el["ref"] = ""
	if r.p(45) {
		el["ref"] = r.pick([]string{"ref", "order-", "r:", "ü"}) + strconv.Itoa(r.n(8))
	}
	el["ts"] = nil
	el["tz"] = 0
	if r.p(50) {
		if len(*seenTs) > 0 && r.p(20) {
			el["ts"] = r.pick(*seenTs) // the same instant as an earlier element
		} else {
			us := int64(946684800)*1000000 + int64(r.next()%uint64(946684800))*1000000 + int64(r.n(1000000))
			el["ts"] = strconv.FormatInt(us, 10)
		}
		*seenTs = append(*seenTs, el["ts"].(string))
		if r.p(20) {
			el["tz"] = r.pick2([]int{-720, -90, 60, 330, 840})
		}
	}
	if cr := r.fork(); cr.p(18) { // NUL / control / invisible characters in reference, metadata keys and values (see txControlStrings)
		m, _ := el["meta"].(J)
		if m == nil && cr.p(50) {
			m = J{}
			el["meta"] = m
		}
		txControlStrings(cr, el, m)
	}
}

func genTxBulkCase(r *rng) J {
	// pools shared by every element of the bulk: balances chain from one element to the next
	perm := make([]string, len(txAddrForms))
	copy(perm, txAddrForms)
	for k := len(perm) - 1; k > 0; k-- {
		j := r.n(k + 1)
		perm[k], perm[j] = perm[j], perm[k]
	}
	pool := perm[:2+r.n(3)]
	var assets, amts []string
	var cuts [][2]txMon
	if r.p(40) {
		assets, amts, cuts = txFamily(r)
	} else {
		assets = []string{r.pick(txAssets)}
		if r.p(40) {
			assets = append(assets, r.pick(txAssets))
		}
		for k := 1 + r.n(3); k > 0; k-- {
			switch r.n(8) {
			case 0:
				amts = append(amts, "0")
			case 1:
				amts = append(amts, r.pick(txBig))
			default:
				amts = append(amts, strconv.Itoa(1+r.n(200)))
			}
		}
	}
	acct := func() string {
		if r.p(20) {
			return "world"
		}
		return r.pick(pool)
	}
	genPostings := func() []any {
		np := 1 + r.n(4)
		ps := make([]any, 0, np)
		for k := 0; k < np; k++ {
			s, d := acct(), acct()
			ps = append(ps, J{"source": s, "destination": d, "amount": r.pick(amts), "asset": r.pick(assets)})
		}
		if len(cuts) > 0 && np >= 2 && r.p(40) {
			c := cuts[r.n(len(cuts))]
			i := r.n(np)
			j := (i + 1 + r.n(np-1)) % np
			pi, pj := ps[i].(J), ps[j].(J)
			pi["asset"], pi["amount"] = c[0].asset, c[0].amount
			pj["asset"], pj["amount"] = c[1].asset, c[1].amount
		}
		return ps
	}

	nE := 1 + r.n(4)
	if nE == 1 && r.p(60) {
		nE = 2 + r.n(3)
	}
	elements := make([]any, 0, nE)
	// the transactions the bulk creates if every element succeeds, in order (for REVERT targets and the balance table)
	created := [][]any{}
	type rel struct {
		el  J
		idx int // index into created; -1: the pre-loaded transaction; 99: none
	}
	rels := []rel{}
	seenTs := []string{}
	target := func() int {
		switch {
		case len(created) > 0 && r.p(75):
			return r.n(len(created))
		case r.p(50):
			return -1
		}
		return 99
	}
	for k := 0; k < nE; k++ {
		el := J{}
		switch x := r.n(100); {
		case x < 62:
			el["action"], el["mode"], el["kind"] = "CREATE_TRANSACTION", "postings", "valid"
			ps := genPostings()
			el["postings"] = ps
			genTxbRequestFields(r, el, &seenTs)
			if r.p(8) { // one posting broken: the element must be refused as a whole
				p := ps[r.n(len(ps))].(J)
				switch r.n(5) {
				case 0:
					p["amount"], el["kind"] = "-"+strconv.Itoa(1+r.n(100)), "negative-amount"
				case 1:
					p["source"], el["kind"] = r.pick(txBadAddr), "bad-source"
				case 2:
					p["destination"], el["kind"] = r.pick(txBadAddr), "bad-destination"
				case 3:
					p["asset"], el["kind"] = r.pick(txBadAsset), "bad-asset"
				case 4:
					p["amount"], el["kind"] = nil, "missing-amount"
				}
			} else {
				created = append(created, ps)
			}
		case x < 70:
			el["action"], el["mode"] = "CREATE_TRANSACTION", "script"
			ps := genPostings()
			el["postings"] = ps
			genTxbRequestFields(r, el, &seenTs)
			created = append(created, ps)
		case x < 73:
			el["action"], el["mode"] = "CREATE_TRANSACTION", "garbled"
		case x < 84:
			el["action"] = "ADD_METADATA"
			m := J{}
			for j := 1 + r.n(2); j > 0; j-- {
				m[r.pick(txbMetaKeys)] = r.pick(txbMetaVals)
			}
			el["meta"] = m
			if r.p(50) {
				el["target"], el["tid"] = "ACCOUNT", r.pick(pool)
			} else {
				el["target"] = "TRANSACTION"
				rels = append(rels, rel{el, target()})
			}
		case x < 88:
			el["action"], el["key"] = "DELETE_METADATA", r.pick(txbMetaKeys)
			if r.p(50) {
				el["target"], el["tid"] = "ACCOUNT", r.pick(pool)
			} else {
				el["target"] = "TRANSACTION"
				rels = append(rels, rel{el, target()})
			}
		case x < 97:
			el["action"], el["force"] = "REVERT_TRANSACTION", r.p(25)
			t := target()
			rels = append(rels, rel{el, t})
			if t >= 0 && t < len(created) {
				src := created[t]
				rev := make([]any, 0, len(src))
				for j := len(src) - 1; j >= 0; j-- {
					p := src[j].(J)
					rev = append(rev, J{"source": p["destination"], "destination": p["source"], "amount": p["amount"], "asset": p["asset"]})
				}
				created = append(created, rev)
			}
		default:
			el["action"] = r.pick([]string{"UPSERT_TRANSACTION", "create_transaction", ""})
		}
		elements = append(elements, el)
	}

	// balance table: what each (account, asset) must hold for every transaction of the bulk to find its funds
	type key struct{ a, s string }
	cur, need := map[key]*big.Int{}, map[key]*big.Int{}
	order := []key{}
	get := func(m map[key]*big.Int, k key) *big.Int {
		if v, ok := m[k]; ok {
			return v
		}
		m[k] = new(big.Int)
		return m[k]
	}
	for _, ps := range created {
		for _, pa := range ps {
			p := pa.(J)
			amt, _ := new(big.Int).SetString(p["amount"].(string), 10)
			ks := key{p["source"].(string), p["asset"].(string)}
			kd := key{p["destination"].(string), p["asset"].(string)}
			if _, ok := need[ks]; !ok && ks.a != "world" {
				order = append(order, ks)
			}
			if ks.a != "world" {
				c := get(cur, ks)
				c.Sub(c, amt)
				nd := get(need, ks)
				if neg := new(big.Int).Neg(c); neg.Cmp(nd) > 0 {
					nd.Set(neg)
				}
			}
			if kd.a != "world" {
				c := get(cur, kd)
				c.Add(c, amt)
			}
		}
	}
	mode := r.n(20)
	short := -1
	if mode >= 12 && mode < 17 && len(order) > 0 {
		short = r.n(len(order))
	}
	bal := []any{}
	for k, ky := range order {
		v := new(big.Int).Set(need[ky])
		switch {
		case mode == 17:
			v.SetInt64(0)
		case mode >= 18:
			v.Add(v, big.NewInt(int64(r.n(50))))
		case k == short:
			v.Sub(v, big.NewInt(1))
		}
		if v.Sign() != 0 {
			bal = append(bal, []any{ky.a, ky.s, v.String()})
		}
	}
	// transaction ids: the pre-loaded balances (if any) are transaction 0
	base := 0
	if len(bal) > 0 {
		base = 1
	}
	for _, rl := range rels {
		switch {
		case rl.idx == -1:
			rl.el["tid"] = 0
		case rl.idx == 99:
			rl.el["tid"] = base + len(created) + 3
		default:
			rl.el["tid"] = base + rl.idx
		}
	}
	return J{"bal": bal, "continue": r.p(60), "elements": elements}
}

// ---------------------------------------------------------------- execution

func v2Router(b backend.Backend) http.Handler {
	return v2.NewRouter(b, &health.HealthController{}, metrics.NewNoOpRegistry(), auth.NewNoAuth())
}

// the store the commander writes to: the in-memory store, plus a canonical copy of every inserted log taken at
// insertion time (later mutations of shared maps / slices cannot reach it)
type txbStore struct {
	*storage.InMemoryStore
	before time.Time
	logs   []any
}

func txbCanon(tx *ledger.Transaction, before time.Time) J {
	j := txCanon(tx, true, time.Time{}, time.Time{})
	t := tx.Timestamp.Time
	switch {
	case t.IsZero():
		j["ts"] = "bad:zero"
	case !t.Before(before.Add(-time.Millisecond)) && !t.After(time.Now().Add(time.Millisecond)):
		j["ts"] = "now"
	}
	j["id"] = "<nil>"
	if tx.ID != nil {
		j["id"] = tx.ID.String()
	}
	return j
}

func (s *txbStore) InsertLogs(ctx context.Context, logs ...*ledger.ChainedLog) error {
	for _, l := range logs {
		e := J{"type": l.Type.String()}
		switch pl := l.Data.(type) {
		case ledger.NewTransactionLogPayload:
			e["tx"] = txbCanon(pl.Transaction, s.before)
		case ledger.RevertedTransactionLogPayload:
			e["tx"] = txbCanon(pl.RevertTransaction, s.before)
		}
		s.logs = append(s.logs, e)
	}
	return s.InMemoryStore.InsertLogs(ctx, logs...)
}

// every write of the bulk goes to the real commander, wrapped as engine.Ledger wraps it
type txbLedger struct {
	*fakeLedger
	cmd *command.Commander
}

func (l *txbLedger) CreateTransaction(ctx context.Context, p command.Parameters, data ledger.RunScript) (*ledger.Transaction, error) {
	ret, err := l.cmd.CreateTransaction(ctx, p, data)
	if err != nil {
		return nil, engine.NewCommandError(err)
	}
	return ret, nil
}
func (l *txbLedger) RevertTransaction(ctx context.Context, p command.Parameters, id *big.Int, force bool) (*ledger.Transaction, error) {
	ret, err := l.cmd.RevertTransaction(ctx, p, id, force)
	if err != nil {
		return nil, engine.NewCommandError(err)
	}
	return ret, nil
}
func (l *txbLedger) SaveMeta(ctx context.Context, p command.Parameters, targetType string, targetID any, m metadata.Metadata) error {
	return engine.NewCommandError(l.cmd.SaveMeta(ctx, p, targetType, targetID, m))
}
func (l *txbLedger) DeleteMetadata(ctx context.Context, p command.Parameters, targetType string, targetID any, key string) error {
	return engine.NewCommandError(l.cmd.DeleteMetadata(ctx, p, targetType, targetID, key))
}

// the literal script a client would write for a posting list
func txbScript(t txIn) string {
	var sb strings.Builder
	for _, p := range t.posts {
		a := "0"
		if p.Amount != nil {
			a = p.Amount.String()
		}
		fmt.Fprintf(&sb, "send [%s %s] (\n\tsource = @%s\n\tdestination = @%s\n)\n", p.Asset, a, p.Source, p.Destination)
	}
	return sb.String()
}

func txbElementBody(el J) []byte {
	action, _ := el["action"].(string)
	ab, _ := json.Marshal(action)
	wrap := func(data string) []byte { return []byte(`{"action":` + string(ab) + `,"data":` + data + `}`) }
	tid := func() string {
		switch v := el["tid"].(type) {
		case string:
			b, _ := json.Marshal(v)
			return string(b)
		case json.Number:
			return v.String()
		}
		return "null"
	}
	switch action {
	case "CREATE_TRANSACTION":
		switch el["mode"] {
		case "postings":
			return wrap(string(txBody(parseTxIn(el))))
		case "script":
			t := parseTxIn(el)
			plain, _ := json.Marshal(txbScript(t))
			t.raw, t.posts = nil, nil
			rest := strings.TrimPrefix(string(txBody(t)), `{"postings":[]`) // the request fields: `,"metadata":…}` or `}`
			return wrap(`{"script":{"plain":` + string(plain) + `,"vars":{}}` + rest)
		}
		return wrap(`{"postings":"none","metadata":[1]}`)
	case "ADD_METADATA":
		mb, _ := json.Marshal(el["meta"])
		tb, _ := json.Marshal(el["target"])
		return wrap(`{"targetType":` + string(tb) + `,"targetId":` + tid() + `,"metadata":` + string(mb) + `}`)
	case "DELETE_METADATA":
		kb, _ := json.Marshal(el["key"])
		tb, _ := json.Marshal(el["target"])
		return wrap(`{"targetType":` + string(tb) + `,"targetId":` + tid() + `,"key":` + string(kb) + `}`)
	case "REVERT_TRANSACTION":
		f, _ := el["force"].(bool)
		return wrap(`{"id":` + tid() + `,"force":` + strconv.FormatBool(f) + `}`)
	}
	return wrap(`{}`)
}

func execTxBulk(in J) J {
	ctx := txQuietCtx()
	var bal [][3]string
	bs, _ := in["bal"].([]any)
	for _, ba := range bs {
		b := ba.([]any)
		bal = append(bal, [3]string{b[0].(string), b[1].(string), b[2].(string)})
	}
	var rec *txbStore
	e := newTxEngineOn(ctx, bal, func(m *storage.InMemoryStore) command.Store {
		rec = &txbStore{InMemoryStore: m}
		return rec
	})
	defer e.close()

	var sb bytes.Buffer
	sb.WriteString("[")
	els, _ := in["elements"].([]any)
	for i, ea := range els {
		if i > 0 {
			sb.WriteString(",")
		}
		sb.Write(txbElementBody(ea.(map[string]any)))
	}
	sb.WriteString("]")
	url := "/l0/_bulk"
	if c, _ := in["continue"].(bool); c {
		url += "?continueOnFailure=true"
	}

	fl := &txbLedger{fakeLedger: &fakeLedger{}, cmd: e.cmd}
	h := v2Router(&txBackend{fakeBackend: fakeBackend{l: fl.fakeLedger}, l: fl})
	before := time.Now()
	rec.before = before
	req := httptest.NewRequest(http.MethodPost, url, bytes.NewReader(sb.Bytes())).WithContext(ctx)
	req.Header.Set("Content-Type", "application/json")
	rw := httptest.NewRecorder()
	h.ServeHTTP(rw, req)

	out := J{"status": rw.Code, "logs": append([]any{}, rec.logs...)}
	var r struct {
		Data []struct {
			ErrorCode    string  `json:"errorCode"`
			ResponseType string  `json:"responseType"`
			Data         *txJSON `json:"data"`
		} `json:"data"`
	}
	if err := decodeStrict(rw.Body.Bytes(), &r); err != nil {
		out["undecodable"] = rw.Body.String()
		return out
	}
	results := []any{}
	for _, el := range r.Data {
		switch {
		case el.ResponseType == "ERROR" || el.ErrorCode != "":
			results = append(results, J{"err": txErrClass(el.ErrorCode), "detail": el.ErrorCode})
		case el.Data != nil:
			tx, err := el.Data.toTx()
			if err != nil {
				results = append(results, J{"type": el.ResponseType, "tx": J{"id": "?", "postings": []any{}, "meta": J{}, "ref": "", "ts": "bad:undecodable " + err.Error()}})
				continue
			}
			tx.ID = el.Data.ID
			results = append(results, J{"type": el.ResponseType, "tx": txbCanon(tx, before)})
		default:
			results = append(results, J{"type": el.ResponseType})
		}
	}
	out["results"] = results
	return out
}

var _ backend.Ledger = (*txbLedger)(nil)
