package main

// Area "txscript" (C09): posting-mode transactions.
//
//  (a) unit: the REAL ledger.TxToScriptData(txData, force) -> script text + variable map (both force values);
//  (b) end to end through the REAL engine: a real command.Commander over storage.NewInMemoryStore(), balances
//      pre-loaded by log entries inserted into the store, then the posting list is submitted four ways:
//        direct : commander.CreateTransaction(ctx, Parameters{}, TxToScriptData(TransactionData{…}, false))
//        v2     : real v2 router, POST /{ledger}/transactions with a postings body
//        v1     : real v1 router, POST /{ledger}/transactions with a postings body
//        bulk   : real v2 router, POST /{ledger}/_bulk with one CREATE_TRANSACTION element
//      (the HTTP paths run over a backend whose Ledger delegates CreateTransaction to such a commander).
//
// input : {"postings":[{"source":s,"destination":d,"amount":"<decimal>"|null,"asset":a}], "bal":[[acct,asset,"<decimal>"]],
//          "meta":{k:v}, "ref":s, "ts":"<unix µs>"|null, "tz":minutes, "kind":"valid|<malformation>"}
// output: {"script":text,"vars":{…},"scriptF":text,"varsF":{…}, "direct":R,"v2":R,"v1":R,"bulk":R}
//   R = {"tx":T,"log":T,"newlogs":n} | {"err":"insufficient_funds|rejected","detail":s,"newlogs":n[,"status":n]}
//   T = {"postings":[[s,d,"amt",a]…],"meta":{…},"ref":s,"ts":"<unix µs>"|"now"|"bad:<…>"}

import (
	"bytes"
	"context"
	"encoding/json"
	"fmt"
	"io"
	"math/big"
	"net/http"
	"net/http/httptest"
	"strconv"
	"strings"
	"time"

	ledger "github.com/formancehq/ledger/internal"
	"github.com/formancehq/ledger/internal/api/backend"
	v1 "github.com/formancehq/ledger/internal/api/v1"
	v2 "github.com/formancehq/ledger/internal/api/v2"
	"github.com/formancehq/ledger/internal/bus"
	"github.com/formancehq/ledger/internal/engine"
	"github.com/formancehq/ledger/internal/engine/command"
	"github.com/formancehq/ledger/internal/machine"
	"github.com/formancehq/ledger/internal/opentelemetry/metrics"
	"github.com/formancehq/ledger/internal/storage"
	"github.com/formancehq/stack/libs/go-libs/auth"
	"github.com/formancehq/stack/libs/go-libs/health"
	"github.com/formancehq/stack/libs/go-libs/logging"
	"github.com/formancehq/stack/libs/go-libs/metadata"
	"github.com/sirupsen/logrus"
)

func init() {
	register("txscript", &area{gen: genTxScript, exec: execTxScript})
}

// ---------------------------------------------------------------- generator

var txAddrForms = []string{
	"a", "b", "bank", "users:001", "a_b", "x-y", "x-y:z_1-2", "0", "007:8", "A:B", "_", "a:b:c:d", "orders:2024-01:item_7",
	"UPPER", "mixed_Case-9", "z", "payments:in-flight", "w0rld", "worlds", "world:a", "n-1-2-3", "__:__", "q:0:0", "k9",
}
var txAssets = []string{"USD", "EUR/2", "A", "X1/123456", "COIN", "BTC/8", "ABCDEFGHIJKLMNOPQ", "JPY/0", "Z9Z9"}

var txBig = []string{"18446744073709551615", "18446744073709551616", "18446744073709551617", "1180591620717411303424"}

var txBadAddr = []string{"", "a b", "a:", ":a", "a::b", "é", "a-", "-a", "a\n", "world ", " world", "a.b", "a/b", "$x", "@a", "a:-b", "a--b"}
var txBadAsset = []string{"usd", "", "USD/", "USD/1234567", "US D", "1USD", "ABCDEFGHIJKLMNOPQR", "USD/x", "USD ", " USD", "U$D", "USD/1/2", "USD 1"}

func genTxScript(r *rng, n int, tier string, emit func(J)) {
	maxP := 12
	if tier == "thorough" {
		maxP = 30
	}
	for i := 0; i < n; i++ {
		c := r.fork()
		emit(genTxCase(c, maxP))
	}
}

// ---- near-collisions of the textual encodings of a monetary
//
// TxToScriptData shares one variable between postings that move the same amount of the same asset; whatever text
// it uses to recognise "the same monetary" must separate (asset, amount) pairs such as
//
//	USD + 25 | USD2 + 5 | USD25 + 0        COIN/2 + 10 | COIN/21 + 0        (one text, split at different points)
//	USD 5 | USD 25 | USD 125               (same asset, amounts that are suffixes / prefixes of one another)
//	USD 5 | USD2 5 | USD25 5               (same amount, assets that are prefixes of one another)
//
// A family is built from ONE digit word w over a small alphabet: the assets are stem+w[:i] (or stem/w[:i]), the
// amounts are the suffixes and prefixes of w (those that are decimal numerals), so that every way of cutting
// stem‖w into asset‖amount is in the pools, together with equal amounts in different assets, equal assets with
// different amounts and exact repetitions.
var txStems = []string{"USD", "COIN", "A", "EUR", "X1", "TKN", "Z9Z"}

func txNumeral(s string) bool { return s != "" && (s == "0" || s[0] != '0') }

type txMon struct{ asset, amount string }

// txFamily returns the asset pool, the amount pool and the complementary cuts (pairs whose asset‖amount texts are equal)
func txFamily(r *rng) (assets, amts []string, cuts [][2]txMon) {
	digits := []string{"0", "1", "2", "5"}
	wl := 2 + r.n(3)
	w := ""
	for k := 0; k < wl; k++ {
		w += r.pick(digits)
	}
	if r.p(12) { // the tail may be wider than 64 bits
		w = w[:1+r.n(2)] + r.pick(txBig)
	}
	stem := r.pick(txStems)
	slash := r.p(35) // vary the precision instead of the code: COIN/2, COIN/21
	if slash {
		stem += "/"
	}
	maxCut := len(w)
	if maxCut > 4 {
		maxCut = 4
	}
	all := []txMon{}
	for i := 0; i <= maxCut; i++ {
		if slash && i == 0 {
			continue
		}
		as := stem + w[:i]
		assets = append(assets, as)
		if txNumeral(w[i:]) {
			all = append(all, txMon{as, w[i:]})
		}
	}
	for i := 0; i < len(all); i++ {
		for j := i + 1; j < len(all); j++ {
			cuts = append(cuts, [2]txMon{all[i], all[j]})
		}
	}
	seen := map[string]bool{}
	addAmt := func(a string) {
		if txNumeral(a) && !seen[a] {
			seen[a] = true
			amts = append(amts, a)
		}
	}
	for i := 0; i <= len(w); i++ {
		addAmt(w[i:])
		addAmt(w[:i])
	}
	addAmt("0")
	// keep the pools small: collisions of any kind need repetitions
	for len(assets) > 3 {
		k := r.n(len(assets))
		assets = append(assets[:k], assets[k+1:]...)
	}
	for len(amts) > 4 {
		k := r.n(len(amts))
		amts = append(amts[:k], amts[k+1:]...)
	}
	return
}

func genTxCase(r *rng, maxP int) J {
	// account pool: small (so that accounts repeat) or 11+ (so that va10 sorts before va2)
	poolN := 2 + r.n(4)
	wide := r.p(12)
	if wide {
		poolN = 11 + r.n(5)
	}
	perm := make([]string, len(txAddrForms))
	copy(perm, txAddrForms)
	for k := len(perm) - 1; k > 0; k-- {
		j := r.n(k + 1)
		perm[k], perm[j] = perm[j], perm[k]
	}
	pool := perm[:poolN]
	assets := []string{r.pick(txAssets)}
	if r.p(40) {
		assets = append(assets, r.pick(txAssets))
	}
	// amount pool: a few values that repeat
	amtN := 1 + r.n(3)
	amts := make([]string, 0, amtN)
	for k := 0; k < amtN; k++ {
		switch r.n(10) {
		case 0:
			amts = append(amts, "0")
		case 1:
			amts = append(amts, r.pick(txBig))
		case 2:
			amts = append(amts, "1")
		default:
			amts = append(amts, strconv.Itoa(1+r.n(1000)))
		}
	}
	acct := func() string {
		if r.p(15) {
			return "world"
		}
		return r.pick(pool)
	}
	np := 1 + r.n(maxP)
	if wide && np < 11 {
		np = 11 + r.n(3)
	}
	style := r.n(10)
	// near-collision family instead of unrelated assets / amounts
	var cuts [][2]txMon
	if fr := r.fork(); !wide && fr.p(40) {
		assets, amts, cuts = txFamily(fr)
		style = 9
		if np < 2 {
			np = 2 + fr.n(3)
		}
	}
	posts := make([]any, 0, np)
	add := func(s, d, a, as string) {
		posts = append(posts, J{"source": s, "destination": d, "amount": a, "asset": as})
	}
	switch {
	case wide: // every pool member appears, in pool order, so that ten or more account variables exist
		for k := 0; k < np; k++ {
			add(pool[k%poolN], pool[(k+1+r.n(2))%poolN], r.pick(amts), assets[0])
		}
	case style <= 2: // chain: each posting spends what the previous one delivered
		cur := acct()
		a, as := r.pick(amts), assets[0]
		for k := 0; k < np; k++ {
			nxt := acct()
			add(cur, nxt, a, as)
			cur = nxt
		}
	case style == 3: // fan out then fan in
		hub, a, as := r.pick(pool), r.pick(amts), assets[0]
		for k := 0; k < np; k++ {
			if k%2 == 0 {
				add("world", hub, a, as)
			} else {
				add(hub, acct(), a, as)
			}
		}
	default:
		for k := 0; k < np; k++ {
			s, d := acct(), acct()
			if r.p(10) {
				d = s // self-transfer
			}
			add(s, d, r.pick(amts), r.pick(assets))
		}
		if len(cuts) > 0 && r.p(60) { // two postings whose asset‖amount texts are equal, anywhere in the list
			c := cuts[r.n(len(cuts))]
			i, j := r.n(np), r.n(np)
			if i == j {
				j = (i + 1) % np
			}
			pi, pj := posts[i].(J), posts[j].(J)
			pi["asset"], pi["amount"] = c[0].asset, c[0].amount
			pj["asset"], pj["amount"] = c[1].asset, c[1].amount
		}
	}
	// balances derived from the postings: what each (account, asset) must hold at the start for the replay to pass
	type key struct{ a, s string }
	cur, need := map[key]*big.Int{}, map[key]*big.Int{}
	order := []key{}
	get := func(m map[key]*big.Int, k key) *big.Int {
		if v, ok := m[k]; ok {
			return v
		}
		m[k] = new(big.Int)
		return m[k]
	}
	for _, pa := range posts {
		p := pa.(J)
		amt, _ := new(big.Int).SetString(p["amount"].(string), 10)
		ks := key{p["source"].(string), p["asset"].(string)}
		kd := key{p["destination"].(string), p["asset"].(string)}
		if _, ok := need[ks]; !ok && ks.a != "world" {
			order = append(order, ks)
		}
		if ks.a != "world" {
			c := get(cur, ks)
			c.Sub(c, amt)
			nd := get(need, ks)
			if neg := new(big.Int).Neg(c); neg.Cmp(nd) > 0 {
				nd.Set(neg)
			}
		}
		if kd.a != "world" {
			c := get(cur, kd)
			c.Add(c, amt)
		}
	}
	mode := r.n(20)
	short := -1
	if mode >= 10 && mode < 17 && len(order) > 0 {
		short = r.n(len(order))
	}
	bal := []any{}
	for k, ky := range order {
		v := new(big.Int).Set(need[ky])
		switch {
		case mode == 17:
			v.SetInt64(0)
		case mode == 18:
			v.Add(v, big.NewInt(int64(r.n(50))))
		case mode == 19:
			if r.p(50) {
				v.SetInt64(-int64(1 + r.n(20))) // an account already overdrawn (possible after a forced revert)
			}
		case k == short:
			v.Sub(v, big.NewInt(1))
		}
		if v.Sign() != 0 {
			bal = append(bal, []any{ky.a, ky.s, v.String()})
		}
	}
	in := J{"postings": posts, "bal": bal, "kind": "valid"}
	meta := J{}
	for k := r.n(3); k > 0; k-- {
		meta[r.pick([]string{"k", "order", "note", "x-y", "a b", ""})] = r.pick([]string{"", "v", "1", "{\"a\":1}", "world", "é"})
	}
	in["meta"] = meta
	in["ref"] = ""
	if r.p(60) {
		in["ref"] = r.pick([]string{"ref", "order-1", "r:1", "ü", "a b"}) + strconv.Itoa(r.n(1000))
	}
	in["ts"] = nil
	in["tz"] = 0
	if r.p(70) {
		// 2000-01-01 … 2030, µs precision; sometimes written with a zone offset
		us := int64(946684800)*1000000 + int64(r.next()%uint64(946684800))*1000000 + int64(r.n(1000000))
		in["ts"] = strconv.FormatInt(us, 10)
		if r.p(25) {
			in["tz"] = r.pick2([]int{-720, -90, 60, 330, 840})
		}
	}
	// strings the engine must carry as they are: NUL and other control / invisible characters in the reference and in metadata
	// keys and values, and pairs of metadata keys that differ only by such a character (own rng: the rest of the case is unchanged)
	if cr := r.fork(); cr.p(22) {
		txControlStrings(cr, in, meta)
	}
	// malformed stream: one posting broken, or no posting at all
	if r.p(15) {
		k := r.n(len(posts))
		p := posts[k].(J)
		switch r.n(7) {
		case 0:
			p["amount"] = "-" + strconv.Itoa(1+r.n(100))
			in["kind"] = "negative-amount"
		case 1:
			p["source"] = r.pick(txBadAddr)
			in["kind"] = "bad-source"
		case 2:
			p["destination"] = r.pick(txBadAddr)
			in["kind"] = "bad-destination"
		case 3, 4:
			p["asset"] = r.pick(txBadAsset)
			in["kind"] = "bad-asset"
		case 5:
			p["amount"] = nil
			in["kind"] = "missing-amount"
		case 6:
			in["postings"] = []any{}
			in["kind"] = "empty"
		}
	}
	return in
}

func (r *rng) pick2(xs []int) int { return xs[r.n(len(xs))] }

// characters a sanitiser might strip, fold or choke on (all of them are valid in a JSON string once escaped; lone surrogates are not
// and are left out): NUL, C0 controls, DEL, NEL, no-break space, line / paragraph separator, BOM, zero-width space, tab, CR, LF
var txControlChars = []string{"\x00", "\x00", "\x00", "\x01", "\x1f", "\x7f", "\u0085", "\u00a0", "\u2028", "\u2029", "\ufeff", "\u200b", "\t", "\r", "\n", "\x1b", "\x08"}

func txSprinkle(r *rng, s string) string {
	c := r.pick(txControlChars)
	switch r.n(4) {
	case 0:
		return c + s
	case 1:
		return s + c
	case 2:
		return c
	}
	k := r.n(len(s) + 1)
	return s[:k] + c + s[k:]
}

// txControlStrings rewrites the request fields of one case / bulk element in place
func txControlStrings(r *rng, in J, meta J) {
	if r.p(55) {
		ref, _ := in["ref"].(string)
		if ref == "" {
			ref = "tenant-1order-" + strconv.Itoa(r.n(1000))
		}
		in["ref"] = txSprinkle(r, ref)
	}
	if meta == nil {
		return
	}
	if r.p(60) { // a value
		k := r.pick([]string{"memo", "raw", "note", "k"})
		meta[k] = txSprinkle(r, r.pick([]string{"paid", "0001", "", "x y"}))
	}
	if r.p(45) { // a key
		meta[txSprinkle(r, r.pick([]string{"tag", "k", "order"}))] = r.pick([]string{"v", "", "1"})
	}
	if r.p(45) { // two keys that differ only by such a character, with different values
		k := r.pick([]string{"tag", "k", "a b", ""})
		meta[k] = "blue"
		meta[txSprinkle(r, k)] = "red"
		if r.p(30) {
			meta[txSprinkle(r, k)] = "green"
		}
	}
}

// ---------------------------------------------------------------- execution

type txIn struct {
	posts  ledger.Postings
	raw    []map[string]any
	bal    [][3]string
	meta   metadata.Metadata
	ref    string
	ts     ledger.Time
	hasTs  bool
	tsStr  string // RFC3339Nano text put into HTTP bodies
	noMeta bool   // the request has no "metadata" key at all (input "meta": null)
}

func parseTxIn(in J) txIn {
	var t txIn
	ps, _ := in["postings"].([]any)
	for _, pa := range ps {
		p := pa.(map[string]any)
		t.raw = append(t.raw, p)
		var amt *big.Int
		if s, ok := p["amount"].(string); ok {
			amt, _ = new(big.Int).SetString(s, 10)
		}
		src, _ := p["source"].(string)
		dst, _ := p["destination"].(string)
		as, _ := p["asset"].(string)
		t.posts = append(t.posts, ledger.Posting{Source: src, Destination: dst, Amount: amt, Asset: as})
	}
	bs, _ := in["bal"].([]any)
	for _, ba := range bs {
		b := ba.([]any)
		t.bal = append(t.bal, [3]string{b[0].(string), b[1].(string), b[2].(string)})
	}
	t.meta = metadata.Metadata{}
	if v, present := in["meta"]; present && v == nil {
		t.noMeta = true
	}
	if m, ok := in["meta"].(map[string]any); ok {
		for k, v := range m {
			t.meta[k], _ = v.(string)
		}
	}
	t.ref, _ = in["ref"].(string)
	if s, ok := in["ts"].(string); ok {
		us, _ := strconv.ParseInt(s, 10, 64)
		tz := 0
		if n, ok := in["tz"].(json.Number); ok {
			v, _ := n.Int64()
			tz = int(v)
		}
		tm := time.UnixMicro(us).In(time.FixedZone("", tz*60))
		if tz == 0 {
			tm = tm.UTC()
		}
		t.ts, t.hasTs = ledger.Time{Time: tm}, true
		t.tsStr = tm.Format(time.RFC3339Nano)
	}
	return t
}

func txQuietCtx() context.Context {
	l := logrus.New()
	l.SetOutput(io.Discard)
	l.SetLevel(logrus.PanicLevel)
	return logging.ContextWithLogger(context.Background(), logging.NewLogrus(l))
}

// a fresh store pre-loaded with the balance table (one log entry whose postings move the amounts out of / into
// world), and a running commander on top of it
type txEngine struct {
	store *storage.InMemoryStore
	cmd   *command.Commander
	base  int // number of logs before the request
}

func newTxEngine(ctx context.Context, bal [][3]string) *txEngine {
	return newTxEngineOn(ctx, bal, nil)
}

// wrap, when given, is put between the commander and the in-memory store (the bulk area records the inserted logs there)
func newTxEngineOn(ctx context.Context, bal [][3]string, wrap func(*storage.InMemoryStore) command.Store) *txEngine {
	store := storage.NewInMemoryStore()
	e := &txEngine{store: store}
	if len(bal) > 0 {
		tx := ledger.NewTransaction().WithIDUint64(0)
		tx.Timestamp = ledger.Time{Time: time.Unix(1, 0).UTC()}
		for _, b := range bal {
			v, _ := new(big.Int).SetString(b[2], 10)
			if v.Sign() >= 0 {
				tx.Postings = append(tx.Postings, ledger.NewPosting("world", b[0], b[1], v))
			} else {
				tx.Postings = append(tx.Postings, ledger.NewPosting(b[0], "world", b[1], new(big.Int).Neg(v)))
			}
		}
		log := ledger.NewTransactionLog(tx, map[string]metadata.Metadata{}).ChainLog(nil)
		if err := store.InsertLogs(ctx, log); err != nil {
			panic(err)
		}
		e.base = 1
	}
	var cs command.Store = store
	if wrap != nil {
		cs = wrap(store)
	}
	e.cmd = command.New(cs, command.NoOpLocker, command.NewCompiler(1024), command.NewReferencer(), bus.NewNoOpMonitor())
	if err := e.cmd.Init(ctx); err != nil {
		panic(err)
	}
	go e.cmd.Run(ctx)
	return e
}

func (e *txEngine) close() { e.cmd.Close() }

func txCanon(tx *ledger.Transaction, hasTs bool, before, after time.Time) J {
	ps := []any{}
	for _, p := range tx.Postings {
		a := "<nil>"
		if p.Amount != nil {
			a = p.Amount.String()
		}
		ps = append(ps, []any{p.Source, p.Destination, a, p.Asset})
	}
	m := J{}
	for k, v := range tx.Metadata {
		m[k] = v
	}
	ts := ""
	switch {
	case hasTs:
		ts = strconv.FormatInt(tx.Timestamp.UnixMicro(), 10)
		if tx.Timestamp.Nanosecond()%1000 != 0 {
			ts = "bad:sub-microsecond " + tx.Timestamp.Format(time.RFC3339Nano)
		}
	case tx.Timestamp.IsZero():
		ts = "bad:zero"
	case tx.Timestamp.Time.Before(before.Add(-time.Millisecond)) || tx.Timestamp.Time.After(after.Add(time.Millisecond)):
		ts = "bad:not-now " + tx.Timestamp.Format(time.RFC3339Nano)
	default:
		ts = "now"
	}
	return J{"postings": ps, "meta": m, "ref": tx.Reference, "ts": ts}
}

// what the store holds after the request: number of new logs and, if there is one, its transaction
func (e *txEngine) persisted(ctx context.Context, hasTs bool, before, after time.Time) (int, any) {
	last, err := e.store.GetLastLog(ctx)
	if err != nil || last == nil {
		return 0, nil
	}
	n := int(last.ID.Int64()) + 1 - e.base
	if n <= 0 {
		return 0, nil
	}
	pl, ok := last.Data.(ledger.NewTransactionLogPayload)
	if !ok {
		return n, J{"postings": []any{}, "meta": J{}, "ref": "", "ts": "bad:not-a-transaction-log"}
	}
	return n, txCanon(pl.Transaction, hasTs, before, after)
}

// the Ledger the HTTP handlers talk to: writes go to the real commander (wrapped exactly as engine.Ledger does)
type txLedger struct {
	*fakeLedger
	cmd *command.Commander
}

func (l *txLedger) CreateTransaction(ctx context.Context, p command.Parameters, data ledger.RunScript) (*ledger.Transaction, error) {
	ret, err := l.cmd.CreateTransaction(ctx, p, data)
	if err != nil {
		return nil, engine.NewCommandError(err)
	}
	return ret, nil
}

type txBackend struct {
	fakeBackend
	l backend.Ledger
}

func (b *txBackend) GetLedgerEngine(ctx context.Context, name string) (backend.Ledger, error) {
	return b.l, nil
}

func txBody(t txIn) []byte {
	var sb strings.Builder
	sb.WriteString(`{"postings":[`)
	for i, p := range t.raw {
		if i > 0 {
			sb.WriteString(",")
		}
		s, _ := json.Marshal(p["source"])
		d, _ := json.Marshal(p["destination"])
		a, _ := json.Marshal(p["asset"])
		fmt.Fprintf(&sb, `{"source":%s,"destination":%s,"asset":%s`, s, d, a)
		if amt, ok := p["amount"].(string); ok {
			fmt.Fprintf(&sb, `,"amount":%s`, amt) // a JSON number of arbitrary size
		}
		sb.WriteString("}")
	}
	sb.WriteString(`]`)
	if !t.noMeta {
		mb, _ := json.Marshal(t.meta)
		fmt.Fprintf(&sb, `,"metadata":%s`, mb)
	}
	if t.ref != "" {
		rb, _ := json.Marshal(t.ref)
		fmt.Fprintf(&sb, `,"reference":%s`, rb)
	}
	if t.hasTs {
		fmt.Fprintf(&sb, `,"timestamp":"%s"`, t.tsStr)
	}
	sb.WriteString("}")
	return []byte(sb.String())
}

type txJSON struct {
	ID       *big.Int `json:"id"`
	Postings []struct {
		Source      string      `json:"source"`
		Destination string      `json:"destination"`
		Amount      json.Number `json:"amount"`
		Asset       string      `json:"asset"`
	} `json:"postings"`
	Metadata  map[string]string `json:"metadata"`
	Reference string            `json:"reference"`
	Timestamp string            `json:"timestamp"`
}

func (t txJSON) toTx() (*ledger.Transaction, error) {
	tx := &ledger.Transaction{}
	for _, p := range t.Postings {
		a, ok := new(big.Int).SetString(p.Amount.String(), 10)
		if !ok {
			return nil, fmt.Errorf("amount %q", p.Amount.String())
		}
		tx.Postings = append(tx.Postings, ledger.Posting{Source: p.Source, Destination: p.Destination, Amount: a, Asset: p.Asset})
	}
	tx.Metadata = t.Metadata
	tx.Reference = t.Reference
	tm, err := time.Parse(time.RFC3339Nano, t.Timestamp)
	if err != nil {
		return nil, err
	}
	tx.Timestamp = ledger.Time{Time: tm}
	return tx, nil
}

func txErrClass(code string) string {
	if code == "INSUFFICIENT_FUND" {
		return "insufficient_funds"
	}
	return "rejected"
}

func decodeStrict(b []byte, v any) error {
	d := json.NewDecoder(bytes.NewReader(b))
	d.UseNumber()
	return d.Decode(v)
}

// one posting list handed to the commander the way the API controllers do it; the answer classified
func txDirectSubmit(ctx context.Context, e *txEngine, txData ledger.TransactionData) J {
	tx, err := e.cmd.CreateTransaction(ctx, command.Parameters{}, ledger.TxToScriptData(txData, false))
	if err != nil {
		cls, detail := "rejected", "other"
		switch {
		case machine.IsInsufficientFundError(err):
			cls, detail = "insufficient_funds", "insufficient"
		case command.IsInvalidTransactionError(err, command.ErrInvalidTransactionCodeCompilationFailed):
			detail = "compilation"
		case command.IsInvalidTransactionError(err, command.ErrInvalidTransactionCodeNoPostings):
			detail = "no-postings"
		case command.IsInvalidTransactionError(err, command.ErrInvalidTransactionCodeNoScript):
			detail = "no-script"
		case command.IsInvalidTransactionError(err, command.ErrInvalidTransactionCodeConflict):
			detail = "conflict"
		case command.IsErrMachine(err):
			detail = "machine"
		}
		return J{"err": cls, "detail": detail}
	}
	return J{"rawtx": tx}
}

// the same list as a POST /{ledger}/transactions of the real v2 router over a Ledger that forwards to the commander
func txV2Submit(ctx context.Context, e *txEngine, body []byte) J {
	fl := &txLedger{fakeLedger: &fakeLedger{}, cmd: e.cmd}
	h := v2.NewRouter(&txBackend{fakeBackend: fakeBackend{l: fl.fakeLedger}, l: fl}, &health.HealthController{}, metrics.NewNoOpRegistry(), auth.NewNoAuth())
	req := httptest.NewRequest(http.MethodPost, "/l0/transactions", bytes.NewReader(body)).WithContext(ctx)
	req.Header.Set("Content-Type", "application/json")
	rec := httptest.NewRecorder()
	h.ServeHTTP(rec, req)
	status, resp := rec.Code, rec.Body.Bytes()
	if status != http.StatusOK {
		var e struct {
			ErrorCode string `json:"errorCode"`
		}
		_ = decodeStrict(resp, &e)
		if e.ErrorCode == "" {
			e.ErrorCode = "HTTP" + strconv.Itoa(status)
		}
		return J{"err": txErrClass(e.ErrorCode), "detail": e.ErrorCode, "status": status}
	}
	var r struct {
		Data *txJSON `json:"data"`
	}
	if err := decodeStrict(resp, &r); err != nil || r.Data == nil {
		return J{"err": "undecodable-response", "detail": string(resp), "status": status}
	}
	tx, err := r.Data.toTx()
	if err != nil {
		return J{"err": "undecodable-response", "detail": err.Error(), "status": status}
	}
	return J{"rawtx": tx, "status": status}
}

func execTxScript(in J) J {
	t := parseTxIn(in)
	out := J{}
	ctx := txQuietCtx()

	// (a) the function on its own
	txData := ledger.TransactionData{Postings: t.posts, Metadata: t.meta, Reference: t.ref, Timestamp: t.ts}
	unit := func(force bool) (any, any) {
		for _, p := range t.posts {
			if p.Amount == nil {
				return nil, nil
			}
		}
		rs := ledger.TxToScriptData(txData, force)
		vars := J{}
		for k, v := range rs.Script.Vars {
			vars[k] = v
		}
		return rs.Script.Plain, vars
	}
	out["script"], out["vars"] = unit(false)
	out["scriptF"], out["varsF"] = unit(true)

	run := func(name string, f func(e *txEngine) J) {
		defer func() {
			if r := recover(); r != nil {
				out[name] = J{"panic": fmt.Sprint(r)}
			}
		}()
		e := newTxEngine(ctx, t.bal)
		defer e.close()
		before := time.Now()
		res := f(e)
		n, lg := e.persisted(ctx, t.hasTs, before, time.Now())
		res["newlogs"] = n
		if lg != nil {
			res["log"] = lg
		}
		if tx, ok := res["rawtx"].(*ledger.Transaction); ok {
			res["tx"] = txCanon(tx, t.hasTs, before, time.Now())
		}
		delete(res, "rawtx")
		out[name] = res
	}

	// (b1) straight into the commander
	run("direct", func(e *txEngine) J { return txDirectSubmit(ctx, e, txData) })

	httpRun := func(name string, mk func(b backend.Backend) http.Handler, url string, body []byte, dec func(status int, resp []byte) J) {
		run(name, func(e *txEngine) J {
			fl := &txLedger{fakeLedger: &fakeLedger{}, cmd: e.cmd}
			h := mk(&txBackend{fakeBackend: fakeBackend{l: fl.fakeLedger}, l: fl})
			req := httptest.NewRequest(http.MethodPost, url, bytes.NewReader(body)).WithContext(ctx)
			req.Header.Set("Content-Type", "application/json")
			rec := httptest.NewRecorder()
			h.ServeHTTP(rec, req)
			res := dec(rec.Code, rec.Body.Bytes())
			res["status"] = rec.Code
			return res
		})
	}
	errOf := func(status int, resp []byte) J {
		var e struct {
			ErrorCode string `json:"errorCode"`
		}
		_ = decodeStrict(resp, &e)
		if e.ErrorCode == "" {
			e.ErrorCode = "HTTP" + strconv.Itoa(status)
		}
		return J{"err": txErrClass(e.ErrorCode), "detail": e.ErrorCode}
	}
	body := txBody(t)
	mkV2 := func(b backend.Backend) http.Handler {
		return v2.NewRouter(b, &health.HealthController{}, metrics.NewNoOpRegistry(), auth.NewNoAuth())
	}
	mkV1 := func(b backend.Backend) http.Handler {
		return v1.NewRouter(b, &health.HealthController{}, metrics.NewNoOpRegistry(), auth.NewNoAuth())
	}

	// (b2) v2 handler
	httpRun("v2", mkV2, "/l0/transactions", body, func(status int, resp []byte) J {
		if status != http.StatusOK {
			return errOf(status, resp)
		}
		var r struct {
			Data *txJSON `json:"data"`
		}
		if err := decodeStrict(resp, &r); err != nil || r.Data == nil {
			return J{"err": "undecodable-response", "detail": string(resp)}
		}
		tx, err := r.Data.toTx()
		if err != nil {
			return J{"err": "undecodable-response", "detail": err.Error()}
		}
		return J{"rawtx": tx}
	})

	// (b3) v1 handler
	httpRun("v1", mkV1, "/l0/transactions", body, func(status int, resp []byte) J {
		if status != http.StatusOK {
			return errOf(status, resp)
		}
		var r struct {
			Data []txJSON `json:"data"`
		}
		if err := decodeStrict(resp, &r); err != nil || len(r.Data) != 1 {
			return J{"err": "undecodable-response", "detail": string(resp)}
		}
		tx, err := r.Data[0].toTx()
		if err != nil {
			return J{"err": "undecodable-response", "detail": err.Error()}
		}
		return J{"rawtx": tx}
	})

	// (b4) one bulk element
	bulkBody := []byte(`[{"action":"CREATE_TRANSACTION","data":` + string(body) + `}]`)
	httpRun("bulk", mkV2, "/l0/_bulk", bulkBody, func(status int, resp []byte) J {
		var r struct {
			Data []struct {
				ErrorCode    string  `json:"errorCode"`
				ResponseType string  `json:"responseType"`
				Data         *txJSON `json:"data"`
			} `json:"data"`
		}
		if err := decodeStrict(resp, &r); err != nil || len(r.Data) != 1 {
			if status != http.StatusOK {
				return errOf(status, resp)
			}
			return J{"err": "undecodable-response", "detail": string(resp)}
		}
		el := r.Data[0]
		if el.ResponseType == "ERROR" || status != http.StatusOK {
			return J{"err": txErrClass(el.ErrorCode), "detail": el.ErrorCode}
		}
		if el.Data == nil {
			return J{"err": "undecodable-response", "detail": string(resp)}
		}
		tx, err := el.Data.toTx()
		if err != nil {
			return J{"err": "undecodable-response", "detail": err.Error()}
		}
		return J{"rawtx": tx}
	})
	return out
}
