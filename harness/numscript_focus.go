package main

// Focused multi-statement Numscript shapes (area "numscript" and everything that shares its generator).  They are ADDED in front of
// about 7 % of the programs of a seed, decided and drawn from a stream of their own (derived from the state of the program's
// generator without a draw): the programs a seed produced before these shapes existed are still produced, text for text.
//
//   deep-debt          an account is debited under `allowing unbounded overdraft` (plain, last of an ordered list, under `max`) by
//                      amounts of 4e18–5e18, or starts from a stored balance near -2^63, so that its debt crosses -2^63 while every
//                      operand still fits in 64 bits; THEN a send takes from the same account with a bounded overdraft or none.
//   repeat-piece       the same account holds two NON-ADJACENT pieces of one funding (capped first and listed again as last resort,
//                      literal + variable alias, two portions reaching it) and part of that funding is repaid (the send needs less
//                      than the pieces provide, an outer `max`, `remaining kept`); THEN a send from that account which it can afford
//                      only if the repayment credited it more than once.
//   self-transfer      an account on both sides of one send (plain, as one portion of a destination allotment, among ordered sources,
//                      under another name); THEN `send [A *]` from it, or a send over an ordered list that starts with it.
//   kept-in-order      ordered destinations with `max [A n] kept` entries (top level and inside a `remaining` branch) fed by a funding
//                      of two or more parts (two / three accounts with exact balances, an account topped up by @world, a bounded
//                      overdraft, the same account at two places).
//   sendall-unbounded  `send [A *]` whose source is / ends with `@x allowing unbounded overdraft` (the language refuses it), with the
//                      controls: bounded overdraft, `max … from` an unbounded source (accepted), @world (refused).
//
// Every send of a focused program has a destination of its own, so that each posting can be attributed to its statement from the
// output alone.  Field "shape" names the shape, "focus" the variant ("…/control" = a neighbour that must behave ordinarily).

import (
	"fmt"
	"math/big"
)

type nsFocus struct {
	r     *rng
	asset string
	fix   map[string]string // "account asset" -> exact stored balance
	decls []any
	vars  J
	extra []string // accounts outside the pool that get a row in the balance table
}

func bigOf(s string) *big.Int {
	b, ok := new(big.Int).SetString(s, 10)
	if !ok {
		panic("bad number " + s)
	}
	return b
}

func (f *nsFocus) setBal(a string, v any) { f.fix[a+" "+f.asset] = fmt.Sprint(v) }

func (f *nsFocus) mon(amt any) J {
	return J{"k": "mon", "asset": lit("asset", f.asset), "amt": fmt.Sprint(amt)}
}

func (f *nsFocus) leaf(a string, od J) J { return J{"k": "acct", "e": lit("acct", a), "od": od} }
func (f *nsFocus) leafE(e J, od J) J     { return J{"k": "acct", "e": e, "od": od} }
func (f *nsFocus) upto(amt any) J        { return J{"k": "upto", "e": f.mon(amt)} }
func fUnb() J                            { return J{"k": "unbounded"} }
func fList(ss ...any) J                  { return J{"k": "inorder", "ss": ss} }
func (f *nsFocus) max(cap any, s J) J    { return J{"k": "max", "cap": f.mon(cap), "s": s} }
func fTo(a string) J                     { return J{"k": "acct", "e": lit("acct", a)} }
func fKDto(d J) J                        { return J{"k": "to", "d": d} }
func fKept() J                           { return J{"k": "kept"} }

func (f *nsFocus) send(amt any, src J, dst J) J {
	if src["k"] != "allot" {
		src = J{"k": "src", "s": src}
	}
	return J{"k": "send", "amt": J{"k": "mon", "e": f.mon(amt)}, "src": src, "dst": dst, "destFirst": f.r.p(8)}
}

func (f *nsFocus) sendAll(src J, dst J) J {
	return J{"k": "send", "amt": J{"k": "all", "asset": lit("asset", f.asset)}, "src": J{"k": "src", "s": src}, "dst": dst, "destFirst": f.r.p(8)}
}

func (f *nsFocus) accountVar(name, value string) J {
	f.decls = append(f.decls, J{"ty": "account", "name": name, "origin": nil})
	f.vars[name] = value
	return lit("var", name)
}

func constPortion(n, d int, t string) J {
	return J{"k": "const", "n": fmt.Sprint(n), "d": fmt.Sprint(d), "t": t}
}

// ---- deep debt (C01)

const two63 = "9223372036854775808"

func (f *nsFocus) deepDebt() (string, []any) {
	a := f.r.pick(nsAccts)
	var others []string
	for _, x := range nsAccts {
		if x != a {
			others = append(others, x)
		}
	}
	b, c := others[0], others[1]
	if f.r.p(50) {
		b, c = others[2], others[3]
	}
	variant := ""
	var debits []string
	if f.r.p(55) { // several debits in the script
		f.setBal(a, f.r.pick([]string{"0", "0", "17", "-3", "1000"}))
		switch x := f.r.n(100); {
		case x < 30:
			variant, debits = "twice", []string{"5000000000000000000", "5000000000000000000"}
		case x < 45:
			variant, debits = "thrice", []string{"4000000000000000000", "4000000000000000000", "4000000000000000000"}
		case x < 60:
			variant, debits = "twice", []string{"4611686018427387904", "5000000000000000000"}
		case x < 75:
			variant, debits = "twice", []string{"4999999999999999999", "4500000000000000000"}
		case x < 88:
			variant, debits = "twice/control", []string{"4000000000000000000", "4000000000000000000"} // stays above -2^63
		default:
			variant, debits = "twice/control", []string{"18446744073709551616", "18446744073709551616"} // operands beyond 64 bits
		}
	} else { // the stored balance is already deep
		switch x := f.r.n(100); {
		case x < 25:
			f.setBal(a, "-6000000000000000000")
			variant, debits = "stored", []string{"4000000000000000000"}
		case x < 45:
			f.setBal(a, "-9000000000000000000")
			variant, debits = "stored", []string{f.r.pick([]string{"1000000000000000000", "223372036854775809", "5000000000000000000"})}
		case x < 65:
			k := 1 + f.r.n(40)
			f.setBal(a, "-"+new(big.Int).Sub(bigOf(two63), big.NewInt(int64(k))).String()) // -2^63 + k
			variant, debits = "stored", []string{fmt.Sprint(k + 1 + f.r.n(60))}
		case x < 75:
			f.setBal(a, "-"+two63)
			variant, debits = "stored", []string{fmt.Sprint(1 + f.r.n(60))}
		case x < 87:
			f.setBal(a, "-4000000000000000000")
			variant, debits = "stored/control", []string{"4000000000000000000"} // -8e18: still representable
		default:
			f.setBal(a, "-"+new(big.Int).Add(bigOf(two63), big.NewInt(int64(1+f.r.n(9)))).String()) // below -2^63 already: slow path
			variant, debits = "stored/control", []string{fmt.Sprint(1 + f.r.n(60))}
		}
	}
	dests := []string{"x", "y", "w"}
	var stmts []any
	ae := J(lit("acct", a))
	if f.r.p(15) {
		ae = f.accountVar("deep", a)
	}
	for i, d := range debits {
		var src J
		switch x := f.r.n(100); {
		case x < 55:
			src = f.leafE(ae, fUnb())
		case x < 80: // last of an ordered list; the first gives a little
			f.setBal(b, f.r.n(30))
			src = fList(f.leaf(b, nil), f.leafE(ae, fUnb()))
		default: // under a cap
			src = f.max(d, f.leafE(ae, fUnb()))
		}
		stmts = append(stmts, f.send(d, src, fTo(dests[i])))
	}
	// the send that must respect the floor
	k := f.r.pick([]string{"1", "100", "1000", "1000", "5000000000000000000"})
	var od J
	if f.r.p(40) {
		od = f.upto(f.r.pick([]string{"50", "1000000"}))
	}
	switch x := f.r.n(100); {
	case x < 40:
		stmts = append(stmts, f.send(k, f.leafE(ae, od), fTo("z")))
	case x < 55:
		f.setBal(c, bigOf(k).String())
		if f.r.p(50) {
			f.setBal(c, 0)
		}
		stmts = append(stmts, f.send(k, fList(f.leafE(ae, od), f.leaf(c, nil)), fTo("z")))
	case x < 67:
		stmts = append(stmts, f.send(k, f.max(k, f.leafE(ae, od)), fTo("z")))
	case x < 80:
		stmts = append(stmts, f.sendAll(f.leafE(ae, od), fTo("z")))
	case x < 90: // control: the later send is itself unbounded
		variant += "+unbounded-again"
		stmts = append(stmts, f.send(k, f.leafE(ae, fUnb()), fTo("z")))
	default: // control: somebody else pays
		variant += "+other-payer"
		f.setBal(c, bigOf(k).String())
		stmts = append(stmts, f.send(k, f.leaf(c, nil), fTo("z")))
	}
	return variant, stmts
}

// ---- repeated source piece (C01)

func (f *nsFocus) repeatPiece() (string, []any) {
	accts := f.distinct(3, nsAccts)
	foo, bar, oth := accts[0], accts[1], accts[2]
	B := 60 + f.r.n(100)
	b := 5 + f.r.n(25)
	c := 4 + f.r.n(9)
	f.setBal(foo, B)
	f.setBal(bar, b)
	control := f.r.p(25)
	variant := ""
	var stmts []any
	real := 0 // what foo really holds after the first send
	room := 0 // how much more than that the later send may ask for and still be within the doubly credited balance
	fooE := J(lit("acct", foo))
	switch x := f.r.n(100); {
	case x < 25: // capped, listed again as last resort; the send needs less than the first piece
		variant = "capped-then-last-resort"
		n := 1 + f.r.n(c-1)
		stmts = append(stmts, f.send(n, fList(f.max(c, f.leaf(foo, nil)), f.leaf(bar, nil), f.leaf(foo, nil)), fTo("x")))
		real, room = B-n, B-n
	case x < 40: // the repayment is that of an outer cap
		variant = "capped-then-last-resort-under-max"
		n := 1 + f.r.n(c-1)
		m := n + 1 + f.r.n(20)
		f.setBal(oth, 100+f.r.n(50))
		stmts = append(stmts, f.send(m, fList(f.max(n, fList(f.max(c, f.leaf(foo, nil)), f.leaf(bar, nil), f.leaf(foo, nil))), f.leaf(oth, nil)), fTo("x")))
		real, room = B-n, B-n
	case x < 55: // the whole list is used, `remaining kept` hands pieces of foo back
		variant = "capped-then-last-resort-kept"
		r := 1 + f.r.n(20)
		m := 1 + f.r.n(c-1)
		stmts = append(stmts, f.send(c+b+r, fList(f.max(c, f.leaf(foo, nil)), f.leaf(bar, nil), f.leaf(foo, nil)),
			J{"k": "inorder", "caps": []any{J{"cap": f.mon(m), "kd": fKDto(fTo("x"))}}, "rest": fKept()}))
		real, room = B-m, c+r-m
	case x < 80: // the same account under two names
		variant = "literal+variable"
		v := f.accountVar("same", foo)
		n := 1 + f.r.n(B-1)
		first, last := f.leaf(foo, nil), f.leafE(v, nil)
		if f.r.p(50) {
			first, last = f.leafE(v, nil), f.leaf(foo, nil)
		}
		if f.r.p(30) {
			last["od"] = f.upto(1 + f.r.n(20))
		}
		stmts = append(stmts, f.send(n, fList(first, f.leaf(bar, nil), last), fTo("x")))
		real, room = B-n, B-n
		if f.r.p(50) {
			fooE = v
		}
	default: // two portions reach the account, `remaining kept`
		variant = "two-portions-kept"
		B += 40 // foo pays its half and most of the other one
		f.setBal(foo, B)
		h := b + 2 + f.r.n(20) // half of the amount; bar cannot cover its half alone
		m := 1 + f.r.n(h-1)
		src := J{"k": "allot", "items": []any{
			J{"p": constPortion(1, 2, f.r.pick([]string{"1/2", "50%"})), "s": f.leaf(foo, nil)},
			J{"p": J{"k": "remaining"}, "s": fList(f.leaf(bar, nil), f.leaf(foo, nil))}}}
		stmts = append(stmts, f.send(2*h, src, J{"k": "inorder", "caps": []any{J{"cap": f.mon(m), "kd": fKDto(fTo("x"))}}, "rest": fKept()}))
		real, room = B-m, 2*h-b-m
	}
	w := real + 1
	if room > 1 && f.r.p(60) {
		w = real + 1 + f.r.n(room)
	}
	if control { // affordable: accepted whatever the repayment did
		variant += "/control"
		w = 1 + f.r.n(real)
	}
	var od J
	if !control && f.r.p(20) { // a bounded overdraft that does not reach either
		j := 1 + f.r.n(5)
		od = f.upto(j)
		w += j
	}
	if f.r.p(75) {
		stmts = append(stmts, f.send(w, f.leafE(fooE, od), fTo("y")))
	} else {
		stmts = append(stmts, f.send(w, f.max(w, f.leafE(fooE, od)), fTo("y")))
	}
	return variant, stmts
}

func (f *nsFocus) distinct(n int, pool []string) []string {
	xs := append([]string{}, pool...)
	for i := len(xs) - 1; i > 0; i-- {
		j := f.r.n(i + 1)
		xs[i], xs[j] = xs[j], xs[i]
	}
	return xs[:n]
}

// ---- self transfer (C03)

func (f *nsFocus) selfTransfer() (string, []any) {
	accts := f.distinct(3, nsAccts)
	a, b, c := accts[0], accts[1], accts[2]
	B := 40 + f.r.n(120)
	f.setBal(a, B)
	variant := ""
	var stmts []any
	switch x := f.r.n(100); {
	case x < 30:
		variant = "plain"
		stmts = append(stmts, f.send(1+f.r.n(B), f.leaf(a, nil), fTo(a)))
	case x < 60:
		variant = "one-portion"
		n := 10 * (1 + f.r.n(B/10))
		back := J{"p": constPortion(1, 10, "10%"), "kd": fKDto(fTo(a))}
		rest := J{"p": J{"k": "remaining"}, "kd": fKDto(fTo("x"))}
		items := []any{rest, back}
		if f.r.p(50) {
			items = []any{back, rest}
		}
		stmts = append(stmts, f.send(n, f.leaf(a, nil), J{"k": "allot", "items": items}))
	case x < 85:
		variant = "among-ordered-sources"
		f.setBal(b, 30+f.r.n(60))
		n := B + 1 + f.r.n(25)
		if f.r.p(50) {
			stmts = append(stmts, f.send(n, fList(f.leaf(a, nil), f.leaf(b, nil)), fTo(a)))
		} else {
			stmts = append(stmts, f.send(n, fList(f.leaf(b, nil), f.leaf(a, nil)), fTo(a)))
			if n > 30 { // b may cover it alone: then a is no payer, which is fine too
				f.setBal(b, 1+f.r.n(29))
			}
		}
	default:
		variant = "under-another-name"
		v := f.accountVar("self", a)
		if f.r.p(50) {
			stmts = append(stmts, f.send(1+f.r.n(B), f.leafE(v, nil), fTo(a)))
		} else {
			stmts = append(stmts, f.send(1+f.r.n(B), f.leaf(a, nil), J{"k": "acct", "e": v}))
		}
	}
	f.setBal(c, 200+f.r.n(100))
	switch x := f.r.n(100); {
	case x < 35:
		variant += "+send-all"
		stmts = append(stmts, f.sendAll(f.leaf(a, nil), fTo("y")))
	case x < 50:
		variant += "+send-all-list"
		stmts = append(stmts, f.sendAll(fList(f.leaf(a, nil), f.leaf(c, nil)), fTo("y")))
	case x < 85:
		variant += "+ordered"
		stmts = append(stmts, f.send(1+f.r.n(B), fList(f.leaf(a, nil), f.leaf(c, nil)), fTo("y")))
	default:
		variant += "+ordered-overdraft"
		j := 1 + f.r.n(20)
		stmts = append(stmts, f.send(1+f.r.n(B+j), fList(f.leaf(a, f.upto(j)), f.leaf(c, nil)), fTo("y")))
	}
	return variant, stmts
}

// ---- kept in order (C03)

func (f *nsFocus) keptDest(depth int, names *[]string, mustKeep bool) J {
	next := func() string {
		n := (*names)[0]
		*names = (*names)[1:]
		return n
	}
	ne := 1 + f.r.n(3)
	keepAt := -1
	if mustKeep {
		keepAt = f.r.n(ne)
	}
	var caps []any
	for i := 0; i < ne; i++ {
		m := 5 + f.r.n(56)
		if i == keepAt || f.r.p(30) {
			caps = append(caps, J{"cap": f.mon(m), "kd": fKept()})
		} else {
			caps = append(caps, J{"cap": f.mon(m), "kd": fKDto(fTo(next()))})
		}
	}
	var rest J
	switch x := f.r.n(100); {
	case x < 15:
		rest = fKept()
	case x < 45 && depth > 0:
		rest = fKDto(f.keptDest(depth-1, names, f.r.p(70)))
	default:
		rest = fKDto(fTo(next()))
	}
	return J{"k": "inorder", "caps": caps, "rest": rest}
}

func (f *nsFocus) keptInOrder() (string, []any) {
	accts := f.distinct(3, nsAccts)
	a, b, c := accts[0], accts[1], accts[2]
	variant := ""
	var src J
	n := 0
	switch x := f.r.n(100); {
	case x < 30:
		variant = "two-accounts"
		f.setBal(a, 100)
		f.setBal(b, 100)
		src, n = fList(f.leaf(a, nil), f.leaf(b, nil)), 110+f.r.n(90)
	case x < 50:
		variant = "three-accounts"
		f.setBal(a, 100)
		f.setBal(b, 100)
		f.setBal(c, 100)
		src, n = fList(f.leaf(a, nil), f.leaf(b, nil), f.leaf(c, nil)), 210+f.r.n(90)
	case x < 70:
		variant = "topped-up-by-world"
		h := 40 + f.r.n(60)
		f.setBal(a, h)
		src, n = fList(f.leaf(a, nil), f.leaf("world", nil)), h+10+f.r.n(90)
	case x < 82:
		variant = "bounded-overdraft-first"
		f.setBal(a, 60)
		f.setBal(b, 150)
		src, n = fList(f.leaf(a, f.upto(20)), f.leaf(b, nil)), 90+f.r.n(100)
	case x < 92:
		variant = "same-account-twice"
		f.setBal(a, 100)
		f.setBal(b, 50)
		src, n = fList(f.max(30, f.leaf(a, nil)), f.leaf(b, nil), f.leaf(a, nil)), 85+f.r.n(60)
	default:
		variant = "single-account/control"
		f.setBal(a, 300)
		src, n = f.leaf(a, nil), 100+f.r.n(150)
	}
	names := []string{"x", "y", "z", "w", "d", "e", "x", "y", "z", "w"}
	var free []string
	for _, nm := range names {
		if nm != a && nm != b && nm != c {
			free = append(free, nm)
		}
	}
	free = append(free, "x", "y", "z", "w", "x", "y", "z", "w")
	dst := f.keptDest(1, &free, true)
	stmts := []any{f.send(n, src, dst)}
	if f.r.p(25) { // and once more on what is left
		variant += "+again"
		free2 := []string{"v", "u", "v", "u", "v", "u", "v", "u", "v", "u"}
		stmts = append(stmts, f.send(20+f.r.n(60), src, f.keptDest(0, &free2, true)))
	}
	return variant, stmts
}

// ---- send-all from an unbounded source (C08: ill-typed stream)

func (f *nsFocus) sendAllUnbounded() (string, []any) {
	accts := f.distinct(2, nsAccts)
	a, b := accts[0], accts[1]
	f.setBal(a, 10+f.r.n(90))
	f.setBal(b, 5+f.r.n(40))
	ae := J(lit("acct", a))
	if f.r.p(20) {
		ae = f.accountVar("who", a)
	}
	variant := ""
	var src J
	switch x := f.r.n(100); {
	case x < 30:
		variant, src = "alone", f.leafE(ae, fUnb())
	case x < 55:
		variant, src = "last-of-a-list", fList(f.leaf(b, nil), f.leafE(ae, fUnb()))
	case x < 65:
		variant, src = "last-of-a-nested-list", fList(f.leaf(b, nil), fList(f.max(7, f.leaf(a, nil)), f.leafE(ae, fUnb())))
	case x < 75:
		variant, src = "bounded/control", f.leafE(ae, f.upto(1+f.r.n(30)))
	case x < 83:
		variant, src = "under-max/control", f.max(5+f.r.n(200), f.leafE(ae, fUnb()))
	case x < 90:
		variant, src = "list-of-bounded/control", fList(f.leaf(b, nil), f.leafE(ae, f.upto(1+f.r.n(30))))
	case x < 95:
		variant, src = "world", f.leaf("world", nil)
	default:
		variant, src = "world-last-of-a-list", fList(f.leaf(b, nil), f.leaf("world", nil))
	}
	var dst J = fTo("x")
	if f.r.p(20) {
		dst = J{"k": "allot", "items": []any{
			J{"p": constPortion(1, 4, "25%"), "kd": fKDto(fTo("x"))},
			J{"p": J{"k": "remaining"}, "kd": fKDto(fTo("y"))}}}
	}
	stmts := []any{f.sendAll(src, dst)}
	if f.r.p(30) { // an ordinary statement before it: the refusal must not depend on the position
		stmts = append([]any{f.send(1+f.r.n(9), f.leaf(b, nil), fTo("w"))}, stmts...)
	}
	return variant, stmts
}

// focusCase builds one focused case from the stream r
func focusCase(r *rng) J {
	f := &nsFocus{r: r, asset: "USD", fix: map[string]string{}, vars: J{}}
	if r.p(25) {
		f.asset = "COIN"
	}
	shape, variant := "", ""
	var stmts []any
	switch x := r.n(100); {
	case x < 20:
		shape = "deep-debt"
		variant, stmts = f.deepDebt()
	case x < 40:
		shape = "repeat-piece"
		variant, stmts = f.repeatPiece()
	case x < 60:
		shape = "self-transfer"
		variant, stmts = f.selfTransfer()
	case x < 85:
		shape = "kept-in-order"
		variant, stmts = f.keptInOrder()
	default:
		shape = "sendall-unbounded"
		variant, stmts = f.sendAllUnbounded()
	}
	ast := J{"vars": f.decls, "stmts": stmts}
	var bal [][]string
	for _, a := range append(append([]string{}, nsAccts...), "world") {
		for _, s := range []string{"USD", "EUR", "COIN"} {
			v := fmt.Sprint(r.n(60))
			if a == "world" {
				v = fmt.Sprint(-r.n(1000))
			}
			if x, ok := f.fix[a+" "+s]; ok {
				v = x
			}
			bal = append(bal, []string{a, s, v})
		}
	}
	meta := J{}
	if r.p(10) {
		meta["req"] = "from-request"
	}
	return J{"text": printScript(ast), "ast": ast, "vars": f.vars, "meta": meta, "bal": bal, "ameta": nil, "mut": false,
		"shape": shape, "focus": shape + ":" + variant}
}
