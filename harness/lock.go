package main

// Area "lock" (C15): operation sequences against the REAL command.NewDefaultLocker().
//
// Every request r is one goroutine calling Lock(ctx_r, Accounts{Read, Write}).  ctx_r is a context whose Done()
// method reports "r is about to enter the select of DefaultLocker.Lock" to the harness and waits to be resumed
// (Done() is evaluated exactly there, after the mutex has been released — a yield point obtained from outside,
// nothing in the repository is instrumented).  So every Lock call deterministically produces exactly one of
// {returned at once, reached the select}, and the harness can keep a request AT the entry of its select while
// it releases the blocker and cancels the request: the select is then entered with both cases ready, the only
// thing left to chance is Go's own pseudo-random choice — which the model treats as nondeterministic.
//
// "handover" — a cancellation while a release is in progress, with the order in which the two get the locker's mutex
// decided by the harness instead of by the scheduler.  The harness takes the locker's own mutex (overlay export VerifMu),
// starts the release of holder b in a goroutine and cancels waiter r; each of the two runs freely up to its mu.Lock() and
// parks there ("first" says which of them is started — and awaited — first).  A goroutine counts as parked when the
// runtime reports it in state "sync.Mutex.Lock" with sync.(*Mutex).Lock called from package command on its stack: it is
// then in the semaphore queue of the mutex, which is first in, first out.  Only then the harness unlocks.
//   first=release: the release runs (and may grant r), then r's cancellation path runs HAVING BEEN GRANTED after it had
//                  already left the select through ctx.Done() — whatever r decided before it asked for the mutex is stale;
//   first=cancel : r's cancellation path runs first (r is still queued), then the release.
// Both outcomes are deterministic; the model has them as the orders "cancel, release, wake(ctx)" / "cancel, wake, release".
//
// "arrive-during-release" — a release that runs WHILE a newcomer is between its failed direct check and its place in the
// queue.  Nothing in the repository is instrumented: DefaultLocker.Lock writes a few debug lines through the logger of the
// REQUEST's context ("Intent lock", then "Lock acquired" + "Lock directly acquired" or "Lock not acquired, … putting in
// queue"), and every request of this harness carries its own logger, whose methods are a second yield point: armed with a
// number k it reports "r stands in its k-th log call" and waits.  The harness then starts the release of holder b in a
// goroutine and looks at what that goroutine does: it either parks on the locker's mutex (the log call is made under the
// mutex: the release can only run after r has been queued — state "sync.Mutex.Lock" as for handover) or runs to completion
// (the log call is made outside the mutex).  Only then r goes on; the release is awaited; r is resumed at its select.
// On the unchanged code every log call of the arrival path of a request that has to wait is made under the mutex, so the
// order is "r is queued, then b releases (and grants r if nothing else blocks it)"; on the direct path the last call
// ("Lock directly acquired") is made after the unlock and the release runs in between, which changes nothing.  Either way
// the model's sequence is arrive r; release b — ONE resolution, whatever k.  A locker that lets the release in between the
// failed check and the Append shows as a request that waits although nobody holds anything it wants.
//
// Synchronisation never depends on timing (the only sleeps are the back-off of the poll for "parked on the mutex", whose
// outcome is a state, not a duration).  After an operation the harness waits for (a) every waiting request whose
// context has been cancelled, then (b) as many further returns as the locker's own queue (read through the
// overlay export, under its mutex) says have been granted: #waiting goroutines - queue length.  Both conditions
// are decided by state that is final when the synchronous part of the operation has returned.  The watchdog
// (lockWatchdog) only fires when a Lock call that must return does not (reported as "dead").
// A return that nothing accounts for is picked up (non-blocking drain) at the next synchronisation point and shows
// as a return in that step, where the comparison with the model and the oracle see it.
//
// input : {"ops":[{"op":"arrive","r":n,"read":[..],"write":[..],"hold":[{"op":"release","r":b}|{"op":"cancel"}]}
//                | {"op":"release","r":n} | {"op":"cancel","r":n} | {"op":"race","r":n,"b":m,"skew":k}
//                | {"op":"handover","r":n,"b":m,"first":"release"|"cancel"}
//                | {"op":"arrive-during-release","r":n,"read":[..],"write":[..],"b":m,"at":k} | {"op":"drain"}]}
// output: {"steps":[{"res":…, "ho":"both-parked"|… (handover) | "release-parked"|"release-completed"|"no-such-yield"|"not-a-holder"
//                    (arrive-during-release; not compared), "log":text of the log call r stood in (not compared), "ret":{"<id>":"ok"|"err"}, "sub":[{"rel":id,"ret":{…}}…] (drain only), "waiting":[ids], "q":[[read,write]…], "rl":{acct:"count"}, "wl":[acct…]}], "dead":why?}

import (
	"context"
	"encoding/json"
	"errors"
	"fmt"
	"io"
	"runtime"
	"sort"
	"strconv"
	"strings"
	"sync/atomic"
	"time"

	"github.com/formancehq/ledger/internal/engine/command"
	"github.com/formancehq/stack/libs/go-libs/logging"
	"github.com/sirupsen/logrus"
)

const lockWatchdog = 10 * time.Second

func init() {
	register("lock", &area{gen: genLock, exec: execLock})
}

// ---------------------------------------------------------------- context with a yield point in Done()

type lockEvent struct {
	id     int
	kind   string // "parked" (at the select) | "log-parked" (in a log call) | "returned"
	msg    string // log-parked: the format string of the call
	unlock command.Unlock
	err    error
}

type hookCtx struct {
	context.Context
	fired  atomic.Bool
	id     int
	events chan<- lockEvent
	resume chan struct{}
}

func (c *hookCtx) Done() <-chan struct{} {
	if c.fired.CompareAndSwap(false, true) {
		c.events <- lockEvent{id: c.id, kind: "parked"}
		<-c.resume
	}
	return c.Context.Done()
}

// yieldLogger is the logger of one request.  Inert unless armed: armed with k, the k-th call made through it from then on
// reports to the harness and waits (once).  WithFields / WithField / WithContext hand back the same logger, so the logger
// DefaultLocker.Lock derives for the request (and stores in the context it passes on) is this one.
type yieldLogger struct {
	id     int
	events chan<- lockEvent
	armed  atomic.Int32
	calls  atomic.Int32
	resume chan struct{}
}

func (l *yieldLogger) arm(k int) { l.calls.Store(0); l.armed.Store(int32(k)) }
func (l *yieldLogger) disarm()   { l.armed.Store(0) }
func (l *yieldLogger) hit(msg string) {
	k := l.armed.Load()
	if k == 0 {
		return
	}
	if l.calls.Add(1) == k && l.armed.CompareAndSwap(k, 0) {
		l.events <- lockEvent{id: l.id, kind: "log-parked", msg: msg}
		<-l.resume
	}
}
func (l *yieldLogger) Debugf(f string, args ...any)               { l.hit(f) }
func (l *yieldLogger) Infof(f string, args ...any)                { l.hit(f) }
func (l *yieldLogger) Errorf(f string, args ...any)               { l.hit(f) }
func (l *yieldLogger) Debug(args ...any)                          { l.hit(fmt.Sprint(args...)) }
func (l *yieldLogger) Info(args ...any)                           { l.hit(fmt.Sprint(args...)) }
func (l *yieldLogger) Error(args ...any)                          { l.hit(fmt.Sprint(args...)) }
func (l *yieldLogger) WithFields(map[string]any) logging.Logger   { return l }
func (l *yieldLogger) WithField(string, any) logging.Logger       { return l }
func (l *yieldLogger) WithContext(context.Context) logging.Logger { return l }

type lockReq struct {
	id        int
	log       *yieldLogger
	gid       atomic.Int64 // goroutine number of the Lock call (as printed by the runtime)
	ctx       *hookCtx
	cancel    context.CancelFunc
	arrived   bool
	returned  bool
	released  bool
	cancelled bool
	unlock    command.Unlock
	err       error
}

type lockHarness struct {
	locker *command.DefaultLocker
	base   context.Context
	ev     chan lockEvent
	reqs   map[int]*lockReq
	ret    map[string]any // returns seen during the current step
	dead   string
}

func newLockHarness() *lockHarness {
	l := logrus.New()
	l.SetOutput(io.Discard)
	l.SetLevel(logrus.PanicLevel)
	return &lockHarness{
		locker: command.NewDefaultLocker(),
		base:   logging.ContextWithLogger(context.Background(), logging.NewLogrus(l)),
		ev:     make(chan lockEvent, 1024),
		reqs:   map[int]*lockReq{},
		ret:    map[string]any{},
	}
}

func (h *lockHarness) req(id int) *lockReq {
	r, ok := h.reqs[id]
	if !ok {
		lg := &yieldLogger{id: id, events: h.ev, resume: make(chan struct{}, 1)}
		inner, cancel := context.WithCancel(logging.ContextWithLogger(h.base, lg))
		r = &lockReq{id: id, cancel: cancel, log: lg}
		r.ctx = &hookCtx{Context: inner, id: id, events: h.ev, resume: make(chan struct{}, 1)}
		h.reqs[id] = r
	}
	return r
}

func (h *lockHarness) waiting() []int {
	var w []int
	for id, r := range h.reqs {
		if r.arrived && !r.returned {
			w = append(w, id)
		}
	}
	sort.Ints(w)
	return w
}

func (h *lockHarness) handle(ev lockEvent) {
	r := h.reqs[ev.id]
	switch ev.kind {
	case "returned":
		r.returned, r.unlock, r.err = true, ev.unlock, ev.err
		k := strconv.Itoa(ev.id)
		switch {
		case ev.err == nil && ev.unlock != nil:
			h.ret[k] = "ok"
		case ev.err == nil:
			h.ret[k] = "ok-nil-unlock"
		case errors.Is(ev.err, context.Canceled) && ev.unlock == nil:
			h.ret[k] = "err"
		default:
			h.ret[k] = "err-other"
		}
	case "parked":
		// only expected inside arrive(), which consumes it itself
		h.dead = fmt.Sprintf("request %d reached the select outside its arrival", ev.id)
	case "log-parked":
		h.dead = fmt.Sprintf("request %d stands in a log call outside its arrival", ev.id)
	}
}

func (h *lockHarness) wait() (lockEvent, bool) {
	select {
	case ev := <-h.ev:
		return ev, true
	case <-time.After(lockWatchdog):
		h.dead = "watchdog: a Lock call that has to return did not"
		return lockEvent{}, false
	}
}

func (h *lockHarness) drainNow() {
	for {
		select {
		case ev := <-h.ev:
			h.handle(ev)
		default:
			return
		}
	}
}

// awaitOwn waits for the next thing request id does during its arrival: "log-parked" (it stands in the log call its logger
// was armed for), "parked" (it stands at the entry of its select) or "returned"; what other requests do meanwhile is recorded.
func (h *lockHarness) awaitOwn(id int) lockEvent {
	for h.dead == "" {
		ev, ok := h.wait()
		if !ok {
			break
		}
		if ev.id == id && ev.kind != "returned" {
			return ev
		}
		h.handle(ev)
		if ev.id == id {
			return ev
		}
	}
	return lockEvent{id: id, kind: "dead"}
}

// settle lets every goroutine that can leave its select do so, and waits for exactly those.
func (h *lockHarness) settle() {
	for h.dead == "" {
		h.drainNow()
		must := false
		n := 0
		for _, r := range h.reqs {
			if r.arrived && !r.returned {
				n++
				if r.cancelled {
					must = true
				}
			}
		}
		if !must {
			ql := h.locker.VerifQueueLen()
			if n == ql {
				break
			}
			if n < ql {
				h.dead = fmt.Sprintf("queue holds %d intents but only %d Lock calls are waiting", ql, n)
				break
			}
		}
		ev, ok := h.wait()
		if !ok {
			break
		}
		h.handle(ev)
	}
	runtime.Gosched()
	h.drainNow()
}

// goid is the number the runtime prints for the calling goroutine ("goroutine N [running]:").
func goid() int64 {
	var buf [64]byte
	n := runtime.Stack(buf[:], false)
	f := strings.Fields(string(buf[:n]))
	if len(f) < 2 {
		return -1
	}
	id, err := strconv.ParseInt(f[1], 10, 64)
	if err != nil {
		return -1
	}
	return id
}

// parkedOnLockerMutex: goroutine gid is blocked in sync.(*Mutex).Lock (wait reason "sync.Mutex.Lock": it sits in the
// semaphore queue of a mutex) and the call comes from the locker (a frame of package command's DefaultLocker).
func parkedOnLockerMutex(gid int64) bool {
	buf := make([]byte, 1<<16)
	for {
		n := runtime.Stack(buf, true)
		if n < len(buf) {
			buf = buf[:n]
			break
		}
		buf = make([]byte, 2*len(buf))
	}
	head := fmt.Sprintf("goroutine %d [", gid)
	for _, blk := range strings.Split(string(buf), "\n\n") {
		if strings.HasPrefix(blk, head) {
			return strings.HasPrefix(blk[len(head):], "sync.Mutex.Lock") && strings.Contains(blk, "sync.(*Mutex).Lock") &&
				strings.Contains(blk, "internal/engine/command.(*DefaultLocker)")
		}
	}
	return false
}

// awaitParked waits until the goroutine is parked on the locker's mutex (true) or is known to be gone (false); the
// watchdog bounds the wait.  No outcome depends on how long this takes.
func (h *lockHarness) awaitParked(gid *atomic.Int64, gone func() bool, who string) bool {
	deadline := time.Now().Add(lockWatchdog)
	for i := 0; h.dead == ""; i++ {
		if g := gid.Load(); g > 0 && parkedOnLockerMutex(g) {
			return true
		}
		if gone() {
			return false
		}
		if time.Now().After(deadline) {
			h.dead = "watchdog: " + who + " neither asked for the locker's mutex nor finished"
			return false
		}
		if i < 20 {
			runtime.Gosched()
		} else {
			time.Sleep(20 * time.Microsecond)
		}
	}
	return false
}

func (h *lockHarness) isHolder(id int) bool {
	r, ok := h.reqs[id]
	return ok && r.returned && r.err == nil && r.unlock != nil && !r.released
}

func (h *lockHarness) releaseNow(id int) bool {
	if !h.isHolder(id) {
		return false
	}
	r := h.reqs[id]
	r.released = true
	r.unlock(h.base)
	return true
}

func strs(v any) []string {
	out := []string{}
	if a, ok := v.([]any); ok {
		for _, x := range a {
			out = append(out, x.(string))
		}
	}
	return out
}

func toInt(v any) int {
	switch x := v.(type) {
	case json.Number:
		n, _ := x.Int64()
		return int(n)
	case float64:
		return int(x)
	case int:
		return x
	}
	return 0
}

func (h *lockHarness) do(op J) J {
	h.ret = map[string]any{}
	res := ""
	ho := ""
	logMsg := ""
	sub := []any{}
	switch op["op"] {
	case "arrive":
		id := toInt(op["r"])
		r := h.req(id)
		if r.arrived {
			res = "rejected"
			break
		}
		r.arrived = true
		acc := command.Accounts{Read: strs(op["read"]), Write: strs(op["write"])}
		go func() {
			r.gid.Store(goid())
			u, err := h.locker.Lock(r.ctx, acc)
			h.ev <- lockEvent{id: id, kind: "returned", unlock: u, err: err}
		}()
		parked := false
		for h.dead == "" {
			ev, ok := h.wait()
			if !ok {
				break
			}
			if ev.id == id && ev.kind == "parked" {
				parked = true
				break
			}
			h.handle(ev)
			if ev.id == id {
				break
			}
		}
		if parked {
			res = "queued"
		} else {
			res = "acquired"
		}
		// r is now either a holder or stands at the entry of its select: the held operations happen here
		if hold, ok := op["hold"].([]any); ok {
			for _, x := range hold {
				ho := x.(J)
				if ho["op"] == "release" {
					h.releaseNow(toInt(ho["r"]))
				} else {
					r.cancelled = true
					r.cancel()
				}
			}
		}
		if parked {
			r.ctx.resume <- struct{}{}
		}
		h.settle()
	case "release":
		if h.releaseNow(toInt(op["r"])) {
			res = "released"
		} else {
			res = "rejected"
		}
		h.settle()
	case "cancel":
		r := h.req(toInt(op["r"]))
		r.cancelled = true
		r.cancel()
		res = "cancelled"
		h.settle()
	case "race":
		r, b := h.req(toInt(op["r"])), toInt(op["b"])
		if !(r.arrived && !r.returned && h.isHolder(b)) {
			r.cancelled = true
			r.cancel()
			h.settle()
			if h.releaseNow(b) {
				res = "norace-released"
			} else {
				res = "norace-rejected"
			}
			h.settle()
			break
		}
		// both from their own goroutine, started together; skew only shifts the odds (yields, no sleeps)
		skew := toInt(op["skew"])
		start, done := make(chan struct{}), make(chan struct{}, 2)
		hb := h.reqs[b]
		hb.released = true
		r.cancelled = true
		go func() {
			<-start
			for i := 0; i < -skew; i++ {
				runtime.Gosched()
			}
			r.cancel()
			done <- struct{}{}
		}()
		go func() {
			<-start
			for i := 0; i < skew; i++ {
				runtime.Gosched()
			}
			hb.unlock(h.base)
			done <- struct{}{}
		}()
		close(start)
		<-done
		<-done
		res = "race"
		h.settle()
	case "handover":
		r, b := h.req(toInt(op["r"])), toInt(op["b"])
		if !(r.arrived && !r.returned && h.isHolder(b)) {
			r.cancelled = true
			r.cancel()
			h.settle()
			if h.releaseNow(b) {
				res = "norace-released"
			} else {
				res = "norace-rejected"
			}
			h.settle()
			break
		}
		hb := h.reqs[b]
		hb.released = true
		r.cancelled = true
		var relG atomic.Int64
		relDone := make(chan struct{})
		release := func() bool {
			go func() {
				relG.Store(goid())
				hb.unlock(h.base)
				close(relDone)
			}()
			return h.awaitParked(&relG, func() bool {
				select {
				case <-relDone:
					return true
				default:
					return false
				}
			}, fmt.Sprintf("the release of %d", b))
		}
		cancel := func() bool {
			r.cancel()
			return h.awaitParked(&r.gid, func() bool {
				h.drainNow()
				return r.returned
			}, fmt.Sprintf("the cancelled request %d", r.id))
		}
		mu := h.locker.VerifMu()
		mu.Lock()
		var relParked, reqParked bool
		if op["first"] == "cancel" {
			reqParked = cancel()
			relParked = release()
		} else {
			relParked = release()
			reqParked = cancel()
		}
		mu.Unlock()
		switch {
		case relParked && reqParked:
			ho = "both-parked"
		case relParked:
			ho = "request-not-parked"
		case reqParked:
			ho = "release-not-parked"
		default:
			ho = "none-parked"
		}
		if h.dead == "" {
			select {
			case <-relDone:
			case <-time.After(lockWatchdog):
				h.dead = "watchdog: an unlock function did not return"
			}
		}
		res = "handover"
		if h.dead == "" {
			h.settle()
		}
	case "arrive-during-release":
		id, b, at := toInt(op["r"]), toInt(op["b"]), toInt(op["at"])
		if at <= 0 {
			at = 2
		}
		r := h.req(id)
		if r.arrived {
			res = "rejected"
			break
		}
		r.arrived = true
		acc := command.Accounts{Read: strs(op["read"]), Write: strs(op["write"])}
		r.log.arm(at)
		go func() {
			r.gid.Store(goid())
			u, err := h.locker.Lock(r.ctx, acc)
			h.ev <- lockEvent{id: id, kind: "returned", unlock: u, err: err}
		}()
		ev := h.awaitOwn(id)
		var relDone chan struct{}
		if ev.kind == "log-parked" {
			// r stands in its at-th log call.  Start b's release and see whether it can run now.
			logMsg = ev.msg
			if h.isHolder(b) {
				hb := h.reqs[b]
				hb.released = true
				var relG atomic.Int64
				relDone = make(chan struct{})
				go func() {
					relG.Store(goid())
					hb.unlock(h.base)
					close(relDone)
				}()
				if h.awaitParked(&relG, func() bool {
					select {
					case <-relDone:
						return true
					default:
						return false
					}
				}, fmt.Sprintf("the release of %d", b)) {
					ho = "release-parked"
				} else {
					ho = "release-completed"
				}
			} else {
				ho = "not-a-holder"
			}
			r.log.resume <- struct{}{}
			if h.dead == "" {
				ev = h.awaitOwn(id)
			}
		} else if ev.kind != "dead" {
			// r made fewer log calls than that before it reached its select (or returned): the release happens here
			r.log.disarm()
			ho = "no-such-yield"
			if !h.releaseNow(b) {
				ho = "not-a-holder"
			}
		}
		if relDone != nil && h.dead == "" {
			select {
			case <-relDone:
			case <-time.After(lockWatchdog):
				h.dead = "watchdog: an unlock function did not return"
			}
		}
		if ev.kind == "parked" {
			res = "queued"
			r.ctx.resume <- struct{}{}
		} else {
			res = "acquired"
		}
		if h.dead == "" {
			h.settle()
		}
	case "drain":
		res = "drain"
		all := map[string]any{}
		for h.dead == "" {
			var hs []int
			for id := range h.reqs {
				if h.isHolder(id) {
					hs = append(hs, id)
				}
			}
			if len(hs) == 0 {
				break
			}
			sort.Ints(hs)
			h.ret = map[string]any{}
			h.releaseNow(hs[0])
			h.settle()
			sub = append(sub, J{"rel": hs[0], "ret": h.ret})
			for k, v := range h.ret {
				all[k] = v
			}
		}
		h.ret = all
	default:
		res = "unknown-op"
	}
	v := h.locker.VerifView()
	rl := J{}
	for k, c := range v.Read {
		rl[k] = strconv.FormatInt(c, 10)
	}
	q := []any{}
	for _, a := range v.Queue {
		q = append(q, []any{append([]string{}, a.Read...), append([]string{}, a.Write...)})
	}
	st := J{"res": res, "ret": h.ret, "sub": sub, "waiting": append([]int{}, h.waiting()...), "q": q, "rl": rl, "wl": v.Write}
	if ho != "" {
		st["ho"] = ho
	}
	if logMsg != "" {
		st["log"] = logMsg
	}
	return st
}

// cleanup cancels what is still waiting so that no goroutine outlives the case (best effort after a watchdog).
func (h *lockHarness) cleanup() {
	for _, r := range h.reqs {
		if r.arrived && !r.returned {
			r.cancel()
		}
	}
	deadline := time.After(time.Second)
	for len(h.waiting()) > 0 {
		select {
		case ev := <-h.ev:
			if ev.kind == "returned" {
				h.reqs[ev.id].returned = true
			}
		case <-deadline:
			return
		}
	}
}

func execLock(in J) J {
	h := newLockHarness()
	steps := []any{}
	ops, _ := in["ops"].([]any)
	for _, o := range ops {
		steps = append(steps, h.do(o.(J)))
		if h.dead != "" {
			break
		}
	}
	out := J{"steps": steps}
	if h.dead != "" {
		out["dead"] = h.dead
	}
	h.cleanup()
	return out
}

// ---------------------------------------------------------------- generator

type gReq struct {
	id          int
	read, write []string
}

func gConflict(x, y *gReq) bool {
	in := func(a string, l []string) bool {
		for _, b := range l {
			if a == b {
				return true
			}
		}
		return false
	}
	for _, a := range x.write {
		if in(a, y.read) || in(a, y.write) {
			return true
		}
	}
	for _, a := range y.write {
		if in(a, x.read) || in(a, x.write) {
			return true
		}
	}
	return false
}

// genSim is a rough picture of who holds and who waits, used ONLY to choose operations that mean something
// (release a holder, cancel a waiter, make a grant coincide with a cancellation); it is not compared with anything.
type genSim struct {
	holders, waitq []*gReq
}

func (g *genSim) compatible(r *gReq) bool {
	for _, h := range g.holders {
		if gConflict(r, h) {
			return false
		}
	}
	return true
}
func (g *genSim) recheck() {
	var rest []*gReq
	for _, w := range g.waitq {
		if g.compatible(w) {
			g.holders = append(g.holders, w)
		} else {
			rest = append(rest, w)
		}
	}
	g.waitq = rest
}
func (g *genSim) drop(l []*gReq, id int) []*gReq {
	var out []*gReq
	for _, x := range l {
		if x.id != id {
			out = append(out, x)
		}
	}
	return out
}

func genLock(r *rng, n int, tier string, emit func(J)) {
	r = r.fork() // main's initial state is linear in the seed (seed k+1 = seed k shifted by one draw): decorrelate
	maxOps, maxNondet := 12, 3
	if tier == "thorough" {
		maxOps, maxNondet = 40, 4
	}
	pool := []string{"a", "b", "c", "d", "e", "f"}
	for i := 0; i < n; i++ {
		nacc := 1 + r.n(6)
		if r.p(50) {
			nacc = 1 + r.n(3) // few accounts: many conflicts
		}
		accts := pool[:nacc]
		set := func(max int) []string {
			k := r.n(max + 1)
			out := []string{}
			for j := 0; j < k; j++ {
				if len(out) > 0 && r.p(12) {
					out = append(out, out[r.n(len(out))]) // duplicate
				} else {
					out = append(out, r.pick(accts))
				}
			}
			return out
		}
		sim := &genSim{}
		nops := 3 + r.n(maxOps-2)
		next, nondet := 0, 0
		ops := []any{}
		blockersOf := func(w *gReq) []*gReq {
			var bs []*gReq
			for _, hd := range sim.holders {
				if gConflict(w, hd) {
					bs = append(bs, hd)
				}
			}
			return bs
		}
		// handover of waiter w (nil: choose one) with one of its blockers; needs a waiter and a holder
		handover := func(w *gReq) {
			first := "release"
			if r.p(30) {
				first = "cancel"
			}
			if w == nil {
				var single []*gReq
				for _, x := range sim.waitq {
					if len(blockersOf(x)) == 1 {
						single = append(single, x)
					}
				}
				w = sim.waitq[r.n(len(sim.waitq))]
				if len(single) > 0 && !r.p(20) {
					w = single[r.n(len(single))]
				}
			}
			cand := blockersOf(w)
			if len(cand) == 0 || r.p(5) {
				cand = sim.holders
			}
			b := cand[r.n(len(cand))]
			ops = append(ops, J{"op": "handover", "r": w.id, "b": b.id, "first": first})
			sim.holders = sim.drop(sim.holders, b.id)
			sim.waitq = sim.drop(sim.waitq, w.id)
			sim.recheck()
		}
		for idle := 0; len(ops) < nops-1 && idle < 4; {
			c := r.n(100)
			// nothing meaningful left for this kind of operation: draw again (a few bogus operations stay in)
			if (c < 43 && next >= 8) || (c >= 43 && c < 70 && len(sim.holders) == 0 && !r.p(8)) ||
				(c >= 70 && c < 80 && len(sim.waitq) == 0 && !r.p(15)) ||
				(c >= 88 && c < 97 && (len(sim.waitq) == 0 || len(sim.holders) == 0) && !r.p(4)) {
				idle++
				continue
			}
			idle = 0
			switch {
			case c < 43 && next < 8:
				q := &gReq{id: next, read: set(3), write: set(2)}
				if r.p(15) && len(q.read) > 0 {
					q.write = append(q.write, q.read[0]) // an account in both sets
				}
				if r.p(6) {
					q.read, q.write = []string{}, []string{}
				}
				next++
				op := J{"op": "arrive", "r": q.id, "read": q.read, "write": q.write}
				if r.p(4) { // context cancelled before the call
					ops = append(ops, J{"op": "cancel", "r": q.id})
					if sim.compatible(q) {
						sim.holders = append(sim.holders, q)
					}
					ops = append(ops, op)
					continue
				}
				// a release that runs while the newcomer is inside Lock, between two of its steps (arrive-during-release): mostly
				// for a newcomer that has to wait behind the holder that releases (the release has to grant it), at the log
				// call made after the failed check (the 2nd); sometimes at the first call or at one the path may not have;
				// sometimes for a newcomer that is served at once
				duringRelease := func(b *gReq, at int) {
					ops = append(ops, J{"op": "arrive-during-release", "r": q.id, "read": q.read, "write": q.write, "b": b.id, "at": at})
					if sim.compatible(q) {
						sim.holders = append(sim.holders, q)
					} else {
						sim.waitq = append(sim.waitq, q)
					}
					sim.holders = sim.drop(sim.holders, b.id)
					sim.recheck()
				}
				if sim.compatible(q) {
					if len(sim.holders) > 0 && r.p(10) {
						duringRelease(sim.holders[r.n(len(sim.holders))], 1+r.n(3))
						continue
					}
					sim.holders = append(sim.holders, q)
					ops = append(ops, op)
					continue
				}
				if bs := blockersOf(q); r.p(35) {
					at := 2
					if r.p(25) {
						at = 1 + r.n(3)
					}
					duringRelease(bs[r.n(len(bs))], at)
					continue
				}
				// q will wait; sometimes let a release and q's cancellation happen while q stands at its select
				var blockers []*gReq
				for _, hd := range sim.holders {
					if gConflict(q, hd) {
						blockers = append(blockers, hd)
					}
				}
				if r.p(40) && nondet < maxNondet {
					hold := []any{}
					rel := func() {
						for _, b := range blockers {
							hold = append(hold, J{"op": "release", "r": b.id})
							sim.holders = sim.drop(sim.holders, b.id)
						}
					}
					switch r.n(6) {
					case 0:
						hold = append(hold, J{"op": "cancel"})
					case 1:
						rel()
					case 2:
						hold = append(hold, J{"op": "cancel"})
						rel()
					default:
						rel()
						hold = append(hold, J{"op": "cancel"})
					}
					op["hold"] = hold
					nondet++
					// outcome unknown here: assume one
					sim.waitq = append(sim.waitq, q)
					sim.recheck()
					if r.p(50) {
						sim.holders = sim.drop(sim.holders, q.id)
						sim.waitq = sim.drop(sim.waitq, q.id)
						sim.recheck()
					}
				} else {
					sim.waitq = append(sim.waitq, q)
					if r.p(32) { // the newcomer is cancelled while (one of) its blocker(s) releases
						ops = append(ops, op)
						handover(q)
						continue
					}
				}
				ops = append(ops, op)
			case c < 70:
				if len(sim.holders) > 0 && !r.p(5) {
					b := sim.holders[r.n(len(sim.holders))]
					sim.holders = sim.drop(sim.holders, b.id)
					sim.recheck()
					ops = append(ops, J{"op": "release", "r": b.id})
				} else {
					ops = append(ops, J{"op": "release", "r": r.n(9)}) // anybody: mostly not a holder
				}
			case c < 80:
				if len(sim.waitq) > 0 && !r.p(15) {
					w := sim.waitq[r.n(len(sim.waitq))]
					sim.waitq = sim.drop(sim.waitq, w.id)
					ops = append(ops, J{"op": "cancel", "r": w.id})
				} else if next > 0 {
					ops = append(ops, J{"op": "cancel", "r": r.n(next)}) // holder, finished or waiting
					sim.waitq = sim.drop(sim.waitq, toInt(ops[len(ops)-1].(J)["r"]))
				}
			case c < 88:
				if len(sim.waitq) > 0 && len(sim.holders) > 0 && nondet < maxNondet {
					w := sim.waitq[r.n(len(sim.waitq))]
					var cand []*gReq
					for _, hd := range sim.holders {
						if gConflict(w, hd) {
							cand = append(cand, hd)
						}
					}
					if len(cand) == 0 {
						cand = sim.holders
					}
					b := cand[r.n(len(cand))]
					nondet++
					ops = append(ops, J{"op": "race", "r": w.id, "b": b.id, "skew": r.n(7) - 3})
					sim.holders = sim.drop(sim.holders, b.id)
					sim.waitq = sim.drop(sim.waitq, w.id)
					sim.recheck()
				}
			case c < 97:
				// a cancellation while a release is in progress, the order at the locker's mutex forced (deterministic:
				// does not count as a nondeterministic operation).  Preferred: a waiter with exactly one blocker, so that
				// the release grants it and its cancellation path runs having been granted.
				if len(sim.waitq) == 0 || len(sim.holders) == 0 {
					first := "release"
					if r.p(30) {
						first = "cancel"
					}
					ops = append(ops, J{"op": "handover", "r": r.n(next + 1), "b": r.n(9), "first": first}) // not a handover: anybody
					break
				}
				handover(nil)
			default:
				if r.p(30) {
					ops = append(ops, J{"op": "drain"})
					sim.holders, sim.waitq = nil, nil
				}
			}
		}
		ops = append(ops, J{"op": "drain"})
		emit(J{"ops": ops})
	}
}
