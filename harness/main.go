// Command verifharness is compiled INTO /repo's module (go build -overlay, see vlib/common.py) from /repo's
// current working tree.  It runs the real code in-process and speaks a JSON-lines protocol through files
// (never stdout: Numscript `print` and the VM's default printer write there).
//
//	verifharness <area> gen  -seed S -n N -tier quick|thorough -out inputs.jsonl
//	verifharness <area> exec -in inputs.jsonl -out impl.jsonl
package main

import (
	"bytes"
	"bufio"
	"encoding/json"
	"flag"
	"fmt"
	"os"
	"sort"
)

type J = map[string]any

type area struct {
	// gen writes input cases (each a J with a unique integer "id")
	gen func(r *rng, n int, tier string, emit func(J))
	// exec runs one input on the real code and returns the canonical output object
	exec func(in J) J
	// custom, when set, takes over completely (schedule exploration etc.)
	custom func(args []string) int
}

var areas = map[string]*area{}

// genArg: an optional free-form argument of `gen` (-arg), for generators that produce one of several streams on request
var genArg string

func register(name string, a *area) { areas[name] = a }

// ---- splitmix64: every random choice of a run derives from one seed
type rng struct{ s uint64 }

func (r *rng) next() uint64 {
	r.s += 0x9e3779b97f4a7c15
	z := r.s
	z = (z ^ (z >> 30)) * 0xbf58476d1ce4e5b9
	z = (z ^ (z >> 27)) * 0x94d049bb133111eb
	return z ^ (z >> 31)
}
func (r *rng) n(k int) int {
	if k <= 0 {
		return 0
	}
	return int(r.next() % uint64(k))
}
func (r *rng) p(pct int) bool         { return r.n(100) < pct }
func (r *rng) pick(xs []string) string { return xs[r.n(len(xs))] }
func (r *rng) fork() *rng             { return &rng{s: r.next()} }

// seededRng mixes the seed so that neighbouring seeds give unrelated streams (the raw splitmix64 increment would
// make seed k+1 the stream of seed k shifted by one draw).
func seededRng(seed uint64) *rng {
	r := &rng{s: (seed + 1) * 0xD6E8FEB86659FD93}
	r.next()
	return r.fork()
}

type lineWriter struct {
	f *os.File
	w *bufio.Writer
}

func newLineWriter(path string) *lineWriter {
	f, err := os.Create(path)
	if err != nil {
		fmt.Fprintln(os.Stderr, err)
		os.Exit(2)
	}
	return &lineWriter{f: f, w: bufio.NewWriterSize(f, 1<<20)}
}
func (l *lineWriter) emit(j J) {
	b, err := json.Marshal(j)
	if err != nil {
		panic(err)
	}
	l.w.Write(b)
	l.w.WriteByte('\n')
}
func (l *lineWriter) close() { l.w.Flush(); l.f.Close() }

func readLines(path string, f func(J)) {
	fh, err := os.Open(path)
	if err != nil {
		fmt.Fprintln(os.Stderr, err)
		os.Exit(2)
	}
	defer fh.Close()
	sc := bufio.NewScanner(fh)
	sc.Buffer(make([]byte, 1<<20), 1<<28)
	for sc.Scan() {
		if len(sc.Bytes()) == 0 {
			continue
		}
		var j J
		dec := json.NewDecoder(bytes.NewReader(sc.Bytes()))
		dec.UseNumber()
		if err := dec.Decode(&j); err != nil {
			fmt.Fprintln(os.Stderr, "bad input line:", err)
			os.Exit(2)
		}
		f(j)
	}
}

// safeExec maps a Go panic in the code under test to the outcome "panic" (the process must survive).
func safeExec(f func(J) J, in J) (out J) {
	defer func() {
		if e := recover(); e != nil {
			out = J{"panic": fmt.Sprint(e)}
		}
	}()
	return f(in)
}

func sortedKeys[V any](m map[string]V) []string {
	ks := make([]string, 0, len(m))
	for k := range m {
		ks = append(ks, k)
	}
	sort.Strings(ks)
	return ks
}

func main() {
	if len(os.Args) < 2 {
		names := sortedKeys(areas)
		fmt.Fprintln(os.Stderr, "usage: verifharness <area> gen|exec ...; areas:", names)
		os.Exit(2)
	}
	a, ok := areas[os.Args[1]]
	if !ok {
		fmt.Fprintln(os.Stderr, "unknown area", os.Args[1])
		os.Exit(2)
	}
	if a.custom != nil {
		os.Exit(a.custom(os.Args[2:]))
	}
	if len(os.Args) < 3 {
		os.Exit(2)
	}
	fs := flag.NewFlagSet(os.Args[1], flag.ExitOnError)
	seed := fs.Uint64("seed", 1, "")
	n := fs.Int("n", 100, "")
	tier := fs.String("tier", "quick", "")
	in := fs.String("in", "", "")
	out := fs.String("out", "", "")
	arg := fs.String("arg", "", "")
	fs.Parse(os.Args[3:])
	genArg = *arg
	switch os.Args[2] {
	case "gen":
		w := newLineWriter(*out)
		id := 0
		a.gen(seededRng(*seed), *n, *tier, func(j J) {
			j["id"] = id
			id++
			w.emit(j)
		})
		w.close()
	case "exec":
		w := newLineWriter(*out)
		readLines(*in, func(j J) {
			o := safeExec(a.exec, j)
			w.emit(J{"id": j["id"], "out": o})
			w.w.Flush()
		})
		w.close()
	default:
		os.Exit(2)
	}
}
