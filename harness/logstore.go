package main

// The `logs` table behind a REAL ledgerstore.Store (C13): what Store.InsertLogs hands to the database IS the stored row.
//
// lsTable is a database/sql driver that plays one table.  The real Store (ledgerstore.NewForVerif over bun + pgdialect
// over this driver) writes to it with its own InsertLogs — a bun transaction, `COPY "<bucket>"."logs" (columns…) FROM
// STDIN` prepared through lib/pq's CopyInSchema text, one Exec per log, an empty Exec, Commit — and reads from it with
// its own GetLastLog / ReadLogWithIdempotencyKey / GetLogs (bun renders the SELECT with every argument inlined; the driver
// evaluates the one shape those methods produce and refuses anything else).  Nothing of InsertLogs is re-implemented
// here: the harness only sees the arguments of the Exec calls, after database/sql has applied the driver.Valuer of each
// (bunpaginate.BigInt -> decimal text, ledger.Time -> RFC 3339 text, ledgerstore.RawMessage -> text), which is what
// lib/pq would put on the wire.
//
// What PostgreSQL (and lib/pq on the way back) does with a value is the part that cannot be executed here and is
// written down in lsSelectRow, column by column of `create table logs` (0-init-schema.sql):
//   ledger varchar, idempotency_key varchar(n)  the text, unchanged (the LENGTH LIMIT IS NOT ENFORCED HERE: PostgreSQL refuses a
//                                               longer key — "value too long for type character varying(n)" —, the table
//                                               of this file keeps it, so that the row can be compared with the entry
//                                               that was hashed; checks/c13.py reports n and the assumption)
//   id numeric                                  the decimal text, handed back as bytes
//   type log_type                               the label, handed back as bytes
//   hash bytea                                  the bytes
//   date timestamp (WITHOUT time zone)          the wall-clock reading of the text, the offset is dropped, microseconds;
//                                               lib/pq hands back a time.Time at offset 0
//   data jsonb                                  the text (lsJsonb = true: re-written the way jsonb prints it: keys ordered
//                                               by length then bytewise, `: ` and `, `)
// Rows come back in insertion order (`seq bigserial`).

import (
	"context"
	"database/sql"
	"database/sql/driver"
	"encoding/hex"
	"fmt"
	"math/big"
	"regexp"
	"sort"
	"strings"
	"sync"
	"time"

	ledger "github.com/formancehq/ledger/internal"
	"github.com/formancehq/ledger/internal/storage/ledgerstore"
	"github.com/formancehq/stack/libs/go-libs/bun/bunpaginate"
	"github.com/uptrace/bun"
	"github.com/uptrace/bun/dialect/pgdialect"
)

const (
	lsBucket = "b0"
	lsLedger = "l"
)

var lsColumns = []string{"ledger", "id", "type", "hash", "date", "data", "idempotency_key"}

type lsStored map[string]driver.Value // column -> the argument InsertLogs passed for it

func (r lsStored) text(col string) string {
	switch v := r[col].(type) {
	case string:
		return v
	case []byte:
		return string(v)
	case nil:
		return ""
	default:
		return fmt.Sprint(v)
	}
}

type lsTable struct {
	mu      sync.Mutex
	rows    []lsStored
	copies  []string // COPY statements prepared
	selects []string // SELECT texts received
	refused []string // statements the table could not play (reported, never guessed)
	jsonb   bool     // hand `data` back the way jsonb prints it
}

type lsDrv struct{}

func (lsDrv) Open(string) (driver.Conn, error) { return nil, fmt.Errorf("logs table: open through the connector") }

func (t *lsTable) Connect(context.Context) (driver.Conn, error) { return &lsConn{t: t}, nil }
func (t *lsTable) Driver() driver.Driver                        { return lsDrv{} }

type lsConn struct {
	t       *lsTable
	inTx    bool
	pending []lsStored
}

var lsCopyRe = regexp.MustCompile(`^COPY "([^"]*)"\."([^"]*)" \(([^)]*)\) FROM STDIN$`)

func (c *lsConn) Prepare(q string) (driver.Stmt, error) {
	m := lsCopyRe.FindStringSubmatch(q)
	if m == nil || m[2] != ledgerstore.LogTableName {
		c.t.refuse("PREPARE " + q)
		return nil, fmt.Errorf("logs table: cannot play %q", q)
	}
	cols := []string{}
	for _, x := range strings.Split(m[3], ", ") {
		cols = append(cols, strings.Trim(x, `"`))
	}
	c.t.mu.Lock()
	c.t.copies = append(c.t.copies, q)
	c.t.mu.Unlock()
	return &lsCopy{c: c, schema: m[1], cols: cols}, nil
}
func (c *lsConn) Close() error { return nil }
func (c *lsConn) Begin() (driver.Tx, error) {
	c.inTx, c.pending = true, nil
	return c, nil
}
func (c *lsConn) Commit() error {
	c.t.mu.Lock()
	c.t.rows = append(c.t.rows, c.pending...)
	c.t.mu.Unlock()
	c.inTx, c.pending = false, nil
	return nil
}
func (c *lsConn) Rollback() error {
	c.inTx, c.pending = false, nil
	return nil
}
func (t *lsTable) refuse(q string) {
	t.mu.Lock()
	t.refused = append(t.refused, q)
	t.mu.Unlock()
}

type lsCopy struct {
	c      *lsConn
	schema string
	cols   []string
	ended  bool
}

func (s *lsCopy) Close() error  { return nil }
func (s *lsCopy) NumInput() int { return -1 }
func (s *lsCopy) Query([]driver.Value) (driver.Rows, error) {
	return nil, fmt.Errorf("logs table: a COPY statement is not a query")
}
func (s *lsCopy) Exec(args []driver.Value) (driver.Result, error) {
	if s.ended {
		return nil, fmt.Errorf("logs table: copyin statement has already been closed")
	}
	if len(args) == 0 {
		s.ended = true
		return driver.RowsAffected(0), nil
	}
	if len(args) != len(s.cols) {
		return nil, fmt.Errorf("logs table: %d values for %d columns", len(args), len(s.cols))
	}
	row := lsStored{}
	for i, a := range args {
		if b, ok := a.([]byte); ok {
			a = append([]byte{}, b...)
		}
		row[s.cols[i]] = a
	}
	row["(schema)"] = s.schema
	if s.c.inTx {
		s.c.pending = append(s.c.pending, row)
	} else {
		s.c.t.mu.Lock()
		s.c.t.rows = append(s.c.t.rows, row)
		s.c.t.mu.Unlock()
	}
	return driver.RowsAffected(0), nil
}

// ---------------------------------------------------------------- the row as a SELECT hands it back

// lsTimestamp: `timestamp without time zone` input — date and time of day are taken as written, a zone is ignored;
// microsecond resolution (half away from zero; the dates InsertLogs receives are on a microsecond already)
func lsTimestamp(text string) (time.Time, error) {
	t, err := time.Parse(time.RFC3339Nano, text)
	if err != nil {
		return time.Time{}, fmt.Errorf("invalid input syntax for type timestamp: %q", text)
	}
	wall := time.Date(t.Year(), t.Month(), t.Day(), t.Hour(), t.Minute(), t.Second(), t.Nanosecond(), time.UTC)
	return wall.Round(time.Microsecond), nil
}

var lsSelectCols = []string{"seq", "ledger", "id", "type", "hash", "date", "data", "idempotency_key"}

func (t *lsTable) lsSelectRow(seq int, r lsStored) ([]driver.Value, error) {
	date, err := lsTimestamp(r.text("date"))
	if err != nil {
		return nil, err
	}
	if _, ok := new(big.Int).SetString(r.text("id"), 10); !ok {
		return nil, fmt.Errorf("invalid input syntax for type numeric: %q", r.text("id"))
	}
	hash, ok := r["hash"].([]byte)
	if !ok && r["hash"] != nil {
		hash = []byte(r.text("hash"))
	}
	data := []byte(r.text("data"))
	if t.jsonb {
		data = lrJsonb(data)
	}
	return []driver.Value{int64(seq + 1), r.text("ledger"), []byte(r.text("id")), []byte(r.text("type")), append([]byte{}, hash...),
		date, data, r.text("idempotency_key")}, nil
}

// lsRowOf scans the row into the store's own row type the way bun does it for a SELECT (sql.Scanner of each field type)
func (t *lsTable) lsRowOf(i int) (row ledgerstore.Logs, err error) {
	t.mu.Lock()
	vals, err := t.lsSelectRow(i, t.rows[i])
	t.mu.Unlock()
	if err != nil {
		return row, err
	}
	row.Ledger = vals[1].(string)
	row.ID = bunpaginate.NewInt()
	if err = row.ID.Scan(vals[2]); err != nil {
		return row, err
	}
	row.Type = string(vals[3].([]byte))
	row.Hash = vals[4].([]byte)
	if err = row.Date.Scan(vals[5]); err != nil {
		return row, err
	}
	row.Data = vals[6].([]byte)
	row.IdempotencyKey = vals[7].(string)
	return row, nil
}

// lsCore: row i read back — Logs.ToCore of the scanned row; a panic of ToCore (hydration error) is an outcome
func (t *lsTable) lsCore(i int) (core *ledger.ChainedLog, err error) {
	defer func() {
		if e := recover(); e != nil {
			core, err = nil, fmt.Errorf("panic: %v", e)
		}
	}()
	row, err := t.lsRowOf(i)
	if err != nil {
		return nil, err
	}
	return row.ToCore(), nil
}

func (t *lsTable) n() int {
	t.mu.Lock()
	defer t.mu.Unlock()
	return len(t.rows)
}

// lsColsJ: the arguments of row i, canonical (what the differential with the Lean model of the row compares)
func (t *lsTable) lsColsJ(i int) J {
	t.mu.Lock()
	r := t.rows[i]
	t.mu.Unlock()
	h := ""
	if b, ok := r["hash"].([]byte); ok {
		h = hex.EncodeToString(b)
	} else {
		h = "not-bytes:" + r.text("hash")
	}
	out := J{"ledger": r.text("ledger"), "id": r.text("id"), "type": r.text("type"), "hash": h, "date": r.text("date"), "ik": r.text("idempotency_key")}
	if r.text("(schema)") != lsBucket {
		out["schema"] = r.text("(schema)")
	}
	for _, c := range lsColumns {
		if _, ok := r[c]; !ok {
			out["missing"] = c
		}
	}
	if len(r) != len(lsColumns)+1 {
		out["columns"] = len(r) - 1
	}
	return out
}

// ---------------------------------------------------------------- the SELECT shapes of the store's log reads

// SELECT * FROM "logs" WHERE (col = 'literal') [AND (…)]… ORDER BY id desc|asc LIMIT n — conditions: ledger / idempotency_key equal to a
// literal, id compared with a number.  GetLastLog, ReadLogWithIdempotencyKey and GetLogs (every page) have this shape; anything else is refused.
var (
	lsSelRe  = regexp.MustCompile(`(?is)^SELECT \* FROM "logs" WHERE (.*?) ORDER BY "?id"? (desc|asc) LIMIT (\d+)$`)
	lsCondRe = regexp.MustCompile(`(?s)^\((?:(idempotency_key|ledger) = '((?:[^']|'')*)'|"?id"? (<=|>=|<|>) '?(\d+)'?)\)(?: AND (.*))?$`)
)

func (c *lsConn) QueryContext(ctx context.Context, q string, args []driver.NamedValue) (driver.Rows, error) {
	t := c.t
	t.mu.Lock()
	t.selects = append(t.selects, q)
	t.mu.Unlock()
	m := lsSelRe.FindStringSubmatch(q)
	if m == nil || len(args) != 0 {
		t.refuse(q)
		return nil, fmt.Errorf("logs table: cannot play %q", q)
	}
	type bound struct {
		op string
		n  *big.Int
	}
	want := map[string]string{}
	var bounds []bound
	for rest := m[1]; rest != ""; {
		cm := lsCondRe.FindStringSubmatch(rest)
		if cm == nil {
			t.refuse(q)
			return nil, fmt.Errorf("logs table: cannot play the condition %q", rest)
		}
		if cm[1] != "" {
			want[cm[1]] = strings.ReplaceAll(cm[2], "''", "'")
		} else {
			n, _ := new(big.Int).SetString(cm[4], 10)
			bounds = append(bounds, bound{cm[3], n})
		}
		rest = cm[5]
	}
	limit := 0
	fmt.Sscan(m[3], &limit)
	t.mu.Lock()
	rows := append([]lsStored{}, t.rows...)
	t.mu.Unlock()
	type hit struct {
		i  int
		id *big.Int
	}
	var hits []hit
	for i, r := range rows {
		ok := true
		for col, v := range want {
			if r.text(col) != v {
				ok = false
			}
		}
		id, _ := new(big.Int).SetString(r.text("id"), 10)
		if id == nil {
			id = big.NewInt(-1)
		}
		for _, b := range bounds {
			cmp := id.Cmp(b.n)
			if (b.op == "<=" && cmp > 0) || (b.op == ">=" && cmp < 0) || (b.op == "<" && cmp >= 0) || (b.op == ">" && cmp <= 0) {
				ok = false
			}
		}
		if ok {
			hits = append(hits, hit{i, id})
		}
	}
	desc := strings.EqualFold(m[2], "desc")
	sort.SliceStable(hits, func(a, b int) bool {
		if desc {
			return hits[a].id.Cmp(hits[b].id) > 0
		}
		return hits[a].id.Cmp(hits[b].id) < 0
	})
	if len(hits) > limit {
		hits = hits[:limit]
	}
	out := &sqtRows{cols: lsSelectCols}
	for _, h := range hits {
		vals, err := t.lsSelectRow(h.i, rows[h.i])
		if err != nil {
			return nil, err
		}
		out.vals = append(out.vals, vals)
	}
	return out, nil
}

func (c *lsConn) ExecContext(ctx context.Context, q string, args []driver.NamedValue) (driver.Result, error) {
	c.t.refuse("EXEC " + q)
	return nil, fmt.Errorf("logs table: cannot play %q", q)
}

// ---------------------------------------------------------------- a store over a fresh table

type lsStore struct {
	t  *lsTable
	st *ledgerstore.Store
	db *bun.DB
}

func lsOpen() *lsStore {
	t := &lsTable{}
	db := bun.NewDB(sql.OpenDB(t), pgdialect.New(), bun.WithDiscardUnknownColumns())
	return &lsStore{t: t, st: ledgerstore.NewForVerif(db, lsBucket, lsLedger), db: db}
}

func (s *lsStore) close() { _ = s.db.Close() }

// insert runs the real InsertLogs; a panic of it (it has none on the unchanged code) is an outcome
func (s *lsStore) insert(logs ...*ledger.ChainedLog) (err error) {
	defer func() {
		if e := recover(); e != nil {
			err = fmt.Errorf("panic: %v", e)
		}
	}()
	return s.st.InsertLogs(context.Background(), logs...)
}

func lsGuardRead(f func() (*ledger.ChainedLog, error)) (core *ledger.ChainedLog, err error) {
	defer func() {
		if e := recover(); e != nil {
			core, err = nil, fmt.Errorf("panic: %v", e)
		}
	}()
	return f()
}

func (s *lsStore) lastLog() (*ledger.ChainedLog, error) {
	return lsGuardRead(func() (*ledger.ChainedLog, error) { return s.st.GetLastLog(context.Background()) })
}

// list: GetLogs, one page large enough for everything (newest first)
func (s *lsStore) list(pageSize uint64) (out []ledger.ChainedLog, err error) {
	defer func() {
		if e := recover(); e != nil {
			out, err = nil, fmt.Errorf("panic: %v", e)
		}
	}()
	cur, err := s.st.GetLogs(context.Background(), ledgerstore.NewGetLogsQuery(ledgerstore.NewPaginatedQueryOptions[any](nil).WithPageSize(pageSize)))
	if err != nil {
		return nil, err
	}
	return cur.Data, nil
}

func (s *lsStore) byKey(key string) (*ledger.ChainedLog, error) {
	return lsGuardRead(func() (*ledger.ChainedLog, error) { return s.st.ReadLogWithIdempotencyKey(context.Background(), key) })
}
