import Driver.Util
import Driver.Skeleton
import Driver.SkelReplay
/-! `driver_skel <area>`: like `driver`, for the areas that need `Generated/Commander.lean` (its own executable, so that a
commander the translator cannot read only stops the skeleton obligations, not the trace validation of the engine checks). -/
open Lean Driver

partial def loopSkel (h : IO.FS.Stream) (out : IO.FS.Stream) (f : Handler) : IO Unit := do
  let line ← h.getLine
  if line.isEmpty then return ()
  let t := line.trimAscii.toString
  if t.isEmpty then loopSkel h out f else
  let res : Json := match Json.parse t with
    | .error e => Json.mkObj [("id", Json.null), ("out", Json.mkObj [("driver_error", Json.str e)])]
    | .ok j =>
      let id := (j.getObjVal? "id").toOption.getD Json.null
      match f j with
      | .ok o => Json.mkObj [("id", id), ("out", o)]
      | .error e => Json.mkObj [("id", id), ("out", Json.mkObj [("driver_error", Json.str e)])]
  out.putStrLn res.compress
  loopSkel h out f

def main (args : List String) : IO UInt32 := do
  let areas : List (String × Handler) := [("skelpaths", SkelD.handlePaths), ("skelsummary", SkelD.handleSummary),
    ("skelreplay", SkelReplayD.handleReplay)]
  match args with
  | [area] =>
    match areas.find? (·.1 == area) with
    | some (_, f) =>
      loopSkel (← IO.getStdin) (← IO.getStdout) f
      (← IO.getStdout).flush
      return 0
    | none => IO.eprintln s!"unknown area {area}"; return 2
  | _ => IO.eprintln "usage: driver_skel <area>"; return 2
