import Model.Log.Chain
import Lemmas.LogEncode
import Lemmas.LogTimeAccept
/-! C13 — every log entry can be read back and re-verified.

Model D (`Model/Log/*`): `toJson`/`fromJson` are `json.Marshal` / `ChainedLog.UnmarshalJSON` (→ `HydrateLog` →
per-payload unmarshallers → `ParseTime`) at tree level, `toRow`/`toCore` are the row `InsertLogs` writes and
`Logs.ToCore`, `chainLog`/`computeHash` are `Log.ChainLog` / `ChainedLog.ComputeHash`.  The model is the *repaired*
code (fixes/c13-hydrate-delete-metadata.diff: `HydrateLog` knows `DELETE_METADATA`, its payload decodes `targetId`
by target type; fixes/c13-parsetime-readable.diff: `ParseTime` refuses what `Format` would print unreadably;
fixes/c04-parsetime-utc.diff: `ParseTime` converts to UTC).
The tie to the Go code — trees, exact bytes, SHA-256, hashes along chains — is the differential of checks/c13.py.

`WF` (Model/Log/Encode.lean) is decidable and says exactly what the decoder preserves:
* timestamps (`TimeWF`): UTC, on a microsecond, calendar fields in range, year 0…9999 — `accepted_wf`: every
  timestamp `ParseTime` accepts is of this kind (whatever offset up to ±24:60 it was written with: `ParseTime` converts
  to UTC, `accepted_instant`: keeping the instant), so "every timestamp the API accepts" is covered; log dates come
  from `Now()` and are of this kind;
* metadata maps are lists with strictly increasing keys (what a Go map marshals to);
* a set- or delete-metadata target is an account address under `"ACCOUNT"` or a transaction id in `[0, 2^64)` under
  `"TRANSACTION"` (`strconv.ParseUint(…, 10, 64)`; ids are allocated from 0 upwards).
Nothing is assumed about ids, hashes, strings, amounts (any integer), the number of postings or the chain length.
The hash function is a parameter: the statements are equational, no collision-freeness is used. -/
namespace C13
open LogM

/-- a UTC timestamp on a microsecond is printed and parsed back unchanged -/
theorem time_roundtrip (t : Time) (wf : TimeWF t) : parseTime (formatTime t) = .ok t :=
  parseTime_formatTime t wf

/-- every timestamp the API accepts (`ParseTime` = `time.Parse(RFC3339Nano)`, rounding to the microsecond, conversion
to UTC, refusal of what could not be printed readably) is a well-formed time: so `time_roundtrip` and `roundtrip` cover
them all.  This rests on the calendar arithmetic of the conversion being right for EVERY instant and offset
(`utc_reading_wf` below). -/
theorem accepted_wf (s : String) (t : Time) (h : parseTime s = .ok t) : TimeWF t :=
  parseTime_wf s t h

/-- the reading at any offset of any instant (seconds since the epoch, any integer) is a calendar date and a time of day:
month 1…12, day 1…length of that month in that year (leap years included), hour ≤ 23, minute and second ≤ 59 -/
theorem utc_reading_wf (secs : Int) (nanos : Nat) (off : Int) :
    1 ≤ (Time.ofUnix secs nanos off).month ∧ (Time.ofUnix secs nanos off).month ≤ 12 ∧
    1 ≤ (Time.ofUnix secs nanos off).day ∧
    (Time.ofUnix secs nanos off).day ≤ daysIn (Time.ofUnix secs nanos off).month (Time.ofUnix secs nanos off).year ∧
    (Time.ofUnix secs nanos off).hour ≤ 23 ∧ (Time.ofUnix secs nanos off).min ≤ 59 ∧ (Time.ofUnix secs nanos off).sec ≤ 59 ∧
    (Time.ofUnix secs nanos off).nanos = nanos ∧ (Time.ofUnix secs nanos off).off = off :=
  ofUnix_valid secs nanos off

/-- … and denotes that instant: days ↔ civil date are inverse to each other for every day number -/
theorem utc_reading_same_instant (secs : Int) (nanos : Nat) (off : Int) : (Time.ofUnix secs nanos off).unixSec = secs :=
  unixSec_ofUnix secs nanos off

theorem civil_date_roundtrip (z : Int) :
    daysFromCivil (civilFromDays z).1 (civilFromDays z).2.1 (civilFromDays z).2.2 = z :=
  daysFromCivil_civilFromDays z

/-- what `ParseTime` does with the offset the client wrote: the accepted time is the reading AT OFFSET 0 of the same
instant (the parsed time rounded to the microsecond) -/
theorem accepted_instant (s : String) (t0 t : Time) (h0 : parseRaw s.toList = .ok t0) (h : parseTime s = .ok t) :
    t.unixSec = (roundMicro t0).unixSec ∧ t.nanos = (roundMicro t0).nanos ∧ t.off = 0 := by
  simp only [parseTime, h0] at h
  split at h
  · injection h with h; subst h; exact toUTC_instant _
  · contradiction

/-- … and is therefore written and read back unchanged -/
theorem accepted_roundtrip (s : String) (t : Time) (h : parseTime s = .ok t) : parseTime (formatTime t) = .ok t :=
  time_roundtrip t (accepted_wf s t h)

/-- what `MapWF` asks of a metadata map, readably: keys strictly increasing (the order in which Go writes a map) -/
theorem sorted_keys_wf {α} [DecidableEq α] (l : List (String × α)) (h : l.Pairwise (fun a b => a.1 < b.1)) : MapWF l :=
  mapWF_of_sorted l h

/-- every kind of log entry — new transaction, revert, set / delete metadata, on accounts and on transactions —
decodes from its JSON form to itself -/
theorem roundtrip (l : CLog) (wf : WF l) : fromJson (toJson l) = .ok l := by
  obtain ⟨hp, hd⟩ := wf
  simp [fromJson, toJson, Json.mkObj, logTypeOfJson, logType_rt, time_rt l.log.date hd, optStr, reqInt, hash_rt,
    payload_rt l.log.data hp]

/-- re-verification after the round trip: if the stored hash of `l` is the one `ChainLog` computed from the
previous log, then chaining the *decoded* content to the previous log again yields the stored hash (and id) -/
theorem rehash (H : Hash) (prev : Option CLog) (l : CLog) (wf : WF l)
    (stored : l.hash = (chainLog H prev l.log).hash) :
    ∃ l', fromJson (toJson l) = .ok l' ∧ (chainLog H prev l'.log).hash = l.hash :=
  ⟨l, roundtrip l wf, stored.symm⟩

/-- the hash `ChainLog` stores depends on the content (type, data, date, idempotency key) and on the previous
hash only: not on the id or hash the entry carried -/
theorem hash_covers_content (H : Hash) (prev : Option CLog) (l : Log) (id id' : Int) (h h' : Option (List UInt8)) :
    (chainLog H prev (⟨l, id, h⟩ : CLog).log).hash = (chainLog H prev (⟨l, id', h'⟩ : CLog).log).hash := rfl

/-- the stored row: what `InsertLogs` writes, `Logs.ToCore` turns back into the entry (`ToCore` converts the date to
UTC, which a well-formed date is already) -/
theorem store_roundtrip (ledger : String) (l : CLog) (wf : WF l) :
    toCore (toRow ledger l) = .ok l := by
  obtain ⟨hp, hd⟩ := wf
  simp [toCore, toRow, logType_rt, payload_rt l.log.data hp, toUTC_wf l.log.date hd]

/-- an entry produced by `ChainLog` re-verifies against the log it was chained to -/
theorem chainLog_verifies (H : Hash) (prev : Option CLog) (l : Log) : verifies H prev (chainLog H prev l) = true := by
  simp [verifies, chainLog]

/-- chains of any length: read every entry of `ChainLogs(l₀ … lₙ)` back from its JSON form, in order, and
re-verify it (hash and id) against the decoded predecessor — all succeed -/
theorem chain_from_rehash (H : Hash) (prev : Option CLog) (ls : List Log) (wf : ∀ l ∈ ls, LogWF l) :
    verifyStored H prev ((chainFrom H prev ls).map toJson) = true := by
  induction ls generalizing prev with
  | nil => rfl
  | cons l ls ih =>
    have hl : WF (chainLog H prev l) := wf l (List.mem_cons_self ..)
    have := ih (some (chainLog H prev l)) (fun x hx => wf x (List.mem_cons_of_mem _ hx))
    simp [chainFrom, verifyStored, roundtrip _ hl, chainLog_verifies, this]

theorem chain_rehash (H : Hash) (ls : List Log) (wf : ∀ l ∈ ls, LogWF l) :
    verifyStored H none ((chainLogs H ls).map toJson) = true :=
  chain_from_rehash H none ls wf

/-- the same through the store: every row of a chain converts back to its entry and re-verifies -/
theorem chain_store_rehash (H : Hash) (ledger : String) (prev : Option CLog) (ls : List Log)
    (wf : ∀ l ∈ ls, LogWF l) :
    ∀ c ∈ chainFrom H prev ls, toCore (toRow ledger c) = .ok c := by
  induction ls generalizing prev with
  | nil => simp [chainFrom]
  | cons l ls ih =>
    intro c hc
    simp only [chainFrom, List.mem_cons] at hc
    rcases hc with hc | hc
    · subst hc
      exact store_roundtrip ledger _ (wf l (List.mem_cons_self ..))
    · exact ih (some (chainLog H prev l)) (fun x hx => wf x (List.mem_cons_of_mem _ hx)) c hc

/-- ids along a chain: the first entry gets 0 (or the predecessor's id + 1), each next one the previous id + 1 -/
theorem chain_ids (H : Hash) (prev : Option CLog) (ls : List Log) (k : Nat) (c : CLog)
    (h : (chainFrom H prev ls)[k]? = some c) :
    c.id = nextId prev + k := by
  induction ls generalizing prev k with
  | nil => simp [chainFrom] at h
  | cons l ls ih =>
    cases k with
    | zero =>
      simp [chainFrom] at h
      subst h
      simp [chainLog]
    | succ k =>
      simp only [chainFrom, List.getElem?_cons_succ] at h
      have := ih (some (chainLog H prev l)) k h
      rw [this]
      simp only [chainLog, nextId]
      omega

/-! ### the excluded points, exactly: what the decoder does there (run on the real code by checks/c13.py) -/

/-- a transaction id outside `uint64` in a set- or delete-metadata target does not decode (`strconv.ParseUint`);
transaction ids are allocated from 0 upwards, so no written log holds one -/
theorem target_txid_outside_uint64 (tt : String) (n : Int) (h : upper tt = "TRANSACTION")
    (out : ¬ (0 ≤ n ∧ n < 18446744073709551616)) :
    targetOfJson tt (some (.num n)) = .error (.error "targetId: ParseUint") := by
  simp [targetOfJson, h, out]

/-- the conversion to UTC on a date that carries an offset: another reading of the same instant -/
example : toUTC ⟨2023, 6, 1, 14, 0, 0, 123456000, 7200⟩ = ⟨2023, 6, 1, 12, 0, 0, 123456000, 0⟩ := by decide

/-- timestamps `time.Parse` lets through whose printed form could not be parsed back: year 9999 rounding up, and —
since `ParseTime` converts to UTC — the first hours of year 0000 written east of Greenwich, the last hours of 9999
written west of it (`-0001-…`, `10000-…`): refused.  The offset `+24:60`, which an earlier repair had to refuse
(`Format` printed it as `+25:00`), is harmless now: the stored text ends in `Z`. -/
example : parseTime "9999-12-31T23:59:59.9999995Z" = .error .unreadable := by rfl
example : parseTime "0000-01-01T00:59:59+01:00" = .error .unreadable := by rfl
example : parseTime "0000-01-01T01:00:00+01:00" = .ok ⟨0, 1, 1, 0, 0, 0, 0, 0⟩ := by rfl
example : parseTime "9999-12-31T23:00:00-01:00" = .error .unreadable := by rfl
example : parseTime "9999-12-31T22:59:59.9999994-01:00" = .ok ⟨9999, 12, 31, 23, 59, 59, 999999000, 0⟩ := by rfl
example : parseTime "2023-01-01T00:00:00+24:60" = .ok ⟨2022, 12, 30, 23, 0, 0, 0, 0⟩ := by rfl
example : parseTime "2024-03-01T00:30:00+01:00" = .ok ⟨2024, 2, 29, 23, 30, 0, 0, 0⟩ := by rfl
example : parseTime "2023-12-31T23:59:59.9999995-00:01" = .ok ⟨2024, 1, 1, 0, 1, 0, 0, 0⟩ := by rfl
example : parseRaw "10000-01-01T00:00:00Z".toList = .error .syntax := by rfl
example : parseRaw "2023-01-01T00:00:00+25:00".toList = .error .range := by rfl

/-! ### non-vacuity: concrete well-formed entries of every kind, and a chain -/

def ts1 : Time := ⟨2023, 6, 1, 12, 0, 0, 123456000, 0⟩     -- 2023-06-01T14:00:00.123456+02:00 as `ParseTime` returns it
def now1 : Time := ⟨2023, 6, 1, 12, 0, 0, 123456000, 0⟩
def tx1 : Tx :=
  ⟨some [⟨"world", "users:001", 1180591620717411303424, "USD/2"⟩], some [("<é>", "& "), ("k", "v")], ts1, "ref", 5, false⟩
def logNew : Log := ⟨.newTx tx1 (some [("bank", none), ("world", some [])]), now1, "ik"⟩
def logRevert : Log := ⟨.reverted 5 { tx1 with postings := none, metadata := none, reference := "", id := 6 }, now1, ""⟩
def logSetAcc : Log := ⟨.setMeta "ACCOUNT" (.account "users:001") (some [("k", "日本")]), now1, ""⟩
def logSetTx : Log := ⟨.setMeta "TRANSACTION" (.tx 18446744073709551615) none, now1, ""⟩
def logDelAcc : Log := ⟨.delMeta "ACCOUNT" (.account "users:001") "k", now1, ""⟩
def logDelTx : Log := ⟨.delMeta "TRANSACTION" (.tx 9007199254740993) "k", now1, "ik-2"⟩

example : TimeWF ts1 ∧ TimeWF now1 := by decide
example : ∀ l ∈ [logNew, logRevert, logSetAcc, logSetTx, logDelAcc, logDelTx], LogWF l := by decide
example (H : Hash) : verifyStored H none ((chainLogs H [logNew, logRevert, logSetAcc, logSetTx, logDelAcc, logDelTx]).map toJson) = true :=
  chain_rehash H _ (by decide)
example (id : Int) (h : Option (List UInt8)) : fromJson (toJson ⟨logDelTx, id, h⟩) = .ok ⟨logDelTx, id, h⟩ :=
  roundtrip _ (show LogWF logDelTx by decide)
/-- a timestamp with seven fraction digits and an offset is accepted, rounded, converted to UTC, and then round-trips -/
example : parseTime "2023-06-01T14:00:00.1234564+02:00" = .ok ts1 := by rfl
/-- the ill-formed are really excluded: a time off the microsecond or carrying an offset is not `TimeWF`; an unsorted map is not `MapWF` -/
example : ¬ TimeWF { ts1 with nanos := 123456789 } := by decide
example : ¬ TimeWF ⟨2023, 6, 1, 14, 0, 0, 123456000, 7200⟩ := by decide
example : ¬ MapWF [("b", "1"), ("a", "2")] := by decide
example : ¬ PayloadWF (.setMeta "TRANSACTION" (.tx 18446744073709551616) none) := by decide

end C13
