import Lemmas.EngineEvents
/-! C16 — published events describe committed changes, faithfully.
Statements are about the `Events` component of model B (`Model/Engine/Events.lean`): every event sequence it accepts —
any number of requests, real or preview (`dry`), replayed through an idempotency key or not, any interleaving, store
failures, crashes.  Trace validation (`checks/c16.py`, recording `bus.Monitor`) shows the real `Commander` only
produces sequences the component accepts. -/
namespace C16
open Engine Engine.Events

/-- the invariant holds in every reachable state -/
theorem inv_reachable (dry isTx : Nat → Bool) (funding : List LogE) (evs : List Ev) (s : S)
    (h : runOn (step dry isTx) (init funding) evs = .ok s) : Inv dry s :=
  run_inv dry isTx evs _ s (init_inv dry funding) h

/-- **what an event says about the entry it describes**: kind and content — for a revert, which transaction was
reverted (`reverts`) and which transaction reverts it (`txid`) -/
theorem describes_content (e : BusEv) (l : LogE) (h : describes e l = true) :
    match e with
    | .committed t ps => l.kind = .create ∧ l.txid = some t ∧ l.postings = ps
    | .reverted rd rv => l.kind = .revert ∧ l.reverts = some rd ∧ l.txid = some rv
    | .savedMeta t k => l.kind = .setMeta ∧ l.target = t ∧ l.metaKey = k
    | .deletedMeta t k => l.kind = .delMeta ∧ l.target = t ∧ l.metaKey = k := by
  cases e <;> simpa [describes, and_assoc] using h

/-- the two roles of a revert event cannot be exchanged: an entry described both ways reverts itself -/
theorem roles_matter (a b : Nat) (l : LogE) (h₁ : describes (.reverted a b) l = true)
    (h₂ : describes (.reverted b a) l = true) : a = b := by
  have e₁ := describes_content _ l h₁
  have e₂ := describes_content _ l h₂
  simp only at e₁ e₂
  have := e₁.2.1.symm.trans e₂.2.1
  cases this; rfl

/-- **every published event has a persisted entry carrying its content**, in every reachable state -/
theorem event_implies_durable (dry isTx : Nat → Bool) (funding : List LogE) (evs : List Ev) (s : S)
    (h : runOn (step dry isTx) (init funding) evs = .ok s) :
    ∀ e ∈ s.published, ∃ l ∈ s.durable, describes e l = true :=
  (inv_reachable dry isTx funding evs s h).faithful

/-- … at the very step that publishes: the publisher is a real write (never a preview), the event describes the
entry of *that request* (the log it committed, else the one its idempotency key designated), and that entry is in
the store at that moment -/
theorem event_only_for_durable (dry isTx : Nat → Bool) (s s' : S) (a : Nat) (e : BusEv)
    (h : step dry isTx s (.publish a e) = .ok s') :
    dry a = false ∧ s'.published = e :: s.published ∧
      ∃ l, entryOf s a = some l ∧ describes e l = true ∧ l ∈ s.durable := by
  obtain ⟨h1, h2, h3⟩ := publish_ok h
  subst h2
  exact ⟨h1, rfl, h3⟩

/-- an event whose content no persisted entry carries (e.g. the entry is still queued, or the roles of a revert are
exchanged) is rejected -/
theorem event_without_entry_rejected (dry isTx : Nat → Bool) (s : S) (a : Nat) (e : BusEv)
    (h : ∀ l ∈ s.durable, describes e l = false) : ∃ m, step dry isTx s (.publish a e) = .error m := by
  have hany : s.durable.any (describes e) = false := by
    rw [List.any_eq_false]; intro l hl; simp [h l hl]
  cases hd : dry a with
  | true => exact ⟨"events: a preview published an event", by simp [step, hd]⟩
  | false => exact ⟨"events: an event without a persisted entry carrying that content", by simp [step, hd, hany]⟩

/-- **every successfully answered real write has a published event describing its entry**, and that event is
backed by a persisted entry with the same content -/
theorem ack_implies_published (dry isTx : Nat → Bool) (funding : List LogE) (evs : List Ev) (s : S)
    (h : runOn (step dry isTx) (init funding) evs = .ok s) :
    ∀ x ∈ s.acked, dry x.1 = false ∧
      ∃ e ∈ s.published, describes e x.2 = true ∧ ∃ l ∈ s.durable, describes e l = true := by
  intro x hx
  have hi := inv_reachable dry isTx funding evs s h
  obtain ⟨h1, e, he, hd⟩ := hi.ackedPub x hx
  exact ⟨h1, e, he, hd, hi.faithful e he⟩

/-- … at the very step that answers: `finish a true` of a real write is accepted only if an event describing the
request's entry is already on the bus -/
theorem answer_only_when_published (dry isTx : Nat → Bool) (s s' : S) (a : Nat) (err : String) (t : Option Nat)
    (hd : dry a = false) (h : step dry isTx s (.finish a true err t) = .ok s') :
    ∃ l, entryOf s a = some l ∧ s'.acked = (a, l) :: s.acked ∧ ∃ e ∈ s.published, describes e l = true := by
  obtain ⟨l, h1, h2, h3⟩ := finish_ok hd h
  subst h2
  exact ⟨l, h1, rfl, h3⟩

/-- a preview never publishes -/
theorem preview_never_publishes (dry isTx : Nat → Bool) (s : S) (a : Nat) (e : BusEv) (hd : dry a = true) :
    ∃ m, step dry isTx s (.publish a e) = .error m :=
  ⟨"events: a preview published an event", by simp [step, hd]⟩

/-- **events stay backed**: nothing published is ever withdrawn and the store only grows, so every event keeps its
persisted entry whatever happens afterwards -/
theorem event_stays_backed (dry isTx : Nat → Bool) (funding : List LogE) (evs later : List Ev) (s s' : S)
    (h : runOn (step dry isTx) (init funding) evs = .ok s) (h' : runOn (step dry isTx) s later = .ok s') :
    (∃ t, s'.durable = s.durable ++ t) ∧ ∀ e ∈ s.published, e ∈ s'.published ∧ ∃ l ∈ s'.durable, describes e l = true := by
  have hi := inv_reachable dry isTx funding evs s h
  have he := run_ext dry isTx later s s' hi h'
  have hi' := run_inv dry isTx later s s' hi h'
  exact ⟨he.durable, fun e hx => ⟨he.published e hx, hi'.faithful e (he.published e hx)⟩⟩

/-- **after a crash**: the queued entries are gone, the store is what it was, and still every event on the bus has
its persisted entry — no event ever rested on an entry that was only queued -/
theorem no_event_without_entry_after_crash (dry isTx : Nat → Bool) (funding : List LogE) (evs : List Ev) (s s' : S)
    (h : runOn (step dry isTx) (init funding) evs = .ok s) (hc : step dry isTx s .crash = .ok s') :
    s'.pending = [] ∧ s'.durable = s.durable ∧ s'.published = s.published ∧
      ∀ e ∈ s'.published, ∃ l ∈ s'.durable, describes e l = true := by
  have hi := inv_reachable dry isTx funding evs s h
  simp only [step, Except.ok.injEq] at hc
  subst hc
  exact ⟨rfl, rfl, rfl, hi.faithful⟩

/-! non-vacuity.  Request 1 creates transaction 1, request 2 reverts it with transaction 2 (both published after the
batch is persisted), request 4 replays request 1 through its idempotency key, request 3 is a preview. -/
def p : Posting := ⟨"alice", "bob", 10, "USD"⟩
def l0 : LogE := { id := 0, kind := .create, txid := some 0, ik := "", ref := "", reverts := none, postings := [], target := "", metaKey := "", prevId := none, hashOk := true }
def l1 : LogE := { l0 with id := 1, txid := some 1, ik := "k", postings := [p], prevId := some 0 }
def l2 : LogE := { l0 with id := 2, kind := .revert, txid := some 2, reverts := some 1, prevId := some 1 }
def dry3 : Nat → Bool := fun a => a == 3
def allTx : Nat → Bool := fun _ => true

def history : List Ev :=
  [.committed 1 l1 1, .committed 2 l2 2, .gate 2 true, .publish 1 (.committed 1 [p]), .finish 1 true "" (some 1),
   .publish 2 (.reverted 1 2), .finish 2 true "" (some 2),
   .arrive 3 "wait", .finish 3 true "" (some 3),
   .ikRead 4 "k" (some 1), .publish 4 (.committed 1 [p]), .finish 4 true "" (some 1)]

example : (runOn (step dry3 allTx) (init [l0]) history).toOption.map
    (fun s => (s.published, s.acked.map (fun x => (x.1, x.2.id)), s.durable.map (·.id)))
    = some ([.committed 1 [p], .reverted 1 2, .committed 1 [p]], [(4, 1), (2, 2), (1, 1)], [0, 1, 2]) := by decide
/-- the revert event with the two roles exchanged: rejected -/
example : (runOn (step dry3 allTx) (init [l0]) [.committed 1 l1 1, .committed 2 l2 2, .gate 2 true, .publish 2 (.reverted 2 1)]).toOption.isNone = true := by decide
/-- an event for an entry that is still queued, or with other postings than the entry's: rejected -/
example : (runOn (step dry3 allTx) (init [l0]) [.committed 1 l1 1, .publish 1 (.committed 1 [p])]).toOption.isNone = true := by decide
example : (runOn (step dry3 allTx) (init [l0]) [.committed 1 l1 1, .gate 1 true, .publish 1 (.committed 1 [])]).toOption.isNone = true := by decide
/-- an event describing another request's entry: rejected -/
example : (runOn (step dry3 allTx) (init [l0]) [.committed 1 l1 1, .committed 2 l2 2, .gate 2 true, .publish 2 (.committed 1 [p])]).toOption.isNone = true := by decide
/-- a real write answered without having been published; a preview that publishes: rejected -/
example : (runOn (step dry3 allTx) (init [l0]) [.committed 1 l1 1, .gate 1 true, .finish 1 true "" (some 1)]).toOption.isNone = true := by decide
example : (runOn (step dry3 allTx) (init [l0]) [.publish 3 (.committed 0 [])]).toOption.isNone = true := by decide
example : describes (.reverted 1 2) l2 = true ∧ describes (.reverted 2 1) l2 = false := by decide

end C16
