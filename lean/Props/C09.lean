import Model.TxToScript
namespace C09
end C09
