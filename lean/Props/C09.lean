import Lemmas.TxFinal
/-! C09 — posting-mode transactions commit exactly the requested postings.

`Num.Tx.txToScript` (Model/TxToScript.lean) is the model of `ledger.TxToScriptData`; `Num.run` (Model/Numscript/Spec.lean)
is the source-level semantics of the script it produces (compile check, variable binding, resource resolution,
execution, metadata merge).  All theorems quantify over EVERY posting list (any length, repeated accounts and
amounts, world on either side, self-transfers, zero and arbitrarily large amounts, chains), every request metadata
map and every store (balance table). -/
open Num Num.Tx

namespace C09

/-- Every list of valid postings, any metadata, any balances: the run either commits exactly the requested postings
— same order, accounts, assets, amounts; nothing merged, dropped, reordered or re-attributed — together with the
request metadata (and no account metadata), or the whole request fails with `insufficient`; no other outcome exists. -/
theorem txToScript_correct (ps : List Posting) (hv : ∀ p ∈ ps, validPosting p = true)
    (md : List (String × String)) (store : Store) :
    match run (txToScript ps false).1 ⟨(txToScript ps false).2, md⟩ store with
    | .ok r => r.postings = ps ∧ r.txMeta = md ∧ r.acctMeta = []
    | .error e => e = .insufficient := by
  obtain ⟨h1, h2⟩ := run_spec hv false md store
  cases hc : coveredU false store.balance ps with
  | true =>
    obtain ⟨r, hr, hp⟩ := h1 hc
    rw [hr]; exact hp
  | false => rw [h2 hc]

/-- The request is accepted exactly when replaying the postings in order against the store's balances finds, for
every posting with a non-world source and a non-zero amount, the amount on the source at that moment (`covered`);
in that case the committed postings are the requested ones, otherwise the answer is `insufficient`. -/
theorem txToScript_accepts_iff_covered (ps : List Posting) (hv : ∀ p ∈ ps, validPosting p = true)
    (md : List (String × String)) (store : Store) :
    (covered store.balance ps = true →
      ∃ r, run (txToScript ps false).1 ⟨(txToScript ps false).2, md⟩ store = .ok r ∧ r.postings = ps ∧ r.txMeta = md) ∧
    (covered store.balance ps = false →
      run (txToScript ps false).1 ⟨(txToScript ps false).2, md⟩ store = .error .insufficient) := by
  obtain ⟨h1, h2⟩ := run_spec hv false md store
  constructor
  · intro hc
    obtain ⟨r, hr, hp, hm, _⟩ := h1 (by simpa [coveredU] using hc)
    exact ⟨r, hr, hp, hm⟩
  · intro hc
    exact h2 (by simpa [coveredU] using hc)

/-- the same as an equivalence on acceptance -/
theorem txToScript_accepted_iff (ps : List Posting) (hv : ∀ p ∈ ps, validPosting p = true)
    (md : List (String × String)) (store : Store) :
    (∃ r, run (txToScript ps false).1 ⟨(txToScript ps false).2, md⟩ store = .ok r) ↔ covered store.balance ps = true := by
  obtain ⟨h1, h2⟩ := txToScript_accepts_iff_covered ps hv md store
  constructor
  · rintro ⟨r, hr⟩
    cases hc : covered store.balance ps with
    | true => rfl
    | false => rw [h2 hc] at hr; cases hr
  · intro hc
    obtain ⟨r, hr, _⟩ := h1 hc
    exact ⟨r, hr⟩

/-- Forced mode (`allowing unbounded overdraft` on every non-world source, used by forced reverts): the run always
succeeds, whatever the balances, with exactly the requested postings.  No side condition is needed. -/
theorem txToScript_forced_never_insufficient (ps : List Posting) (hv : ∀ p ∈ ps, validPosting p = true)
    (md : List (String × String)) (store : Store) :
    ∃ r, run (txToScript ps true).1 ⟨(txToScript ps true).2, md⟩ store = .ok r ∧ r.postings = ps ∧ r.txMeta = md := by
  obtain ⟨r, hr, hp, hm, _⟩ := (run_spec hv true md store).1 (by simp [coveredU])
  exact ⟨r, hr, hp, hm⟩

/-- With no balance below zero at the start (world apart), `covered` is the plain floor condition: the replay never
takes a non-world source below zero. -/
def neverNegative (R : Acct → Asset → Int) : List Posting → Prop
  | [] => True
  | p :: ps => (p.src = "world" ∨ 0 ≤ R p.src p.asset - p.amt) ∧ neverNegative (applyP R p) ps

theorem covered_iff_neverNegative (ps : List Posting) : ∀ (R : Acct → Asset → Int),
    (∀ p ∈ ps, 0 ≤ p.amt) → (∀ a s, a ≠ "world" → 0 ≤ R a s) →
    (covered R ps = true ↔ neverNegative R ps) := by
  induction ps with
  | nil => intro R _ _; simp [covered, neverNegative]
  | cons p ps ih =>
    intro R ha hR
    have hp : 0 ≤ p.amt := ha p (by simp)
    have hstep : (p.src = "world" ∨ 0 ≤ R p.src p.asset - p.amt) → ∀ a s, a ≠ "world" → 0 ≤ applyP R p a s := by
      intro hc a s hw
      have h0 := hR a s hw
      have hsrc : a = p.src ∧ s = p.asset → 0 ≤ R a s - p.amt := by
        rintro ⟨e1, e2⟩
        rw [e1, e2]
        exact hc.resolve_left (e1 ▸ hw)
      unfold applyP
      by_cases h1 : a = p.src ∧ s = p.asset
      · have := hsrc h1
        by_cases h2 : a = p.dst ∧ s = p.asset
        · rw [if_pos h1, if_pos h2]; omega
        · rw [if_pos h1, if_neg h2]; omega
      · by_cases h2 : a = p.dst ∧ s = p.asset
        · rw [if_neg h1, if_pos h2]; omega
        · rw [if_neg h1, if_neg h2]; omega
    simp only [covered, neverNegative, Bool.and_eq_true, Bool.or_eq_true, decide_eq_true_eq]
    constructor
    · rintro ⟨hc, hrest⟩
      have hc' : p.src = "world" ∨ 0 ≤ R p.src p.asset - p.amt := by
        rcases hc with (h | h) | h
        · exact Or.inl h
        · by_cases hw : p.src = "world"
          · exact Or.inl hw
          · have := hR p.src p.asset hw; exact Or.inr (by omega)
        · exact Or.inr (by omega)
      exact ⟨hc', (ih _ (fun q hq => ha q (by simp [hq])) (hstep hc')).1 hrest⟩
    · rintro ⟨hc, hrest⟩
      refine ⟨?_, (ih _ (fun q hq => ha q (by simp [hq])) (hstep hc)).2 hrest⟩
      rcases hc with h | h
      · exact Or.inl (Or.inl h)
      · exact Or.inr (by omega)

/-- v1 validates before anything else: a request with a posting that fails `Postings.Validate` is rejected as a
whole, never executed. -/
theorem invalid_rejected_v1 (ps : List Posting) (md : List (String × String)) (store : Store)
    (h : ∃ p ∈ ps, validPosting p = false) : submitV1 ps md store = .rejected := by
  obtain ⟨p, hp, hv⟩ := h
  have : ps.all validPosting = false := by
    rw [List.all_eq_false]
    exact ⟨p, hp, by simp [hv]⟩
  simp [submitV1, this]

/-- v2 and bulk do not call `Validate`; there the machine is the gate: a posting list with an invalid posting (negative
amount, address or asset outside the regular expressions) never yields a transaction — the generated script's
variable map does not bind (`invalidVars`), whatever the balances, forced or not. -/
theorem invalid_rejected (ps : List Posting) (md : List (String × String)) (store : Store) (ub : Bool)
    (h : ∃ p ∈ ps, validPosting p = false) :
    ∀ r, run (txToScript ps ub).1 ⟨(txToScript ps ub).2, md⟩ store ≠ .ok r := by
  intro r hr
  rcases run_invalid h ub md store with e | e <;> rw [e] at hr <;> cases hr

/-- the same at the request layer: v2 / bulk answer `rejected` (not `insufficient`, not a transaction) -/
theorem invalid_rejected_v2 (ps : List Posting) (md : List (String × String)) (store : Store)
    (h : ∃ p ∈ ps, validPosting p = false) : submitV2 ps md store = .rejected := by
  unfold submitV2
  split
  · rfl
  · rcases run_invalid h false md store with e | e <;> rw [e] <;> rfl

/-- and for valid requests the validation layer is transparent: v1, v2 and bulk decide alike -/
theorem v1_eq_v2_on_valid (ps : List Posting) (md : List (String × String)) (store : Store)
    (hv : ∀ p ∈ ps, validPosting p = true) : submitV1 ps md store = submitV2 ps md store := by
  have : ps.all validPosting = true := List.all_eq_true.2 hv
  simp [submitV1, this]

/-! ### non-vacuity: concrete requests of each shape the property names satisfy the hypotheses -/

private def st (l : List (String × String × Int)) : Store :=
  ⟨fun a s => match l.find? (fun t => t.1 = a ∧ t.2.1 = s) with | some t => t.2.2 | none => 0, fun _ _ => none⟩

-- a chain a → b → c where b starts empty
private def chain : List Posting := [⟨"a", "b", 5, "USD"⟩, ⟨"b", "c", 5, "USD"⟩]
private theorem chain_valid : ∀ p ∈ chain, validPosting p = true := by
  simp [chain, validPosting, validAccount, validAsset, splitOnC, splitChars, String.all_bool_eq, isWordChar, isDigitStr_eq]
example : ∃ r, run (txToScript chain false).1 ⟨(txToScript chain false).2, [("k", "v")]⟩ (st [("a", "USD", 5)]) = .ok r ∧
    r.postings = chain ∧ r.txMeta = [("k", "v")] :=
  (txToScript_accepts_iff_covered chain chain_valid _ _).1 (by simp [chain, covered, applyP, st])
-- the same chain with `a` one short: refused as a whole
example : run (txToScript chain false).1 ⟨(txToScript chain false).2, []⟩ (st [("a", "USD", 4)]) = .error .insufficient :=
  (txToScript_accepts_iff_covered chain chain_valid _ _).2 (by simp [chain, covered, applyP, st])
-- … and accepted when forced
example : ∃ r, run (txToScript chain true).1 ⟨(txToScript chain true).2, []⟩ (st [("a", "USD", 4)]) = .ok r ∧ r.postings = chain ∧ r.txMeta = [] :=
  txToScript_forced_never_insufficient chain chain_valid _ _

-- a self-transfer, a zero amount from an empty account, world on both sides, an amount of 2^70, an asset with precision,
-- every address form
private def mixed : List Posting := [⟨"a", "a", 7, "USD"⟩, ⟨"b", "c", 0, "EUR/2"⟩, ⟨"world", "world", 3, "USD"⟩,
  ⟨"world", "x-y:z_1-2", 1180591620717411303424, "X1/123456"⟩, ⟨"x-y:z_1-2", "007:8", 1180591620717411303424, "X1/123456"⟩]
private theorem mixed_valid : ∀ p ∈ mixed, validPosting p = true := by
  simp [mixed, validPosting, validAccount, validAsset, splitOnC, splitChars, String.all_bool_eq, isWordChar, isDigitStr_eq]
  decide
example : ∃ r, run (txToScript mixed false).1 ⟨(txToScript mixed false).2, []⟩ (st [("a", "USD", 7)]) = .ok r ∧
    r.postings = mixed ∧ r.txMeta = [] :=
  (txToScript_accepts_iff_covered mixed mixed_valid _ _).1 (by simp [mixed, covered, applyP, st])

-- 12 distinct accounts (the declarations are then `va0, va1, va10, va11, va2, …`: sorted as strings)
private def wide : List Posting :=
  [⟨"n0", "n1", 1, "USD"⟩, ⟨"n2", "n3", 1, "USD"⟩, ⟨"n4", "n5", 1, "USD"⟩, ⟨"n6", "n7", 1, "USD"⟩,
   ⟨"n8", "n9", 1, "USD"⟩, ⟨"n10", "n11", 1, "USD"⟩, ⟨"n11", "n2", 1, "USD"⟩]
private theorem wide_valid : ∀ p ∈ wide, validPosting p = true := by
  simp [wide, validPosting, validAccount, validAsset, splitOnC, splitChars, String.all_bool_eq, isWordChar, isDigitStr_eq]
example : ∃ r, run (txToScript wide false).1 ⟨(txToScript wide false).2, []⟩
    (st [("n0", "USD", 1), ("n2", "USD", 1), ("n4", "USD", 1), ("n6", "USD", 1), ("n8", "USD", 1), ("n10", "USD", 1)]) = .ok r ∧
    r.postings = wide ∧ r.txMeta = [] :=
  (txToScript_accepts_iff_covered wide wide_valid _ _).1 (by simp [wide, covered, applyP, st])

-- an invalid posting (negative amount) in a v2 and in a v1 request
example : submitV2 [⟨"a", "b", -1, "USD"⟩] [] (st []) = .rejected :=
  invalid_rejected_v2 _ _ _ ⟨⟨"a", "b", -1, "USD"⟩, by simp, by simp [validPosting]⟩
example : submitV1 [⟨"a", "b", -1, "USD"⟩] [] (st []) = .rejected :=
  invalid_rejected_v1 _ _ _ ⟨⟨"a", "b", -1, "USD"⟩, by simp, by simp [validPosting]⟩

end C09
