import Lemmas.EngineChain
/-! C05 — the log is a gap-free hash chain in every schedule and after every restart.
Statements are about the `Chain` component of model B (`Model/Engine/Chain.lean`): every event sequence it accepts
— any interleaving of commits of any number of concurrent writers, any batch boundaries, store failures, crashes and
re-initialisations at any point.  Trace validation (`checks/c05.py`) shows the real `Commander` only produces
sequences the component accepts. -/
namespace C05
open Engine Engine.Chain

/-- **the invariant holds in every reachable state**: ids are positions, every hash is the digest of the previous
entry's hash and the entry's own content, transaction ids are 0,1,2,… in log order — for what is persisted *and*
what is still queued — and the commander's `lastLog`/`lastTXID` point at the end of it -/
theorem chain_ok (funding : List LogE) (h0 : ChainOK funding) (evs : List Ev) (s : S)
    (h : runOn step (reinit funding) evs = .ok s) : Inv s :=
  runOn_inv step Inv step_inv evs _ s (reinit_inv funding h0) h

/-- the persisted log alone is a chain (what a reader of the store sees at any moment) -/
theorem chain_ok_durable (funding : List LogE) (h0 : ChainOK funding) (evs : List Ev) (s : S)
    (h : runOn step (reinit funding) evs = .ok s) : ChainOK s.durable := by
  have hi := chain_ok funding h0 evs s h
  exact ⟨((idsOk_append 0 s.durable s.pending).mp hi.chain.1).1, ((txOk_append 0 s.durable s.pending).mp hi.chain.2).1⟩

/-- ids are 0,1,2,… in insertion order: no gap, no duplicate -/
theorem ids_are_positions (ls : List LogE) (h : idsOk 0 ls) : ∀ i (hi : i < ls.length), (ls[i]).id = i := by
  suffices H : ∀ (k : Nat) (ls : List LogE), idsOk k ls → ∀ i (hi : i < ls.length), (ls[i]).id = k + i from by
    intro i hi; simpa using H 0 ls h i hi
  intro k ls
  induction ls generalizing k with
  | nil => intro _ i hi; simp at hi
  | cons l ls ih =>
    intro hk i hi
    cases i with
    | zero => simpa using hk.1
    | succ i =>
      have := ih (k + 1) hk.2.2.2 i (by simpa using hi)
      simp only [List.getElem_cons_succ, this]; omega

/-- the transaction ids appearing in the log are exactly 0,1,…,k−1 in log order: unique, increasing by one -/
theorem txids_consecutive (ls : List LogE) (h : txOk 0 ls) :
    ls.filterMap (·.txid) = List.range (countTx ls) := by
  suffices H : ∀ (k : Nat) (ls : List LogE), txOk k ls → ls.filterMap (·.txid) = (List.range (countTx ls)).map (· + k) from by
    simpa using H 0 ls h
  intro k ls
  induction ls generalizing k with
  | nil => intro _; simp [countTx]
  | cons l ls ih =>
    intro hk
    cases ht : l.txid with
    | none =>
      simp only [txOk, ht] at hk
      have hc : countTx (l :: ls) = countTx ls := by simp [countTx, LogE.isTx, ht]
      simp [List.filterMap_cons, ht, hc, ih k hk]
    | some t =>
      simp only [txOk, ht] at hk
      have hc : countTx (l :: ls) = countTx ls + 1 := by simp [countTx, LogE.isTx, ht]
      rw [List.filterMap_cons, ht, hc, ih (k + 1) hk.2, List.range_succ_eq_map]
      simp only [List.map_cons, List.map_map, hk.1]
      congr 1
      · simp
      · apply List.map_congr_left; intro x _; simp; omega

/-- **restart**: whatever point the process stops at, re-initialising from the store alone re-establishes the
invariant, and the next entry continues the chain exactly where the persisted log ends -/
theorem chain_after_crash (funding : List LogE) (h0 : ChainOK funding) (evs : List Ev) (s : S)
    (h : runOn step (reinit funding) evs = .ok s) :
    step s .crash = .ok (reinit s.durable) ∧ Inv (reinit s.durable) ∧ nextId (reinit s.durable) = s.durable.length := by
  have hd := chain_ok_durable funding h0 evs s h
  have hinv := reinit_inv s.durable hd
  refine ⟨rfl, hinv, ?_⟩
  have := nextId_eq (reinit s.durable) hinv
  simpa [all, reinit] using this

/-- a commit is accepted only with the next id, the next transaction id and a hash over the current last entry -/
theorem commit_is_next (s : S) (a : Nat) (l : LogE) (lt : Int) (s' : S) (hi : Inv s)
    (h : step s (.committed a l lt) = .ok s') :
    l.id = (all s).length ∧ l.hashOk = true ∧ (∀ t, l.txid = some t → t = countTx (all s)) := by
  have hi' := step_inv s _ s' hi h
  simp only [step] at h
  split at h
  · cases h
  · rename_i hid
    split at h
    · cases h
    · split at h
      · cases h
      · rename_i hhash
        refine ⟨by have := nextId_eq s hi; simp at hid; omega, by simpa using hhash, ?_⟩
        intro t ht
        simp only [ht] at h
        split at h
        · cases h
        · rename_i htx
          have : (t : Int) = s.lastTx + 1 := by simpa using htx
          have := hi.lastTx; omega

/-! non-vacuity: two writers, a batch boundary between them, a crash that loses the second log, a third writer -/
def l0 : LogE := { id := 0, kind := .create, txid := some 0, ik := "", ref := "", reverts := none, postings := [], target := "", metaKey := "", prevId := none, hashOk := true }
def l1 : LogE := { l0 with id := 1, txid := some 1, prevId := some 0 }
def l2 : LogE := { l0 with id := 2, kind := .setMeta, txid := none, prevId := some 1 }
def l2' : LogE := { l0 with id := 2, txid := some 2, prevId := some 1 }
example : (runOn step (reinit [l0]) [.committed 1 l1 1, .committed 2 l2 1, .gate 1 true, .crash, .committed 3 l2' 2, .gate 1 true]).toOption.map (·.durable.map (·.id))
    = some [0, 1, 2] := by decide
example : ChainOK [l0] := by simp [ChainOK, idsOk, txOk, l0]

end C05
