import Lemmas.EngineChain
import Lemmas.Batcher
/-! C05 — the log is a gap-free hash chain in every schedule and after every restart.
Statements are about the `Chain` component of model B (`Model/Engine/Chain.lean`): every event sequence it accepts
— any interleaving of commits of any number of concurrent writers, any batch boundaries, store failures, crashes and
re-initialisations at any point.  Trace validation (`checks/c05.py`) shows the real `Commander` only produces
sequences the component accepts. -/
namespace C05
open Engine Engine.Chain

/-- **the invariant holds in every reachable state**: ids are positions, every hash is the digest of the previous
entry's hash and the entry's own content, transaction ids are 0,1,2,… in log order — for what is persisted *and*
what is still queued — and the commander's `lastLog`/`lastTXID` point at the end of it -/
theorem chain_ok (funding : List LogE) (h0 : ChainOK funding) (evs : List Ev) (s : S)
    (h : runOn step (reinit funding) evs = .ok s) : Inv s :=
  runOn_inv step Inv step_inv evs _ s (reinit_inv funding h0) h

/-- the persisted log alone is a chain (what a reader of the store sees at any moment) -/
theorem chain_ok_durable (funding : List LogE) (h0 : ChainOK funding) (evs : List Ev) (s : S)
    (h : runOn step (reinit funding) evs = .ok s) : ChainOK s.durable := by
  have hi := chain_ok funding h0 evs s h
  exact ⟨((idsOk_append 0 s.durable s.pending).mp hi.chain.1).1, ((txOk_append 0 s.durable s.pending).mp hi.chain.2).1⟩

/-- ids are 0,1,2,… in insertion order: no gap, no duplicate -/
theorem ids_are_positions (ls : List LogE) (h : idsOk 0 ls) : ∀ i (hi : i < ls.length), (ls[i]).id = i := by
  suffices H : ∀ (k : Nat) (ls : List LogE), idsOk k ls → ∀ i (hi : i < ls.length), (ls[i]).id = k + i from by
    intro i hi; simpa using H 0 ls h i hi
  intro k ls
  induction ls generalizing k with
  | nil => intro _ i hi; simp at hi
  | cons l ls ih =>
    intro hk i hi
    cases i with
    | zero => simpa using hk.1
    | succ i =>
      have := ih (k + 1) hk.2.2.2 i (by simpa using hi)
      simp only [List.getElem_cons_succ, this]; omega

/-- the transaction ids appearing in the log are exactly 0,1,…,k−1 in log order: unique, increasing by one -/
theorem txids_consecutive (ls : List LogE) (h : txOk 0 ls) :
    ls.filterMap (·.txid) = List.range (countTx ls) := by
  suffices H : ∀ (k : Nat) (ls : List LogE), txOk k ls → ls.filterMap (·.txid) = (List.range (countTx ls)).map (· + k) from by
    simpa using H 0 ls h
  intro k ls
  induction ls generalizing k with
  | nil => intro _; simp [countTx]
  | cons l ls ih =>
    intro hk
    cases ht : l.txid with
    | none =>
      simp only [txOk, ht] at hk
      have hc : countTx (l :: ls) = countTx ls := by simp [countTx, LogE.isTx, ht]
      simp [List.filterMap_cons, ht, hc, ih k hk]
    | some t =>
      simp only [txOk, ht] at hk
      have hc : countTx (l :: ls) = countTx ls + 1 := by simp [countTx, LogE.isTx, ht]
      rw [List.filterMap_cons, ht, hc, ih (k + 1) hk.2, List.range_succ_eq_map]
      simp only [List.map_cons, List.map_map, hk.1]
      congr 1
      · simp
      · apply List.map_congr_left; intro x _; simp; omega

/-- **restart**: whatever point the process stops at, re-initialising from the store alone re-establishes the
invariant, and the next entry continues the chain exactly where the persisted log ends -/
theorem chain_after_crash (funding : List LogE) (h0 : ChainOK funding) (evs : List Ev) (s : S)
    (h : runOn step (reinit funding) evs = .ok s) :
    step s .crash = .ok (reinit s.durable) ∧ Inv (reinit s.durable) ∧ nextId (reinit s.durable) = s.durable.length := by
  have hd := chain_ok_durable funding h0 evs s h
  have hinv := reinit_inv s.durable hd
  refine ⟨rfl, hinv, ?_⟩
  have := nextId_eq (reinit s.durable) hinv
  simpa [all, reinit] using this

/-- a commit is accepted only with the next id, the next transaction id and a hash over the current last entry -/
theorem commit_is_next (s : S) (a : Nat) (l : LogE) (lt : Int) (s' : S) (hi : Inv s)
    (h : step s (.committed a l lt) = .ok s') :
    l.id = (all s).length ∧ l.hashOk = true ∧ (∀ t, l.txid = some t → t = countTx (all s)) := by
  have hi' := step_inv s _ s' hi h
  simp only [step] at h
  split at h
  · cases h
  · rename_i hid
    split at h
    · cases h
    · split at h
      · cases h
      · rename_i hhash
        refine ⟨by have := nextId_eq s hi; simp at hid; omega, by simpa using hhash, ?_⟩
        intro t ht
        simp only [ht] at h
        split at h
        · cases h
        · rename_i htx
          have : (t : Int) = s.lastTx + 1 := by simpa using htx
          have := hi.lastTx; omega

/-! non-vacuity: two writers, a batch boundary between them, a crash that loses the second log, a third writer -/
def l0 : LogE := { id := 0, kind := .create, txid := some 0, ik := "", ref := "", reverts := none, postings := [], target := "", metaKey := "", prevId := none, hashOk := true }
def l1 : LogE := { l0 with id := 1, txid := some 1, prevId := some 0 }
def l2 : LogE := { l0 with id := 2, kind := .setMeta, txid := none, prevId := some 1 }
def l2' : LogE := { l0 with id := 2, txid := some 2, prevId := some 1 }
example : (runOn step (reinit [l0]) [.committed 1 l1 1, .committed 2 l2 1, .gate 1 true, .crash, .committed 3 l2' 2, .gate 1 true]).toOption.map (·.durable.map (·.id))
    = some [0, 1, 2] := by decide
example : ChainOK [l0] := by simp [ChainOK, idsOk, txOk, l0]

end C05

/-! ## The components between `commit` and the store: `batching.Batcher` + `job.Runner` (`Model/Batcher.lean`)

The `Chain` component above takes "the entries reach `InsertLogs` in the order they were committed, each exactly once,
cut into batches" as the behaviour of the batcher.  These theorems state it of the model of `batcher.go` / `jobs.go`
itself: for EVERY operation sequence (append / the store call returns nil / returns an error / Close / Run), EVERY
`maxBatchSize ≥ 1`, queues of any length.  `checks/batchlib.py` ties the model to the real `Batcher[int]` operation
by operation (area `batcher`). -/
namespace C05
open Batcher

/-- **ids without gaps or duplicates, in insertion order, at every batch boundary**: what the runner function
(`InsertLogs`) has been handed so far — all batches, concatenated in hand-off order — is a PREFIX of what was appended:
no object twice, none skipped, order kept -/
theorem batches_concat_is_appended_prefix (max : Nat) (ops : List Op) :
    (run max ops).batches.flatten <+: (run max ops).appended := by
  have h := run_inv max ops
  rw [h.handed, h.conserve]
  exact ⟨_, rfl⟩

/-- … and so is what was handed over up to any batch boundary -/
theorem every_batch_boundary_is_a_prefix (max : Nat) (ops : List Op) (k : Nat) :
    ((run max ops).batches.take k).flatten <+: (run max ops).appended := by
  refine List.IsPrefix.trans ?_ (batches_concat_is_appended_prefix max ops)
  refine ⟨((run max ops).batches.drop k).flatten, ?_⟩
  rw [← List.flatten_append, List.take_append_drop]

/-- every batch holds between 1 and `maxBatchSize` objects -/
theorem batch_size_bounded (max : Nat) (hmax : 1 ≤ max) (ops : List Op) :
    ∀ b ∈ (run max ops).batches, 1 ≤ b.length ∧ b.length ≤ max := by
  have h := (run_inv max ops).sizes
  have hm : (run max ops).max = max := runFrom_max _ ops
  rw [hm] at h
  exact h hmax

/-- **nothing is lost while the loop is alive**: as long as `Run` has not been stopped and has not died, every
appended object is persisted, in the batch in flight, or still queued — in that order —, everything persisted is
acknowledged, and work is queued only behind a batch in flight (no missed wake-up) -/
theorem no_item_lost_while_alive (max : Nat) (ops : List Op)
    (h : (run max ops).phase = .fresh ∨ (run max ops).phase = .running) :
    (run max ops).appended = (run max ops).persisted ++ (run max ops).flight ++ (run max ops).pending ∧
    (run max ops).acked = (run max ops).persisted ∧
    ((run max ops).phase = .running → (run max ops).pending ≠ [] → (run max ops).inflight.isSome = true) := by
  have hi := run_inv max ops
  obtain ⟨ha, hf⟩ := hi.live (by rcases h with h | h <;> simp [h]) (by rcases h with h | h <;> simp [h])
  refine ⟨?_, ha, ?_⟩
  · have := hi.conserve; rw [hf] at this; simpa using this
  · intro hr hp
    cases hfl : (run max ops).inflight with
    | none => exact absurd (hi.idle hr hfl) hp
    | some b => rfl

/-- … and every one of them is eventually in a batch that is persisted: once every call in flight returns nil,
at most (queue length + 1) returns later everything appended is persisted and acknowledged, in append order -/
theorem every_item_eventually_persisted (max : Nat) (hmax : 1 ≤ max) (ops : List Op)
    (hr : (run max ops).phase = .running) :
    let s' := runFrom (run max ops) (List.replicate (load (run max ops)) .release)
    s'.persisted = (run max ops).appended ∧ s'.acked = (run max ops).appended ∧ s'.pending = [] ∧ s'.inflight = none := by
  have hm : (run max ops).max = max := runFrom_max _ ops
  have := drain (load (run max ops)) (run max ops) (run_inv max ops) hr (by rw [hm]; exact hmax) (Nat.le_refl _)
  exact ⟨this.2.2.1, this.2.2.2.1, this.1, this.2.1⟩

/-- **a graceful stop waits for the write in flight** ("… still holds for entries written after the process was stopped at
any moment and started again"): `Close` returning is the signal that this commander hands nothing more to the store — a
commander initialised from the store at that moment continues from what the store holds.  In every reachable state: if
`Close` has returned, no call of the runner function (`InsertLogs`) is in flight and the loop has ended … -/
theorem close_waits_for_inflight (max : Nat) (ops : List Op) (h : (run max ops).closeReturned = true) :
    (run max ops).inflight = none ∧ (run max ops).phase = .stopped :=
  ⟨(run_closeInv max ops h).2, (run_closeInv max ops h).1⟩

/-- … so a `Close` issued while a call is in flight does not return in that step (it returns in the step in which that
call returns, `close_returns_with_the_call`) … -/
theorem close_blocks_while_call_in_flight (max : Nat) (ops : List Op) (b : List Nat)
    (hb : (run max ops).inflight = some b) :
    (run max ops).closeReturned = false ∧ (step (run max ops) .close).closeReturned = false ∧
    (step (run max ops) .close).inflight = some b := by
  have hc : (run max ops).closeReturned = false := by
    cases h : (run max ops).closeReturned with
    | false => rfl
    | true => have := (run_closeInv max ops h).2; simp [hb] at this
  have hi := step_closeInv (run max ops) .close (run_closeInv max ops)
  have hfl : (step (run max ops) .close).inflight = some b := by
    revert hb
    generalize run max ops = s
    obtain ⟨max, appended, pending, inflight, batches, calls, persisted, failed, acked, phase, blocked, ar, cc, cr⟩ := s
    intro hb; simp only at hb; subst hb
    cases phase <;> cases cc <;> simp [step]
  refine ⟨hc, ?_, hfl⟩
  cases h : (step (run max ops) .close).closeReturned with
  | false => rfl
  | true => have := (hi h).2; simp [hfl] at this

theorem close_returns_with_the_call (max : Nat) (ops : List Op) (b : List Nat)
    (hb : (run max ops).inflight = some b) (hp : (run max ops).phase = .stopping) :
    (step (run max ops) .release).closeReturned = true ∧ (step (run max ops) .release).persisted = (run max ops).persisted ++ b ∧
    (step (run max ops) .fail).closeReturned = true := by
  revert hb hp
  generalize run max ops = s
  obtain ⟨max, appended, pending, inflight, batches, calls, persisted, failed, acked, phase, blocked, ar, cc, cr⟩ := s
  intro hb hp; simp only at hb hp; subst hb; subst hp
  simp [step]

/-- … and after `Close` has returned, whatever is done to the component (appends, further releases, a second `Close`, `Run`
again): no batch is handed to the runner function, no call returns, nothing more is persisted or acknowledged -/
theorem nothing_reaches_the_store_after_close (max : Nat) (ops more : List Op) (h : (run max ops).closeReturned = true) :
    (runFrom (run max ops) more).batches = (run max ops).batches ∧ (runFrom (run max ops) more).calls = (run max ops).calls ∧
    (runFrom (run max ops) more).persisted = (run max ops).persisted ∧ (runFrom (run max ops) more).acked = (run max ops).acked := by
  obtain ⟨hp, hi⟩ := run_closeInv max ops h
  obtain ⟨c, b, pe, a⟩ := runFrom_ended (run max ops) more hp hi
  exact ⟨b, c, pe, a⟩

/-! non-vacuity: `Close` while the call carrying `[1]` is in flight (2 queued behind it) is still out; it returns in the step
in which that call returns, with `[1]` persisted, `2` neither persisted nor handed over -/
example : ((run 2 [.start, .append 1, .append 2, .close]).closeCalled, (run 2 [.start, .append 1, .append 2, .close]).closeReturned,
           (run 2 [.start, .append 1, .append 2, .close]).inflight) = (true, false, some [1]) := by decide
example : ((run 2 [.start, .append 1, .append 2, .close, .release]).closeReturned, (run 2 [.start, .append 1, .append 2, .close, .release]).persisted,
           (run 2 [.start, .append 1, .append 2, .close, .release]).batches, (run 2 [.start, .append 1, .append 2, .close, .release, .append 3, .release]).batches)
    = (true, [1], [[1]], [[1]]) := by decide

/-! non-vacuity: a backlog of three entries behind a slow store call, `maxBatchSize = 2`: the batches are
`[1] [2,3] [4]`; and five entries with `maxBatchSize = 2` drained by three returns -/
example : ((run 2 [.start, .append 1, .append 2, .append 3, .append 4, .release, .release]).batches,
           (run 2 [.start, .append 1, .append 2, .append 3, .append 4, .release, .release]).acked,
           (run 2 [.start, .append 1, .append 2, .append 3, .append 4, .release, .release]).inflight)
    = ([[1], [2, 3], [4]], [1, 2, 3], some [4]) := by decide
example : (run 2 [.append 1, .append 2, .append 3, .append 4, .append 5, .start, .release, .release, .release]).persisted
    = [1, 2, 3, 4, 5] := by decide

end C05
