import Lemmas.EngineFloorStep
import Lemmas.NumLocksFloor
/-! C02 — concurrent transactions cannot spend the same funds twice.

Statements are about the `Floor` component of model B (`Model/Engine/Floor.lean`): every event sequence it accepts —
any number of requests, any interleaving of their lock / balance-read / commit / unlock steps, any batch boundaries and
persistence latency (`gate`), store failures, crashes at any point.  Trace validation (`checks/c02.py`) shows that the
real `Commander` under the deterministic scheduler only produces sequences the component accepts.

What the component checks event by event (and rejects otherwise): balances are read only under a lock covering the
account and the store's answer is the replay of the *persisted* log; a commit touches only accounts in the
committer's lock sets (sources write-locked), every bounded source was read, and the postings respect the floor against
the balances *read*; locks are not released before the log is persisted; a lock is granted only when compatible
with all holders (write excludes read and write), queued ones FIFO at every release.

What is proved: in every reachable state every entry added during the run respects the floor against the replay of the
entries *before it in the log* — the balances read are still the balances at the log position, because nobody else can
commit on a write-locked account between the read and the persistence.

Second part (end of the file): the clause the component *assumes* of every commit — "touches only accounts in the
committer's lock sets, sources write-locked and read" — is proved of `Spec`, the source-level semantics of Numscript,
for EVERY script, variable map and store: `posting_sources_write_locked`, `posting_accounts_locked`,
`write_locks_are_read_locks`, `balances_read_are_write_locked`, `posting_sources_were_read`, and
`spec_commit_passes_lock_guards` / `spec_commit_accepted` which discharge the guards of `Floor.step (.committed …)`
for a request holding `Spec`'s lock sets.  `checks/c02.py` compares those lock sets (and the postings) with what the real
`ResolveResources` / VM return, input by input. -/
namespace C02
open Engine Engine.Floor

/-- the entries present before the run -/
def fund (funding : List LogE) : List Entry := funding.map (fun l => ⟨l, 0⟩)

theorem fund_length (funding : List LogE) : (fund funding).length = funding.length := by
  simp only [fund, List.length_map]

/-- **the invariant holds in every reachable state** (DESIGN appendix B: J6 `excl`, J7 `held` `cur`, the recorded
floor fact `floor`) -/
theorem inv_reachable (grant : Nat → Option Int) (funding : List LogE) (evs : List Ev) (s : S)
    (h : runOn (step grant) (init funding) evs = .ok s) : Inv grant (fund funding) s :=
  runOn_inv (step grant) (Inv grant (fund funding)) (fun s e s' => step_inv s e s') evs _ s (init_inv grant funding) h

/-- the funding stays the prefix of the persisted log, untouched -/
theorem funding_is_prefix (grant : Nat → Option Int) (funding : List LogE) (evs : List Ev) (s : S)
    (h : runOn (step grant) (init funding) evs = .ok s) : s.durable.take funding.length = fund funding := by
  obtain ⟨added, hd, _⟩ := (inv_reachable grant funding evs s h).floor
  rw [hd, ← fund_length funding, List.take_left']
  rfl

/-- **C02**: however the requests are interleaved, in the final state every entry added during the run — persisted
or still queued — respects the floor, at its position, against the replay of the entries before it: the history is
equivalent to running the accepted transactions one at a time in log order -/
theorem log_floor (grant : Nat → Option Int) (funding : List LogE) (evs : List Ev) (s : S)
    (h : runOn (step grant) (init funding) evs = .ok s) :
    floorAt grant (s.durable.take funding.length) ((s.durable ++ s.pending).drop funding.length) := by
  obtain ⟨added, hd, hfl⟩ := (inv_reachable grant funding evs s h).floor
  have h1 : s.durable.take funding.length = fund funding := funding_is_prefix grant funding evs s h
  have h2 : (s.durable ++ s.pending).drop funding.length = added ++ s.pending := by
    rw [hd, List.append_assoc, ← fund_length funding, List.drop_left']
    rfl
  rw [h1, h2]
  exact hfl

/-- … for the persisted log alone: what a reader of the store sees at any moment -/
theorem log_floor_durable (grant : Nat → Option Int) (funding : List LogE) (evs : List Ev) (s : S)
    (h : runOn (step grant) (init funding) evs = .ok s) :
    floorAt grant (s.durable.take funding.length) (s.durable.drop funding.length) := by
  obtain ⟨added, hd, hfl⟩ := (inv_reachable grant funding evs s h).floor
  have h1 : s.durable.take funding.length = fund funding := funding_is_prefix grant funding evs s h
  have h2 : s.durable.drop funding.length = added := by
    rw [hd, ← fund_length funding, List.drop_left']
    rfl
  rw [h1, h2]
  exact ((floorAt_append grant (fund funding) added s.pending).mp hfl).1

/-- … read position by position: the entry at index `i` of the log (`i` past the funding) respects the floor against
the balances obtained by folding the first `i` entries -/
theorem log_floor_at (grant : Nat → Option Int) (funding : List LogE) (evs : List Ev) (s : S)
    (h : runOn (step grant) (init funding) evs = .ok s) (i : Nat) (e : Entry)
    (hi : funding.length ≤ i) (he : (s.durable ++ s.pending)[i]? = some e) :
    floorOk (grant e.by_) (fun x asset => balanceOf ((s.durable ++ s.pending).take i) x asset) e.log.postings = true := by
  have hfl := log_floor grant funding evs s h
  have hpre := funding_is_prefix grant funding evs s h
  have hlen : (fund funding).length = funding.length := fund_length funding
  -- the log is funding ++ rest
  have hsplit : s.durable ++ s.pending = fund funding ++ (s.durable ++ s.pending).drop funding.length := by
    obtain ⟨added, hd, _⟩ := (inv_reachable grant funding evs s h).floor
    rw [hd, List.append_assoc, ← hlen, List.drop_left' rfl]
  have he' : ((s.durable ++ s.pending).drop funding.length)[i - funding.length]? = some e := by
    rw [List.getElem?_drop]
    have : funding.length + (i - funding.length) = i := by omega
    rw [this]; exact he
  have := floorAt_getElem grant _ _ hfl (i - funding.length) e he'
  rw [hpre] at this
  have htake : (s.durable ++ s.pending).take i
      = fund funding ++ ((s.durable ++ s.pending).drop funding.length).take (i - funding.length) := by
    conv => lhs; rw [hsplit]
    rw [List.take_append, hlen, List.take_of_length_le (by omega)]
  rw [htake]
  exact this

/-- **two requests racing for the same funds**: two entries added during the run that each debit `m₁`, `m₂` from the
same bounded account `x`, with nothing in between that mentions `x`: the second one was accepted only with the first
one's debit already counted — together they never exceed what the log provides for `x` before the first, plus the
overdraft the second one grants -/
theorem racing_pair_sum_le (grant : Nat → Option Int) (funding : List LogE) (evs : List Ev) (s : S)
    (h : runOn (step grant) (init funding) evs = .ok s)
    (pre mid post : List Entry) (e1 e2 : Entry) (x d1 d2 : Acct) (asset : String) (m1 m2 g2 : Int)
    (hsplit : (s.durable ++ s.pending).drop funding.length = pre ++ e1 :: mid ++ e2 :: post)
    (hp1 : e1.log.postings = [⟨x, d1, m1, asset⟩]) (hp2 : e2.log.postings = [⟨x, d2, m2, asset⟩])
    (hx : x ≠ "world") (hd1 : d1 ≠ x) (hm2 : m2 ≠ 0)
    (hmid : ∀ e ∈ mid, Untouched x e.log.postings)
    (hg2 : grant e2.by_ = some g2) :
    m1 + m2 ≤ balanceOf (s.durable.take funding.length ++ pre) x asset + g2 := by
  have hfl := log_floor grant funding evs s h
  have hcut : (s.durable ++ s.pending).drop funding.length = (pre ++ e1 :: mid) ++ e2 :: post := by
    rw [hsplit, List.append_assoc]
  have h2 := (floorAt_iff_split grant _ _).mp hfl (pre ++ e1 :: mid) e2 post hcut
  rw [hp2, hg2, floorOk_cons, floorOk_nil, Bool.and_true] at h2
  have hbal : balanceOf (s.durable.take funding.length ++ (pre ++ e1 :: mid)) x asset
      = balanceOf (s.durable.take funding.length ++ pre) x asset - m1 := by
    have : s.durable.take funding.length ++ (pre ++ e1 :: mid)
        = (s.durable.take funding.length ++ pre) ++ ([e1] ++ mid) := by simp only [List.append_assoc, List.singleton_append]
    rw [this, balanceOf_append, applyE_append, applyE_untouched x asset mid hmid]
    rw [applyE_cons, applyE_nil, hp1, applyP_single_debit x d1 asset m1 _ hd1]
  have hx' : decide (x = "world") = false := by simp only [hx, decide_false]
  have hm' : decide (m2 = 0) = false := by simp only [hm2, decide_false]
  simp only [hx', hm', Bool.false_or, decide_eq_true_eq, hbal] at h2
  omega

/-- … hence they are **never both accepted when together they exceed what is available** -/
theorem racing_pair_not_both (grant : Nat → Option Int) (funding : List LogE) (evs : List Ev) (s : S)
    (h : runOn (step grant) (init funding) evs = .ok s)
    (pre mid post : List Entry) (e1 e2 : Entry) (x d1 d2 : Acct) (asset : String) (m1 m2 g2 : Int)
    (hp1 : e1.log.postings = [⟨x, d1, m1, asset⟩]) (hp2 : e2.log.postings = [⟨x, d2, m2, asset⟩])
    (hx : x ≠ "world") (hd1 : d1 ≠ x) (hm2 : m2 ≠ 0)
    (hmid : ∀ e ∈ mid, Untouched x e.log.postings)
    (hg2 : grant e2.by_ = some g2)
    (hexceed : balanceOf (s.durable.take funding.length ++ pre) x asset + g2 < m1 + m2) :
    (s.durable ++ s.pending).drop funding.length ≠ pre ++ e1 :: mid ++ e2 :: post := by
  intro hsplit
  have := racing_pair_sum_le grant funding evs s h pre mid post e1 e2 x d1 d2 asset m1 m2 g2 hsplit hp1 hp2 hx hd1 hm2
    hmid hg2
  omega

/-- **the locks span persistence**: an `unlock a` the component accepts happens when no log of `a` is still waiting
to be persisted -/
theorem locks_span_persistence (grant : Nat → Option Int) (s s' : S) (a : Nat)
    (h : step grant s (.unlock a) = .ok s') : ∀ e ∈ s.pending, e.by_ ≠ a := by
  simp only [step] at h
  split at h
  · cases h
  · rename_i hany
    simpa using hany

/-- in every reachable state the producer of every not-yet-persisted entry still holds locks that cover every posting
of it: source write-locked, destination locked (`world` apart) -/
theorem producer_holds_locks (grant : Nat → Option Int) (funding : List LogE) (evs : List Ev) (s : S)
    (h : runOn (step grant) (init funding) evs = .ok s) :
    ∀ e ∈ s.pending, ∀ p ∈ e.log.postings, ∃ hd ∈ s.holders, hd.a = e.by_ ∧
      (p.src = "world" ∨ p.src ∈ hd.w) ∧ (p.dst = "world" ∨ p.dst ∈ hd.r ∨ p.dst ∈ hd.w) :=
  (inv_reachable grant funding evs s h).held

/-- in every reachable state the holds of two different requests do not conflict: an account write-held by one is
not held, either way, by the other -/
theorem lock_exclusion (grant : Nat → Option Int) (funding : List LogE) (evs : List Ev) (s : S)
    (h : runOn (step grant) (init funding) evs = .ok s) (h1 h2 : Hold) (m1 : h1 ∈ s.holders) (m2 : h2 ∈ s.holders)
    (hne : h1.a ≠ h2.a) (x : Acct) (hx : x ∈ h1.w) : x ∉ h2.r ∧ x ∉ h2.w := by
  have hc := (inv_reachable grant funding evs s h).excl h1 m1 h2 m2 hne
  constructor
  · intro hm
    have := conflict_of_shared (h1 := h1) (h2 := h2) hx (Or.inl hm)
    rw [hc] at this; cases this
  · intro hm
    have := conflict_of_shared (h1 := h1) (h2 := h2) hx (Or.inr hm)
    rw [hc] at this; cases this

/-- **the balances a request works with are current**: in every reachable state, a balance recorded for request `a`
of an account in `a`'s write set equals the replay of the WHOLE log (persisted and queued) — although the store only
answered from the persisted part, and whatever the other requests have done since -/
theorem reads_are_current (grant : Nat → Option Int) (funding : List LogE) (evs : List Ev) (s : S)
    (h : runOn (step grant) (init funding) evs = .ok s) (a : Nat) (x : Acct) (asset : String) (v : Int) (hd : Hold)
    (hr : readOf s a x asset = some v) (hh : holdOf s a = some hd) (hx : x ∈ hd.w) :
    v = balanceOf (s.durable ++ s.pending) x asset :=
  (inv_reachable grant funding evs s h).cur (a, x, asset, v) (readOf_some hr) hd hh hx

/-- a commit the component accepts in a reachable state respects the floor against the replay of the whole log at
that moment — which is exactly the prefix the new entry gets -/
theorem commit_respects_floor_now (grant : Nat → Option Int) (funding : List LogE) (evs : List Ev) (s s' : S)
    (h : runOn (step grant) (init funding) evs = .ok s) (a : Nat) (l : LogE) (lt : Int)
    (hs : step grant s (.committed a l lt) = .ok s') :
    s'.durable = s.durable ∧ s'.pending = s.pending ++ [⟨l, a⟩] ∧
    floorOk (grant a) (fun x asset => balanceOf (s.durable ++ s.pending) x asset) l.postings = true := by
  have hi' : Inv grant (fund funding) s' := step_inv s _ s' (inv_reachable grant funding evs s h) hs
  have hshape : s'.durable = s.durable ∧ s'.pending = s.pending ++ [⟨l, a⟩] := by
    simp only [step] at hs
    split at hs
    · split at hs
      · cases hs; exact ⟨rfl, rfl⟩
      · cases hs
    · split at hs
      · cases hs
      · split at hs
        · cases hs
        · split at hs
          · cases hs
          · cases hs; exact ⟨rfl, rfl⟩
  refine ⟨hshape.1, hshape.2, ?_⟩
  obtain ⟨added, hd, hfl⟩ := hi'.floor
  rw [hshape.2, ← List.append_assoc, floorAt_append, floorAt_singleton] at hfl
  have : fund funding ++ (added ++ s.pending) = s.durable ++ s.pending := by
    rw [← List.append_assoc, ← hd, hshape.1]
  rw [this] at hfl
  exact hfl.2

/-! ### non-vacuity — alice holds 100; two requests of 80 each -/

def mk (id : Nat) (ps : List Posting) : LogE :=
  { id := id, kind := .create, txid := some id, ik := "", ref := "", reverts := none, postings := ps, target := "",
    metaKey := "", prevId := none, hashOk := true }
def f0 : LogE := mk 0 [⟨"world", "alice", 100, "USD"⟩]
def noOverdraft : Nat → Option Int := fun _ => some 0
def pay (id : Nat) (dst : Acct) (amt : Int) : LogE := mk id [⟨"alice", dst, amt, "USD"⟩]

/-- request 1 locks, request 2 queues behind it; 1 reads 100, commits 80, is persisted, unlocks; 2 is granted and
reads 20 -/
def serialised : List Ev :=
  [.lock 1 ["bob"] ["alice"], .lock 2 ["carol"] ["alice"], .balRead 1 "alice" "USD" 100, .committed 1 (pay 1 "bob" 80) 1,
   .gate 1 true, .unlock 1, .resume 2 "lock-granted", .balRead 2 "alice" "USD" 20]

def accepted (evs : List Ev) : Bool := (runOn (step noOverdraft) (init [f0]) evs).toOption.isSome

/-- the protocol run is accepted … -/
example : accepted serialised = true := by decide
/-- … the second request's 80 is rejected by the machine (it would take alice to −60) … -/
example : accepted (serialised ++ [.committed 2 (pay 2 "carol" 80) 1]) = false := by decide
/-- … its 20 is accepted, and the final log holds both entries -/
example : (runOn (step noOverdraft) (init [f0]) (serialised ++ [.committed 2 (pay 2 "carol" 20) 2, .gate 1 true, .unlock 2])).toOption.map
    (fun s => (s.durable.map (·.log.id), balanceOf s.durable "alice" "USD")) = some ([0, 1, 2], 0) := by decide
/-- the second request cannot be resumed as lock holder while the first still holds alice -/
example : accepted [.lock 1 ["bob"] ["alice"], .lock 2 ["carol"] ["alice"], .resume 2 "lock-granted"] = false := by decide
/-- suspect #1 (unlock immediately after lock): reading without the lock is rejected -/
example : accepted [.lock 1 ["bob"] ["alice"], .unlock 1, .balRead 1 "alice" "USD" 100] = false := by decide
/-- unlocking before the log is persisted is rejected -/
example : accepted [.lock 1 ["bob"] ["alice"], .balRead 1 "alice" "USD" 100, .committed 1 (pay 1 "bob" 80) 1, .unlock 1] = false := by decide
/-- a source that was not locked for writing (suspect #2: the lock set misses the real source) is rejected -/
example : accepted [.lock 1 ["bob", "alice"] [], .balRead 1 "alice" "USD" 100, .committed 1 (pay 1 "bob" 80) 1] = false := by decide
/-- a crash loses the queued entry and the locks; the persisted log still respects the floor -/
example : (runOn (step noOverdraft) (init [f0]) [.lock 1 ["bob"] ["alice"], .balRead 1 "alice" "USD" 100,
    .committed 1 (pay 1 "bob" 80) 1, .crash, .lock 3 ["carol"] ["alice"], .balRead 3 "alice" "USD" 100,
    .committed 3 (pay 1 "carol" 100) 1, .gate 1 true, .unlock 3]).toOption.map
    (fun s => (s.durable.map (·.log.id), balanceOf s.durable "alice" "USD", s.holders.length)) = some ([0, 1], 0, 0) := by decide
/-- the hypotheses of `racing_pair_not_both` are satisfiable: the shape of the log in the run above -/
example : ∃ s, runOn (step noOverdraft) (init [f0]) (serialised ++ [.committed 2 (pay 2 "carol" 20) 2]) = .ok s ∧
    (s.durable ++ s.pending).drop [f0].length = [] ++ ⟨pay 1 "bob" 80, 1⟩ :: [] ++ ⟨pay 2 "carol" 20, 2⟩ :: [] :=
  ⟨_, rfl, rfl⟩

/-! ## the lock sets cover what a script touches — for every script, request and store (`Spec`)

`r.lockWrite` = the accounts in source position of the sends, *as evaluated* (a literal, a variable, a variable read
from metadata — the way the account is named plays no role), `r.lockRead` = every account literal of the text and the
value of every variable declared `account`; `world` removed from both (`Model/Numscript/Spec.lean`). -/

/-- **(a)** every posting of an accepted run takes from a write-locked account (`world` apart) -/
theorem posting_sources_write_locked {P : Num.Script} {req : Num.Request} {store : Num.Store} {r : Num.Result}
    (h : Num.run P req store = .ok r) : ∀ p ∈ r.postings, p.src ≠ "world" → p.src ∈ r.lockWrite :=
  fun p hp hw => ((Num.run_postings_locked h p hp).1).resolve_left hw

/-- **(b)** every account a posting touches is locked: the source for writing, the destination at least for reading -/
theorem posting_accounts_locked {P : Num.Script} {req : Num.Request} {store : Num.Store} {r : Num.Result}
    (h : Num.run P req store = .ok r) :
    ∀ p ∈ r.postings, (p.src = "world" ∨ p.src ∈ r.lockWrite) ∧ (p.dst = "world" ∨ p.dst ∈ r.lockRead) :=
  Num.run_postings_locked h

/-- the write set is part of the read set (`involvedSources ⊆ involvedAccounts` in the code) … -/
theorem write_locks_are_read_locks {P : Num.Script} {req : Num.Request} {store : Num.Store} {r : Num.Result}
    (h : Num.run P req store = .ok r) : ∀ a ∈ r.lockWrite, a ∈ r.lockRead :=
  Num.run_lockWrite_subset h

/-- … so (b) in the form "each end of a posting is `world` or in one of the two sets" -/
theorem posting_accounts_in_lock_sets {P : Num.Script} {req : Num.Request} {store : Num.Store} {r : Num.Result}
    (h : Num.run P req store = .ok r) :
    ∀ p ∈ r.postings, (p.src = "world" ∨ p.src ∈ r.lockRead ∨ p.src ∈ r.lockWrite) ∧
      (p.dst = "world" ∨ p.dst ∈ r.lockRead ∨ p.dst ∈ r.lockWrite) := by
  intro p hp
  obtain ⟨hs, hd⟩ := Num.run_postings_locked h p hp
  exact ⟨hs.elim Or.inl (fun x => Or.inr (Or.inr x)), hd.elim Or.inl (fun x => Or.inr (Or.inl x))⟩

/-- `world` is never locked -/
theorem world_not_locked {P : Num.Script} {req : Num.Request} {store : Num.Store} {r : Num.Result}
    (h : Num.run P req store = .ok r) : "world" ∉ r.lockRead ∧ "world" ∉ r.lockWrite := by
  obtain ⟨env, F, _, _, _, hR, hW, _⟩ := Num.run_inv_locks h
  rw [hR, hW]
  exact ⟨fun hm => (Num.mem_lockRead.mp hm).2 rfl, fun hm => (Num.mem_lockWrite.mp hm).2 rfl⟩

/-- **(c)** every balance the run reads (`finalBal` lists the tracked (account, asset) pairs) belongs to `world`, to a
write-locked account, or to the target of a `save` statement, which is read-locked; the last kind can only feed a
posting if the account is also a source of a send — and then it is write-locked by (a) -/
theorem balances_read_are_write_locked {P : Num.Script} {req : Num.Request} {store : Num.Store} {r : Num.Result}
    (h : Num.run P req store = .ok r) :
    ∀ k ∈ r.finalBal, k.1.1 = "world" ∨ k.1.1 ∈ r.lockWrite ∨
      (k.1.1 ∈ r.lockRead ∧ ∃ env, Num.prepare P req store = .ok env ∧ k.1.1 ∈ P.stmts.flatMap (Num.stmtSaves env)) :=
  Num.run_balances_locked h

/-- conversely every posting takes from a balance the run has read — and, by (a), under a write lock -/
theorem posting_sources_were_read {P : Num.Script} {req : Num.Request} {store : Num.Store} {r : Num.Result}
    (h : Num.run P req store = .ok r) :
    ∀ p ∈ r.postings, (∃ v, ((p.src, p.asset), v) ∈ r.finalBal) ∧ (p.src ≠ "world" → p.src ∈ r.lockWrite) := by
  intro p hp
  refine ⟨?_, posting_sources_write_locked h p hp⟩
  obtain ⟨k, hk, hk1⟩ := List.mem_map.mp (Num.run_postings_tracked h p hp)
  exact ⟨k.2, by rw [← hk1]; exact hk⟩

/-! ### … which is what the `Floor` component demands of a commit -/

/-- **the first two guards of `Floor.step (.committed …)` are discharged by `Spec`**: a request `a` that holds exactly
`Spec`'s lock sets and has recorded a read for every non-`world` balance `Spec` tracks commits the posting list of the
run: the component does not reject it for lock coverage nor for an unread source — what remains is its floor check
against the balances read -/
theorem spec_commit_passes_lock_guards {P : Num.Script} {req : Num.Request} {store : Num.Store} {r : Num.Result}
    (h : Num.run P req store = .ok r) (grant : Nat → Option Int) (s : S) (a : Nat) (l : LogE) (lt : Int)
    (hl : l.postings = r.postings.map Num.toEngine)
    (hh : holdOf s a = some ⟨a, r.lockRead, r.lockWrite⟩)
    (hreads : ∀ k ∈ r.finalBal, k.1.1 ≠ "world" → (readOf s a k.1.1 k.1.2).isSome = true) :
    step grant s (.committed a l lt) =
      if floorOk (grant a) (fun x asset => (readOf s a x asset).getD 0) l.postings
      then .ok { s with pending := s.pending ++ [⟨l, a⟩], reads := s.reads.filter (·.1 ≠ a) }
      else .error "floor: the postings overdraw the balances the script was run against" := by
  have h1 : l.postings.all (fun p => (p.src = "world" || r.lockWrite.contains p.src) &&
      (p.dst = "world" || r.lockRead.contains p.dst || r.lockWrite.contains p.dst)) = true := by
    rw [hl, List.all_eq_true]
    intro q hq
    obtain ⟨p, hp, rfl⟩ := List.mem_map.mp hq
    obtain ⟨hs, hd⟩ := Num.run_postings_locked h p hp
    exact Num.covered_of_locked (a := a) hs hd
  have h2 : l.postings.all (fun p => p.src = "world" || (readOf s a p.src p.asset).isSome) = true := by
    rw [hl, List.all_eq_true]
    intro q hq
    obtain ⟨p, hp, rfl⟩ := List.mem_map.mp hq
    by_cases hw : p.src = "world"
    · simp [Num.toEngine, hw]
    · obtain ⟨⟨v, hv⟩, _⟩ := posting_sources_were_read h p hp
      have := hreads _ hv hw
      simp only [Num.toEngine, Bool.or_eq_true]
      exact Or.inr this
  simp only [step, hh, h1, h2, Bool.not_true, Bool.false_eq_true, if_false]
  split <;> simp_all

/-- **a commit built from a run of `Spec` is accepted by `Floor`** when, in addition, the recorded reads are the
store's balances (what the run was started on) and the per-request overdraft bound of the component (`grant a`, one
number per request: the engine scenarios have one bounded source) dominates what the script text grants each of its
sources (`Num.grants`, per (account, asset); C01's `no_overdraw` is used here) -/
theorem spec_commit_accepted {P : Num.Script} {req : Num.Request} {store : Num.Store} {r : Num.Result}
    (h : Num.run P req store = .ok r) (grant : Nat → Option Int) (s : S) (a : Nat) (l : LogE) (lt : Int)
    (hl : l.postings = r.postings.map Num.toEngine)
    (hh : holdOf s a = some ⟨a, r.lockRead, r.lockWrite⟩)
    (hreads : ∀ k ∈ r.finalBal, k.1.1 ≠ "world" → readOf s a k.1.1 k.1.2 = some (store.balance k.1.1 k.1.2))
    (hgrant : grant a = none ∨ ∃ gg, grant a = some gg ∧ ∀ env, Num.prepare P req store = .ok env →
      ∀ p ∈ r.postings, p.src ≠ "world" → ∃ gv, Num.grants env P.stmts p.src p.asset = some gv ∧ gv ≤ gg) :
    step grant s (.committed a l lt) =
      .ok { s with pending := s.pending ++ [⟨l, a⟩], reads := s.reads.filter (·.1 ≠ a) } := by
  rw [spec_commit_passes_lock_guards h grant s a l lt hl hh (fun k hk hw => by rw [hreads k hk hw]; rfl)]
  obtain ⟨env, F, hprep, he, hr⟩ := Num.run_inv h
  have hfl : Num.FloorOK (Num.grants env P.stmts) store.balance r.postings := by rw [hr]; exact Num.evalStmts_floor he
  have : floorOk (grant a) (fun x asset => (readOf s a x asset).getD 0) l.postings = true := by
    rw [hl]
    refine Num.floorOk_of_FloorOK (Num.grants env P.stmts) (grant a)
      (fun x A => x ≠ "world" ∧ ∃ v, ((x, A), v) ∈ r.finalBal) r.postings store.balance _ ?_ hfl ?_
    · rintro x A ⟨hw, v, hv⟩
      have := hreads _ hv hw
      simp only at this
      rw [this]; rfl
    · intro p hp hw
      refine ⟨⟨hw, (posting_sources_were_read h p hp).1⟩, ?_⟩
      rcases hgrant with hn | ⟨gg, hgg, hdom⟩
      · exact Or.inl hn
      · obtain ⟨gv, hgv, hle⟩ := hdom env hprep p hp hw
        exact Or.inr ⟨gv, gg, hgv, hgg, hle⟩
  rw [this]; rfl

/-! ### non-vacuity: the payout script whose source account is ALSO the value of a variable used as destination

`send [USD 100] (source = @platform:float destination = $seller)  send [USD 5] (source = $seller destination = $fees)`
with `$fees` resolving to `platform:float` — through the variable map, and through `meta(@platform:config, "fees_account")`.
In both cases `platform:float` is in the write set although the variable that also designates it is no source. -/

def payoutStmts : List Num.Stmt :=
  [.send (.mon (.mon (.asset "USD") 100)) (.src (.acct (.acct "platform:float") .none)) (.acct (.var "seller")),
   .send (.mon (.mon (.asset "USD") 5)) (.src (.acct (.var "seller") .none)) (.acct (.var "fees"))]
/-- `vars { account $seller  account $fees }` -/
def payoutVar : Num.Script := { vars := [⟨.account, "seller", .none⟩, ⟨.account, "fees", .none⟩], stmts := payoutStmts }
/-- `vars { account $seller  account $fees = meta(@platform:config, "fees_account") }` -/
def payoutMeta : Num.Script :=
  { vars := [⟨.account, "seller", .none⟩, ⟨.account, "fees", .metaOf (.acct "platform:config") "fees_account"⟩],
    stmts := payoutStmts }
def payoutStore : Num.Store :=
  { balance := fun x _ => if x = "platform:float" then 100 else 0,
    accountMeta := fun x k => if x = "platform:config" ∧ k = "fees_account" then some "platform:float" else none }
def payoutEnv : Num.VEnv := [("seller", .acct "sellers:1"), ("fees", .acct "platform:float")]

private theorem valid_seller : Num.validAccount "sellers:1" = true := by
  simp [Num.validAccount, Num.splitOnC, Num.splitChars, Num.isWordChar]
private theorem valid_float : Num.validAccount "platform:float" = true := by
  simp [Num.validAccount, Num.splitOnC, Num.splitChars, Num.isWordChar]

private theorem payoutVar_prepare :
    Num.prepare payoutVar ⟨[("seller", "sellers:1"), ("fees", "platform:float")], []⟩ payoutStore = .ok payoutEnv := by
  have hc : Num.check payoutVar = true := by decide
  unfold Num.prepare
  rw [hc]
  simp [Num.bindPlain, payoutVar, Num.parseValue, valid_seller, valid_float, Num.resolveVars, Num.lookupVar, payoutEnv]

private theorem payoutMeta_prepare : Num.prepare payoutMeta ⟨[("seller", "sellers:1")], []⟩ payoutStore = .ok payoutEnv := by
  have hc : Num.check payoutMeta = true := by decide
  unfold Num.prepare
  rw [hc]
  simp [Num.bindPlain, payoutMeta, Num.parseValue, valid_seller, valid_float, Num.resolveVars, Num.lookupVar, payoutEnv,
    Num.evalAcct, Num.evalExpr, payoutStore]

/-- literal source + plain variable naming the same account: the run is accepted, `platform:float` is debited 100 and
credited 5, and it is write-locked -/
example : ∃ r, Num.run payoutVar ⟨[("seller", "sellers:1"), ("fees", "platform:float")], []⟩ payoutStore = .ok r ∧
    r.postings = [⟨"platform:float", "sellers:1", 100, "USD"⟩, ⟨"sellers:1", "platform:float", 5, "USD"⟩] ∧
    r.lockWrite = ["platform:float", "sellers:1"] ∧ r.lockRead = ["platform:float", "sellers:1"] := by
  unfold Num.run
  rw [payoutVar_prepare]
  refine ⟨_, rfl, rfl, ?_, ?_⟩
  · simp [Num.lockWrite, payoutVar, payoutStmts, Num.vsourceAccts, Num.sourceAccts, Num.evalAcct, Num.evalExpr,
      Num.lookupVar, payoutEnv, Num.dedupSorted, List.mergeSort]
  · simp [Num.lockRead, payoutVar, payoutStmts, Num.stmtLits, Num.declLits, Num.exprLits, Num.sourceLits, Num.destLits,
      Num.lookupVar, payoutEnv, Num.dedupSorted, List.mergeSort]

/-- literal source + variable read from metadata naming the same account -/
example : ∃ r, Num.run payoutMeta ⟨[("seller", "sellers:1")], []⟩ payoutStore = .ok r ∧
    r.postings = [⟨"platform:float", "sellers:1", 100, "USD"⟩, ⟨"sellers:1", "platform:float", 5, "USD"⟩] ∧
    r.lockWrite = ["platform:float", "sellers:1"] ∧ r.lockRead = ["platform:config", "platform:float", "sellers:1"] := by
  unfold Num.run
  rw [payoutMeta_prepare]
  refine ⟨_, rfl, rfl, ?_, ?_⟩
  · simp [Num.lockWrite, payoutMeta, payoutStmts, Num.vsourceAccts, Num.sourceAccts, Num.evalAcct, Num.evalExpr,
      Num.lookupVar, payoutEnv, Num.dedupSorted, List.mergeSort]
  · simp [Num.lockRead, payoutMeta, payoutStmts, Num.stmtLits, Num.declLits, Num.exprLits, Num.sourceLits, Num.destLits,
      Num.lookupVar, payoutEnv, Num.dedupSorted, List.mergeSort]

/-- the float account funded with 100 -/
def fFloat : LogE := mk 0 [⟨"world", "platform:float", 100, "USD"⟩]
def payoutLog : LogE := mk 1 [⟨"platform:float", "sellers:1", 100, "USD"⟩, ⟨"sellers:1", "platform:float", 5, "USD"⟩]
def verdict (evs : List Ev) : String :=
  match runOn (step noOverdraft) (init [fFloat]) evs with | .ok _ => "accepted" | .error e => e

/-- the lock sets the seeded change computes for that script (the aliased account only read-locked) are rejected by
the component at the commit … -/
example : verdict [.lock 1 ["sellers:1", "platform:float"] ["sellers:1"], .balRead 1 "platform:float" "USD" 100,
    .balRead 1 "sellers:1" "USD" 0, .committed 1 payoutLog 1] = "floor: a posting touches an account outside the lock sets" := by
  decide
/-- … with `Spec`'s lock sets the same commit is accepted -/
example : verdict [.lock 1 ["platform:float", "sellers:1"] ["platform:float", "sellers:1"],
    .balRead 1 "platform:float" "USD" 100, .balRead 1 "sellers:1" "USD" 0, .committed 1 payoutLog 1] = "accepted" := by
  decide

end C02
