import Model.Engine.Floor
namespace C02
theorem stub : True := trivial
end C02
