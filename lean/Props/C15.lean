import Lemmas.LockInv
/-! C15 — account locks are exclusive and are always eventually granted.

All statements are about `Lock.step` (the repaired `DefaultLocker`, see Model/Lock.lean) and hold for EVERY reachable
state, i.e. after every finite sequence of arrivals, releases, cancellations and select wake-ups with any
resolution of the select's choice (`Reachable s := ∃ ops, s = run init ops`; the proofs are by induction over the
operation list through the inductive invariant `Lock.Inv`, Lemmas/LockInv.lean).  `orig_leaks` shows on a
concrete schedule that the code as found (`Lock.stepOrig`) violates `cancel_clean`.
The tie to the Go code is the differential of checks/c15.py. -/
namespace C15
open Lock

theorem reachable_step (s : State) (o : Op) (h : Reachable s) : Reachable (step s o).1 := by
  obtain ⟨ops, rfl⟩ := h
  refine ⟨ops ++ [o], ?_⟩
  have : ∀ (l : List Op) (s : State), run s (l ++ [o]) = (step (run s l) o).1 := by
    intro l
    induction l with
    | nil => intro s; rfl
    | cons x xs ih => intro s; exact ih _
  exact (this ops init).symm

theorem reachable_run (s : State) (ops : List Op) (h : Reachable s) : Reachable (run s ops) := by
  induction ops generalizing s with
  | nil => exact h
  | cons o os ih => exact ih _ (reachable_step s o h)

/-! ### exclusion -/

/-- **exclusion**: two distinct requests that own accounts at the same time (holders, and requests already granted
by `recheck` whose `Lock` call has not returned yet) never overlap on an account that either holds for writing. -/
theorem exclusion (s : State) (hr : Reachable s) :
    ∀ h₁ ∈ s.live, ∀ h₂ ∈ s.live, h₁.id ≠ h₂.id →
      ∀ a ∈ h₁.write, a ∉ h₂.read ∧ a ∉ h₂.write := by
  have hx := (reachable_inv s hr).core.excl
  have key : ∀ l : List Req, Excl l → ∀ x ∈ l, ∀ y ∈ l, x.id ≠ y.id → conflict x y = false := by
    intro l hl
    induction l with
    | nil => intro x hx; simp at hx
    | cons z t ih =>
      obtain ⟨h1, h2⟩ := List.pairwise_cons.mp hl
      intro x hx y hy hne
      rcases List.mem_cons.mp hx with ex | hx'
      · rcases List.mem_cons.mp hy with ey | hy'
        · exact absurd (ex.trans ey.symm ▸ rfl) hne
        · rw [ex]; exact h1 y hy'
      · rcases List.mem_cons.mp hy with ey | hy'
        · rw [ey, conflict_comm]; exact h1 x hx'
        · exact ih h2 x hx' y hy' hne
  intro h₁ m₁ h₂ m₂ hne a ha
  exact ((conflict_false_iff h₁ h₂).mp (key s.live hx h₁ m₁ h₂ m₂ hne)).1 a ha

/-- the same for the requests whose `Lock` call has returned (`holders s ⊆ s.live`) -/
theorem exclusion_holders (s : State) (hr : Reachable s) :
    ∀ h₁ ∈ holders s, ∀ h₂ ∈ holders s, h₁.id ≠ h₂.id →
      ∀ a ∈ h₁.write, a ∉ h₂.read ∧ a ∉ h₂.write := by
  intro h₁ m₁ h₂ m₂
  exact exclusion s hr h₁ (List.mem_filter.mp m₁).1 h₂ (List.mem_filter.mp m₂).1

/-- the tables are exactly what the live requests own: a read counter is the number of read locks the live
requests hold on the account, an account is write-locked iff some live request writes it — nothing else is in
the tables ("nothing is left behind") and no counter is stale. -/
theorem tables_exact (s : State) (hr : Reachable s) :
    (∀ a, rget s.t.rl a = rsum s.live a) ∧ (∀ a, rhas s.t.rl a = true ↔ ∃ h ∈ s.live, a ∈ h.read) ∧
    (∀ a, a ∈ s.t.wl ↔ ∃ h ∈ s.live, a ∈ h.write) := by
  have he := (reachable_inv s hr).core.exact
  refine ⟨he.rd, fun a => ?_, he.wr⟩
  rw [rhas_iff _ _ he.wf, he.rd, rsum_pos_iff]

/-- `unlock` never meets a missing key (the nil dereference of lock.go:80 is unreachable for a holder) -/
theorem release_never_nil (s : State) (hr : Reachable s) :
    ∀ h ∈ s.live, ∀ a ∈ h.read, rhas s.t.rl a = true :=
  fun h hm a ha => ((tables_exact s hr).2.1 a).mpr ⟨h, hm, ha⟩

/-! ### no missed wake-up -/

/-- **no_missed_wakeup**: after every operation, no waiting intent is compatible with the tables — and, said with
requests instead of tables, every waiting intent conflicts with some live request. -/
theorem no_missed_wakeup (s : State) (hr : Reachable s) :
    ∀ i ∈ s.queue, compatible s.t i = false ∧ ∃ h ∈ s.live, conflict i h = true := by
  intro i hi
  have hinv := reachable_inv s hr
  have hc := hinv.core.nomiss i hi
  refine ⟨hc, ?_⟩
  cases hall : s.live.all (fun h => !conflict i h) with
  | true =>
    have : compatible s.t i = true := (compat_iff _ _ _ hinv.core.exact).mpr (by simpa using hall)
    simp [hc] at this
  | false =>
    obtain ⟨h, hm, hh⟩ := List.all_eq_false.mp hall
    exact ⟨h, hm, by simpa using hh⟩

/-- … in particular right after any operation -/
theorem no_missed_wakeup_after (s : State) (o : Op) (hr : Reachable s) :
    ∀ i ∈ (step s o).1.queue, compatible (step s o).1.t i = false :=
  fun i hi => (no_missed_wakeup _ (reachable_step s o hr) i hi).1

/-! ### drain -/

/-- when nobody owns anything, nobody waits -/
theorem idle_queue_empty (s : State) (hr : Reachable s) (hl : s.live = []) : s.queue = [] := by
  cases hq : s.queue with
  | nil => rfl
  | cons i t =>
    obtain ⟨_, h, hm, _⟩ := no_missed_wakeup s hr i (by simp [hq])
    simp [hl] at hm

theorem recheck_measure (s : State) : weight (recheck s) = s.live.length + s.queue.length := by
  have := (recheckGo_perm s.queue { s with queue := [] }).length_eq
  simp only [List.length_append, List.length_nil] at this
  simp only [weight, recheck]
  omega

/-- a release by a holder takes exactly one unit off the weight `#live + #waiting` -/
theorem release_measure (s : State) (id : Nat) (ho : (step s (.release id)).2 = .released) :
    weight (step s (.release id)).1 + 1 = weight s := by
  show weight (release s id).1 + 1 = weight s
  have ho' : (release s id).2 = .released := ho
  by_cases hg : id ∈ s.pending ∨ id ∈ s.aborted
  · have e : release s id = (s, .rejected) := by simp [release, hg]
    rw [e] at ho'; cases ho'
  · cases he : extract id s.live with
    | none =>
      have e : release s id = (s, .rejected) := by simp [release, he]
      rw [e] at ho'; cases ho'
    | some p =>
      obtain ⟨x, rest⟩ := p
      obtain ⟨l1, l2, e1, e2, _⟩ := extract_some id s.live x rest he
      have e : release s id = (recheck { s with t := unlock s.t x, live := rest }, .released) := by
        simp [release, hg, he]
      rw [e, recheck_measure]
      simp [weight, e1, e2]; omega

/-- without arrivals the weight never grows, whatever else happens (wake-ups, cancellations, releases) -/
theorem no_arrival_measure_le (s : State) (o : Op) (hna : ∀ r, o ≠ .arrive r) :
    weight (step s o).1 ≤ weight s := by
  cases o with
  | arrive r => exact absurd rfl (hna r)
  | cancel id => exact Nat.le_refl _
  | release id =>
    cases ho : (step s (.release id)).2 with
    | released => have := release_measure s id ho; omega
    | _ =>
      show weight (release s id).1 ≤ weight s
      have ho' : (release s id).2 = _ := ho
      by_cases hg : id ∈ s.pending ∨ id ∈ s.aborted
      · have e : release s id = (s, .rejected) := by simp [release, hg]
        rw [e]; exact Nat.le_refl _
      · cases he : extract id s.live with
        | none =>
          have e : release s id = (s, .rejected) := by simp [release, he]
          rw [e]; exact Nat.le_refl _
        | some p =>
          have e : release s id = (recheck { s with t := unlock s.t p.1, live := p.2 }, .released) := by
            simp [release, hg, he]
          rw [e] at ho'; cases ho'
  | wake id b =>
    show weight (wake true s id b).1 ≤ weight s
    by_cases hp : id ∈ s.pending
    · by_cases hc : id ∈ s.cancelled ∧ b = Branch.ctx
      · cases he : extract id s.live with
        | none =>
          have e : wake true s id b = (s, .rejected) := by simp [wake, hp, hc, he]
          rw [e]; exact Nat.le_refl _
        | some p =>
          obtain ⟨x, rest⟩ := p
          obtain ⟨l1, l2, e1, e2, _⟩ := extract_some id s.live x rest he
          let s1 : State := { s with t := unlock s.t x, live := rest, pending := s.pending.filter (fun y => y != id), aborted := id :: s.aborted }
          have e : wake true s id b = (recheck s1, .returnedErr) := by simp [wake, hp, hc, he, s1]
          rw [e, recheck_measure]
          simp [weight, e1, e2, s1]
      · have e : wake true s id b = ({ s with pending := s.pending.filter (fun y => y != id) }, .returnedUnlock) := by
          simp [wake, hp, hc]
        rw [e]; exact Nat.le_refl _
    · cases he : extract id s.queue with
      | none =>
        have e : wake true s id b = (s, .rejected) := by simp [wake, hp, he]
        rw [e]; exact Nat.le_refl _
      | some p =>
        obtain ⟨x, rest⟩ := p
        obtain ⟨q1, q2, e1, e2, _⟩ := extract_some id s.queue x rest he
        by_cases hc : id ∈ s.cancelled
        · have e : wake true s id b = ({ s with queue := rest, aborted := id :: s.aborted }, .returnedErr) := by
            simp [wake, hp, he, hc]
          rw [e]; simp [weight, e1, e2]
        · have e : wake true s id b = (s, .blocked) := by simp [wake, hp, he, hc]
          rw [e]; exact Nat.le_refl _

/-- one holder releasing (after leaving its `select` if it is still in there) is always possible and takes one
unit off the weight -/
theorem releaseOne_measure (s : State) (h : Req) (hr : Reachable s) (hm : h ∈ s.live) :
    Reachable (releaseOne s h) ∧ weight (releaseOne s h) + 1 = weight s := by
  have hinv := reachable_inv s hr
  -- the state after the optional wake-up
  have key : ∃ s1, (releaseOne s h) = (step s1 (.release h.id)).1 ∧ Reachable s1 ∧ s1.live = s.live ∧
      s1.queue = s.queue ∧ h.id ∉ s1.pending ∧ s1.aborted = s.aborted := by
    by_cases hp : h.id ∈ s.pending
    · refine ⟨(step s (.wake h.id .grant)).1, by simp [releaseOne, hp], reachable_step _ _ hr, ?_⟩
      have e : wake true s h.id .grant = ({ s with pending := s.pending.filter (fun y => y != h.id) }, .returnedUnlock) := by
        simp [wake, hp]
      show (wake true s h.id .grant).1.live = s.live ∧ (wake true s h.id .grant).1.queue = s.queue ∧
        h.id ∉ (wake true s h.id .grant).1.pending ∧ (wake true s h.id .grant).1.aborted = s.aborted
      rw [e]; simp
    · exact ⟨s, by simp [releaseOne, hp], hr, rfl, rfl, hp, rfl⟩
  obtain ⟨s1, e, hr1, hl, hq, hp, ha⟩ := key
  have hab : h.id ∉ s1.aborted := by
    rw [ha]; intro hc
    exact hinv.ids.abGone h.id hc h (List.mem_append_right _ hm) rfl
  have hex : extract h.id s1.live ≠ none := by
    intro hn
    exact (extract_none h.id s1.live).mp hn h (hl ▸ hm) rfl
  have hout : (step s1 (.release h.id)).2 = .released := by
    show (release s1 h.id).2 = .released
    cases he : extract h.id s1.live with
    | none => exact absurd he hex
    | some p => simp [release, hp, hab, he]
  rw [e]
  refine ⟨reachable_step _ _ hr1, ?_⟩
  have := release_measure s1 h.id hout
  simp only [weight, hl, hq] at this ⊢
  exact this

/-- **drain**: from any reachable state, if nobody new arrives and the requests that own accounts — the present
holders and every request granted on the way — release one after the other IN ANY ORDER (`pick` chooses who is
next, looking at the whole state), then after at most `#live + #waiting` releases nobody owns anything, the
queue is empty (every waiting request has been granted and has released in turn, or was withdrawn) and both
tables are empty. -/
theorem drain (s : State) (hr : Reachable s) (pick : State → Nat) :
    let s' := drainRun pick (weight s) s
    Reachable s' ∧ s'.live = [] ∧ s'.queue = [] ∧ s'.t.rl = [] ∧ s'.t.wl = [] := by
  have key : ∀ n s, Reachable s → weight s ≤ n →
      Reachable (drainRun pick n s) ∧ (drainRun pick n s).live = [] := by
    intro n
    induction n with
    | zero =>
      intro s hr hm
      refine ⟨hr, ?_⟩
      have : s.live.length = 0 := by simp only [weight] at hm; omega
      show s.live = []
      simpa using this
    | succ n ih =>
      intro s hr hm
      cases hg : s.live[pick s % s.live.length]? with
      | none =>
        have e : drainRun pick (n + 1) s = s := by simp [drainRun, hg]
        rw [e]
        refine ⟨hr, ?_⟩
        cases hl : s.live with
        | nil => rfl
        | cons x t =>
          have hlt : pick s % s.live.length < s.live.length := Nat.mod_lt _ (by simp [hl])
          have := List.getElem?_eq_none_iff.mp hg
          omega
      | some h =>
        have e : drainRun pick (n + 1) s = drainRun pick n (releaseOne s h) := by simp [drainRun, hg]
        rw [e]
        obtain ⟨hr', hm'⟩ := releaseOne_measure s h hr (List.mem_of_getElem? hg)
        exact ih _ hr' (by omega)
  intro s'
  obtain ⟨hr', hl⟩ := key (weight s) s hr (Nat.le_refl _)
  have hq := idle_queue_empty _ hr' hl
  have he := (reachable_inv _ hr').core.exact
  refine ⟨hr', hl, hq, ?_, ?_⟩
  · cases hrl : (drainRun pick (weight s) s).t.rl with
    | nil => rfl
    | cons e t =>
      obtain ⟨b, n⟩ := e
      have h1 := he.wf
      have h2 := he.rd b
      rw [hrl] at h1 h2
      simp only [hl, rsum, rget, if_true] at h2
      exact absurd h1.1 (by omega)
  · apply List.eq_nil_iff_forall_not_mem.mpr
    intro a ha
    obtain ⟨h, hm, _⟩ := (he.wr a).mp ha
    simp [hl] at hm

/-! ### cancellation -/

/-- **cancel_clean**: a request whose `Lock` call returned the context error is not queued, owns nothing (it is
not among the live requests, which by `tables_exact` account for every entry of the tables) and is not about to
be handed an unlock function. -/
theorem cancel_clean (s : State) (hr : Reachable s) :
    ∀ id ∈ s.aborted, (∀ r ∈ s.queue, r.id ≠ id) ∧ (∀ h ∈ s.live, h.id ≠ id) ∧ id ∉ s.pending := by
  intro id hid
  have hinv := reachable_inv s hr
  refine ⟨fun r hm => hinv.ids.abGone id hid r (List.mem_append_left _ hm),
          fun h hm => hinv.ids.abGone id hid h (List.mem_append_right _ hm), fun hp => ?_⟩
  obtain ⟨h, hm, e⟩ := hinv.pend id hp
  exact hinv.ids.abGone id hid h (List.mem_append_right _ hm) e

/-- whenever a wake-up makes `Lock` return the error, the request is recorded as abandoned — so `cancel_clean`
and `tables_exact` apply to the state right after, whichever way the request got there -/
theorem cancel_clean_step (s : State) (id : Nat) (b : Branch) (hr : Reachable s)
    (ho : (step s (.wake id b)).2 = .returnedErr) :
    let s' := (step s (.wake id b)).1
    id ∈ s'.aborted ∧ (∀ r ∈ s'.queue, r.id ≠ id) ∧ (∀ h ∈ s'.live, h.id ≠ id) ∧ id ∉ s'.pending ∧
      (∀ a, rget s'.t.rl a = rsum s'.live a) ∧ (∀ a, a ∈ s'.t.wl ↔ ∃ h ∈ s'.live, a ∈ h.write) := by
  intro s'
  have hr' : Reachable s' := reachable_step s _ hr
  have hab : id ∈ s'.aborted := by
    show id ∈ (wake true s id b).1.aborted
    have ho' : (wake true s id b).2 = .returnedErr := ho
    by_cases hp : id ∈ s.pending
    · by_cases hc : id ∈ s.cancelled ∧ b = Branch.ctx
      · cases he : extract id s.live with
        | none =>
          have e : wake true s id b = (s, .rejected) := by simp [wake, hp, hc, he]
          rw [e] at ho'; cases ho'
        | some p =>
          let s1 : State := { s with t := unlock s.t p.1, live := p.2, pending := s.pending.filter (fun y => y != id), aborted := id :: s.aborted }
          have e : wake true s id b = (recheck s1, .returnedErr) := by simp [wake, hp, hc, he, s1]
          rw [e]
          show id ∈ (recheckGo _ _).aborted
          rw [(recheckGo_frame _ _).2.1]
          simp [s1]
      · have e : wake true s id b = ({ s with pending := s.pending.filter (fun y => y != id) }, .returnedUnlock) := by
          simp [wake, hp, hc]
        rw [e] at ho'; cases ho'
    · cases he : extract id s.queue with
      | none =>
        have e : wake true s id b = (s, .rejected) := by simp [wake, hp, he]
        rw [e] at ho'; cases ho'
      | some p =>
        by_cases hc : id ∈ s.cancelled
        · have e : wake true s id b = ({ s with queue := p.2, aborted := id :: s.aborted }, .returnedErr) := by
            simp [wake, hp, he, hc]
          rw [e]; simp
        · have e : wake true s id b = (s, .blocked) := by simp [wake, hp, he, hc]
          rw [e] at ho'; cases ho'
  obtain ⟨h1, h2, h3⟩ := cancel_clean s' hr' id hab
  have ht := tables_exact s' hr'
  exact ⟨hab, h1, h2, h3, ht.1, ht.2.2⟩

/-- side A of the coincidence — the cancellation is noticed while the intent is still queued: whatever the
select's choice, `Lock` returns the error (and by `cancel_clean_step` the request is gone) -/
theorem cancel_before_grant (s : State) (r : Req) (b : Branch) (hr : Reachable s)
    (hq : r ∈ s.queue) (hc : r.id ∈ s.cancelled) : (step s (.wake r.id b)).2 = .returnedErr := by
  have hinv := reachable_inv s hr
  have hp : r.id ∉ s.pending := by
    intro hp
    obtain ⟨h, hm, e⟩ := hinv.pend r.id hp
    obtain ⟨q1, q2, eq⟩ := List.append_of_mem hq
    have hn := hinv.ids.nodup
    rw [eq, List.append_assoc, List.cons_append] at hn
    exact nodup_map_middle q1 (q2 ++ s.live) r hn h (by simp [hm]) e
  show (wake true s r.id b).2 = .returnedErr
  cases he : extract r.id s.queue with
  | none => exact absurd rfl ((extract_none r.id s.queue).mp he r hq)
  | some p => simp [wake, hp, he, hc]

/-- side B of the coincidence — `recheck` has already granted the request (its accounts are in the tables,
`acquired` is closed) when the `ctx.Done()` branch is taken: `Lock` returns the error, and by `cancel_clean_step`
the accounts have been given back -/
theorem cancel_after_grant (s : State) (id : Nat) (hr : Reachable s)
    (hp : id ∈ s.pending) (hc : id ∈ s.cancelled) : (step s (.wake id .ctx)).2 = .returnedErr := by
  have hinv := reachable_inv s hr
  obtain ⟨h, hm, e⟩ := hinv.pend id hp
  show (wake true s id .ctx).2 = .returnedErr
  cases he : extract id s.live with
  | none => exact absurd e ((extract_none id s.live).mp he h hm)
  | some p => simp [wake, hp, hc, he]

/-- the other resolution of the coincidence — the `acquired` branch is taken: the request is not abandoned, it
becomes an ordinary holder (owning exactly what it was granted) with a usable unlock function -/
theorem cancel_lost_race (s : State) (id : Nat) (hp : id ∈ s.pending) :
    (step s (.wake id .grant)).2 = .returnedUnlock ∧ (step s (.wake id .grant)).1.live = s.live ∧
    (step s (.wake id .grant)).1.t = s.t ∧ id ∉ (step s (.wake id .grant)).1.pending ∧
    (step s (.wake id .grant)).1.aborted = s.aborted := by
  have e : step s (.wake id .grant) = ({ s with pending := s.pending.filter (fun y => y != id) }, .returnedUnlock) := by
    show wake true s id .grant = _
    simp [wake, hp]
  rw [e]; simp

/-- once everybody has released, any request whatsoever is granted at once: nothing an abandoned request ever
touched is still locked -/
theorem idle_then_grantable (s : State) (r : Req) (hr : Reachable s) (hl : s.live = []) (hf : r.id ∉ s.seen) :
    (step s (.arrive r)).2 = .acquired := by
  have he := (reachable_inv s hr).core.exact
  have hc : compatible s.t r = true := (compat_iff _ _ _ he).mpr (by simp [hl])
  show (arrive s r).2 = .acquired
  simp [arrive, hf, hc]

/-! ### refinement-style corollary -/

/-- **holders_are_granted**: every request that owns accounts — in particular every holder — got them from one of
the two `tryLock` call sites (directly in `Lock`, or in `recheck`); there is no other way into the tables. -/
theorem holders_are_granted (s : State) (hr : Reachable s) :
    (∀ h ∈ s.live, (h.id, Origin.direct) ∈ s.log ∨ (h.id, Origin.recheck) ∈ s.log) ∧
    (∀ h ∈ holders s, (h.id, Origin.direct) ∈ s.log ∨ (h.id, Origin.recheck) ∈ s.log) :=
  ⟨(reachable_inv s hr).logged, fun h hm => (reachable_inv s hr).logged h (List.mem_filter.mp hm).1⟩

/-! ### the defect of the code as found, and non-vacuity -/

/-- request 0 writes `a`; request 1 (same account) queues; 0 releases — `recheck` grants 1 —, 1's context is
cancelled, and 1's `select` takes the `ctx.Done()` branch -/
def witness : List Op :=
  [.arrive ⟨0, [], ["a"]⟩, .arrive ⟨1, [], ["a"]⟩, .release 0, .cancel 1, .wake 1 .ctx]

/-- **the code as found violates cancel_clean**: after `witness`, request 1 has been told "cancelled", nobody
holds an unlock function, yet `a` is write-locked; a later request for `a` queues, and stays queued after
every holder (there is none) has released. -/
theorem orig_leaks :
    let s := runG false init witness
    1 ∈ s.aborted ∧ holders s = [] ∧ "a" ∈ s.t.wl ∧ s.live ≠ [] ∧
    (stepOrig s (.arrive ⟨2, [], ["a"]⟩)).2 = .queued := by
  decide

/-- the repaired code on the same schedule: the accounts are back, the later request is granted at once -/
theorem fixed_witness_clean :
    let s := run init witness
    s.aborted = [1] ∧ s.live = [] ∧ s.queue = [] ∧ s.t.rl = [] ∧ s.t.wl = [] ∧
    (step s (.arrive ⟨2, [], ["a"]⟩)).2 = .acquired := by
  decide

/-- non-vacuity: a reachable state with two live requests sharing a read account, a duplicate, an account in both
sets of one request, and a non-empty queue (hypotheses of `exclusion` and `no_missed_wakeup` are met) -/
example : ∃ s, Reachable s ∧ s.live.length = 2 ∧ s.queue.length = 1 ∧ s.pending = [] :=
  ⟨run init [.arrive ⟨0, ["a", "a"], ["b", "b"]⟩, .arrive ⟨1, ["a", "c"], ["c"]⟩, .arrive ⟨2, ["b"], ["a"]⟩],
   ⟨_, rfl⟩, by decide⟩

/-- non-vacuity of both sides of the coincidence: a reachable state where request 1 is granted-and-cancelled
(`cancel_after_grant`, `cancel_lost_race`), and one where it is queued-and-cancelled (`cancel_before_grant`) -/
example : ∃ s, Reachable s ∧ 1 ∈ s.pending ∧ 1 ∈ s.cancelled :=
  ⟨run init [.arrive ⟨0, [], ["a"]⟩, .arrive ⟨1, [], ["a"]⟩, .release 0, .cancel 1], ⟨_, rfl⟩, by decide⟩
example : ∃ s r, Reachable s ∧ r ∈ s.queue ∧ r.id ∈ s.cancelled :=
  ⟨run init [.arrive ⟨0, [], ["a"]⟩, .arrive ⟨1, [], ["a"]⟩, .cancel 1], ⟨1, [], ["a"]⟩, ⟨_, rfl⟩, by decide⟩

/-- non-vacuity of `drain`: from a state with one holder and two waiting requests, draining really goes through
grants (three releases) -/
example : weight (run init [.arrive ⟨0, [], ["a"]⟩, .arrive ⟨1, ["a"], []⟩, .arrive ⟨2, [], ["a"]⟩]) = 3 := by decide

end C15
