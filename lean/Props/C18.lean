import Model.Bulk
/-! C18 — bulk requests run in order, answer position by position, stop at a failure.
Statements only concern `Bulk.processBulk`; the tie to `ProcessBulk`/`bulkHandler` is the differential of
`checks/c18.py`. -/
namespace C18
open Bulk

theorem go_results (ok : Nat → Bool) (cont : Bool) (es : List Elem) (i : Nat) :
    (go ok cont i es).results.length = processed ok cont i es ∧
    ∀ k, (h : k < (go ok cont i es).results.length) →
      ∃ e, es[k]? = some e ∧ (go ok cont i es).results[k] = answer ok (i + k) e := by
  induction es generalizing i with
  | nil => simp [go, processed]
  | cons e es ih =>
    obtain ⟨ihl, ihk⟩ := ih (i + 1)
    by_cases hs : (fails ok i e && !cont) = true
    · refine ⟨by simp [go, processed, hs], ?_⟩
      intro k hk
      have : k = 0 := by simpa [go, hs] using hk
      subst this
      exact ⟨e, by simp, by simp [go]⟩
    · have hs' : (fails ok i e && !cont) = false := by simpa using hs
      refine ⟨by simp [go, processed, hs', ihl]; omega, ?_⟩
      intro k hk
      cases k with
      | zero => exact ⟨e, by simp, by simp [go]⟩
      | succ k =>
        have hk' : k < (go ok cont (i + 1) es).results.length := by simpa [go, hs'] using hk
        obtain ⟨e', he', hr⟩ := ihk k hk'
        refine ⟨e', by simpa using he', ?_⟩
        have : i + (k + 1) = i + 1 + k := by omega
        simp [go, hs', this, hr]

/-- **positional**: exactly one result per processed element, and result `k` answers element `k`
(`ERROR` iff that element failed, its own action name otherwise). -/
theorem bulk_positional (ok : Nat → Bool) (cont : Bool) (es : List Elem) :
    (processBulk ok cont es).results.length = processed ok cont 0 es ∧
    ∀ k, (h : k < (processBulk ok cont es).results.length) →
      ∃ e, es[k]? = some e ∧ (processBulk ok cont es).results[k] = answer ok k e := by
  have := go_results ok cont es 0
  simpa [processBulk] using this

theorem go_calls (ok : Nat → Bool) (cont : Bool) (es : List Elem) (i : Nat) :
    (go ok cont i es).calls.Pairwise (· < ·) ∧
    ∀ c ∈ (go ok cont i es).calls, i ≤ c ∧ c < i + processed ok cont i es ∧
      ∃ e, es[c - i]? = some e ∧ called e = true := by
  induction es generalizing i with
  | nil => simp [go]
  | cons e es ih =>
    obtain ⟨ihp, ihc⟩ := ih (i + 1)
    have head : called e = true → i ≤ i ∧ i < i + processed ok cont i (e :: es) ∧
        ∃ e', (e :: es)[i - i]? = some e' ∧ called e' = true := fun hc =>
      ⟨Nat.le_refl _, by unfold processed; split <;> omega, e, by simp, hc⟩
    by_cases hs : (fails ok i e && !cont) = true
    · by_cases hc : called e = true
      · have := head hc
        simp [go, hs, hc]; simpa [processed, hs] using this
      · simp [go, hs, hc]
    · have hs' : (fails ok i e && !cont) = false := by simpa using hs
      have tail : ∀ c ∈ (go ok cont (i + 1) es).calls,
          i < c ∧ c < i + processed ok cont i (e :: es) ∧ ∃ e', (e :: es)[c - i]? = some e' ∧ called e' = true := by
        intro c hc
        obtain ⟨h1, h2, e', he', hce⟩ := ihc c hc
        refine ⟨by omega, by simp [processed, hs']; omega, e', ?_, hce⟩
        have : c - i = (c - (i + 1)) + 1 := by omega
        rw [this]; simpa using he'
      by_cases hc : called e = true
      · refine ⟨?_, ?_⟩
        · simp only [go, hs', hc, if_true, Bool.false_eq_true, if_false, List.cons_append, List.nil_append,
            List.pairwise_cons]
          exact ⟨fun c hc' => (tail c hc').1, ihp⟩
        · intro c hc'
          simp only [go, hs', hc, if_true, Bool.false_eq_true, if_false, List.cons_append, List.nil_append,
            List.mem_cons] at hc'
          rcases hc' with rfl | hc'
          · exact head hc
          · obtain ⟨h1, h2⟩ := tail c hc'; exact ⟨by omega, h2⟩
      · refine ⟨by simpa [go, hs', hc] using ihp, ?_⟩
        intro c hc'
        have hc'' : c ∈ (go ok cont (i + 1) es).calls := by simpa [go, hs', hc] using hc'
        obtain ⟨h1, h2⟩ := tail c hc''; exact ⟨by omega, h2⟩

/-- **order**: the backend sees the elements in strictly increasing position, each a processed element
whose action is known and whose data decodes. -/
theorem bulk_order (ok : Nat → Bool) (cont : Bool) (es : List Elem) :
    (processBulk ok cont es).calls.Pairwise (· < ·) ∧
    ∀ c ∈ (processBulk ok cont es).calls, c < processed ok cont 0 es ∧ ∃ e, es[c]? = some e ∧ called e = true := by
  obtain ⟨h1, h2⟩ := go_calls ok cont es 0
  refine ⟨by simpa [processBulk] using h1, ?_⟩
  intro c hc
  obtain ⟨_, h3, e, he, hce⟩ := h2 c (by simpa [processBulk] using hc)
  exact ⟨by omega, e, by simpa using he, hce⟩

theorem processed_stop (ok : Nat → Bool) (es : List Elem) (i k : Nat) (e : Elem)
    (hk : es[k]? = some e) (hf : fails ok (i + k) e = true)
    (hfirst : ∀ j e', j < k → es[j]? = some e' → fails ok (i + j) e' = false) :
    processed ok false i es = k + 1 := by
  induction es generalizing i k with
  | nil => simp at hk
  | cons x xs ih =>
    cases k with
    | zero =>
      have : x = e := by simpa using hk
      subst this
      have hf' : fails ok i x = true := by simpa using hf
      simp [processed, hf']
    | succ k =>
      have hx : fails ok i x = false := by simpa using hfirst 0 x (by omega) (by simp)
      have := ih (i + 1) k (by simpa using hk) (by simpa [Nat.add_assoc, Nat.add_comm 1 k] using hf)
        (fun j e' hj he' => by
          have := hfirst (j + 1) e' (by omega) (by simpa using he')
          simpa [Nat.add_assoc, Nat.add_comm 1 j] using this)
      simp [processed, hx, this]; omega

/-- **stop**: without continue-on-failure nothing after the first failing element is processed, hence
(by `bulk_order`) nothing after it is executed. -/
theorem bulk_stops (ok : Nat → Bool) (es : List Elem) (k : Nat) (e : Elem)
    (hk : es[k]? = some e) (hf : fails ok k e = true)
    (hfirst : ∀ j e', j < k → es[j]? = some e' → fails ok j e' = false) :
    processed ok false 0 es = k + 1 ∧ ∀ c ∈ (processBulk ok false es).calls, c ≤ k := by
  have hp := processed_stop ok es 0 k e hk (by simpa using hf) (by simpa using hfirst)
  refine ⟨hp, fun c hc => ?_⟩
  have := ((bulk_order ok false es).2 c hc).1
  omega

theorem go_failed (ok : Nat → Bool) (cont : Bool) (es : List Elem) (i : Nat) :
    (go ok cont i es).failed = true ↔ .err ∈ (go ok cont i es).results := by
  induction es generalizing i with
  | nil => simp [go]
  | cons e es ih =>
    by_cases hf : fails ok i e = true <;> cases cont <;> simp [go, hf, ih, answer]

/-- **flag**: the response signals failure (`errorsInBulk`, HTTP 400) exactly when some processed
element was answered with an error. -/
theorem bulk_flag (ok : Nat → Bool) (cont : Bool) (es : List Elem) :
    (status (processBulk ok cont es) = 400 ↔ .err ∈ (processBulk ok cont es).results) ∧
    (status (processBulk ok cont es) = 200 ↔ .err ∉ (processBulk ok cont es).results) := by
  have := go_failed ok cont es 0
  unfold status processBulk
  by_cases h : (go ok cont 0 es).failed = true
  · simp [h, this.mp h]
  · have h' : Res.err ∉ (go ok cont 0 es).results := fun hm => h (this.mpr hm)
    simp [h, h']

/-- with continue-on-failure every element is processed -/
theorem bulk_continue_all (ok : Nat → Bool) (es : List Elem) (i : Nat) : processed ok true i es = es.length := by
  induction es generalizing i with
  | nil => simp [processed]
  | cons e es ih => simp [processed, ih]; omega

/-! #### an element answered `ERROR` was not executed, unless the error is the backend's own answer -/

/-- an element that fails BEFORE the backend call (unknown action, or a body the decoder refuses) is never handed to the
backend, wherever it stands and whatever the flag -/
theorem failed_before_backend_never_executed (ok : Nat → Bool) (cont : Bool) (es : List Elem) (k : Nat) (e : Elem)
    (hk : es[k]? = some e) (hc : called e = false) : k ∉ (processBulk ok cont es).calls := by
  intro hmem
  obtain ⟨_, e', he', hce'⟩ := (bulk_order ok cont es).2 k hmem
  rw [hk] at he'
  cases he'
  rw [hc] at hce'
  cases hce'

/-- **origin of an error**: when result `k` is `ERROR`, either element `k` failed before the backend call and was never
executed, or it was handed to the backend and the backend itself answered with an error -/
theorem bulk_error_origin (ok : Nat → Bool) (cont : Bool) (es : List Elem) (k : Nat)
    (h : k < (processBulk ok cont es).results.length) (herr : (processBulk ok cont es).results[k] = .err) :
    ∃ e, es[k]? = some e ∧
      ((called e = false ∧ k ∉ (processBulk ok cont es).calls) ∨ (called e = true ∧ ok k = false)) := by
  obtain ⟨e, he, hr⟩ := (bulk_positional ok cont es).2 k h
  refine ⟨e, he, ?_⟩
  rw [hr] at herr
  by_cases hc : called e = true
  · right
    refine ⟨hc, ?_⟩
    obtain ⟨a, p⟩ := e
    cases hok : ok k
    · rfl
    · exfalso
      cases a <;> cases p <;> simp_all [called, answer, fails]
  · left
    have hc' : called e = false := by simpa using hc
    exact ⟨hc', failed_before_backend_never_executed ok cont es k e he hc'⟩

/-- a body the decoder refuses makes an element that is answered `ERROR` and never executed: `decodes` feeds `parses` -/
theorem undecodable_body_never_executed (ok : Nat → Bool) (cont : Bool) (es : List Elem) (k : Nat) (a : Action) (b : Body)
    (hk : es[k]? = some ⟨a, decodes a b⟩) (hb : decodes a b = false) : k ∉ (processBulk ok cont es).calls :=
  failed_before_backend_never_executed ok cont es k _ hk (by simp [called, hb])

/-- the error code of a backend failure is never empty, so `errorCode` is set exactly on the `ERROR` results -/
theorem backendCode_ne_empty (a : Action) (e : BErr) : backendCode a e ≠ "" := by
  cases a <;> simp only [backendCode] <;> repeat' split
  all_goals decide

theorem go_codes (back : Nat → Ans) (cont : Bool) (es : List Elem) (i : Nat) :
    (goCodes back cont i es).length = (go (fun k => (back k).isOk) cont i es).results.length ∧
    ∀ k, (h : k < (goCodes back cont i es).length) → (h' : k < (go (fun k => (back k).isOk) cont i es).results.length) →
      ((goCodes back cont i es)[k] = "" ↔ (go (fun k => (back k).isOk) cont i es).results[k] ≠ .err) := by
  induction es generalizing i with
  | nil => simp [go, goCodes]
  | cons e es ih =>
    obtain ⟨ihl, ihk⟩ := ih (i + 1)
    have head : codeOf back i e = "" ↔ answer (fun k => (back k).isOk) i e ≠ .err := by
      obtain ⟨a, p⟩ := e
      cases hb : back i with
      | ok => cases a <;> cases p <;> simp [codeOf, answer, fails, called, hb, Ans.isOk]
      | err b =>
        have hne := backendCode_ne_empty a b
        cases a <;> cases p <;> simp_all [codeOf, answer, fails, called, Ans.isOk]
    by_cases hs : (fails (fun k => (back k).isOk) i e && !cont) = true
    · refine ⟨by simp [go, goCodes, hs], ?_⟩
      intro k hk hk'
      have : k = 0 := by simpa [goCodes, hs] using hk
      subst this
      simpa [go, goCodes] using head
    · have hs' : (fails (fun k => (back k).isOk) i e && !cont) = false := by simpa using hs
      refine ⟨by simp [go, goCodes, hs', ihl], ?_⟩
      intro k hk hk'
      cases k with
      | zero => simpa [go, goCodes] using head
      | succ k =>
        have h1 : k < (goCodes back cont (i + 1) es).length := by simpa [goCodes, hs'] using hk
        have h2 : k < (go (fun k => (back k).isOk) cont (i + 1) es).results.length := by simpa [go, hs'] using hk'
        simpa [go, goCodes, hs'] using ihk k h1 h2

/-- **codes**: one error code per result, empty exactly on the results that are not `ERROR` -/
theorem bulk_codes (back : Nat → Ans) (cont : Bool) (es : List Elem) :
    (goCodes back cont 0 es).length = (processBulk (fun k => (back k).isOk) cont es).results.length ∧
    ∀ k, (h : k < (goCodes back cont 0 es).length) → (h' : k < (processBulk (fun k => (back k).isOk) cont es).results.length) →
      ((goCodes back cont 0 es)[k] = "" ↔ (processBulk (fun k => (back k).isOk) cont es).results[k] ≠ .err) := by
  simpa [processBulk] using go_codes back cont es 0

/-- a transaction whose script does not compile, or that has neither postings nor script, is handed to the backend (its
body decodes) and refused there, whatever the scripted answer: it is answered `ERROR`, the bulk signals failure -/
theorem uncompilable_script_fails_in_backend (scripted : Ans) (b : Body) (hb : b = .scriptBroken ∨ b = .neither) :
    decodes .create b = true ∧ (engineAns .create b scripted).isOk = false := by
  rcases hb with rfl | rfl <;> simp [decodes, engineAns, Ans.isOk]

/-! non-vacuity: a concrete bulk where an unknown action sits in the middle -/
example : processBulk (fun i => i != 3) true
    [⟨.create, true⟩, ⟨.unknown, true⟩, ⟨.addMeta, false⟩, ⟨.revert, true⟩, ⟨.delMeta, true⟩]
    = ⟨[.ok .create, .err, .err, .err, .ok .delMeta], [0, 3, 4], true⟩ := by decide
example : processBulk (fun _ => true) false [⟨.create, true⟩, ⟨.unknown, true⟩, ⟨.revert, true⟩]
    = ⟨[.ok .create, .err], [0], true⟩ := by decide

/-- element bodies: a script that does not compile (position 1) is executed and refused by the backend, a transaction
metadata target with a string id (position 2) fails before the backend; with continue-on-failure the rest goes on -/
example :
    let es : List (Action × Body) := [(.create, .script), (.create, .scriptBroken), (.addMeta, .txIdNotNumber), (.create, .both), (.revert, .noId)]
    let elems := es.map (fun (a, b) => (⟨a, decodes a b⟩ : Elem))
    let back : Nat → Ans := fun i => engineAns (es[i]?.map (·.1) |>.getD .unknown) (es[i]?.map (·.2) |>.getD .other) .ok
    processBulk (fun k => (back k).isOk) true elems = ⟨[.ok .create, .err, .err, .ok .create, .ok .revert], [0, 1, 3, 4], true⟩ ∧
    goCodes back true 0 elems = ["", "VALIDATION", "VALIDATION", "", ""] := by decide

/-! #### the continue-on-failure flag as spelled on the wire

`bulkHandler` reads `?continueOnFailure=` with `sharedapi.QueryParamBool` (`contFlag`).  The property says nothing after
the first failing element is executed *unless continue-on-failure is requested*: every spelling that does not request it
must stop the bulk. -/

/-- the flag is requested by exactly the spellings that lower-case to `1` or `true` -/
theorem cont_flag_iff (v : Option String) :
    contFlag v = true ↔ ∃ s, v = some s ∧ (s.toLower = "1" ∨ s.toLower = "true") := by
  cases v with
  | none => simp [contFlag]
  | some s => simp [contFlag]

/-- **stop, whatever the client wrote**: when the spelled flag does not request continue-on-failure (absent, empty, bare,
`false`, `0`, `no`, `False`, …), nothing after the first failing element is processed or executed. -/
theorem bulk_stops_unless_requested (raw : Option String) (hraw : contFlag raw = false)
    (ok : Nat → Bool) (es : List Elem) (k : Nat) (e : Elem)
    (hk : es[k]? = some e) (hf : fails ok k e = true)
    (hfirst : ∀ j e', j < k → es[j]? = some e' → fails ok j e' = false) :
    processed ok (contFlag raw) 0 es = k + 1 ∧ ∀ c ∈ (processBulk ok (contFlag raw) es).calls, c ≤ k := by
  rw [hraw]
  exact bulk_stops ok es k e hk hf hfirst

/-- the "off" spellings clients actually send do not request it … -/
example : ["false", "FALSE", "False", "0", "no", "NO", "off", "", "f", "null", "01", " true", "true "].all
    (fun s => contFlag (some s) == false) = true := by decide +kernel
/-- … an absent parameter does not … -/
example : contFlag none = false := by decide
/-- … and these do (`yes` / `on` do not: `QueryParamBool` knows `1` and `true` only) -/
example : ["true", "TRUE", "True", "tRuE", "1"].all (fun s => contFlag (some s)) = true := by decide +kernel
example : ["yes", "on", "t"].all (fun s => contFlag (some s) == false) = true := by decide +kernel

end C18
