import Model.Cache
import Model.Numscript.Spec
import Model.Numscript.VM
import Generated.Opcodes
/-! C08 — compiled programs do what the source says.
`Spec.run` is the definition of "what the source text says".  What is proved here (growing):
* rejection: a program the static rules reject is refused, never run (`rejected_not_run`);
* the compilation cache is transparent for every cache size and eviction policy (`cache_transparent`);
* the compiler+VM model `compile_correct` is the planned next stage (DESIGN §5 C08) — until then the lift from
  `Spec` to the bytecode VM rests on the end-to-end differential of `checks/c08.py`. -/
namespace C08
open Num Cache

/-- a program the language rejects is refused, whatever the variables and the store -/
theorem rejected_not_run (P : Script) (req : Request) (store : Store) (h : check P = false) :
    run P req store = .error .compile := by
  simp [run, prepare, h]





/-! ### model A2 — the bytecode level -/

/-- the opcode numbering of the model is the one of `vm/program/instructions.go` (regenerated on every run) -/
theorem opcode_table_matches : Generated.opcodes = Num.opcodeTable := by decide

/-- the `machine.Type` numbering of the model is the one of `machine/value.go` (regenerated on every run) -/
theorem type_table_matches : Generated.types = Num.typeTable := by decide

/-- every instruction's opcode byte and Go name are an entry of the (tied) table -/
theorem opcode_in_table (i : Instr) : (i.name, i.opcode) ∈ Num.opcodeTable := by
  cases i <;> simp [Num.opcodeTable, Num.allInstrs, Instr.name, Instr.opcode]

/-- compiling is a function of the program alone: the same program compiles to the same bytecode, resources,
needed balances and sources (or to the same refusal) — no hidden state, whatever was compiled before -/
theorem compile_deterministic (P : Script) (r₁ r₂ : Except CompileErr Program)
    (h₁ : compile P = r₁) (h₂ : compile P = r₂) : r₁ = r₂ := h₁ ▸ h₂ ▸ rfl

/-- invariant of the cache: every entry is the compilation of some text with that digest -/
def CacheInv {Text Key Prog : Type} (H : Text → Key) (compile : Text → Option Prog) (c : Cache.Store Key Prog) : Prop :=
  ∀ kp ∈ c, ∃ t, kp.1 = H t ∧ compile t = some kp.2

/-- any eviction policy: the survivors are among the entries -/
def Evicts {Key Prog : Type} (keep : Cache.Store Key Prog → Cache.Store Key Prog) : Prop := ∀ c kp, kp ∈ keep c → kp ∈ c

theorem get_mem {Key Prog : Type} [DecidableEq Key] (c : Cache.Store Key Prog) (k : Key) (p : Prog)
    (h : Cache.get c k = some p) : (k, p) ∈ c := by
  unfold Cache.get at h
  cases hf : c.find? (·.1 = k) with
  | none => simp [hf] at h
  | some kp =>
    simp [hf] at h
    have hm := List.mem_of_find?_eq_some hf
    have hk := List.find?_some hf
    simp at hk
    subst h; subst hk
    exact hm

/-- **cache transparency**: with a digest that is injective on the texts in use, getting a program from the
cache — under any cache size and any eviction choice — gives exactly what compiling the text gives, and the
invariant is kept -/
theorem cache_transparent {Text Key Prog : Type} [DecidableEq Key]
    (H : Text → Key) (compile : Text → Option Prog) (keep : Cache.Store Key Prog → Cache.Store Key Prog)
    (hH : Function.Injective H) (hk : Evicts keep)
    (c : Cache.Store Key Prog) (inv : CacheInv H compile c) (t : Text) :
    (cachedCompile H compile keep c t).1 = compile t ∧ CacheInv H compile (cachedCompile H compile keep c t).2 := by
  unfold cachedCompile
  cases hg : Cache.get c (H t) with
  | some p =>
    obtain ⟨t', ht', hc⟩ := inv _ (get_mem c (H t) p hg)
    have : t = t' := hH ht'
    subst this
    exact ⟨by simp [hc], inv⟩
  | none =>
    cases hc : compile t with
    | none => exact ⟨rfl, inv⟩
    | some p =>
      refine ⟨rfl, ?_⟩
      intro kp hkp
      rcases List.mem_cons.mp (hk _ _ hkp) with rfl | hm
      · exact ⟨t, rfl, hc⟩
      · exact inv kp hm

/-- any sequence of compilations through the cache answers each request like the plain compiler -/
theorem cache_transparent_seq {Text Key Prog : Type} [DecidableEq Key]
    (H : Text → Key) (compile : Text → Option Prog) (keep : Cache.Store Key Prog → Cache.Store Key Prog)
    (hH : Function.Injective H) (hk : Evicts keep) (ts : List Text)
    (c : Cache.Store Key Prog) (inv : CacheInv H compile c) (t : Text) :
    (cachedCompile H compile keep (ts.foldl (fun c t => (cachedCompile H compile keep c t).2) c) t).1 = compile t := by
  induction ts generalizing c with
  | nil => exact (cache_transparent H compile keep hH hk c inv t).1
  | cons x xs ih => exact ih _ (cache_transparent H compile keep hH hk c inv x).2

/-! non-vacuity: a two-entry cache with eviction of everything but the newest entry -/
example : cachedCompile (Text := String) (fun (t : String) => t.length) (fun t => some t) (fun c => c.take 1) [(2, "ab")] "xyz"
    = (some "xyz", [(3, "xyz")]) := by decide

end C08
