import Model.Cache
import Model.Numscript.Spec
import Lemmas.Syntax
import Model.Numscript.VM
import Lemmas.NumRun
import Lemmas.NumRunEq
import Lemmas.NumFront
import Lemmas.NumCheck
import Lemmas.NumBytecode
import Generated.Opcodes
/-! C08 — compiled programs do what the source says.
`Spec.run` is the definition of "what the source text says".  What is proved here:
* rejection: a program the static rules reject is refused, never run (`rejected_not_run`, `compile_rejects`);
* the compilation cache is transparent for every cache size and eviction policy (`cache_transparent`);
* **`compile_correct`**: for the compiler model `Compile.compile` and the stack-machine model `VM.run` (tied to the Go
  compiler and VM by the bytecode-equality and VM differentials of `checks/c08.py`), for EVERY program the compiler
  accepts, every variable map and every store, running the bytecode — `SetVarsFromJSON`, `ResolveResources`,
  `ResolveBalances`, `Execute`, metadata merge — gives exactly the postings, metadata and printed values (or the
  error class) `Spec.run` gives, and no panic.  Side conditions (`Script.wellFormed`): at least one statement, lists
  shorter than 2^64, no portion literal with a zero denominator — all three hold of everything the front end
  produces from a text shorter than 2^64 characters (`front_wellFormed`, hence `compile_correct_text`), none is a
  restriction of the language. -/
namespace C08
open Num Cache

/-- a program the language rejects is refused, whatever the variables and the store -/
theorem rejected_not_run (P : Script) (req : Request) (store : Store) (h : check P = false) :
    run P req store = .error .compile := by
  simp [run, prepare, h]





/-! ### model A2 — the bytecode level -/

/-- the opcode numbering of the model is the one of `vm/program/instructions.go` (regenerated on every run) -/
theorem opcode_table_matches : Generated.opcodes = Num.opcodeTable := by decide

/-- the `machine.Type` numbering of the model is the one of `machine/value.go` (regenerated on every run) -/
theorem type_table_matches : Generated.types = Num.typeTable := by decide

/-- every instruction's opcode byte and Go name are an entry of the (tied) table -/
theorem opcode_in_table (i : Instr) : (i.name, i.opcode) ∈ Num.opcodeTable := by
  cases i <;> simp [Num.opcodeTable, Num.allInstrs, Instr.name, Instr.opcode]

/-- the byte string `encode` produces decodes back, opcode by opcode (two operand bytes after `OP_APUSH`), to the
instruction list the VM model executes — for addresses that fit a `uint16`, which is all the compiler allocates -/
theorem decode_encode_roundtrip (is : List Instr) (h : ∀ i ∈ is, i.addrOK) :
    decodeNat (encodeNat is).length (encodeNat is) = some is :=
  decode_encode is h _ (Nat.le_refl _)

/-- compiling is a function of the program alone: the same program compiles to the same bytecode, resources,
needed balances and sources (or to the same refusal) — no hidden state, whatever was compiled before -/
theorem compile_deterministic (P : Script) (r₁ r₂ : Except CompileErr Program)
    (h₁ : compile P = r₁) (h₂ : compile P = r₂) : r₁ = r₂ := h₁ ▸ h₂ ▸ rfl

/-! #### the compiler refuses exactly what the language rejects

`Num.check` is the statement of the static rules (typing, portion sums, `remaining` uniqueness, unbounded-not-last,
world-with-overdraft, already-emptied account, send-all on an allotment / unbounded source).  The compiler model —
which is byte-for-byte the real compiler on every generated program — has two more ways to stop, both size limits
(more than 65536 resources, more than 32768 variables), kept as separate outcomes.  `Lemmas/NumCheck.lean` proves,
visitor by visitor, `CkSpec (visitX …) (checkX …)`: success needs the check to pass, a static refusal needs it to
fail, and the nil `*Address` that `VisitExpr` returns for number arithmetic is never dereferenced. -/

/-- a program that compiles satisfies the static rules (so `Spec.run` does not stop at its `check`) -/
theorem compile_accepts_checked (P : Script) (prog : Program) (h : compile P = .ok prog) : check P = true := by
  have := compile_ck P
  rw [h] at this
  exact this.1

/-- a refusal for a static reason is a refusal of the language -/
theorem compile_static_rejects (P : Script) (h : compile P = .error .static) : check P = false := by
  have := compile_ck P
  rw [h] at this
  exact this

/-- whatever the language rejects is refused (never run) -/
theorem compile_rejects_unchecked (P : Script) (h : check P = false) : ∃ e, compile P = .error e := by
  cases hc : compile P with
  | error e => exact ⟨e, rfl⟩
  | ok prog => rw [compile_accepts_checked P prog hc] at h; cases h

/-- **compile rejects exactly when check does** — for every program that does not hit one of the two size limits
of the compiler (65536 resources, 32768 variables), which are outcomes of their own -/
theorem compile_rejects (P : Script) (hr : compile P ≠ .error .tooManyResources) (hv : compile P ≠ .error .tooManyVars) :
    (∃ e, compile P = .error e) ↔ check P = false := by
  constructor
  · rintro ⟨e, he⟩
    have := compile_ck P
    rw [he] at this
    cases e with
    | static => exact this
    | nilAddr => exact this.elim
    | tooManyResources => exact absurd he hr
    | tooManyVars => exact absurd he hv
  · exact compile_rejects_unchecked P

/-- non-vacuity of the side conditions: a small program hits no limit -/
example : compile ⟨[], [.fail]⟩ ≠ .error .tooManyResources ∧ compile ⟨[], [.fail]⟩ ≠ .error .tooManyVars := by
  simp [compile, visitVars, visitVarList, visitStmts, visitStmt]

/-- and the rejection is real: an ill-typed program is refused by both -/
example : check ⟨[], [.print (.add (.num 1) (.str "x"))]⟩ = false := by decide

/-! #### compiler correctness

Three statements, from the oldest to the strongest (all kept: none is weakened by the later ones).

`compile_correct_partial` — AFTER the VM's resolution stage succeeded (`hv`/`hr`/`hb`), `VM.run` is `Spec`'s
statement semantics `evalStmts` under the environment read back from the resolved table, then `Spec.run`'s metadata
merge, with the metadata and printed values equal AS VALUES (`BVal.ofVal`).  Fragment `Script.frag`: every statement
of the language except a portion LITERAL as the value of `print` / `set_tx_meta` / `set_account_meta` (the compiler
de-duplicates portion constants by `big.Rat` comparison, so the VM may hold `1/2` where the text says `2/4`: equal
values is then too strong; equal TEXT is what `compile_correct` states), with the side conditions of
`Script.wellFormed`.

`resolution_stage_eq` — the resolution stage of the VM IS `Spec.prepare` + `checkBalanceVars` + `initBal`, for the
whole language.  `compile_correct_frag` — end to end on `Script.frag`, no hypothesis on the resolution stage.

`compile_correct` — the FULL statement: end to end, the whole language. -/

/-- **compiled code does what the source says (from the resolved state on, values equal)** — frame lemmas `expr_ok`,
`source_ok`, `takeFromSource_ok` (`Lemmas/NumFrame.lean`, `NumStmt.lean`), `dest_ok` / `kd_ok` / `caps_ok` / `allot_ok`
(`NumDest.lean`), `allotment_ok` (`NumAllot.lean`), `allotSources_ok`, `stmt_okQ` (`NumStmt.lean`): running `code(x)`
from stack `S` and balances `B` ends with stack `v :: S`, nothing below `S` touched, and equals `Spec`'s evaluator;
likewise for whole statements. -/
theorem compile_correct_partial (P : Script) (prog : Program) (hc : compile P = .ok prog) (hfr : P.frag)
    (req : Request) (store : Store) (vars : List (String × BVal)) (R : VM.Resolved) (vals : List BVal) (B : VM.Balances)
    (hv : VM.setVarsFromJSON prog req.vars = .ok vars) (hr : VM.resolveResources prog vars store = .ok R)
    (hb : VM.resolveBalances prog R store = .ok (vals, B)) :
    match evalStmts (envOf prog.resources vals) P.stmts { st := { bal := B.bal, postings := [] } } with
    | .error er => VM.run prog req store = .error er
    | .ok F =>
      if req.metadata.any (fun kv => (F.txMeta.map (fun t => (t.1, valToString t.2))).any (fun t => t.1 = kv.1))
      then VM.run prog req store = .error .metaOverride
      else ∃ r, VM.run prog req store = .ok r ∧ r.postings = F.st.postings ∧
        r.txMeta = F.txMeta.map (fun t => (t.1, valToString t.2)) ++ req.metadata ∧
        r.acctMeta = F.acctMeta.map (fun m => (m.1, m.2.1, valToString m.2.2)) ∧
        r.prints = F.prints.map BVal.ofVal := by
  obtain ⟨cx, hE, hok⟩ := run_setup hc hv hr hb
  have hrel : Rel B.accts B.keys ({ balances := B } : VM.Machine) { st := { bal := B.bal, postings := [] } } :=
    ⟨rfl, rfl, rfl, rfl, rfl, rfl, rfl, hok⟩
  have hp := vpos_of_resolved hc (frag_tablePos hc hfr) hv hr hb
  have hex := execute_correct hc hfr cx hp hE _ _ hrel
  simp only [VM.run, hv, hr, hb]
  cases hev : evalStmts (envOf prog.resources vals) P.stmts { st := { bal := B.bal, postings := [] } } with
  | error er =>
    rw [hev] at hex
    simp only [hex]
  | ok F =>
    rw [hev] at hex
    obtain ⟨m', hx, hr'⟩ := hex
    simp only [hx, hr'.txMeta, hr'.acctMeta, renderTxMeta_map, renderAcctMeta_map]
    split
    · rfl
    · exact ⟨_, rfl, hr'.postings, rfl, rfl, hr'.prints⟩

/-! non-vacuity: a program of the fragment compiles (so the hypotheses of `compile_correct_partial` are
satisfiable); richer members of the fragment (ordered capped sources with overdraft and a `@world` fallback, saves,
metadata) compile too — `decide` cannot run the compiler on strings in reasonable time, the bytecode-equality
differential shows them -/
example : ∃ prog, compile ⟨[], [.print (.add (.num 1) (.num 2)), .fail]⟩ = .ok prog ∧
    prog.instrs = [.apush 0, .apush 1, .iadd, .print, .fail] := by
  simp [compile, visitVars, visitVarList, visitStmts, visitStmt, visitExpr, litOut, allocRes, findConstant, appendResource,
    isConstEq, valueEquals]

example : Script.frag ⟨[], [.print (.add (.num 1) (.num 2)), .fail]⟩ :=
  ⟨by simp, by intro s hs; simp at hs; rcases hs with rfl | rfl <;> rfl⟩

example : Script.frag
    ⟨[⟨.account, "dst", .none⟩],
     [.send (.mon (.mon (.asset "USD") 100))
        (.src (.inorder (.cons (.maxed (.mon (.asset "USD") 10) (.acct (.acct "a") (.upTo (.mon (.asset "USD") 5))))
          (.cons (.acct (.acct "world") .none) .nil))))
        (.acct (.var "dst")),
      .saveMon (.mon (.asset "USD") 1) (.acct "a"),
      .setTxMeta "k" (.add (.num 1) (.num 2))]⟩ :=
  ⟨by simp, by intro s hs; simp at hs; rcases hs with rfl | rfl | rfl <;> rfl⟩

/-! #### the resolution stage, and the end-to-end statement on the fragment -/

/-- **the VM's resolution stage is `Spec`'s** — for EVERY compiled program (the whole language, no fragment
hypothesis; `hpos`: no portion literal of the text has a zero denominator — the parser produces none), every variable
map and every store.  `SetVarsFromJSON` / `ResolveResources` / `ResolveBalances` on the
compiled program fail exactly when `Spec.prepare` (`bindPlain`, `resolveVars`) / `checkBalanceVars` fail, with the
same error class (`invalid_vars`, `missing_metadata`, `resolve_error`, `negative_amount`; the first failing
declaration wins on both sides, a negative `balance(…)` is reported only after every declaration resolved); and
when they succeed, the resolved resource table is the value of every resource under `Spec`'s environment
(`Ctx`) and the tracked balances are exactly `Spec`'s initial balances `initBal store (needed env stmts)` —
`Program.NeededBalances`, resolved, is `Spec.needed` as a set (`Num.compile_needed`).
Proof: `Lemmas/NumPrepare.lean` (`SetVarsFromJSON` = `bindPlain`), `Lemmas/NumSim.lean` (declaration-by-declaration
simulation, pending `balance(…)` slots), `Lemmas/NumNeeded.lean`, `Lemmas/NumRunEq.lean`. -/
theorem resolution_stage_eq (P : Script) (prog : Program) (hc : compile P = .ok prog)
    (hpos : ∀ s ∈ P.stmts, s.litsPos = true) (req : Request) (store : Store) :
    match prepare P req store with
    | .error er => VM.run prog req store = .error er
    | .ok env =>
      match checkBalanceVars env P.vars with
      | .error er => VM.run prog req store = .error er
      | .ok _ => ∃ vars R V B, VM.setVarsFromJSON prog req.vars = .ok vars ∧ VM.resolveResources prog vars store = .ok R ∧
          VM.resolveBalances prog R store = .ok (V, B) ∧ Ctx prog.resources V env ∧
          B.bal = initBal store (needed env P.stmts) :=  by
  have h := resolution_stage hc (compile_tablePos hc hpos) req store
  cases hp : prepare P req store with
  | error er => rw [hp] at h; exact h
  | ok env =>
    rw [hp] at h
    simp only at h ⊢
    cases hcb : checkBalanceVars env P.vars with
    | error er => rw [hcb] at h; exact h
    | ok u =>
      rw [hcb] at h
      obtain ⟨vars, R, V, B, h1, h2, h3, h4, _, h5, _⟩ := h
      exact ⟨vars, R, V, B, h1, h2, h3, h4, h5⟩

/-- **compiled programs do what the source says — end to end, on the fragment**: for every program of
`Script.frag` that compiles, every variable map and every store, running the bytecode on the VM (variables,
resources, balances, execution, metadata merge) gives exactly what `Spec.run` gives: the same postings, transaction
metadata, account metadata and printed values, or the same class of error — and never a panic (the right-hand side
has no panic alternative).  No hypothesis on the resolution stage is left. -/
theorem compile_correct_frag (P : Script) (prog : Program) (hc : compile P = .ok prog) (hfr : P.frag)
    (req : Request) (store : Store) :
    (VM.run prog req store).map VM.Result.obs = VM.Outcome.ofExcept ((Num.run P req store).map Num.Result.obs) :=
  run_eq hc (Script.frag2_of_frag hfr) req store

/-- the side conditions of `compile_correct`: at least one statement (the grammar requires it; `Execute` reads
`Instructions[0]`); every in-order source list and every allotment shorter than 2^64 (the count is an operand that
travels through `big.Int.Uint64()` — a text that long cannot exist); no portion literal with a zero denominator
(`big.Rat` has none, the parser produces none).  Everything the front end accepts satisfies them. -/
def _root_.Num.Script.wellFormed (P : Script) : Prop := P.frag2

/-- **compiled programs do what the source says** — the whole language.  For every program the compiler accepts
(`hc`; `compile_rejects`: exactly the programs `check` accepts, size limits apart), every variable map and every
store: running the compiled bytecode on the VM — `SetVarsFromJSON`, `ResolveResources`, `ResolveBalances`, `Execute`,
`GetTxMetaJSON` / `GetAccountsMetaJSON`, the merge with the request's metadata — yields exactly the observations
`Spec.run` yields (postings in order, transaction metadata, account metadata, printed values, the last three as the
strings that are stored / written), or an error of exactly the same class; and, the right-hand side having no panic
alternative, none of the VM's panic sites is reachable. -/
theorem compile_correct (P : Script) (prog : Program) (hc : compile P = .ok prog) (hwf : P.wellFormed)
    (req : Request) (store : Store) :
    (VM.run prog req store).map VM.Result.obs = VM.Outcome.ofExcept ((Num.run P req store).map Num.Result.obs) :=
  run_eq hc hwf req store

/-- the fragment of the earlier statements satisfies the side conditions -/
theorem wellFormed_of_frag (P : Script) (h : P.frag) : P.wellFormed := Script.frag2_of_frag h

/-! non-vacuity: a program of the fragment (ordered capped source with a `@world` fallback, metadata) compiles,
and both sides of `compile_correct_frag` are the two postings below (kernel evaluation of the compiler, the VM and
`Spec`) -/
def exFrag : Script :=
  ⟨[], [.send (.mon (.mon (.asset "USD") 10))
          (.src (.inorder (.cons (.maxed (.mon (.asset "USD") 4) (.acct (.acct "b") .none)) (.cons (.acct (.acct "world") .none) .nil))))
          (.acct (.acct "alice")),
        .setTxMeta "k" (.add (.num 1) (.num 2))]⟩
def exStore : Store := ⟨fun a _ => if a = "b" then 3 else 0, fun _ _ => none⟩

example : Script.frag exFrag := ⟨by simp [exFrag], by intro s hs; simp [exFrag] at hs; rcases hs with rfl | rfl <;> rfl⟩

example : (match compile exFrag with
    | .ok prog => (match VM.run prog ⟨[], []⟩ exStore with | .ok r => some r.obs | _ => none)
    | .error _ => none) =
    some ⟨[⟨"b", "alice", 3, "USD"⟩, ⟨"world", "alice", 7, "USD"⟩], [("k", "3")], [], []⟩ := by decide +kernel

example : ((Num.run exFrag ⟨[], []⟩ exStore).map Num.Result.obs).toOption =
    some ⟨[⟨"b", "alice", 3, "USD"⟩, ⟨"world", "alice", 7, "USD"⟩], [("k", "3")], [], []⟩ := by decide +kernel

/-! … and an ordered destination with a capped account, a capped `kept` and a nested ordered `remaining` -/
def exOrd : Script :=
  ⟨[], [.send (.mon (.mon (.asset "USD") 10)) (.src (.acct (.acct "world") .none))
          (.inorder (.cons (.mon (.asset "USD") 3) (.to (.acct (.acct "a"))) (.cons (.mon (.asset "USD") 2) .kept .nil))
            (.to (.inorder (.cons (.mon (.asset "USD") 1) (.to (.acct (.acct "c"))) .nil) (.to (.acct (.acct "b"))))))]⟩

example : Script.frag exOrd := ⟨by simp [exOrd], by intro s hs; simp [exOrd] at hs; subst hs; rfl⟩

example : (match compile exOrd with
    | .ok prog => (match VM.run prog ⟨[], []⟩ exStore with | .ok r => some r.obs | _ => none)
    | .error _ => none) =
    some ⟨[⟨"world", "a", 3, "USD"⟩, ⟨"world", "c", 1, "USD"⟩, ⟨"world", "b", 4, "USD"⟩], [], [], []⟩ := by decide +kernel

example : ((Num.run exOrd ⟨[], []⟩ exStore).map Num.Result.obs).toOption =
    some ⟨[⟨"world", "a", 3, "USD"⟩, ⟨"world", "c", 1, "USD"⟩, ⟨"world", "b", 4, "USD"⟩], [], [], []⟩ := by decide +kernel

/-! … and destination allotments; the second one writes the same rational as `2/4`, which the compiler de-duplicates
against the constant `1/2` of the first (only ONE portion constant is in the table): the shares are those of `Spec` -/
def exAllot : Script :=
  ⟨[], [.send (.mon (.mon (.asset "USD") 7)) (.src (.acct (.acct "world") .none))
          (.allot (.cons (.const ⟨1, 2⟩) (.to (.acct (.acct "a"))) (.cons .remaining (.to (.acct (.acct "b"))) .nil))),
        .send (.mon (.mon (.asset "USD") 5)) (.src (.acct (.acct "world") .none))
          (.allot (.cons (.const ⟨2, 4⟩) (.to (.acct (.acct "c"))) (.cons .remaining .kept .nil)))]⟩

example : Script.frag exAllot := ⟨by simp [exAllot], by intro s hs; simp [exAllot] at hs; rcases hs with rfl | rfl <;> decide⟩

example : (match compile exAllot with
    | .ok prog => (match VM.run prog ⟨[], []⟩ exStore with | .ok r => some (r.obs, prog.resources.filter (fun r => r.bty == .portion)) | _ => none)
    | .error _ => none) =
    some (⟨[⟨"world", "a", 4, "USD"⟩, ⟨"world", "b", 3, "USD"⟩, ⟨"world", "c", 3, "USD"⟩], [], [], []⟩,
      [.const .remaining, .const (.portion ⟨1, 2⟩)]) := by decide +kernel

example : ((Num.run exAllot ⟨[], []⟩ exStore).map Num.Result.obs).toOption =
    some ⟨[⟨"world", "a", 4, "USD"⟩, ⟨"world", "b", 3, "USD"⟩, ⟨"world", "c", 3, "USD"⟩], [], [], []⟩ := by decide +kernel

/-! … and a source allotment: one third from `@b`, the rest from an ordered source with a capped overdraft -/
def exSrcAllot : Script :=
  ⟨[], [.send (.mon (.mon (.asset "USD") 9))
          (.allot [(.const ⟨1, 3⟩, .acct (.acct "b") .none),
            (.remaining, .inorder (.cons (.maxed (.mon (.asset "USD") 2) (.acct (.acct "c") (.upTo (.mon (.asset "USD") 5))))
              (.cons (.acct (.acct "world") .none) .nil)))])
          (.acct (.acct "alice"))]⟩

example : Script.frag exSrcAllot := ⟨by simp [exSrcAllot], by intro s hs; simp [exSrcAllot] at hs; subst hs; decide⟩

example : (match compile exSrcAllot with
    | .ok prog => (match VM.run prog ⟨[], []⟩ exStore with | .ok r => some r.obs | _ => none)
    | .error _ => none) =
    some ⟨[⟨"b", "alice", 3, "USD"⟩, ⟨"c", "alice", 2, "USD"⟩, ⟨"world", "alice", 4, "USD"⟩], [], [], []⟩ := by decide +kernel

example : ((Num.run exSrcAllot ⟨[], []⟩ exStore).map Num.Result.obs).toOption =
    some ⟨[⟨"b", "alice", 3, "USD"⟩, ⟨"c", "alice", 2, "USD"⟩, ⟨"world", "alice", 4, "USD"⟩], [], [], []⟩ := by decide +kernel

/-! non-vacuity of `compile_correct` beyond `Script.frag`: portion literals as metadata / printed values, one of
them (`2/4`) de-duplicated against the other (`1/2`); what is stored is the same text on both sides -/
def exPortion : Script :=
  ⟨[], [.setTxMeta "p" (.portion ⟨1, 2⟩), .print (.portion ⟨2, 4⟩), .setAccountMeta (.acct "a") "q" (.portion ⟨2, 4⟩)]⟩

example : exPortion.wellFormed := ⟨by simp [exPortion], by intro s hs; simp [exPortion] at hs; rcases hs with rfl | rfl | rfl <;> decide⟩

example : (match compile exPortion with
    | .ok prog => (match VM.run prog ⟨[], []⟩ exStore with | .ok r => some (r.obs, prog.resources.filter (fun r => r.bty == .portion)) | _ => none)
    | .error _ => none) =
    some (⟨[], [("p", "1/2")], [("a", "q", "1/2")], ["1/2"]⟩, [.const (.portion ⟨1, 2⟩)]) := by decide +kernel

example : ((Num.run exPortion ⟨[], []⟩ exStore).map Num.Result.obs).toOption =
    some ⟨[], [("p", "1/2")], [("a", "q", "1/2")], ["1/2"]⟩ := by decide +kernel

/-- invariant of the cache: every entry is the compilation of some text with that digest -/
def CacheInv {Text Key Prog : Type} (H : Text → Key) (compile : Text → Option Prog) (c : Cache.Store Key Prog) : Prop :=
  ∀ kp ∈ c, ∃ t, kp.1 = H t ∧ compile t = some kp.2

/-- any eviction policy: the survivors are among the entries -/
def Evicts {Key Prog : Type} (keep : Cache.Store Key Prog → Cache.Store Key Prog) : Prop := ∀ c kp, kp ∈ keep c → kp ∈ c

theorem get_mem {Key Prog : Type} [DecidableEq Key] (c : Cache.Store Key Prog) (k : Key) (p : Prog)
    (h : Cache.get c k = some p) : (k, p) ∈ c := by
  unfold Cache.get at h
  cases hf : c.find? (·.1 = k) with
  | none => simp [hf] at h
  | some kp =>
    simp [hf] at h
    have hm := List.mem_of_find?_eq_some hf
    have hk := List.find?_some hf
    simp at hk
    subst h; subst hk
    exact hm

/-- **cache transparency**: with a digest that is injective on the texts in use, getting a program from the
cache — under any cache size and any eviction choice — gives exactly what compiling the text gives, and the
invariant is kept -/
theorem cache_transparent {Text Key Prog : Type} [DecidableEq Key]
    (H : Text → Key) (compile : Text → Option Prog) (keep : Cache.Store Key Prog → Cache.Store Key Prog)
    (hH : Function.Injective H) (hk : Evicts keep)
    (c : Cache.Store Key Prog) (inv : CacheInv H compile c) (t : Text) :
    (cachedCompile H compile keep c t).1 = compile t ∧ CacheInv H compile (cachedCompile H compile keep c t).2 := by
  unfold cachedCompile
  cases hg : Cache.get c (H t) with
  | some p =>
    obtain ⟨t', ht', hc⟩ := inv _ (get_mem c (H t) p hg)
    have : t = t' := hH ht'
    subst this
    exact ⟨by simp [hc], inv⟩
  | none =>
    cases hc : compile t with
    | none => exact ⟨rfl, inv⟩
    | some p =>
      refine ⟨rfl, ?_⟩
      intro kp hkp
      rcases List.mem_cons.mp (hk _ _ hkp) with rfl | hm
      · exact ⟨t, rfl, hc⟩
      · exact inv kp hm

/-- any sequence of compilations through the cache answers each request like the plain compiler -/
theorem cache_transparent_seq {Text Key Prog : Type} [DecidableEq Key]
    (H : Text → Key) (compile : Text → Option Prog) (keep : Cache.Store Key Prog → Cache.Store Key Prog)
    (hH : Function.Injective H) (hk : Evicts keep) (ts : List Text)
    (c : Cache.Store Key Prog) (inv : CacheInv H compile c) (t : Text) :
    (cachedCompile H compile keep (ts.foldl (fun c t => (cachedCompile H compile keep c t).2) c) t).1 = compile t := by
  induction ts generalizing c with
  | nil => exact (cache_transparent H compile keep hH hk c inv t).1
  | cons x xs ih => exact ih _ (cache_transparent H compile keep hH hk c inv x).2

/-! non-vacuity: a two-entry cache with eviction of everything but the newest entry -/
example : cachedCompile (Text := String) (fun (t : String) => t.length) (fun t => some t) (fun c => c.take 1) [(2, "ab")] "xyz"
    = (some "xyz", [(3, "xyz")]) := by decide

end C08

/-! ### front end (Syntax) -/
/-! The text level: `runText` = `Syntax.lex`, `Syntax.parse`, then `Spec.run` (the front-end model is tied to the
ANTLR lexer/parser by the differential of `checks/syntaxlib.py`). -/
namespace C08
open Num Num.Syntax

/-- a text the front end rejects (lexer or parser error) is never run, whatever the variables and the store -/
theorem syntax_rejected_not_run (t : String) (req : Request) (store : Store) (h : front t = none) :
    runText t req store = .error .compile := by
  unfold front at h
  simp [runText, runChars, h]

/-- the same for the raw bytes the Go entry point receives -/
theorem syntax_rejected_not_run_bytes (bs : List UInt8) (req : Request) (store : Store)
    (h : frontChars (decodeRunes bs) = none) : runBytes bs req store = .error .compile := by
  simp [runBytes, runChars, h]

/-- a lexer error alone rejects: one character no rule matches and nothing of the text is run -/
theorem lexer_error_not_run (t : String) (e : LexErr) (req : Request) (store : Store) (h : lex t = .error e) :
    runText t req store = .error .compile := by
  apply syntax_rejected_not_run
  unfold lex at h
  simp [front, frontChars, h]

/-- an accepted text means exactly its syntax tree: every theorem about `Spec.run` speaks about texts -/
theorem text_runs_its_tree (t : String) (P : Script) (req : Request) (store : Store) (h : front t = some P) :
    runText t req store = run P req store := by
  unfold front at h
  simp [runText, runChars, h]

/-- … in particular the static rules: accepted syntax, rejected program, nothing runs -/
theorem rejected_not_run_text (t : String) (P : Script) (req : Request) (store : Store) (h : front t = some P)
    (hc : check P = false) : runText t req store = .error .compile := by
  rw [text_runs_its_tree t P req store h]
  exact rejected_not_run P req store hc

/-- what the front end accepts satisfies the side conditions of `compile_correct` — for a text shorter than 2^64
characters (every list of the syntax tree is then shorter than 2^64; the parser builds no portion literal with a
zero denominator; the grammar requires a statement) -/
theorem front_wellFormed (t : String) (P : Script) (h : front t = some P) (hlen : t.toList.length < 18446744073709551616) :
    P.wellFormed :=
  Num.front_wellFormed (by unfold front at h; exact h) hlen

/-- **compiled programs do what the source TEXT says**: for every text the front end accepts (shorter than 2^64
characters) and the compiler accepts, every variable map and every store, running the compiled bytecode on the VM
yields exactly the observations — or the error class — of `runText` (= lex, parse, `Spec.run`).  No hypothesis on
the syntax tree is left. -/
theorem compile_correct_text (t : String) (P : Script) (h : front t = some P) (hlen : t.toList.length < 18446744073709551616)
    (prog : Program) (hc : compile P = .ok prog) (req : Request) (store : Store) :
    (VM.run prog req store).map VM.Result.obs = VM.Outcome.ofExcept ((runText t req store).map Num.Result.obs) := by
  rw [text_runs_its_tree t P req store h]
  exact compile_correct P prog hc (front_wellFormed t P h hlen) req store

/-! non-vacuity: a rejected and an accepted text -/
example : front "fail fail" = none := by decide
example : (front "save [USD 1] from @a").isSome = true := by decide
/-- the hypotheses of `compile_correct_text` are satisfiable (larger texts: the front-end differential) -/
example : ∃ P, front "save [USD 1] from @a" = some P ∧ "save [USD 1] from @a".toList.length < 18446744073709551616 := by
  have h : (front "save [USD 1] from @a").isSome = true := by decide
  obtain ⟨P, hP⟩ := Option.isSome_iff_exists.mp h
  exact ⟨P, hP, by decide⟩
example : ∃ e, lex "fail #" = .error e := ⟨⟨1⟩, by rfl⟩

end C08
